package triage

import (
	"bytes"
	"context"
	"fmt"
	"io"
	"io/ioutil"
	"os"
	"strings"
	"testing"
	"time"

	"github.com/oneconcern/datamon/pkg/cafs"
	"github.com/oneconcern/datamon/pkg/storage/localfs"
	"github.com/spf13/afero"
)

type chunked struct {
	r io.Reader
	n int
}

func (c chunked) Read(p []byte) (int, error) {
	if len(p) > c.n {
		p = p[:c.n]
	}
	return c.r.Read(p)
}

func inTime(t *testing.T, d time.Duration, what string, f func()) (panicked interface{}, timedOut bool) {
	done := make(chan interface{}, 1)
	go func() {
		defer func() { done <- recover() }()
		f()
	}()
	select {
	case p := <-done:
		return p, false
	case <-time.After(d):
		t.Logf("%s: no answer after %v (the goroutine keeps spinning until the test binary exits)", what, d)
		return nil, true
	}
}

// C01: a source that hands over more than one leaf in a single Write.
func TestC01SingleLargeWrite(t *testing.T) {
	fs, err := cafs.New(cafs.LeafSize(100), cafs.Backend(newMem("blob")))
	if err != nil {
		t.Fatal(err)
	}
	data := bytes.Repeat([]byte("x"), 250)
	p, to := inTime(t, 2*time.Second, "Put(bytes.Reader 250B, leaf 100)", func() {
		_, _ = fs.Put(context.Background(), bytes.NewReader(data)) // bytes.Reader.WriteTo => one Write of 250 bytes
	})
	if p != nil || to {
		t.Errorf("FINDING C01: Put of 2.5 leaves in one Write: panic=%v hang=%v", p, to)
	}
}

// C01: the empty object cannot be read back.
func TestC01EmptyObject(t *testing.T) {
	fs, _ := cafs.New(cafs.LeafSize(100), cafs.Backend(newMem("blob")))
	res, err := fs.Put(context.Background(), chunked{bytes.NewReader(nil), 10})
	if err != nil {
		t.Fatal(err)
	}
	p, to := inTime(t, 2*time.Second, "read empty", func() {
		r, err := fs.Get(context.Background(), res.Key)
		if err != nil {
			panic(err)
		}
		_, _ = ioutil.ReadAll(r)
	})
	if p != nil || to {
		t.Errorf("FINDING C01: reading the empty object: panic=%v hang=%v", p, to)
	}
}

// C03: a corrupted leaf is written to the download destination and success is reported.
func TestC03CorruptLeafDownloaded(t *testing.T) {
	blob := newMem("blob")
	fs, _ := cafs.New(cafs.LeafSize(100), cafs.Backend(blob))
	data := bytes.Repeat([]byte("abcdefghij"), 25)
	res, err := fs.Put(context.Background(), chunked{bytes.NewReader(data), 10})
	if err != nil {
		t.Fatal(err)
	}
	keys := cafs.UnverifiedLeafKeys(res.Keys, 100)
	_ = blob.Put(context.Background(), keys[0].String(), bytes.NewReader(bytes.Repeat([]byte("Z"), 100)), false)
	dir, _ := ioutil.TempDir("", "triage")
	defer os.RemoveAll(dir)
	dest := localfs.New(afero.NewBasePathFs(afero.NewOsFs(), dir), localfs.WithRetry(false))
	r, err := fs.Get(context.Background(), res.Key)
	if err != nil {
		t.Fatal(err)
	}
	err = dest.Put(context.Background(), "out", r, true)
	rr, _ := dest.Get(context.Background(), "out")
	got, _ := ioutil.ReadAll(rr)
	t.Logf("download err=%v identical=%v", err, bytes.Equal(got, data))
	if err == nil && !bytes.Equal(got, data) {
		t.Errorf("FINDING C03: corrupted leaf written to destination, Put returned nil (WriteTo/WriterAt path has no hash verification)")
	}
	// same object through the sequential Read path: must fail
	r2, _ := fs.Get(context.Background(), res.Key)
	_, err = ioutil.ReadAll(chunked{r2, 10})
	t.Logf("sequential read err=%v", err)
}

type failing struct{ n int }

func (f *failing) Read(p []byte) (int, error) {
	if f.n == 0 {
		return 0, fmt.Errorf("source failed (injected)")
	}
	f.n--
	p[0] = 'x'
	return 1, nil
}

// C03/C16: localfs.Put hides a failing source.
func TestC16PutHidesSourceError(t *testing.T) {
	dir, _ := ioutil.TempDir("", "triage")
	defer os.RemoveAll(dir)
	dest := localfs.New(afero.NewBasePathFs(afero.NewOsFs(), dir), localfs.WithRetry(false))
	err := dest.Put(context.Background(), "k", &failing{n: 3}, true)
	t.Logf("Put with failing source: err=%v", err)
	if err == nil {
		t.Errorf("FINDING C16/C03: localfs.Put returned nil although the source reader failed")
	}
}

// C16: prefix listing leaks sibling prefixes, is not lexicographic, and panics on a missing directory.
func TestC16KeysPrefix(t *testing.T) {
	dir, _ := ioutil.TempDir("", "triage")
	defer os.RemoveAll(dir)
	s := localfs.New(afero.NewBasePathFs(afero.NewOsFs(), dir))
	ctx := context.Background()
	for _, k := range []string{"labels/repo/a/label.yaml", "labels/repo/a-b/label.yaml", "labels/repo-x/b/label.yaml"} {
		if err := s.Put(ctx, k, strings.NewReader("x"), true); err != nil {
			t.Fatal(err)
		}
	}
	ks, _, err := s.KeysPrefix(ctx, "", "labels/repo/", "", 100)
	t.Logf("KeysPrefix(labels/repo/) = %v err=%v", ks, err)
	want := []string{"labels/repo/a-b/label.yaml", "labels/repo/a/label.yaml"}
	if fmt.Sprint(ks) != fmt.Sprint(want) {
		t.Errorf("FINDING C16: got %v want %v", ks, want)
	}
	p, _ := inTime(t, 2*time.Second, "list missing dir", func() { _, _, _ = s.KeysPrefix(ctx, "", "diamonds/repo/", "", 100) })
	if p != nil {
		t.Errorf("FINDING C16: listing under a missing directory panics: %v", p)
	}
	if err := s.Delete(ctx, "no/such/key"); err == nil {
		t.Logf("note: Delete of a missing key returns nil on localfs (gcs returns an error): DeleteBundle's 'until first failure' loop relies on an error")
	}
}

// C01 / C17: random access past the end of an object, at an offset that still falls inside the index range of the last
// (partial) leaf: the answer must be "0 bytes" (EOF), not a panic in the process serving the mount.
func TestC01ReadAtPastEndInsideLastLeaf(t *testing.T) {
	fs, err := cafs.New(cafs.LeafSize(64), cafs.Backend(newMem("blob")))
	if err != nil {
		t.Fatal(err)
	}
	data := bytes.Repeat([]byte("y"), 100) // leaves of 64 and 36 bytes
	res, err := fs.Put(context.Background(), chunked{bytes.NewReader(data), 16})
	if err != nil {
		t.Fatal(err)
	}
	rd, err := fs.GetAt(context.Background(), res.Key)
	if err != nil {
		t.Fatal(err)
	}
	p, _ := inTime(t, 5*time.Second, "ReadAt(off=110)", func() {
		buf := make([]byte, 10)
		n, e := rd.ReadAt(buf, 110)
		if n != 0 {
			t.Errorf("ReadAt past the end returned %d bytes (err=%v)", n, e)
		}
	})
	if p != nil {
		t.Errorf("FINDING C01: ReadAt at offset 110 of a 100-byte object (leaf size 64) panics: %v", p)
	}
}
