package fuse

import (
	"bytes"
	"context"
	"io/ioutil"
	"math/rand"
	"os"
	"path/filepath"
	"testing"
	"time"

	"github.com/jacobsa/fuse/fuseops"
	"github.com/spf13/afero"
	"github.com/stretchr/testify/require"
	"gopkg.in/yaml.v2"

	"github.com/oneconcern/datamon/pkg/cafs"
	"github.com/oneconcern/datamon/pkg/core"
	"github.com/oneconcern/datamon/pkg/core/mocks"
	"github.com/oneconcern/datamon/pkg/model"
	"github.com/oneconcern/datamon/pkg/storage"
	"github.com/oneconcern/datamon/pkg/storage/localfs"
)

const (
	tlsRepo     = "triage-leaf-repo"
	tlsBundleID = "triageleafbundle"
	tlsLeafSize = uint32(4096)
)

// tlsMakeBundle writes a bundle (blobs + metadata) on temp-dir local stores and returns a core.Bundle for it
func tlsMakeBundle(t *testing.T, root string, files map[string][]byte, order []string, preset bool) *core.Bundle {
	blobDir := filepath.Join(root, "blob")
	metaDir := filepath.Join(root, "meta")
	destDir := filepath.Join(root, "dest")
	for _, d := range []string{blobDir, metaDir, destDir} {
		require.NoError(t, os.MkdirAll(d, 0700))
	}
	blobStore := localfs.New(afero.NewBasePathFs(afero.NewOsFs(), blobDir))
	metaStore := localfs.New(afero.NewBasePathFs(afero.NewOsFs(), metaDir))

	cfs, err := cafs.New(cafs.LeafSize(tlsLeafSize), cafs.Backend(blobStore))
	require.NoError(t, err)

	list := model.BundleEntries{}
	for _, name := range order {
		res, erp := cfs.Put(context.Background(), bytes.NewReader(files[name]))
		require.NoError(t, erp)
		list.BundleEntries = append(list.BundleEntries, model.BundleEntry{
			Hash:         res.Key.String(),
			NameWithPath: name,
			FileMode:     0600,
			Size:         uint64(len(files[name])),
		})
	}
	buf, err := yaml.Marshal(list)
	require.NoError(t, err)
	require.NoError(t, metaStore.Put(context.Background(),
		model.GetArchivePathToBundleFileList(tlsRepo, tlsBundleID, 0), bytes.NewReader(buf), storage.NoOverWrite))

	desc := model.BundleDescriptor{
		ID:                     tlsBundleID,
		LeafSize:               tlsLeafSize,
		Message:                "triage",
		Timestamp:              time.Now().UTC(),
		Contributors:           []model.Contributor{{Name: "dev", Email: "dev@dev.com"}},
		BundleEntriesFileCount: 1,
		Version:                model.CurrentBundleVersion,
		Deduplication:          cafs.DeduplicationBlake,
	}
	buf, err = yaml.Marshal(desc)
	require.NoError(t, err)
	require.NoError(t, metaStore.Put(context.Background(),
		model.GetArchivePathToBundle(tlsRepo, tlsBundleID), bytes.NewReader(buf), storage.NoOverWrite))

	opts := []core.BundleOption{}
	if preset {
		opts = append(opts, core.BundleDescriptor(&desc))
	}
	return core.NewBundle(append(opts,
		core.Repo(tlsRepo),
		core.BundleID(tlsBundleID),
		core.ContextStores(mocks.FakeContext(metaDir, blobDir)),
		core.ConsumableStore(localfs.New(afero.NewBasePathFs(afero.NewOsFs(), destDir))),
	)...)
}

func tlsLookup(t *testing.T, fs *readOnlyFsInternal, parent fuseops.InodeID, name string) fuseops.InodeID {
	op := &fuseops.LookUpInodeOp{Parent: parent, Name: name}
	require.NoError(t, fs.LookUpInode(context.Background(), op))
	return op.Entry.Child
}

func tlsRead(t *testing.T, fs *readOnlyFsInternal, inode fuseops.InodeID, handle fuseops.HandleID, offset int64, size int) []byte {
	op := &fuseops.ReadFileOp{Inode: inode, Handle: handle, Offset: offset, Dst: make([]byte, size)}
	require.NoError(t, fs.ReadFile(context.Background(), op))
	return op.Dst[:op.BytesRead]
}


// TestTriageC17StreamedMountNonDefaultLeafSize: a bundle whose descriptor records a leaf size other than the default is
// mounted streamed from (repo, bundle ID) alone, as the CLI does. Before the fix NewReadOnlyFS sized its cafs reader from
// the not-yet-loaded descriptor (the default 2 MiB): every read failed the root-key check.
func TestTriageC17StreamedMountNonDefaultLeafSize(t *testing.T) {
	root, err := ioutil.TempDir("", "triage-leaf-")
	require.NoError(t, err)
	defer os.RemoveAll(root)
	rnd := rand.New(rand.NewSource(3))
	files := map[string][]byte{"data/multi.bin": make([]byte, 3*int(tlsLeafSize)+17)}
	_, _ = rnd.Read(files["data/multi.bin"])
	bundle := tlsMakeBundle(t, root, files, []string{"data/multi.bin"}, false)
	rofs, err := NewReadOnlyFS(bundle, Streaming(true))
	require.NoError(t, err)
	fs := rofs.fsInternal
	dir := tlsLookup(t, fs, fuseops.RootInodeID, "data")
	inode := tlsLookup(t, fs, dir, "multi.bin")
	op := &fuseops.ReadFileOp{Inode: inode, Offset: 10, Dst: make([]byte, 100)}
	if err := fs.ReadFile(context.Background(), op); err != nil {
		t.Fatalf("FINDING C17: streamed read of a bundle with leaf size %d fails: %v", tlsLeafSize, err)
	}
	if !bytes.Equal(op.Dst[:op.BytesRead], files["data/multi.bin"][10:110]) {
		t.Fatalf("FINDING C17: streamed read of a bundle with leaf size %d returns wrong bytes", tlsLeafSize)
	}
}
