package fuse

// Triage demonstrations for reports of the static checker on pkg/fuse (C17, C18). Not a check: copied into a scratch
// worktree of /repo (pkg/fuse/) by /verif/triage/inpkg/run.sh. Each test FAILS with a `FINDING Cxx` line while the
// defect is present and passes once it is repaired.

import (
	"context"
	"fmt"
	"testing"

	"github.com/jacobsa/fuse/fuseops"
	"github.com/jacobsa/fuse/fuseutil"
	iradix "github.com/hashicorp/go-immutable-radix"
	"go.uber.org/zap"

	"github.com/oneconcern/datamon/pkg/core"
)

func triageMutable(t *testing.T) *fsMutable {
	fs := defaultMutableFS(nil, t.TempDir())
	fs.l = zap.NewNop()
	if err := fs.initRoot(); err != nil {
		t.Fatal(err)
	}
	return fs
}

// C17: a bundle without any file: listing the root of the mount must succeed and be empty.
func TestTriageC17EmptyBundleRootListing(t *testing.T) {
	bundle := core.NewBundle(core.Logger(zap.NewNop()))
	fs := defaultReadOnlyFS(bundle)
	fs.l = zap.NewNop()
	if _, err := fs.populateFS(bundle); err != nil {
		t.Fatal(err)
	}
	if err := fs.OpenDir(context.Background(), &fuseops.OpenDirOp{Inode: fuseops.RootInodeID}); err != nil {
		t.Fatalf("OpenDir(root): %v", err)
	}
	op := &fuseops.ReadDirOp{Inode: fuseops.RootInodeID, Dst: make([]byte, 4096)}
	if err := fs.ReadDir(context.Background(), op); err != nil {
		t.Fatalf("FINDING C17: ReadDir of the root of an empty bundle fails with %v (ls on the mount point reports an error instead of an empty directory)", err)
	}
	if op.BytesRead != 0 {
		t.Fatalf("expected an empty listing")
	}
}

// C18: the kernel may forget a directory inode (lookup count back to 0) while the directory is still linked, e.g.
// under memory pressure. The directory must stay usable and its inode must not be handed out again.
func TestTriageC18ForgetOfLinkedDirectory(t *testing.T) {
	ctx := context.Background()
	fs := triageMutable(t)
	mk := &fuseops.MkDirOp{Parent: fuseops.RootInodeID, Name: "d"}
	if err := fs.MkDir(ctx, mk); err != nil {
		t.Fatal(err)
	}
	d := mk.Entry.Child
	// the kernel drops its single reference (obtained from the mkdir reply)
	if err := fs.ForgetInode(ctx, &fuseops.ForgetInodeOp{Inode: d, N: 1}); err != nil {
		t.Fatal(err)
	}
	cr := &fuseops.CreateFileOp{Parent: fuseops.RootInodeID, Name: "f"}
	if err := fs.CreateFile(ctx, cr); err != nil {
		t.Fatal(err)
	}
	if cr.Entry.Child == d {
		t.Errorf("FINDING C18: directory d (inode %d) is still linked in the root, yet its inode number was handed to the new file f", d)
	}
	func() {
		defer func() {
			if r := recover(); r != nil {
				t.Errorf("FINDING C18: lookup of the still linked directory d after the kernel forgot its inode panics: %v", r)
			}
		}()
		lk := &fuseops.LookUpInodeOp{Parent: fuseops.RootInodeID, Name: "d"}
		if err := fs.LookUpInode(ctx, lk); err != nil {
			t.Errorf("FINDING C18: lookup of the still linked directory d fails: %v", err)
		} else if !lk.Entry.Attributes.Mode.IsDir() {
			t.Errorf("FINDING C18: d is a directory but lookup answers with the attributes of a regular file (mode %v, inode %d)", lk.Entry.Attributes.Mode, lk.Entry.Child)
		}
	}()
	func() {
		defer func() {
			if r := recover(); r != nil {
				t.Errorf("FINDING C18: rmdir of the still linked directory d after the kernel forgot its inode panics: %v", r)
			}
		}()
		if err := fs.RmDir(ctx, &fuseops.RmDirOp{Parent: fuseops.RootInodeID, Name: "d"}); err != nil {
			t.Errorf("FINDING C18: rmdir d fails: %v", err)
		}
	}()
}

// C18: an unlinked and forgotten file releases its inode, which may then be re-used; a linked one never does.
func TestTriageC18UnlinkedFileIsReleased(t *testing.T) {
	ctx := context.Background()
	fs := triageMutable(t)
	cr := &fuseops.CreateFileOp{Parent: fuseops.RootInodeID, Name: "f"}
	if err := fs.CreateFile(ctx, cr); err != nil {
		t.Fatal(err)
	}
	f := cr.Entry.Child
	if err := fs.Unlink(ctx, &fuseops.UnlinkOp{Parent: fuseops.RootInodeID, Name: "f"}); err != nil {
		t.Fatal(err)
	}
	if err := fs.ForgetInode(ctx, &fuseops.ForgetInodeOp{Inode: f, N: 1}); err != nil {
		t.Fatal(err)
	}
	if _, found := fs.iNodeStore.Get(formKey(f)); found {
		t.Logf("note: the node of an unlinked, forgotten file stays in the node store (leak, not a property violation)")
	}
	_ = iradix.New
}

// C18: a directory listing that does not fit one buffer, resumed at the offset of the last entry returned, must
// yield every child exactly once.
func TestTriageC18ReadDirResume(t *testing.T) {
	ctx := context.Background()
	fs := triageMutable(t)
	const n = 300
	want := map[string]bool{}
	for i := 0; i < n; i++ {
		name := fmt.Sprintf("file-%04d", i)
		if err := fs.CreateFile(ctx, &fuseops.CreateFileOp{Parent: fuseops.RootInodeID, Name: name}); err != nil {
			t.Fatal(err)
		}
		want[name] = true
	}
	got := map[string]int{}
	var offset fuseops.DirOffset
	for rounds := 0; rounds < 10*n; rounds++ {
		op := &fuseops.ReadDirOp{Inode: fuseops.RootInodeID, Offset: offset, Dst: make([]byte, 4096)}
		if err := fs.ReadDir(ctx, op); err != nil {
			t.Fatal(err)
		}
		if op.BytesRead == 0 {
			break
		}
		buf := op.Dst[:op.BytesRead]
		for len(buf) > 0 {
			// struct fuse_dirent: ino u64, off u64, namelen u32, type u32, name, padded to 8
			off := uint64(0)
			for k := 0; k < 8; k++ {
				off |= uint64(buf[8+k]) << (8 * uint(k))
			}
			nl := int(buf[16]) | int(buf[17])<<8 | int(buf[18])<<16 | int(buf[19])<<24
			name := string(buf[24 : 24+nl])
			got[name]++
			sz := 24 + nl
			if sz%8 != 0 {
				sz += 8 - sz%8
			}
			buf = buf[sz:]
			offset = fuseops.DirOffset(off)
		}
	}
	dup, missing := 0, 0
	for name := range want {
		switch {
		case got[name] == 0:
			missing++
		case got[name] > 1:
			dup++
		}
	}
	if dup > 0 || missing > 0 {
		t.Fatalf("FINDING C18: listing a directory of %d files in 4 KiB buffers, resumed at the last returned offset: %d names missing, %d names returned more than once", n, missing, dup)
	}
	_ = fuseutil.DT_File
}

// C18: moving directories into another parent and removing them there must leave that parent's link count at 2
// (it is still linked); with the count drifting to 0 a forget of the parent releases a linked directory.
func TestTriageC18RenameDirectoryKeepsParentLinkCounts(t *testing.T) {
	ctx := context.Background()
	fs := triageMutable(t)
	mkdir := func(parent fuseops.InodeID, name string) fuseops.InodeID {
		op := &fuseops.MkDirOp{Parent: parent, Name: name}
		if err := fs.MkDir(ctx, op); err != nil {
			t.Fatal(err)
		}
		return op.Entry.Child
	}
	a := mkdir(fuseops.RootInodeID, "a")
	b := mkdir(fuseops.RootInodeID, "b")
	mkdir(a, "d1")
	mkdir(a, "d2")
	for _, n := range []string{"d1", "d2"} {
		if err := fs.Rename(ctx, &fuseops.RenameOp{OldParent: a, OldName: n, NewParent: b, NewName: n}); err != nil {
			t.Fatal(err)
		}
	}
	for _, n := range []string{"d1", "d2"} {
		if err := fs.RmDir(ctx, &fuseops.RmDirOp{Parent: b, Name: n}); err != nil {
			t.Fatal(err)
		}
	}
	ga := &fuseops.GetInodeAttributesOp{Inode: b}
	if err := fs.GetInodeAttributes(ctx, ga); err != nil {
		t.Fatal(err)
	}
	if ga.Attributes.Nlink != 2 {
		t.Errorf("FINDING C18: empty, still linked directory b reports %d links after two directories were moved in and removed (expected 2)", ga.Attributes.Nlink)
	}
	// the kernel forgets b (single reference from mkdir), then uses it again
	if err := fs.ForgetInode(ctx, &fuseops.ForgetInodeOp{Inode: b, N: 1}); err != nil {
		t.Fatal(err)
	}
	func() {
		defer func() {
			if r := recover(); r != nil {
				t.Errorf("FINDING C18: lookup of the still linked directory b panics after the kernel forgot it: %v", r)
			}
		}()
		if err := fs.LookUpInode(ctx, &fuseops.LookUpInodeOp{Parent: fuseops.RootInodeID, Name: "b"}); err != nil {
			t.Errorf("FINDING C18: lookup of b fails: %v", err)
		}
	}()
}
