#!/bin/bash
# Runs the in-package triage demonstrations against a scratch worktree of /repo (HEAD), then removes it.
# usage: run.sh [go test -run pattern]
set -u
export GOFLAGS=-mod=mod GOPROXY=off GOSUMDB=off GOTOOLCHAIN=local
unset GOWORK
WT=$(mktemp -d /tmp/triage-wt.XXXXXX)
git -C /repo worktree add --detach "$WT" HEAD >/dev/null 2>&1 || { echo "cannot create worktree"; exit 2; }
for d in /verif/triage/inpkg/*/; do
  pkg=$(basename "$d")
  cp "$d"/*_test.go "$WT/pkg/$pkg/"
done
(cd "$WT" && timeout 600 go test -vet=off -count=1 -timeout 120s -run "${1:-Triage}" -v ./pkg/fuse/ 2>&1 | grep -E "^(=== RUN|--- |\s+.*FINDING|ok|FAIL|panic)" )
git -C /repo worktree remove --force "$WT"
rm -rf "$WT"
