package triage

import (
	"context"
	"io/ioutil"
	"os"
	"testing"

	"github.com/oneconcern/datamon/pkg/core"
	"github.com/oneconcern/datamon/pkg/storage/localfs"
	"github.com/spf13/afero"
	"go.uber.org/zap"
)

// C05: Diff / Update resolve the bundle ID of the local copy from its .datamon directory by scanning the keys of the
// destination; before the fix the scan aborted on the first key that is not a metadata path, so a tree holding a
// top-level name that sorts before ".datamon" (here "-notes.txt"; also ".conflicts/…" after a diamond download) could be
// downloaded but neither diffed nor updated: "not a metadata path '-notes.txt'".
func TestC05DiffOfTreeWithNameSortingBeforeMetadataDir(t *testing.T) {
	e := newEnv(t, "r")
	id1 := e.upload(t, "r", map[string]string{"-notes.txt": "one", "data/a": "A"})
	id2 := e.upload(t, "r", map[string]string{"-notes.txt": "two", "data/a": "A", "data/b": "B"})
	dir, err := ioutil.TempDir("", "c05-")
	if err != nil {
		t.Fatal(err)
	}
	defer os.RemoveAll(dir)
	dest := localfs.New(afero.NewBasePathFs(afero.NewOsFs(), dir), localfs.WithRetry(false))
	b1 := core.NewBundle(core.Repo("r"), core.ContextStores(e.stores), core.ConsumableStore(dest), core.BundleID(id1), core.Logger(zap.NewNop()))
	if err := core.Publish(context.Background(), b1); err != nil {
		t.Fatal(err)
	}
	local := core.NewBundle(core.ConsumableStore(dest), core.Logger(zap.NewNop()))
	remote := core.NewBundle(core.Repo("r"), core.ContextStores(e.stores), core.BundleID(id2), core.Logger(zap.NewNop()))
	diff, err := core.Diff(context.Background(), local, remote)
	if err != nil {
		t.Fatalf("FINDING C05: Diff of a downloaded tree holding '-notes.txt' fails: %v", err)
	}
	if len(diff.Entries) != 2 {
		t.Fatalf("FINDING C05: diff has %d entries, want 2 (changed -notes.txt, added data/b)", len(diff.Entries))
	}
}
