package triage

import (
	"bytes"
	"context"
	"fmt"
	"io"
	"io/ioutil"
	"sort"
	"strings"
	"testing"
	"time"

	context2 "github.com/oneconcern/datamon/pkg/context"
	"github.com/oneconcern/datamon/pkg/core"
	"github.com/oneconcern/datamon/pkg/model"
	"github.com/oneconcern/datamon/pkg/storage"
	"go.uber.org/zap"
)

// failPutStore wraps a store: Put on keys matching pred consumes the source then fails `times` times.
type failPutStore struct {
	*memStore
	pred  func(string) bool
	times int
}

func (f *failPutStore) Put(ctx context.Context, k string, r io.Reader, mode bool) error {
	if f.pred(k) && f.times > 0 {
		f.times--
		_, _ = ioutil.ReadAll(r) // the transfer started, then the connection broke
		return fmt.Errorf("googleapi: Error 503: backendError (injected, transient) on %s", k)
	}
	return f.memStore.Put(ctx, k, r, mode)
}

func download(t *testing.T, e *env, repo, bundleID string) (map[string]string, error) {
	dst := newMem("dst")
	b := core.NewBundle(core.Repo(repo), core.ContextStores(e.stores), core.BundleID(bundleID), core.ConsumableStore(dst), core.Logger(zap.NewNop()))
	err := core.Publish(context.Background(), b)
	out := map[string]string{}
	ks, _ := dst.Keys(context.Background())
	for _, k := range ks {
		if strings.HasPrefix(k, ".datamon") {
			continue
		}
		r, _ := dst.Get(context.Background(), k)
		var buf bytes.Buffer
		_, _ = buf.ReadFrom(r)
		out[k] = buf.String()
	}
	return out, err
}

// C13 clause 3: index chunk keys are marked "uploaded" while the chunk is streamed, i.e. before the chunk write
// succeeded. A transient failure of that write is retried by backoff with a new reader that skips the marked
// keys: they end up in no chunk, and delete-unused removes blobs that a committed bundle needs.
func TestC13ChunkWriteRetriedLosesKeys(t *testing.T) {
	e := newEnv(t, "r")
	b1 := e.upload(t, "r", map[string]string{"a": "content-a", "b": "content-b"})
	time.Sleep(20 * time.Millisecond)
	meta := e.meta
	fp := &failPutStore{memStore: meta, pred: func(k string) bool { return strings.HasPrefix(k, "reverse-index/") }, times: 1}
	e2 := *e
	e2.stores = newStoresWithMeta(e, fp)
	opts := []core.PurgeOption{core.WithPurgeLocalStore(t.TempDir()), core.WithPurgeLogger(zap.NewNop())}
	idx, err := core.PurgeBuildReverseIndex(e2.stores, opts...)
	t.Logf("index: %+v err=%v", idx, err)
	if err != nil {
		t.Skipf("index build reported the failure: %v", err)
	}
	res, err := core.PurgeDeleteUnused(e.stores, core.WithPurgeLocalStore(t.TempDir()), core.WithPurgeLogger(zap.NewNop()))
	t.Logf("purge res=%+v err=%v", res, err)
	got, derr := download(t, e, "r", b1)
	t.Logf("download after purge: err=%v files=%v", derr, got)
	if err == nil && (derr != nil || got["a"] != "content-a" || got["b"] != "content-b") {
		t.Errorf("FINDING C13: both purge commands reported success but a bundle committed before the index no longer downloads (keys marked uploaded before the chunk write succeeded)")
	}
}

// C13 clause 4: re-used (deduplicated) blobs are not refreshed. A bundle uploaded after the index was built re-uses
// an orphaned old blob, which delete-unused then removes.
func TestC13ReusedOrphanBlobDeleted(t *testing.T) {
	e := newEnv(t, "r")
	b0 := e.upload(t, "r", map[string]string{"f": "shared-content"})
	if err := core.DeleteBundle("r", e.stores, b0); err != nil {
		t.Fatal(err)
	}
	time.Sleep(20 * time.Millisecond)
	if _, err := core.PurgeBuildReverseIndex(e.stores, core.WithPurgeLocalStore(t.TempDir()), core.WithPurgeLogger(zap.NewNop())); err != nil {
		t.Fatal(err)
	}
	time.Sleep(20 * time.Millisecond)
	b1 := e.upload(t, "r", map[string]string{"g": "shared-content"}) // upload started after the index
	res, err := core.PurgeDeleteUnused(e.stores, core.WithPurgeLocalStore(t.TempDir()), core.WithPurgeLogger(zap.NewNop()))
	t.Logf("purge res=%+v err=%v", res, err)
	got, derr := download(t, e, "r", b1)
	t.Logf("download after purge: err=%v files=%v", derr, got)
	if err == nil && (derr != nil || got["g"] != "shared-content") {
		t.Errorf("FINDING C13: a bundle uploaded after the index re-used an orphaned blob that delete-unused then removed (no Touch / rewrite on the duplicate branch)")
	}
}

// C13 clause 2: "root already in the KV => its leaves are too" is unsound for a resumed build: chunks are cut in
// KV key order, so an uploaded chunk can hold a root without its leaves.
func TestC13ResumeSkipsLeavesOfPreloadedRoot(t *testing.T) {
	for attempt := 0; attempt < 40; attempt++ {
		e := newEnv(t, "r")
		// one file with several leaves (leaf size 1 MiB in the harness: use 64 KiB via a dedicated upload)
		content := strings.Repeat(fmt.Sprintf("%04d-", attempt), 60000) // ~300 KB
		b1 := e.uploadLeaf(t, "r", map[string]string{"big": content}, 64*1024)
		// all blob keys; is the root the smallest key?
		ks, _ := e.blob.Keys(context.Background())
		sort.Strings(ks)
		bundle := core.NewBundle(core.Repo("r"), core.ContextStores(e.stores), core.BundleID(b1), core.Logger(zap.NewNop()))
		if err := core.DownloadMetadata(context.Background(), bundle); err != nil {
			t.Fatal(err)
		}
		root := bundle.BundleEntries[0].Hash
		if ks[0] != root {
			continue // try another content until the root sorts first
		}
		time.Sleep(10 * time.Millisecond)
		// first run: chunk size 1; the write of chunk 2 fails for good => the build is interrupted after chunk 1
		fp := &failPutStore{memStore: e.meta, pred: func(k string) bool { return strings.HasSuffix(k, "chunk-2.yaml") }, times: 1 << 30}
		st := newStoresWithMeta(e, fp)
		dir := t.TempDir()
		_, err := core.PurgeBuildReverseIndex(st, core.WithPurgeLocalStore(dir), core.WithPurgeLogger(zap.NewNop()), core.WithPurgeIndexChunkSize(1))
		t.Logf("first run (interrupted): err=%v", err)
		if err == nil {
			t.Fatal("expected the first run to fail")
		}
		// resume with a fresh local KV, as the command does after a crash
		idx, err := core.PurgeBuildReverseIndex(e.stores, core.WithPurgeLocalStore(t.TempDir()), core.WithPurgeLogger(zap.NewNop()), core.WithPurgeIndexChunkSize(1), core.WithPurgeResumeIndex(true))
		t.Logf("resumed run: %+v err=%v", idx, err)
		if err != nil {
			t.Fatal(err)
		}
		res, err := core.PurgeDeleteUnused(e.stores, core.WithPurgeLocalStore(t.TempDir()), core.WithPurgeLogger(zap.NewNop()))
		t.Logf("purge res=%+v err=%v", res, err)
		got, derr := download(t, e, "r", b1)
		t.Logf("download after purge: err=%v ok=%v", derr, got["big"] == content)
		if err == nil && (derr != nil || got["big"] != content) {
			t.Errorf("FINDING C13: after an interrupted and resumed index build, delete-unused removed leaves of a committed bundle (root preloaded from an uploaded chunk, leaves never indexed)")
		}
		return
	}
	t.Skip("no content found whose root key sorts first")
}

var _ = storage.NoOverWrite

func newStoresWithMeta(e *env, meta storage.Store) context2.Stores {
	return context2.NewStores(newMem("wal"), newMem("rl"), e.blob, meta, e.vmeta)
}

func (e *env) uploadLeaf(t *testing.T, repo string, files map[string]string, leaf uint32) string {
	src := newMem("src")
	for k, v := range files {
		_ = src.Put(context.Background(), k, strings.NewReader(v), true)
	}
	bd := model.NewBundleDescriptor(model.Message("m"))
	bd.LeafSize = leaf
	b := core.NewBundle(core.Repo(repo), core.ContextStores(e.stores), core.ConsumableStore(src),
		core.BundleDescriptor(bd), core.Logger(zap.NewNop()))
	if err := core.Upload(context.Background(), b); err != nil {
		t.Fatal(err)
	}
	return b.BundleID
}
