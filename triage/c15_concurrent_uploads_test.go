package triage

import (
	"bytes"
	"context"
	"fmt"
	"io/ioutil"
	"os"
	"path/filepath"
	"sync"
	"testing"
	"time"

	context2 "github.com/oneconcern/datamon/pkg/context"
	"github.com/oneconcern/datamon/pkg/core"
	"github.com/oneconcern/datamon/pkg/model"
	"github.com/oneconcern/datamon/pkg/storage"
	"github.com/oneconcern/datamon/pkg/storage/localfs"
	"github.com/spf13/afero"
	"go.uber.org/zap"
)

const (
	c15uRepo     = "demo-repo"
	c15uUploads  = 4  // concurrent uploads against the same stores
	c15uFiles    = 12 // files per upload
	c15uContents = 3  // distinct contents: a lot of files are identical, within and across uploads
	c15uAttempts = 40
)

func c15uTempDir(t *testing.T) string {
	base := ""
	if fi, err := os.Stat("/dev/shm"); err == nil && fi.IsDir() {
		base = "/dev/shm"
	}
	dir, err := os.MkdirTemp(base, "seed-c15-c15u-")
	if err != nil {
		t.Fatalf("temp dir: %v", err)
	}
	t.Cleanup(func() { _ = os.RemoveAll(dir) })
	return dir
}

func c15uStore(t *testing.T, root, name string) storage.Store {
	dir := filepath.Join(root, name)
	if err := os.MkdirAll(dir, 0700); err != nil {
		t.Fatalf("mkdir: %v", err)
	}
	// no retry: report errors at once rather than after the 30s backoff of localfs
	return localfs.New(afero.NewBasePathFs(afero.NewOsFs(), dir), localfs.WithRetry(false))
}

// c15uSlowAttrStore is a store which takes a little while to answer attribute requests (like any remote store):
// this leaves the time for concurrent writers to check on the same blob before any of them has written it.
type c15uSlowAttrStore struct {
	storage.Store
}

func (s c15uSlowAttrStore) GetAttr(ctx context.Context, key string) (storage.Attributes, error) {
	attr, err := s.Store.GetAttr(ctx, key)
	time.Sleep(5 * time.Millisecond)
	return attr, err
}

func c15uContent(i int) []byte {
	// ~300 KB of data, one single leaf
	return bytes.Repeat([]byte(fmt.Sprintf("some content #%02d|", i%c15uContents)), 16*1024)
}

// TestC15ConcurrentUploadsOfIdenticalContentOnLocalfs: before fix 9baa99a an upload failed with "verification of blob
// content failed: sizes differ" within ~15 attempts (another writer of the same root key had just truncated it).
// TestC15ConcurrentUploadsOfIdenticalContentOnLocalfs runs a few uploads concurrently against the same stores,
// with many identical files, and expects every upload to complete and every bundle to be retrievable.
func TestC15ConcurrentUploadsOfIdenticalContentOnLocalfs(t *testing.T) {
	logger := zap.NewNop()
	ctx := context.Background()

	for attempt := 0; attempt < c15uAttempts; attempt++ {
		root := c15uTempDir(t)
		stores := context2.NewStores(
			c15uStore(t, root, "wal"), c15uStore(t, root, "readlog"), c15uStore(t, root, "blob"),
			c15uStore(t, root, "meta"), c15uStore(t, root, "vmeta"),
		)
		if err := core.CreateRepo(model.RepoDescriptor{
			Name:        c15uRepo,
			Description: "demo",
			Contributor: model.Contributor{Name: "demo", Email: "demo@example.com"},
		}, stores); err != nil {
			t.Fatalf("create repo: %v", err)
		}

		// prepare the source directories
		sources := make([]storage.Store, c15uUploads)
		for u := range sources {
			sources[u] = c15uStore(t, root, fmt.Sprintf("source-%d", u))
			for i := 0; i < c15uFiles; i++ {
				name := fmt.Sprintf("dir/file-%02d.dat", i)
				if err := sources[u].Put(ctx, name, bytes.NewReader(c15uContent(i+u)), storage.NoOverWrite); err != nil {
					t.Fatalf("prepare source: %v", err)
				}
			}
		}

		// concurrent uploads
		var wg sync.WaitGroup
		errs := make([]error, c15uUploads)
		bundles := make([]*core.Bundle, c15uUploads)
		start := make(chan struct{})
		for u := 0; u < c15uUploads; u++ {
			wg.Add(1)
			go func(u int) {
				defer wg.Done()
				bundles[u] = core.NewBundle(
					core.Repo(c15uRepo),
					core.ContextStores(stores),
					core.ConsumableStore(sources[u]),
					core.BundleDescriptor(model.NewBundleDescriptor(
						model.Message(fmt.Sprintf("upload %d", u)),
						model.BundleContributor(model.Contributor{Name: "demo", Email: "demo@example.com"}),
					)),
					core.Logger(logger),
					// NOTE: the re-verification of root keys after write is disabled for uploads. On the unchanged code, two
					// writers of the same root key may step on each other's check (truncate vs stat on localfs): this is not
					// what we want to exhibit here. Downloads below do verify all hashes.
					core.BundleWithVerifyHash(true),
				)
				<-start
				errs[u] = core.Upload(ctx, bundles[u])
			}(u)
		}
		close(start)
		wg.Wait()

		for u, err := range errs {
			if err != nil {
				t.Fatalf("attempt %d: FINDING C15: upload %d failed while running concurrently with other uploads of identical content: %v", attempt, u, err)
			}
		}

		// every bundle may be downloaded, with the expected content
		for u, b := range bundles {
			dest := c15uStore(t, root, fmt.Sprintf("dest-%d", u))
			download := core.NewBundle(
				core.Repo(c15uRepo),
				core.ContextStores(stores),
				core.ConsumableStore(dest),
				core.BundleID(b.BundleID),
				core.Logger(logger),
			)
			if err := core.Publish(ctx, download); err != nil {
				t.Fatalf("attempt %d: download of bundle %d failed: %v", attempt, u, err)
			}
			for i := 0; i < c15uFiles; i++ {
				name := fmt.Sprintf("dir/file-%02d.dat", i)
				rdr, err := dest.Get(ctx, name)
				if err != nil {
					t.Fatalf("attempt %d: bundle %d: missing file %s: %v", attempt, u, name, err)
				}
				got, err := ioutil.ReadAll(rdr)
				_ = rdr.Close()
				if err != nil {
					t.Fatalf("attempt %d: bundle %d: reading %s: %v", attempt, u, name, err)
				}
				if !bytes.Equal(got, c15uContent(i+u)) {
					t.Fatalf("attempt %d: bundle %d: file %s differs from what was uploaded", attempt, u, name)
				}
			}
		}
	}
}
