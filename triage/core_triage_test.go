package triage

import (
	"bytes"
	"context"
	"fmt"
	"strings"
	"testing"
	"time"

	context2 "github.com/oneconcern/datamon/pkg/context"
	"github.com/oneconcern/datamon/pkg/core"
	"github.com/oneconcern/datamon/pkg/model"
	"github.com/oneconcern/datamon/pkg/storage"
	"github.com/segmentio/ksuid"
	"go.uber.org/zap"
)

type env struct {
	meta, vmeta, blob *memStore
	stores            context2.Stores
}

func newEnv(t *testing.T, repo string) *env {
	e := &env{meta: newMem("meta"), vmeta: newMem("vmeta"), blob: newMem("blob")}
	e.stores = context2.NewStores(newMem("wal"), newMem("rl"), e.blob, e.meta, e.vmeta)
	err := core.CreateRepo(model.RepoDescriptor{Name: repo, Description: "d", Timestamp: time.Now(),
		Contributor: model.Contributor{Name: "n", Email: "n@example.com"}}, e.stores)
	if err != nil {
		t.Fatal(err)
	}
	return e
}

func (e *env) upload(t *testing.T, repo string, files map[string]string) string {
	src := newMem("src")
	for k, v := range files {
		_ = src.Put(context.Background(), k, strings.NewReader(v), true)
	}
	bd := model.NewBundleDescriptor(model.Message("m"))
	bd.LeafSize = 1 << 20
	b := core.NewBundle(core.Repo(repo), core.ContextStores(e.stores), core.ConsumableStore(src),
		core.BundleDescriptor(bd), core.Logger(zap.NewNop()))
	if err := core.Upload(context.Background(), b); err != nil {
		t.Fatal(err)
	}
	return b.BundleID
}

// C07: listing splits stops at a page that the basename filter empties.
func TestC07SplitListingStopsOnFilteredEmptyPage(t *testing.T) {
	e := newEnv(t, "r")
	dd, err := core.CreateDiamond("r", e.stores)
	if err != nil {
		t.Fatal(err)
	}
	for _, id := range []string{"a", "m", "z"} {
		_, err := core.CreateSplit("r", dd.DiamondID, e.stores, core.SplitDescriptor(model.NewSplitDescriptor(model.SplitID(id))))
		if err != nil {
			t.Fatal(err)
		}
	}
	gen := ksuid.New().String()
	for i := uint64(0); i < 6; i++ { // file lists of split "m" fill whole pages
		_ = e.vmeta.Put(context.Background(), model.GetArchivePathToSplitFileList("r", dd.DiamondID, "m", gen, i), strings.NewReader("x"), true)
	}
	for _, bs := range []int{1024, 2} {
		splits, err := core.ListSplits("r", dd.DiamondID, e.stores, core.BatchSize(bs))
		ids := []string{}
		for _, s := range splits {
			ids = append(ids, s.SplitID)
		}
		t.Logf("batch=%d splits=%v err=%v", bs, ids, err)
		if len(ids) != 3 {
			t.Errorf("FINDING C07: batch=%d listed %v, want [a m z]", bs, ids)
		}
	}
}

// C06: latest-bundle resolution returns an interrupted upload.
func TestC06LatestBundleSeesPartialUpload(t *testing.T) {
	e := newEnv(t, "r")
	good := e.upload(t, "r", map[string]string{"f": "hello"})
	time.Sleep(1100 * time.Millisecond)
	partial := ksuid.New().String()
	_ = e.meta.Put(context.Background(), model.GetArchivePathToBundleFileList("r", partial, 0), strings.NewReader("BundleEntries: []\n"), true)
	latest, err := core.GetLatestBundle("r", e.stores)
	t.Logf("good=%s partial=%s latest=%s err=%v", good, partial, latest, err)
	if latest != good {
		t.Errorf("FINDING C06: GetLatestBundle returned %s (no bundle.yaml), want %s", latest, good)
	}
	bs, err := core.ListBundles("r", e.stores)
	t.Logf("ListBundles=%d err=%v", len(bs), err)
	bs, err = core.ListBundles("r", e.stores, core.WithMinimalBundle(true))
	t.Logf("ListBundles(minimal)=%d err=%v (squash uses this)", len(bs), err)
}

// C11: the loser of a conflict is filed under the winner's split ID, depending on arrival order.
func TestC11ConflictFiledUnderWrongSplit(t *testing.T) {
	seen := map[string]int{}
	for round := 0; round < 12; round++ {
		e := newEnv(t, "r")
		dd, err := core.CreateDiamond("r", e.stores)
		if err != nil {
			t.Fatal(err)
		}
		for i, id := range []string{"s1", "s2"} {
			src := newMem("src")
			_ = src.Put(context.Background(), "f", strings.NewReader(fmt.Sprintf("content-%d", i)), true)
			sd, err := core.CreateSplit("r", dd.DiamondID, e.stores, core.SplitDescriptor(model.NewSplitDescriptor(model.SplitID(id))))
			if err != nil {
				t.Fatal(err)
			}
			s := core.NewSplit("r", dd.DiamondID, e.stores, core.SplitDescriptor(&sd), core.SplitConsumableStore(src), core.SplitLogger(zap.NewNop()))
			if err := s.Upload(); err != nil {
				t.Fatal(err)
			}
			time.Sleep(5 * time.Millisecond)
		}
		d := core.NewDiamond("r", e.stores, core.DiamondDescriptor(model.NewDiamondDescriptor(model.DiamondClone(dd))), core.DiamondLogger(zap.NewNop()))
		if err := d.Commit(); err != nil {
			t.Fatal(err)
		}
		b := core.NewBundle(core.Repo("r"), core.ContextStores(e.stores), core.BundleID(d.BundleID), core.Logger(zap.NewNop()))
		if err := core.DownloadMetadata(context.Background(), b); err != nil {
			t.Fatal(err)
		}
		names := []string{}
		for _, en := range b.BundleEntries {
			names = append(names, en.NameWithPath)
		}
		seen[strings.Join(names, ",")]++
	}
	t.Logf("outcomes: %v", seen)
	for k := range seen {
		if strings.Contains(k, ".conflicts/s2/") {
			t.Errorf("FINDING C11: loser (s1, older) filed under s2: %s", k)
		}
	}
	if len(seen) > 1 {
		t.Errorf("FINDING C11: result depends on arrival order: %v", seen)
	}
}

// C13: a transient attribute-read failure makes delete-unused remove a blob newer than the index.
func TestC13TransientGetAttrDeletesFreshBlob(t *testing.T) {
	e := newEnv(t, "r")
	_ = e.upload(t, "r", map[string]string{"old": "old-content"})
	dir := t.TempDir()
	opts := []core.PurgeOption{core.WithPurgeLocalStore(dir), core.WithPurgeLogger(zap.NewNop())}
	if _, err := core.PurgeBuildReverseIndex(e.stores, opts...); err != nil {
		t.Fatal(err)
	}
	time.Sleep(20 * time.Millisecond)
	b2 := e.upload(t, "r", map[string]string{"new": "new-content-after-index"})
	failed := map[string]bool{}
	e.blob.failGetAttr = func(k string) error {
		if !failed[k] {
			failed[k] = true
			return fmt.Errorf("googleapi: Error 503: backendError (injected, transient)")
		}
		return nil
	}
	res, err := core.PurgeDeleteUnused(e.stores, append(opts, core.WithPurgeLocalStore(t.TempDir()))...)
	t.Logf("purge res=%+v err=%v", res, err)
	e.blob.failGetAttr = nil
	dst := newMem("dst")
	b := core.NewBundle(core.Repo("r"), core.ContextStores(e.stores), core.BundleID(b2), core.ConsumableStore(dst), core.Logger(zap.NewNop()))
	derr := core.Publish(context.Background(), b)
	got, _ := dst.Get(context.Background(), "new")
	var buf bytes.Buffer
	if got != nil {
		_, _ = buf.ReadFrom(got)
	}
	t.Logf("download after purge: err=%v content=%q", derr, buf.String())
	if err == nil && (derr != nil || buf.String() != "new-content-after-index") {
		t.Errorf("FINDING C13: purge reported success but bundle uploaded after the index is no longer downloadable")
	}
}

var _ = storage.NoOverWrite
