package triage

import (
	"context"
	"errors"
	"testing"

	"github.com/oneconcern/datamon/pkg/core"
	"github.com/oneconcern/datamon/pkg/model"
	"github.com/oneconcern/datamon/pkg/storage"
)

// failingPages wraps a store: the n-th KeysPrefix call (1-based) fails once.
type failingPages struct {
	storage.Store
	calls, failAt int
}

func (f *failingPages) KeysPrefix(ctx context.Context, token, prefix, delimiter string, count int) ([]string, string, error) {
	f.calls++
	if f.calls == f.failAt {
		return nil, "", errors.New("transient listing failure")
	}
	return f.Store.KeysPrefix(ctx, token, prefix, delimiter, count)
}

// C07 (also C12: the commit lists its splits this way): a key page that fails while diamonds or splits are listed is
// dropped by mergeKeys (it builds its output event from a fresh nil error), so the listing ends early with err == nil.
// Before fix: ListSplits returned [a] and a nil error. After: the listing fails.
func TestC07SplitListingHidesFailedKeyPage(t *testing.T) {
	e := newEnv(t, "r")
	dd, err := core.CreateDiamond("r", e.stores)
	if err != nil {
		t.Fatal(err)
	}
	for _, id := range []string{"a", "m", "z"} {
		if _, err := core.CreateSplit("r", dd.DiamondID, e.stores, core.SplitDescriptor(model.NewSplitDescriptor(model.SplitID(id)))); err != nil {
			t.Fatal(err)
		}
	}
	fp := &failingPages{Store: e.vmeta, failAt: 2}
	stores := e.stores
	stores.SetVMetadata(fp)
	splits, err := core.ListSplits("r", dd.DiamondID, stores, core.BatchSize(1))
	ids := []string{}
	for _, s := range splits {
		ids = append(ids, s.SplitID)
	}
	t.Logf("splits=%v err=%v", ids, err)
	if err == nil && len(ids) != 3 {
		t.Errorf("FINDING C07: a failed key page is hidden: listed %v with a nil error, want [a m z] or an error", ids)
	}
}
