package triage

import (
	"context"
	"strings"
	"testing"
	"time"

	"github.com/oneconcern/datamon/pkg/core"
	"github.com/oneconcern/datamon/pkg/model"
	"github.com/oneconcern/datamon/pkg/sidecar/param"
	"github.com/oneconcern/datamon/pkg/wal"
	"github.com/segmentio/ksuid"
	"go.uber.org/zap"
)

// C08: a label name the API accepts breaks listing of the whole repository.
func TestC08HostileLabelAccepted(t *testing.T) {
	e := newEnv(t, "r")
	id := e.upload(t, "r", map[string]string{"f": "x"})
	b := core.NewBundle(core.Repo("r"), core.ContextStores(e.stores), core.BundleID(id), core.Logger(zap.NewNop()))
	c := model.Contributor{Name: "n", Email: "n@example.com"}
	for _, name := range []string{"good", "bad/name"} {
		l := core.NewLabel(core.LabelDescriptor(model.NewLabelDescriptor(model.LabelName(name), model.LabelContributor(c))))
		err := l.UploadDescriptor(context.Background(), b)
		t.Logf("set label %q: err=%v", name, err)
	}
	ls, err := core.ListLabels("r", e.stores)
	t.Logf("ListLabels => %d labels err=%v", len(ls), err)
	if err != nil {
		t.Errorf("FINDING C08: label \"bad/name\" was accepted and now ListLabels fails: %v", err)
	}
}

// C10: squash counts the leftover of an interrupted upload as a bundle and deletes the newest committed one.
func TestC10SquashWithLeftover(t *testing.T) {
	e := newEnv(t, "r")
	_ = e.upload(t, "r", map[string]string{"f": "v1"})
	time.Sleep(1100 * time.Millisecond)
	newest := e.upload(t, "r", map[string]string{"f": "v2"})
	time.Sleep(1100 * time.Millisecond)
	partial := ksuid.New().String()
	_ = e.meta.Put(context.Background(), model.GetArchivePathToBundleFileList("r", partial, 0), strings.NewReader("BundleEntries: []\n"), true)
	var err error
	p, to := inTime(t, 5*time.Second, "squash", func() { err = core.RepoSquash(e.stores, "r") })
	t.Logf("squash err=%v panic=%v hang=%v", err, p, to)
	bs, _ := core.ListBundles("r", e.stores)
	ids := []string{}
	for _, b := range bs {
		ids = append(ids, b.ID)
	}
	t.Logf("bundles after squash=%v newest committed=%s", ids, newest)
	found := false
	for _, id := range ids {
		found = found || id == newest
	}
	if !found {
		t.Errorf("FINDING C10: squash removed the most recent committed bundle %s (leftover %s counted as latest)", newest, partial)
	}
}

// C20: the file-list path builder cannot take the upper half of its own index type.
func TestC20IndexRange(t *testing.T) {
	p, _ := inTime(t, time.Second, "path", func() { _ = model.GetConsumablePathToBundleFileList("b", 1<<63) })
	if p != nil {
		t.Errorf("FINDING C20: GetConsumablePathToBundleFileList(b, 2^63) panics: %v", p)
	}
}

// C21: separators may collide with the literal parameter names.
func TestC21SeparatorCollidesWithNames(t *testing.T) {
	fp, err := param.NewFUSEParams(param.FUSECoordPoint("0123456789:;<=>?@ABCDEFGHIJKLMNOPQR"), param.FUSEConfigBucketName("b"), param.FUSEContextName("c"))
	if err != nil {
		t.Fatal(err)
	}
	fp.Globals.SleepInsteadOfExit = true
	env, err := param.FUSEParamsToEnvVars(fp)
	t.Logf("env=%q err=%v", env["dm_fuse_opts"], err)
	s := env["dm_fuse_opts"]
	if err == nil && len(s) > 2 {
		item, kv := string([]rune(s)[0]), string([]rune(s)[1])
		t.Logf("itemSep=%q kvSep=%q", item, kv)
		if strings.ContainsAny("S c b a", item+kv) {
			t.Errorf("FINDING C21: separator %q/%q is also a literal flag/parameter name; encoding did not fail", item, kv)
		}
	}
}

// C19: an appended entry cannot be listed back.
func TestC19AppendThenList(t *testing.T) {
	mut, ws := newMem("mutable"), newMem("wal")
	w := wal.New(mut, ws, wal.Logger(zap.NewNop()))
	tok, err := w.Add(context.Background(), "hello")
	if err != nil {
		t.Fatal(err)
	}
	var es []model.Entry
	p, to := inTime(t, 3*time.Second, "ListEntries", func() { es, _, err = w.ListEntries(context.Background(), tok, 10) })
	t.Logf("entries=%v err=%v panic=%v hang=%v", es, err, p, to)
	if p != nil || to || err != nil || len(es) != 1 || es[0].Payload != "hello" {
		t.Errorf("FINDING C19: Add(\"hello\") then ListEntries does not return the entry")
	}
}
