module triage

go 1.15

require (
	github.com/oneconcern/datamon v0.0.0
	github.com/segmentio/ksuid v1.0.4
	github.com/spf13/afero v1.9.3
	go.uber.org/zap v1.24.0
)

replace github.com/oneconcern/datamon => /repo

replace github.com/spf13/pflag => github.com/fredbi/pflag v1.0.6-0.20201106154427-e6824c13371a
