package triage

import (
	"bytes"
	"fmt"
	"io"
	"testing"

	"github.com/oneconcern/datamon/pkg/storage"
)

// C16 / C03: storage.PipeIO (used by localfs.Put for sources that are not io.WriterTo, and by the localfs reader's
// WriteTo) must report a failure of the destination writer. When the writer fails on the LAST chunk the producer
// goroutine has already finished and closed its error channel: the receive from the closed channel yields nil and
// overwrites the writer's error.
type failLastWriter struct {
	n     int
	limit int
}

func (w *failLastWriter) Write(p []byte) (int, error) {
	if w.n+len(p) > w.limit {
		return 0, fmt.Errorf("no space left on device")
	}
	w.n += len(p)
	return len(p), nil
}

type plainReader struct{ r io.Reader }

func (p plainReader) Read(b []byte) (int, error) { return p.r.Read(b) }

func TestC16PipeIOLosesErrorOfLastWrite(t *testing.T) {
	lost := 0
	for i := 0; i < 200; i++ {
		data := bytes.Repeat([]byte("x"), 1000)
		w := &failLastWriter{limit: 500} // the single 1000-byte chunk does not fit
		_, err := storage.PipeIO(w, plainReader{bytes.NewReader(data)})
		if err == nil {
			lost++
		}
	}
	if lost > 0 {
		t.Fatalf("FINDING C16: PipeIO returned nil in %d of 200 copies although the destination writer failed (nothing was written)", lost)
	}
}
