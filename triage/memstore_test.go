// Package triage holds throw-away demonstrations used ONLY to triage reports of the static
// checker (genuine defect vs false alarm). It is not registered in MANIFEST.json and is not
// part of any check.
package triage

import (
	"bytes"
	"context"
	"fmt"
	"io"
	"io/ioutil"
	"sort"
	"strings"
	"sync"
	"time"

	"github.com/oneconcern/datamon/pkg/storage"
	storagestatus "github.com/oneconcern/datamon/pkg/storage/status"
)

// memStore is a small, correct in-memory object store (GCS-like semantics):
// lexicographic listing, start-key page tokens, create-if-absent, Delete of a missing key fails.
type memStore struct {
	mu      sync.Mutex
	objs    map[string][]byte
	updated map[string]time.Time
	name    string
	// fault hooks
	failGetAttr func(key string) error
}

func newMem(name string) *memStore {
	return &memStore{objs: map[string][]byte{}, updated: map[string]time.Time{}, name: name}
}

var _ storage.Store = &memStore{}

func (m *memStore) String() string { return "mem://" + m.name }
func (m *memStore) Has(_ context.Context, k string) (bool, error) {
	m.mu.Lock()
	defer m.mu.Unlock()
	_, ok := m.objs[k]
	return ok, nil
}
func (m *memStore) Get(_ context.Context, k string) (io.ReadCloser, error) {
	m.mu.Lock()
	defer m.mu.Unlock()
	b, ok := m.objs[k]
	if !ok {
		return nil, storagestatus.ErrNotExists
	}
	return ioutil.NopCloser(bytes.NewReader(append([]byte{}, b...))), nil
}
func (m *memStore) GetAttr(_ context.Context, k string) (storage.Attributes, error) {
	if m.failGetAttr != nil {
		if err := m.failGetAttr(k); err != nil {
			return storage.Attributes{}, err
		}
	}
	m.mu.Lock()
	defer m.mu.Unlock()
	b, ok := m.objs[k]
	if !ok {
		return storage.Attributes{}, storagestatus.ErrNotExists
	}
	return storage.Attributes{Created: m.updated[k], Updated: m.updated[k], Size: int64(len(b))}, nil
}
func (m *memStore) GetAt(_ context.Context, k string) (io.ReaderAt, error) {
	m.mu.Lock()
	defer m.mu.Unlock()
	b, ok := m.objs[k]
	if !ok {
		return nil, storagestatus.ErrNotExists
	}
	return bytes.NewReader(append([]byte{}, b...)), nil
}
func (m *memStore) Touch(_ context.Context, k string) error {
	m.mu.Lock()
	defer m.mu.Unlock()
	if _, ok := m.objs[k]; !ok {
		return storagestatus.ErrNotExists
	}
	m.updated[k] = time.Now()
	return nil
}
func (m *memStore) Put(_ context.Context, k string, r io.Reader, noOverwrite bool) error {
	b, err := ioutil.ReadAll(r)
	if err != nil {
		return err
	}
	m.mu.Lock()
	defer m.mu.Unlock()
	if _, ok := m.objs[k]; ok && noOverwrite {
		return fmt.Errorf("object %q exists", k)
	}
	m.objs[k] = b
	m.updated[k] = time.Now()
	return nil
}
func (m *memStore) Delete(_ context.Context, k string) error {
	m.mu.Lock()
	defer m.mu.Unlock()
	if _, ok := m.objs[k]; !ok {
		return storagestatus.ErrNotExists
	}
	delete(m.objs, k)
	delete(m.updated, k)
	return nil
}
func (m *memStore) Clear(context.Context) error {
	m.mu.Lock()
	defer m.mu.Unlock()
	m.objs = map[string][]byte{}
	return nil
}
func (m *memStore) Keys(ctx context.Context) ([]string, error) {
	ks, _, err := m.KeysPrefix(ctx, "", "", "", 1<<30)
	return ks, err
}
func (m *memStore) KeysPrefix(_ context.Context, token, prefix, delimiter string, count int) ([]string, string, error) {
	m.mu.Lock()
	defer m.mu.Unlock()
	set := map[string]struct{}{}
	for k := range m.objs {
		if !strings.HasPrefix(k, prefix) {
			continue
		}
		if delimiter != "" {
			if i := strings.Index(k[len(prefix):], delimiter); i >= 0 {
				k = k[:len(prefix)+i+len(delimiter)]
			}
		}
		set[k] = struct{}{}
	}
	all := make([]string, 0, len(set))
	for k := range set {
		if k >= token {
			all = append(all, k)
		}
	}
	sort.Strings(all)
	if len(all) > count {
		return all[:count], all[count], nil
	}
	return all, "", nil
}
