#!/bin/bash
# Runs every registered check against /repo with one seeded change applied, then restores /repo.
# usage: seed_check.sh <seeded-dir>...   (default: all of /verif/seeded/*)
# Prints, per seed, the properties whose check reported a VIOLATION (or UNDECIDED).
cd /verif
dirs=("$@"); [ ${#dirs[@]} -eq 0 ] && dirs=(/verif/seeded/*/)
if [ -n "$(git -C /repo status --porcelain)" ]; then echo "/repo is not clean"; exit 2; fi
for d in "${dirs[@]}"; do
  d=$(realpath ${d%/})
  [ -f "$d/patch.diff" ] || continue
  if ! git -C /repo apply "$d/patch.diff" 2>/dev/null; then echo "$(basename $d): patch does not apply"; continue; fi
  mkdir -p /tmp/seedcheck; cp /verif/known_findings.json /tmp/seedcheck/
  out=$(VERIF_EVIDENCE_DIR=/tmp/seedcheck-evidence ./bin/dmverif -prop all -verif /tmp/seedcheck 2>&1)
  git -C /repo checkout -- . ; git -C /repo clean -fdq
  hit=$(echo "$out" | grep -E '^(VIOLATION|UNDECIDED)' | sed -E 's/ replay=.*//' | tr '\n' ';')
  echo "$(basename $d): ${hit:-MISSED}"
  echo "$out" | grep -E '^  violated' | grep -v KNOWN | head -4 | cut -c1-260 | sed 's/^/      /'
done
rm -rf /tmp/seedcheck
