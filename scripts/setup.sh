#!/bin/bash
# Builds the checker offline from files on disk only, then loads /repo once to warm the Go build cache
# (the loader type-checks /repo's dependencies from export data, which `go list -export` compiles on first use).
set -e
cd "$(dirname "$0")/.."
export GOFLAGS=-mod=mod GOPROXY=off GOSUMDB=off GOTOOLCHAIN=local
unset GOWORK
mkdir -p bin evidence
(cd checker && go build -o ../bin/dmverif .)
./bin/dmverif -warm
