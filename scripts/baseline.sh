#!/bin/bash
# Runs the repository's pinned baseline (guard off; there are no hooks) in a given tree and compares the
# set of passing tests with /root/.vp/BASELINE.json stable_pass.  Usage: baseline.sh [repo-dir]
# Not a check: used to validate fix: commits and seeded changes.
set -u
REPO=${1:-/repo}
export GOFLAGS=-mod=mod GOPROXY=off GOSUMDB=off GOTOOLCHAIN=local
unset GOWORK
OUT=$(mktemp /tmp/baseline.XXXXXX.json)
(cd "$REPO" && go test -mod=mod -json -vet=off -count=1 -timeout 25m ./... > "$OUT" 2>/dev/null)
python3 - "$OUT" <<'PY'
import json,sys
passed=set()
for l in open(sys.argv[1]):
    try: e=json.loads(l)
    except Exception: continue
    if e.get('Action')=='pass' and e.get('Test'):
        passed.add(e['Package']+'::'+e['Test'])
base=json.load(open('/root/.vp/BASELINE.json'))
stable=set(base['stable_pass'])
missing=sorted(stable-passed)
print('baseline stable=%d passed_now=%d missing=%d'%(len(stable),len(passed&stable),len(missing)))
for m in missing: print('MISSING',m)
sys.exit(1 if missing else 0)
PY
rc=$?
rm -f "$OUT"
exit $rc
