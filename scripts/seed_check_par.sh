#!/bin/bash
# Parallel variant of seed_check.sh: leaves /repo alone. Each of N shards applies its share of the seeded changes to
# its own scratch worktree of /repo's HEAD (under $SCRATCH, removed at the end) and runs every registered check there.
# usage: seed_check_par.sh [N] > log      (default N=6)
N=${1:-6}
SCRATCH=${SCRATCH:-/tmp/seedpar}
cd /verif
if [ -n "$(git -C /repo status --porcelain)" ]; then echo "/repo is not clean"; exit 2; fi
mkdir -p $SCRATCH
dirs=(/verif/seeded/*/)
for i in $(seq 0 $((N-1))); do
  (
    wt=$SCRATCH/wt$i
    git -C /repo worktree add -q --detach $wt HEAD 2>/dev/null
    mkdir -p $SCRATCH/v$i; cp /verif/known_findings.json $SCRATCH/v$i/
    for j in "${!dirs[@]}"; do
      [ $((j % N)) -eq $i ] || continue
      d=$(realpath ${dirs[$j]%/})
      [ -f "$d/patch.diff" ] || continue
      if ! git -C $wt apply "$d/patch.diff" 2>/dev/null; then echo "$(basename $d): patch does not apply" > $SCRATCH/out.$(basename $d); continue; fi
      out=$(./bin/dmverif -prop all -repo $wt -verif $SCRATCH/v$i 2>&1)
      git -C $wt checkout -q -- . ; git -C $wt clean -fdq
      hit=$(echo "$out" | grep -E '^(VIOLATION|UNDECIDED)' | sed -E 's/ replay=.*//' | tr '\n' ';')
      { echo "$(basename $d): ${hit:-MISSED}"; echo "$out" | grep -E '^  violated' | grep -v KNOWN | head -4 | cut -c1-260 | sed 's/^/      /'; } > $SCRATCH/out.$(basename $d)
    done
    git -C /repo worktree remove --force $wt
  ) &
done
wait
cat $SCRATCH/out.* ; rm -rf $SCRATCH
