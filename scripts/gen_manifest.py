#!/usr/bin/env python3
"""Regenerates /verif/MANIFEST.json from the list of properties the checker registers (bin/dmverif -list)
and the per-property texts in scripts/manifest_texts.json. Properties without a registered check go to not_applicable."""
POOL_TEXT = (' In addition, restricted to the functions reachable from this property\'s entry points (call graph with class-hierarchy '
             'resolution of the repository\'s interfaces): the pooled function-scoped clauses found for neighbouring properties and, through the cross pool, every other property\'s own function-scoped clauses, the generic '
             'error / received-error / presence-test / accumulator disciplines, effect dominance (no success path loses a store or file-system '
             'operation every success path of the reviewed tree passed). A comparison of the guarded actions of the core functions with a reviewed '
             'table is computed too but is advisory only (evidence notes): it is not robust to equivalent restructurings and raises no violation.')
POOL_TECH = '; call-graph reachability selects pooled clauses; must-effect summaries with callee inlining (E-DOM); negation-normal-form guards of statements (used by clauses that ask under which conditions a step runs; the table comparison E-GUARD is advisory)'
import json, subprocess, os, sys
V = os.path.dirname(os.path.dirname(os.path.abspath(__file__)))
texts = json.load(open(os.path.join(V, 'scripts', 'manifest_texts.json')))
try:
    reg = subprocess.check_output([os.path.join(V, 'bin', 'dmverif'), '-list'], text=True).split()
except Exception as e:
    print('cannot list registered properties (build bin/dmverif first):', e); sys.exit(1)
props = [json.loads(l) for l in open(os.path.join(V, 'properties.jsonl'))]
checks, na = [], []
for p in props:
    pid = p['id']
    t = texts.get(pid, {})
    if pid in reg and not t.get('not_applicable'):
        checks.append({
            'property_id': pid,
            'quick_cmd': 'bin/dmverif -prop %s -tier quick' % pid,
            'thorough_cmd': 'bin/dmverif -prop %s -tier thorough' % pid,
            'evidence_file': 'evidence/%s.json' % pid,
            'replay_cmd_template': 'bin/dmverif -replay {path}',
            'engine': 'dmverif',
            'level_claimed': {
                'category': 'other',
                'text': t.get('level_text', 'structural necessary conditions of the property, decided statically and exhaustively over every path of the analysed functions of /repo') + POOL_TEXT,
                'design_ref': 'DESIGN.md section 3, ' + pid,
            },
            'level_note': t.get('level_note', 'trusts go/types, go/cfg and the Go type checker; decides the listed structural clauses only, not the behaviour as a whole'),
            'technique': t.get('technique', 'static analysis: custom go/types + go/cfg rules over the type-checked source') + POOL_TECH,
        })
    else:
        na.append({'property_id': pid, 'reason': t.get('na_reason', 'no check built yet for this property (work in progress); nothing is claimed')})
m = {
    'version': 1,
    'setup_cmd': 'scripts/setup.sh',
    'hooks': {
        'guard': 'none',
        'enable': 'no hooks: the checker only reads /repo (go/packages load of the working tree); nothing in /repo is instrumented',
        'baseline_off_cmd': 'scripts/baseline.sh /repo',
        'source_commits': [],
        'add_only': True,
    },
    'engines': [{
        'name': 'dmverif',
        'path': 'checker/',
        'serves_properties': [c['property_id'] for c in checks],
        'kind_free_text': 'repository-specific static analyser (Go, golang.org/x/tools v0.29.0: go/packages, go/types, go/cfg, go/ssa): CFG must-pass-through / never-after / dominance rules, write-mode and who-may-call tables, error-discipline dataflow, lock typestate, path builder/parser agreement by abstract string evaluation, record-plumbing and constant-table checks; mutation witnesses applied through the loader overlay validate each rule both ways',
    }],
    'checks': checks,
    'not_applicable': na,
    'notes': 'All claims are level "other": structural clauses that are necessary conditions of the behavioural property (see DESIGN.md). known_findings.json lists genuine defects recorded rather than repaired and the fix: commits made in /repo. seeded/ holds independently produced breaking changes and which checks catch them.',
}
json.dump(m, open(os.path.join(V, 'MANIFEST.json'), 'w'), indent=1)
print('MANIFEST.json: %d checks, %d not_applicable' % (len(checks), len(na)))
