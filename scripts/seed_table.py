#!/usr/bin/env python3
"""Turns the output of scripts/seed_check.sh into seeded/RESULTS.md: one row per seeded change, the property it was
written against, what it needs to manifest, and the checks that reported it."""
import json, os, re, sys
log = sys.argv[1] if len(sys.argv) > 1 else '/tmp/seedcheck_full.log'
rows = []
cur = None
for line in open(log, errors='replace'):
    m = re.match(r'^(C\d+-[a-z]\d+): (.*)$', line.rstrip())
    if m:
        cur = {'seed': m.group(1), 'hits': m.group(2), 'rules': []}
        rows.append(cur)
    elif cur and line.strip().startswith('violated:'):
        r = line.strip().split()[1]
        if r not in cur['rules']:
            cur['rules'].append(r)
out = ['# Seeded changes and the checks that report them', '',
       'Produced by `scripts/seed_check.sh` (applies each `seeded/<id>/patch.diff` to /repo, runs every registered check, reverts).',
       'Each change was written by an independent sub-agent that saw only the property text, compiles, passes the 221 baseline',
       'tests and has a demonstration that fails with it and passes without it (see each `meta.json`).', '',
       '| seed | needs to manifest | reported by (properties) | first rules |', '|---|---|---|---|']
miss = 0
for r in rows:
    meta = json.load(open(os.path.join('/verif/seeded', r['seed'], 'meta.json')))
    need = meta.get('needs_to_manifest', '').replace('|', '/').replace('\n', ' ')
    need = need[:160] + ('…' if len(need) > 160 else '')
    props = sorted(set(re.findall(r'(?:VIOLATION|UNDECIDED) property=(C\d+)', r['hits'])))
    own = r['seed'].split('-')[0]
    if not props:
        miss += 1
    tag = ', '.join(('**%s**' % p) if p == own else p for p in props) or 'MISSED'
    out.append('| %s | %s | %s | %s |' % (r['seed'], need, tag, ', '.join('`%s`' % x for x in r['rules'][:3])))
out += ['', '%d seeded changes, %d not reported by any check.' % (len(rows), miss)]
open('/verif/seeded/RESULTS.md', 'w').write('\n'.join(out) + '\n')
print(len(rows), 'rows', miss, 'missed')
