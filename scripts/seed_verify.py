#!/usr/bin/env python3
"""Confirms a seeded change produced by a sub-agent and files it under /verif/seeded/<ID>-<mK>/.

usage: seed_verify.py C04 m1 [--src /tmp/seed]

In the scratch worktree /tmp/seed/<ID>/wt (must be clean): apply patch.diff, `go build ./...`, run the pinned
baseline (must print missing=0), install the demonstration, run it (must FAIL), revert the patch, run it again
(must PASS), clean the worktree. Only then is the seed copied to /verif/seeded with a meta.json saying what was run.
Nothing here touches /repo's working tree.
"""
import json, os, shutil, subprocess, sys, time

ENV = dict(os.environ, GOFLAGS='-mod=mod', GOPROXY='off', GOSUMDB='off', GOTOOLCHAIN='local')
ENV.pop('GOWORK', None)

def sh(cmd, cwd, timeout=1500):
    try:
        r = subprocess.run(cmd, shell=True, cwd=cwd, env=ENV, stdout=subprocess.PIPE, stderr=subprocess.STDOUT, text=True, timeout=timeout)
        return r.returncode, r.stdout
    except subprocess.TimeoutExpired as e:
        return 124, (e.stdout or '') + '\nTIMEOUT'

def main():
    pid, m = sys.argv[1], sys.argv[2]
    src = '/tmp/seed'
    if '--src' in sys.argv:
        src = sys.argv[sys.argv.index('--src') + 1]
    base = os.path.join(src, pid)
    wt = os.path.join(base, 'wt')
    out = os.path.join(base, 'out', m)
    meta = json.load(open(os.path.join(out, 'meta.json')))
    patch = os.path.join(out, 'patch.diff')
    res = {'property': pid, 'variant': m, 'agent_meta': meta, 'steps': {}}
    def clean():
        sh('git checkout -- . && git clean -fdq', wt)
    clean()
    rc, o = sh('git apply --check %s && git apply %s' % (patch, patch), wt)
    res['steps']['apply'] = rc
    if rc != 0:
        print('apply failed', o); return finish(res, False, out, wt)
    rc, o = sh('go build ./...', wt)
    res['steps']['build'] = rc
    if rc != 0:
        print('build failed', o[-2000:]); clean(); return finish(res, False, out, wt)
    rc, o = sh('/tmp/seed/baseline.sh %s' % wt, wt)
    res['steps']['baseline'] = o.strip().splitlines()[-1] if o.strip() else ''
    if rc != 0:
        # one retry: the suite has load-sensitive tests
        rc, o = sh('/tmp/seed/baseline.sh %s' % wt, wt)
        res['steps']['baseline_retry'] = o.strip().splitlines()[-1] if o.strip() else ''
    if rc != 0:
        print('baseline failed', o[-2000:]); clean(); return finish(res, False, out, wt)
    # install demo
    demo = os.path.join(out, 'demo')
    for root, _, files in os.walk(demo):
        for fn in files:
            rel = os.path.relpath(os.path.join(root, fn), demo)
            dst = os.path.join(wt, rel)
            os.makedirs(os.path.dirname(dst), exist_ok=True)
            shutil.copy(os.path.join(root, fn), dst)
    cmd = meta.get('demo_cmd')
    if not cmd:
        print('no demo_cmd'); clean(); return finish(res, False, out, wt)
    rc1, o1 = sh('timeout 600 ' + cmd, wt, timeout=700)
    res['steps']['demo_with_patch_rc'] = rc1
    res['steps']['demo_with_patch_tail'] = o1[-1500:]
    sh('git apply -R %s' % patch, wt)
    rc2, o2 = sh('timeout 600 ' + cmd, wt, timeout=700)
    res['steps']['demo_without_patch_rc'] = rc2
    res['steps']['demo_without_patch_tail'] = o2[-600:]
    clean()
    ok = rc1 != 0 and rc2 == 0
    if rc1 != 0 and rc2 != 0:
        # flaky / timing demo: one more attempt on the clean tree
        pass
    return finish(res, ok, out, wt)

def finish(res, ok, out, wt):
    res['confirmed'] = ok
    res['confirmed_at'] = time.strftime('%Y-%m-%dT%H:%M:%SZ', time.gmtime())
    print(json.dumps({k: v for k, v in res['steps'].items() if not k.endswith('_tail')}), 'confirmed=%s' % ok)
    if not ok:
        print(res['steps'].get('demo_with_patch_tail', '')[-800:])
        print('--- without patch:'); print(res['steps'].get('demo_without_patch_tail', ''))
        return 1
    dst = os.path.join('/verif/seeded', '%s-%s' % (res['property'], res['variant']))
    if os.path.exists(dst):
        shutil.rmtree(dst)
    os.makedirs(dst)
    shutil.copy(os.path.join(out, 'patch.diff'), dst)
    shutil.copytree(os.path.join(out, 'demo'), os.path.join(dst, 'demo'))
    am = res['agent_meta']
    meta = {
        'property': res['property'],
        'breaks': am.get('summary', ''),
        'needs_to_manifest': am.get('needs_to_manifest', ''),
        'demo_cmd': am.get('demo_cmd', ''),
        'what_was_run': 'in a scratch worktree of /repo: git apply patch.diff; go build ./...; pinned baseline (%s); demo with patch rc=%s (fails); git apply -R; demo without patch rc=%s (passes)' % (
            res['steps'].get('baseline_retry', res['steps'].get('baseline')), res['steps'].get('demo_with_patch_rc'), res['steps'].get('demo_without_patch_rc')),
        'confirmed_at': res['confirmed_at'],
        'origin': 'independent sub-agent given only the property text and a scratch worktree',
    }
    json.dump(meta, open(os.path.join(dst, 'meta.json'), 'w'), indent=1)
    return 0

if __name__ == '__main__':
    sys.exit(main())
