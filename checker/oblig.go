package main

import (
	"encoding/json"
	"fmt"
	"os"
	"path/filepath"
	"sort"
	"strings"
	"time"
)

// Verdicts
const (
	OK        = "ok"
	VIOLATION = "violation"
)

// Obligation is one decided instance of a rule: a construct of the repository checked against a clause.
type Obligation struct {
	Rule    string `json:"rule"`    // rule id, e.g. "C06.descriptor-last"
	Key     string `json:"key"`     // stable construct key: pkg.Func[#lit]:callee#k, never a line number
	Pos     string `json:"pos"`     // file:line on this run (diagnostic only)
	Verdict string `json:"verdict"` // ok | violation | known-finding
	Detail  string `json:"detail"`  // what was established / what fails
	Trivial bool   `json:"-"`       // vacuous instance (does not count as non-trivial)
}

// Ctx collects the obligations of one property run.
type Ctx struct {
	Prop   string
	Tier   string
	P      *Prog
	Obs    []Obligation
	Notes  []string
	Assume []string
	Undec  []string // rules that could not be applied (anchor changed shape): exit 2 unless a violation is reported anyway
	seen   map[string]int

	sharedReach map[string]bool // non-nil while the shared pool runs: only constructs in these functions are kept
	reachOnly   bool            // with sharedReach: filter by reachability only (keep non-function keys and repeats)
}

func newCtx(prop, tier string, p *Prog) *Ctx {
	return &Ctx{Prop: prop, Tier: tier, P: p, seen: map[string]int{}}
}

func (c *Ctx) add(rule, key, pos, verdict, detail string) {
	full := c.Prop + "." + rule
	k := full + "|" + key
	if c.sharedReach != nil {
		// pooled rule: keep the obligation only if its construct lies in a function this property's operations reach,
		// and only once
		fn := c.P.funcOfKey(key)
		if c.reachOnly {
			if fn != "" && !c.sharedReach[fn] {
				return
			}
		} else if fn == "" || !c.sharedReach[fn] || c.seen[k] > 0 {
			return
		}
	}
	c.seen[k]++
	if n := c.seen[k]; n > 1 {
		key = fmt.Sprintf("%s#%d", key, n)
	}
	c.Obs = append(c.Obs, Obligation{Rule: full, Key: key, Pos: pos, Verdict: verdict, Detail: detail})
}

// ok records a discharged obligation.
func (c *Ctx) ok(rule, key, pos, detail string) { c.add(rule, key, pos, OK, detail) }

// fail records a violated obligation.
func (c *Ctx) fail(rule, key, pos, detail string) { c.add(rule, key, pos, VIOLATION, detail) }

// check records ok or violation depending on cond.
func (c *Ctx) check(cond bool, rule, key, pos, okDetail, failDetail string) bool {
	if cond {
		c.ok(rule, key, pos, okDetail)
	} else {
		c.fail(rule, key, pos, failDetail)
	}
	return cond
}

func (c *Ctx) note(format string, args ...interface{}) {
	c.Notes = append(c.Notes, fmt.Sprintf(format, args...))
}

func (c *Ctx) assume(s string) { c.Assume = append(c.Assume, s) }

// softUndecided records that one rule cannot be applied to the code's new shape and lets the other rules run; the
// run ends with exit 2 (UNDECIDED) unless some other rule reports a violation.
func (c *Ctx) softUndecided(format string, args ...interface{}) {
	c.Undec = append(c.Undec, fmt.Sprintf(format, args...))
}

// countRule returns the number of obligations recorded for a rule (any verdict).
func (c *Ctx) countRule(rule string) int {
	n := 0
	for _, o := range c.Obs {
		if o.Rule == c.Prop+"."+rule {
			n++
		}
	}
	return n
}

// requireInstances fails the run as undecided when a rule matched fewer instances than confirmed by hand:
// a rule that matches nothing passes vacuously forever.
func (c *Ctx) requireInstances(rule string, min int) {
	// the floor guards against vacuity, not against refactoring: a rule must still match a good half of the sites
	// confirmed by hand (merging two call sites or turning a closure into a method is not a violation)
	if min > 2 {
		min = (min + 1) / 2
	}
	if n := c.countRule(rule); n < min {
		c.fail(rule, "instance-count", "-", fmt.Sprintf("rule matched %d instances, expected at least %d confirmed by hand: the code this rule is anchored in changed shape; the clause is no longer established", n, min))
	}
}

// ---------------------------------------------------------------------------------------------------
// known findings

type knownFinding struct {
	Property string `json:"property"`
	Rule     string `json:"rule"`
	Key      string `json:"key"`
	What     string `json:"what"`
	Status   string `json:"status"` // "known" | "fixed"
	Commit   string `json:"commit,omitempty"`
}

type knownFile struct {
	Findings []knownFinding `json:"findings"`
	Fixed    []string       `json:"fixed"`
}

func loadKnown(verifDir string) []knownFinding {
	b, err := os.ReadFile(filepath.Join(verifDir, "known_findings.json"))
	if err != nil {
		return nil
	}
	var kf knownFile
	if err := json.Unmarshal(b, &kf); err != nil {
		undecided("known_findings.json does not parse: %v", err)
	}
	return kf.Findings
}

// ---------------------------------------------------------------------------------------------------
// evidence

type evidence struct {
	PropertyID  string                 `json:"property_id"`
	Tier        string                 `json:"tier"`
	Seed        int                    `json:"seed"`
	Level       string                 `json:"level"`
	Coverage    map[string]interface{} `json:"coverage"`
	Assumptions []string               `json:"assumptions"`
	WallS       float64                `json:"wall_s"`
	Violations  int                    `json:"violations"`
}

// finish applies known findings, writes evidence and the violation file, prints the verdict lines and returns
// the exit code.
func (c *Ctx) finish(verifDir string, explanation string, t0 time.Time, seed int, extra map[string]interface{}) int {
	known := loadKnown(verifDir)
	var viol, knownHit []Obligation
	for i := range c.Obs {
		o := &c.Obs[i]
		if o.Verdict != VIOLATION {
			continue
		}
		matched := false
		for _, k := range known {
			if k.Status == "known" && k.Property == c.Prop && k.Rule == o.Rule && k.Key == o.Key {
				matched = true
				o.Verdict = "known-finding"
				o.Detail = k.What + " — " + o.Detail
				break
			}
		}
		if matched {
			knownHit = append(knownHit, *o)
		} else {
			viol = append(viol, *o)
		}
	}
	discharged := 0
	distinct := map[string]bool{}
	ruleSet := map[string]int{}
	for _, o := range c.Obs {
		if o.Verdict == OK {
			discharged++
		}
		if !o.Trivial {
			distinct[o.Rule+"|"+o.Key] = true
		}
		ruleSet[o.Rule]++
	}
	var samples []Obligation
	// samples: first obligation of every rule, then violations
	seenRule := map[string]bool{}
	for _, o := range c.Obs {
		if !seenRule[o.Rule] {
			seenRule[o.Rule] = true
			samples = append(samples, o)
		}
	}
	samples = append(samples, viol...)
	samples = append(samples, knownHit...)
	var rules []string
	for r, n := range ruleSet {
		rules = append(rules, fmt.Sprintf("%s:%d", r, n))
	}
	sort.Strings(rules)
	cov := map[string]interface{}{
		"explanation":         explanation,
		"obligations":         len(c.Obs),
		"discharged":          discharged,
		"evaluations":         len(c.Obs),
		"distinct_nontrivial": len(distinct),
		"rule":                "one obligation per (rule, construct of /repo matched by the rule's anchor predicate); distinct = distinct (rule,construct key); all are non-trivial (each is a real call site / function / table entry of the analysed tree)",
		"samples":             samples,
		"rules_instances":     rules,
		"packages_analysed":   len(c.P.All),
		"files_analysed":      c.P.NFiles,
		"functions_analysed":  c.P.NFuncs,
		"build_tags":          c.P.Tags,
		"known_findings_hit":  len(knownHit),
		"notes":               c.Notes,
		"exhaustive":          true,
		"all_obligations":     c.Obs,
		"undecided_rules":     c.Undec,
	}
	for k, v := range extra {
		cov[k] = v
	}
	ev := evidence{PropertyID: c.Prop, Tier: c.Tier, Seed: seed, Level: "other", Coverage: cov,
		Assumptions: c.Assume, WallS: time.Since(t0).Seconds(), Violations: len(viol)}
	if ev.Assumptions == nil {
		ev.Assumptions = []string{}
	}
	_ = os.MkdirAll(filepath.Join(verifDir, "evidence"), 0o755)
	b, _ := json.MarshalIndent(ev, "", " ")
	if err := os.WriteFile(filepath.Join(verifDir, "evidence", c.Prop+".json"), b, 0o644); err != nil {
		undecided("cannot write evidence: %v", err)
	}
	fmt.Printf("property=%s tier=%s obligations=%d discharged=%d violations=%d known=%d rules=%d wall=%.1fs\n",
		c.Prop, c.Tier, len(c.Obs), discharged, len(viol), len(knownHit), len(ruleSet), time.Since(t0).Seconds())
	for _, k := range knownHit {
		fmt.Printf("KNOWN-FINDING: property=%s %s [%s %s at %s]\n", c.Prop, oneLine(k.Detail), k.Rule, k.Key, k.Pos)
	}
	vpath := filepath.Join(verifDir, "evidence", c.Prop+".violation.json")
	for _, u := range c.Undec {
		fmt.Printf("UNDECIDED property=%s: %s\n", c.Prop, u)
	}
	if len(viol) == 0 {
		_ = os.Remove(vpath)
		if len(c.Undec) > 0 {
			return 2
		}
		return 0
	}
	vb, _ := json.MarshalIndent(map[string]interface{}{"property": c.Prop, "repo": c.P.RepoDir, "violations": viol}, "", " ")
	_ = os.WriteFile(vpath, vb, 0o644)
	for _, v := range viol {
		fmt.Printf("  violated: %s %s at %s: %s\n", v.Rule, v.Key, v.Pos, oneLine(v.Detail))
	}
	fmt.Printf("VIOLATION property=%s replay=%s\n", c.Prop, vpath)
	return 1
}

func oneLine(s string) string { return strings.Join(strings.Fields(s), " ") }
