package main

import (
	"go/ast"
	"go/token"
	"go/types"
	"sort"
	"strconv"
	"strings"
)

// E-PATHS: abstract string evaluation of the path builders of pkg/model.
//
// A builder is evaluated to a set of templates: sequences of literal text and slots (parameter #i). Supported
// forms: constants, parameters, +, fmt.Sprint (with its "space between two non-string operands" rule),
// fmt.Sprintf with %s %d %v, path.Join (joins with "/" and drops a trailing separator), strings.Join of a variadic
// parameter, calls to other functions of the same package (inlined), local string variables with constant
// definitions (every definition yields a template). Anything else makes the evaluation UNDECIDED for that builder.

type tpart struct {
	lit    string
	slot   int  // parameter index, -1 for a literal
	isUint bool // numeric slot rendered in decimal
	opt    bool // variadic, possibly empty
}

type ptemplate []tpart

func (t ptemplate) String() string {
	var sb strings.Builder
	for _, p := range t {
		if p.slot < 0 {
			sb.WriteString(p.lit)
		} else {
			sb.WriteString("{" + strconv.Itoa(p.slot))
			if p.isUint {
				sb.WriteString(":d")
			}
			if p.opt {
				sb.WriteString("?")
			}
			sb.WriteString("}")
		}
	}
	return sb.String()
}

// normalize merges adjacent literals
func (t ptemplate) normalize() ptemplate {
	var out ptemplate
	for _, p := range t {
		if p.slot < 0 && p.lit == "" {
			continue
		}
		if p.slot < 0 && len(out) > 0 && out[len(out)-1].slot < 0 {
			out[len(out)-1].lit += p.lit
			continue
		}
		out = append(out, p)
	}
	return out
}

// instantiate renders the template with sample values per parameter index.
func (t ptemplate) instantiate(vals map[int]string) string {
	var sb strings.Builder
	for _, p := range t {
		if p.slot < 0 {
			sb.WriteString(p.lit)
		} else {
			sb.WriteString(vals[p.slot])
		}
	}
	return sb.String()
}

// segments splits the template on "/" in literal text; each segment is itself a template.
func (t ptemplate) segments() []ptemplate {
	var segs []ptemplate
	cur := ptemplate{}
	for _, p := range t {
		if p.slot >= 0 {
			cur = append(cur, p)
			continue
		}
		parts := strings.Split(p.lit, "/")
		for i, s := range parts {
			if i > 0 {
				segs = append(segs, cur.normalize())
				cur = ptemplate{}
			}
			if s != "" {
				cur = append(cur, tpart{lit: s, slot: -1})
			}
		}
	}
	segs = append(segs, cur.normalize())
	return segs
}

// pathNarrowings records, per builder function, a numeric slot formatted through a narrower or signed type.
var pathNarrowings = map[string]string{}

type pathEval struct {
	p     *Prog
	depth int
	fail  string
}

func (pe *pathEval) bad(msg string) []ptemplate {
	if pe.fail == "" {
		pe.fail = msg
	}
	return nil
}

// evalBuilder evaluates function f with symbolic parameters.
func evalBuilder(p *Prog, f *FuncInfo) ([]ptemplate, string) {
	pe := &pathEval{p: p}
	sig := f.Obj.Type().(*types.Signature)
	env := map[*types.Var][]ptemplate{}
	for i := 0; i < sig.Params().Len(); i++ {
		v := sig.Params().At(i)
		part := tpart{slot: i}
		if b, ok := v.Type().Underlying().(*types.Basic); ok && b.Info()&types.IsInteger != 0 {
			part.isUint = true
		}
		if sig.Variadic() && i == sig.Params().Len()-1 {
			part.opt = true
		}
		env[v] = []ptemplate{{part}}
	}
	res := pe.evalFunc(f, env)
	if pe.fail != "" {
		return nil, pe.fail
	}
	var out []ptemplate
	seen := map[string]bool{}
	for _, t := range res {
		t = t.normalize()
		if !seen[t.String()] {
			seen[t.String()] = true
			out = append(out, t)
		}
	}
	sort.Slice(out, func(i, j int) bool { return out[i].String() < out[j].String() })
	return out, ""
}

func (pe *pathEval) evalFunc(f *FuncInfo, env map[*types.Var][]ptemplate) []ptemplate {
	pe.depth++
	defer func() { pe.depth-- }()
	if pe.depth > 6 {
		return pe.bad("inlining too deep at " + f.ID)
	}
	if f.Decl.Body == nil {
		return pe.bad("no body: " + f.ID)
	}
	var out []ptemplate
	ast.Inspect(f.Decl.Body, func(n ast.Node) bool {
		if _, ok := n.(*ast.FuncLit); ok {
			return false
		}
		if r, ok := n.(*ast.ReturnStmt); ok && len(r.Results) >= 1 {
			out = append(out, pe.evalExpr(f, r.Results[0], env)...)
		}
		return true
	})
	return out
}

func cross(a, b []ptemplate) []ptemplate {
	var out []ptemplate
	for _, x := range a {
		for _, y := range b {
			t := append(append(ptemplate{}, x...), y...)
			out = append(out, t)
		}
	}
	return out
}

func litT(s string) []ptemplate { return []ptemplate{{tpart{lit: s, slot: -1}}} }

func (pe *pathEval) evalExpr(f *FuncInfo, e ast.Expr, env map[*types.Var][]ptemplate) []ptemplate {
	info := f.Info()
	e = ast.Unparen(e)
	if s, ok := constString(info, e); ok {
		return litT(s)
	}
	if tv, ok := info.Types[e]; ok && tv.Value != nil {
		return litT(tv.Value.String())
	}
	switch x := e.(type) {
	case *ast.Ident:
		v, ok := info.Uses[x].(*types.Var)
		if !ok {
			return pe.bad("unsupported identifier " + x.Name)
		}
		if t, ok := env[v]; ok {
			return t
		}
		// local variable: every definition
		var out []ptemplate
		for _, rhs := range defsOfVar(f, v) {
			if rhs == nil {
				return pe.bad("local " + v.Name() + " has a non-expression definition")
			}
			out = append(out, pe.evalExpr(f, rhs, env)...)
		}
		if len(out) == 0 {
			return pe.bad("local " + v.Name() + " has no definition")
		}
		return out
	case *ast.BinaryExpr:
		if x.Op != token.ADD {
			return pe.bad("unsupported operator " + x.Op.String())
		}
		return cross(pe.evalExpr(f, x.X, env), pe.evalExpr(f, x.Y, env))
	case *ast.CallExpr:
		id := calleeID(info, x)
		switch id {
		case "fmt.Sprint":
			res := litT("")
			for i, a := range x.Args {
				if i > 0 && !isStringTyped(info, x.Args[i-1]) && !isStringTyped(info, a) {
					res = cross(res, litT(" "))
				}
				res = cross(res, pe.evalExpr(f, a, env))
			}
			return res
		case "fmt.Sprintf":
			format, ok := constString(info, x.Args[0])
			if !ok {
				return pe.bad("non-constant format")
			}
			res := litT("")
			argi := 1
			for i := 0; i < len(format); i++ {
				if format[i] != '%' {
					res = cross(res, litT(string(format[i])))
					continue
				}
				i++
				if i >= len(format) {
					return pe.bad("bad format")
				}
				switch format[i] {
				case '%':
					res = cross(res, litT("%"))
				case 's', 'd', 'v':
					if argi >= len(x.Args) {
						return pe.bad("format/arg mismatch")
					}
					res = cross(res, pe.evalExpr(f, x.Args[argi], env))
					argi++
				default:
					return pe.bad("unsupported verb %" + string(format[i]))
				}
			}
			return res
		case "path.Join":
			var elems [][]ptemplate
			if x.Ellipsis.IsValid() && len(x.Args) == 1 {
				elems = pe.evalList(f, x.Args[0], env)
			} else {
				for _, a := range x.Args {
					elems = append(elems, pe.evalExpr(f, a, env))
				}
			}
			res := litT("")
			for i, sub := range elems {
				// strip leading/trailing separators of literal ends (Clean collapses them)
				var cleaned []ptemplate
				for _, t := range sub {
					t = t.normalize()
					if len(t) > 0 && t[len(t)-1].slot < 0 {
						t[len(t)-1].lit = strings.TrimSuffix(t[len(t)-1].lit, "/")
					}
					cleaned = append(cleaned, t)
				}
				// path.Join ignores empty elements: an optional (variadic, possibly empty) element yields both forms
				optional := len(cleaned) > 0
				for _, t := range cleaned {
					if !(len(t) == 1 && t[0].slot >= 0 && t[0].opt) {
						optional = false
					}
				}
				with := res
				if i > 0 {
					with = cross(with, litT("/"))
				}
				with = cross(with, cleaned)
				if optional {
					res = append(append([]ptemplate{}, res...), with...)
				} else {
					res = with
				}
			}
			return res
		case "strconv.Itoa", "strconv.FormatInt", "strconv.FormatUint":
			// decimal formatting of a numeric slot: fine when the formatted type covers the slot's type; a conversion of
			// an unsigned 64-bit slot to a signed or narrower type first wraps large values (recorded, reported by C20)
			if len(x.Args) >= 1 {
				arg := ast.Unparen(x.Args[0])
				for {
					cv, ok := arg.(*ast.CallExpr)
					if !ok || len(cv.Args) != 1 {
						break
					}
					tv, ok := info.Types[cv.Fun]
					if !ok || !tv.IsType() {
						break
					}
					from, to := info.TypeOf(cv.Args[0]), tv.Type
					if fb, ok := from.Underlying().(*types.Basic); ok {
						if tb, ok := to.Underlying().(*types.Basic); ok {
							if (fb.Kind() == types.Uint64 || fb.Kind() == types.Uint) && tb.Kind() != types.Uint64 && tb.Kind() != types.Uint {
								pathNarrowings[f.ID] = "formats " + exprString(cv.Args[0]) + " (" + fb.Name() + ") through " + tb.Name() + ": values above the range of " + tb.Name() + " wrap (e.g. to a negative number) and the path no longer parses back"
							}
						}
					}
					arg = ast.Unparen(cv.Args[0])
				}
				if id == "strconv.Itoa" || id == "strconv.FormatInt" {
					if b, ok := info.TypeOf(arg).Underlying().(*types.Basic); ok && (b.Kind() == types.Uint64 || b.Kind() == types.Uint) {
						// handled by the conversion loop above (Itoa takes an int, so a conversion is present)
						_ = b
					}
				}
				return pe.evalExpr(f, arg, env)
			}
			return pe.bad("unsupported " + id)
		case "strings.Join":
			if len(x.Args) == 2 {
				if sep, ok := constString(info, x.Args[1]); ok && sep == "/" {
					return pe.evalExpr(f, x.Args[0], env)
				}
			}
			return pe.bad("unsupported strings.Join")
		}
		// conversion string(x)?
		if tv, ok := info.Types[x.Fun]; ok && tv.IsType() && len(x.Args) == 1 {
			return pe.evalExpr(f, x.Args[0], env)
		}
		// inline a function of the repository
		if fn, ok := calleeObj(info, x).(*types.Func); ok {
			if callee := pe.p.byObj[fn]; callee != nil {
				sig := fn.Type().(*types.Signature)
				nenv := map[*types.Var][]ptemplate{}
				for i := 0; i < sig.Params().Len(); i++ {
					if sig.Variadic() && i == sig.Params().Len()-1 {
						if i < len(x.Args) {
							if x.Ellipsis.IsValid() {
								nenv[sig.Params().At(i)] = pe.evalExpr(f, x.Args[i], env)
							} else {
								res := litT("")
								for j := i; j < len(x.Args); j++ {
									if j > i {
										res = cross(res, litT("/"))
									}
									res = cross(res, pe.evalExpr(f, x.Args[j], env))
								}
								nenv[sig.Params().At(i)] = res
							}
						} else {
							nenv[sig.Params().At(i)] = litT("")
						}
						continue
					}
					if i >= len(x.Args) {
						return pe.bad("arity mismatch calling " + id)
					}
					nenv[sig.Params().At(i)] = pe.evalExpr(f, x.Args[i], env)
				}
				return pe.evalFunc(callee, nenv)
			}
		}
		return pe.bad("unsupported call " + id)
	}
	return pe.bad("unsupported expression " + exprString(e))
}

func isStringTyped(info *types.Info, e ast.Expr) bool {
	t := info.TypeOf(e)
	if t == nil {
		return false
	}
	b, ok := t.Underlying().(*types.Basic)
	return ok && b.Info()&types.IsString != 0
}

// ---------------------------------------------------------------------------------------------------
// the parser side: GetArchivePathComponents read as a decision table

type parserRow struct {
	First  string         // literal of the first path segment selecting the clause
	Fields map[string]int // field of ArchivePathComponents -> segment index it is read from
	Pos    token.Pos
}

// parserTable extracts, for each `case "<lit>":` clause of the switch on cs[0], every ArchivePathComponents
// literal with the segment index feeding each field (constant-folded indices, through single-definition locals).
func parserTable(p *Prog, f *FuncInfo) ([]parserRow, string) {
	info := f.Info()
	var rows []parserRow
	var csVar *types.Var
	// cs := strings.SplitN(archivePath, "/", maxPos)
	ast.Inspect(f.Decl.Body, func(n ast.Node) bool {
		as, ok := n.(*ast.AssignStmt)
		if !ok || len(as.Lhs) != 1 || len(as.Rhs) != 1 {
			return true
		}
		call, ok := as.Rhs[0].(*ast.CallExpr)
		if !ok || !strings.HasPrefix(calleeID(info, call), "strings.Split") {
			return true
		}
		if sep, ok := constString(info, call.Args[1]); ok && sep == "/" {
			if id, ok := as.Lhs[0].(*ast.Ident); ok {
				csVar, _ = info.Defs[id].(*types.Var)
			}
		}
		return true
	})
	if csVar == nil {
		return nil, "the parser no longer splits its argument on \"/\""
	}
	segIndex := func(e ast.Expr) (int, bool) {
		e = ast.Unparen(e)
		// through single-definition locals
		if id, ok := e.(*ast.Ident); ok {
			if v, ok := info.Uses[id].(*types.Var); ok {
				defs := defsOfVar(f, v)
				if len(defs) == 1 && defs[0] != nil {
					e = ast.Unparen(defs[0])
				}
			}
		}
		ix, ok := e.(*ast.IndexExpr)
		if !ok {
			return 0, false
		}
		if id, ok := ast.Unparen(ix.X).(*ast.Ident); !ok || info.Uses[id] != csVar {
			return 0, false
		}
		tv, ok := info.Types[ix.Index]
		if !ok || tv.Value == nil {
			return 0, false
		}
		n, err := strconv.Atoi(tv.Value.String())
		return n, err == nil
	}
	var sw *ast.SwitchStmt
	ast.Inspect(f.Decl.Body, func(n ast.Node) bool {
		if s, ok := n.(*ast.SwitchStmt); ok && sw == nil && s.Tag != nil {
			if k, ok := segIndex(s.Tag); ok && k == 0 {
				sw = s
			}
		}
		return true
	})
	if sw == nil {
		return nil, "no switch on the first path segment"
	}
	for _, st := range sw.Body.List {
		cc := st.(*ast.CaseClause)
		for _, ce := range cc.List {
			first, ok := constString(info, ce)
			if !ok {
				continue
			}
			ast.Inspect(cc, func(n ast.Node) bool {
				cl, ok := n.(*ast.CompositeLit)
				if !ok || namedTypeID(info.TypeOf(cl)) != "pkg/model.ArchivePathComponents" || len(cl.Elts) == 0 {
					return true
				}
				row := parserRow{First: first, Fields: map[string]int{}, Pos: cl.Pos()}
				for _, el := range cl.Elts {
					kv, ok := el.(*ast.KeyValueExpr)
					if !ok {
						continue
					}
					name := kv.Key.(*ast.Ident).Name
					if k, ok := segIndex(kv.Value); ok {
						row.Fields[name] = k
					}
				}
				rows = append(rows, row)
				return true
			})
		}
	}
	return rows, ""
}

// evalList evaluates a []string-valued expression to its elements: a composite literal, append(list, elems...),
// append(list, variadic...), or a variadic parameter (one optional element).
func (pe *pathEval) evalList(f *FuncInfo, e ast.Expr, env map[*types.Var][]ptemplate) [][]ptemplate {
	info := f.Info()
	e = ast.Unparen(e)
	switch x := e.(type) {
	case *ast.CompositeLit:
		var out [][]ptemplate
		for _, el := range x.Elts {
			out = append(out, pe.evalExpr(f, el, env))
		}
		return out
	case *ast.Ident:
		if v, ok := info.Uses[x].(*types.Var); ok {
			if t, ok := env[v]; ok {
				return [][]ptemplate{t}
			}
		}
	case *ast.CallExpr:
		if id, ok := ast.Unparen(x.Fun).(*ast.Ident); ok && id.Name == "append" && len(x.Args) >= 1 {
			out := pe.evalList(f, x.Args[0], env)
			if x.Ellipsis.IsValid() && len(x.Args) == 2 {
				return append(out, pe.evalList(f, x.Args[1], env)...)
			}
			for _, a := range x.Args[1:] {
				out = append(out, pe.evalExpr(f, a, env))
			}
			return out
		}
	}
	pe.bad("unsupported list expression " + exprString(e))
	return nil
}

// instNoOpt instantiates a set of templates for the case where the optional (variadic) parameters are absent:
// the variant without optional slot if there is one, else the single template with the slot empty.
func instNoOpt(ts []ptemplate, vals map[int]string) (string, bool) {
	var plain []ptemplate
	for _, t := range ts {
		hasOpt := false
		for _, p := range t {
			if p.slot >= 0 && p.opt {
				hasOpt = true
			}
		}
		if !hasOpt {
			plain = append(plain, t)
		}
	}
	if len(plain) == 1 {
		return plain[0].instantiate(vals), true
	}
	if len(plain) == 0 && len(ts) == 1 {
		v2 := map[int]string{}
		for k, v := range vals {
			v2[k] = v
		}
		for _, p := range ts[0] {
			if p.slot >= 0 && p.opt {
				v2[p.slot] = ""
			}
		}
		return ts[0].instantiate(v2), true
	}
	return "", false
}

// evalBuilderForState evaluates a builder with one enumerated parameter fixed to a constant, following the switch / if
// statements that test that parameter (single path), and returns the templates of the value returned.
func evalBuilderForState(p *Prog, f *FuncInfo, stateIdx int, val *types.Const) ([]ptemplate, string) {
	pe := &pathEval{p: p}
	info := f.Info()
	sig := f.Obj.Type().(*types.Signature)
	env := map[*types.Var][]ptemplate{}
	var stateVar *types.Var
	for i := 0; i < sig.Params().Len(); i++ {
		v := sig.Params().At(i)
		if i == stateIdx {
			stateVar = v
			continue
		}
		env[v] = []ptemplate{{tpart{slot: i}}}
	}
	isState := func(e ast.Expr) bool {
		id, ok := ast.Unparen(e).(*ast.Ident)
		return ok && info.Uses[id] == stateVar
	}
	isVal := func(e ast.Expr) (bool, bool) { // (is a constant of the enumeration, equals val)
		tv, ok := info.Types[e]
		if !ok || tv.Value == nil {
			return false, false
		}
		return true, tv.Value.ExactString() == val.Val().ExactString()
	}
	var result []ptemplate
	done := false
	var run func(list []ast.Stmt) string
	run = func(list []ast.Stmt) string {
		for _, st := range list {
			if done {
				return ""
			}
			switch x := st.(type) {
			case *ast.DeclStmt:
				gd, ok := x.Decl.(*ast.GenDecl)
				if !ok {
					return "unsupported declaration"
				}
				for _, sp := range gd.Specs {
					vs, ok := sp.(*ast.ValueSpec)
					if !ok {
						continue
					}
					for i, id := range vs.Names {
						v, _ := info.Defs[id].(*types.Var)
						if v == nil {
							continue
						}
						if i < len(vs.Values) {
							env[v] = pe.evalExpr(f, vs.Values[i], env)
						} else {
							env[v] = litT("")
						}
					}
				}
			case *ast.AssignStmt:
				if len(x.Lhs) != len(x.Rhs) {
					return "unsupported assignment"
				}
				for i, l := range x.Lhs {
					id, ok := ast.Unparen(l).(*ast.Ident)
					if !ok {
						return "unsupported assignment target"
					}
					v, _ := info.ObjectOf(id).(*types.Var)
					if v == nil {
						return "unsupported assignment target"
					}
					if x.Tok == token.ADD_ASSIGN {
						env[v] = cross(env[v], pe.evalExpr(f, x.Rhs[i], env))
					} else {
						env[v] = pe.evalExpr(f, x.Rhs[i], env)
					}
				}
			case *ast.SwitchStmt:
				if x.Init != nil || x.Tag == nil || !isState(x.Tag) {
					return "switch on something else than the state parameter"
				}
				var chosen, def *ast.CaseClause
				for _, cst := range x.Body.List {
					cc := cst.(*ast.CaseClause)
					if cc.List == nil {
						def = cc
						continue
					}
					for _, e := range cc.List {
						isC, eq := isVal(e)
						if !isC {
							return "non-constant case"
						}
						if eq && chosen == nil {
							chosen = cc
						}
					}
				}
				if chosen == nil {
					chosen = def
				}
				if chosen != nil {
					if msg := run(chosen.Body); msg != "" {
						return msg
					}
				}
			case *ast.IfStmt:
				if x.Init != nil {
					return "if with init"
				}
				be, ok := ast.Unparen(x.Cond).(*ast.BinaryExpr)
				if !ok || (be.Op != token.EQL && be.Op != token.NEQ) {
					return "unsupported condition " + exprString(x.Cond)
				}
				var other ast.Expr
				switch {
				case isState(be.X):
					other = be.Y
				case isState(be.Y):
					other = be.X
				default:
					return "condition not on the state parameter"
				}
				isC, eq := isVal(other)
				if !isC {
					return "state compared with a non-constant"
				}
				taken := eq == (be.Op == token.EQL)
				if taken {
					if msg := run(x.Body.List); msg != "" {
						return msg
					}
				} else if x.Else != nil {
					switch e := x.Else.(type) {
					case *ast.BlockStmt:
						if msg := run(e.List); msg != "" {
							return msg
						}
					case *ast.IfStmt:
						if msg := run([]ast.Stmt{e}); msg != "" {
							return msg
						}
					}
				}
			case *ast.ReturnStmt:
				if len(x.Results) != 1 {
					return "unsupported return"
				}
				result = pe.evalExpr(f, x.Results[0], env)
				done = true
				return ""
			case *ast.BlockStmt:
				if msg := run(x.List); msg != "" {
					return msg
				}
			default:
				return "unsupported statement"
			}
		}
		return ""
	}
	if stateVar == nil {
		return nil, "no state parameter"
	}
	if msg := run(f.Decl.Body.List); msg != "" {
		return nil, msg
	}
	if pe.fail != "" {
		return nil, pe.fail
	}
	if !done {
		return nil, "no return reached"
	}
	return result, ""
}
