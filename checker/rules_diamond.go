package main

import (
	"go/ast"
	"go/token"
	"go/types"
	"sort"
	"strings"

	"golang.org/x/tools/go/cfg"
)

// C11, C12 — diamond merge and commit protocol: structural clauses.

func init() {
	register(&propSpec{
		id: "C11",
		explanation: "Static structural clauses for the diamond merge: (1) ownership pairing: every entry stored in the merge index pairs a file entry with the split that uploaded it — an entry built from the incoming file carries the incoming split ID, the stored `existing` entry is only ever renamed (never re-filled), and each deconflicter call takes the split ID of the entry it renames; " +
			"(2) mode table: identical hashes are skipped before any timestamp logic; the newer-file branch handles ignore/self, forbid and deconflict; the older-file branch handles conflicts+checkpoints and forbid, and inserts nothing in ignore mode; NewDiamond maps checkpoints to GenerateCheckpointPath and conflicts to GenerateConflictPath, which build .checkpoints/{split}/{path} and .conflicts/{split}/{path}; " +
			"(3) arbitration is by upload time only: the winner test is file.Timestamp.After(existing.Timestamp) and fileIndex.pack stamps every entry with time.Now() as it is packed; the main-tree insert uses the incoming entry unchanged; " +
			"(4) hand-off: downloadAll/downloadIndex obey the fan-out protocol, the merger's output channel is closed only after the merger finished, and on a download error nothing is published. " +
			"Not decided: order independence under equal timestamps, full permutation invariance, single-split == plain upload.",
		run: runC11,
	})
	register(&propSpec{
		id: "C12",
		explanation: "Static structural clauses for the diamond commit protocol: (a) implCommit: diamondReady dominates every write; the DiamondDone descriptor is written only by the deferred step and only on the nil-error branch (after the bundle descriptor); diamond and split descriptors are written with the constant NoOverWrite; " +
			"(b) Cancel refuses done/canceled diamonds and diamondReady accepts only the initialized state (switch tables over DiamondState); a failed read of the done descriptor is not mistaken for 'not done' (fallback to the running descriptor only on ErrNotExists); " +
			"(c) CreateSplit checks diamondReady first and refuses SplitDone; Split.implUpload refuses SplitDone, draws a fresh generation ID before uploading, writes split-done last; file-list paths embed the generation of the descriptor and the commit reads lists from the generation recorded in each done descriptor; " +
			"(d) only SplitDone splits are collected. Not decided: the protocol itself under concurrent commits (an interleaving property).",
		run: runC12,
	})
	addWitness(witness{Prop: "C11", Name: "loser-filed-under-winner", File: "pkg/core/diamond_commit.go",
		Old: "existing.NameWithPath = d.deconflicter(existing.ID, existing.NameWithPath)", New: "existing.NameWithPath = d.deconflicter(splitID, existing.NameWithPath)",
		Expect: "ownership"})
	addWitness(witness{Prop: "C11", Name: "winner-keeps-old-owner", File: "pkg/core/diamond_commit.go",
		Old:    "\t\t\t\t\t\t// overwrite with new version\n\t\t\t\t\t\tmergeIndex, _, _ = mergeIndex.Insert(key, mergeEntry{BundleEntry: file, ID: splitID})",
		New:    "\t\t\t\t\t\t// overwrite with new version\n\t\t\t\t\t\texisting.BundleEntry = file\n\t\t\t\t\t\tmergeIndex, _, _ = mergeIndex.Insert(key, existing)",
		Expect: "ownership"})
	addWitness(witness{Prop: "C11", Name: "timestamp-hoisted", File: "pkg/core/index.go",
		Old: "\t\t\tentry.Timestamp = time.Now() // this registers the time of upload (used to disambiguate conflicts)", New: "\t\t\tentry.Timestamp = time.Now().Truncate(time.Hour)",
		Expect: "stamped-at-upload"})
	addWitness(witness{Prop: "C11", Name: "hash-skip-after-timestamp", File: "pkg/core/diamond_commit.go",
		Old: "\t\t\t\tif file.Hash == existing.Hash {\n\t\t\t\t\tcontinue\n\t\t\t\t}\n", New: "",
		Expect: "mode-table"})
	addWitness(witness{Prop: "C11", Name: "ignore-mode-files-conflicts", File: "pkg/core/diamond_commit.go",
		Old: "\t\t\t\t\tcase model.EnableConflicts, model.EnableCheckpoints:\n\t\t\t\t\t\tnewEntry := file", New: "\t\t\t\t\tcase model.EnableConflicts, model.EnableCheckpoints, model.IgnoreConflicts:\n\t\t\t\t\t\tnewEntry := file",
		Expect: "mode-table"})
	addWitness(witness{Prop: "C11", Name: "checkpoints-use-conflict-path", File: "pkg/core/diamond.go",
		Old: "\t\tcase model.EnableCheckpoints:\n\t\t\tdiamond.deconflicter = model.GenerateCheckpointPath", New: "\t\tcase model.EnableCheckpoints:\n\t\t\tdiamond.deconflicter = model.GenerateConflictPath",
		Expect: "mode-table"})
	addWitness(witness{Prop: "C11", Name: "close-before-merger-done", File: "pkg/core/diamond_commit.go",
		Old: "\t// signals the recipient to end with channel close rather than done signal\n\twg.Wait()\n", New: "\t// signals the recipient to end with channel close rather than done signal\n",
		Expect: "hand-off"})
	addWitness(witness{Prop: "C12", Name: "done-descriptor-overwrite", File: "pkg/core/diamond.go",
		Old: "\treturn d.writeMetadata(dest, storage.NoOverWrite, buffer)", New: "\treturn d.writeMetadata(dest, storage.OverWrite, buffer)",
		Expect: "no-overwrite"})
	addWitness(witness{Prop: "C12", Name: "done-read-error-means-running", File: "pkg/core/diamond.go",
		Old:    "\t\tif !errors.Is(err, storagestatus.ErrNotExists) {\n\t\t\treturn err\n\t\t}\n\t\t// try retrieving descriptor in initial state\n\t\tsrc = model.GetArchivePathToInitialDiamond(",
		New:    "\t\tif errors.Is(err, storagestatus.ErrNotExists) {\n\t\t\td.l.Debug(\"diamond not done\")\n\t\t}\n\t\t// try retrieving descriptor in initial state\n\t\tsrc = model.GetArchivePathToInitialDiamond(",
		Expect: "terminal-state-read"})
	addWitness(witness{Prop: "C12", Name: "commit-writes-before-ready-check", File: "pkg/core/diamond_commit.go",
		Old:    "\tif err = diamondReady(d.RepoID, d.DiamondDescriptor.DiamondID, d.contextStores); err != nil {\n\t\treturn errors.New(\"cannot proceed with diamond commit\").WrapWithLog(logger, err)\n\t}\n",
		New:    "",
		Expect: "ready-first"})
	addWitness(witness{Prop: "C12", Name: "cancel-accepts-done", File: "pkg/core/diamond_commit.go",
		Old: "\tcase model.DiamondCanceled, model.DiamondDone:", New: "\tcase model.DiamondCanceled:",
		Expect: "state-tables"})
	addWitness(witness{Prop: "C12", Name: "done-written-on-failure", File: "pkg/core/diamond_commit.go",
		Old:    "\t\tif err != nil {\n\t\t\t// TODO(fred): nice - last ditch check done automatically with nooverwrite: problem is error qualification...\n\t\t\tlogger.Error(\"diamond commit failed\", zap.Error(err))\n\t\t\treturn\n\t\t}",
		New:    "\t\tif err != nil {\n\t\t\t// TODO(fred): nice - last ditch check done automatically with nooverwrite: problem is error qualification...\n\t\t\tlogger.Error(\"diamond commit failed\", zap.Error(err))\n\t\t}",
		Expect: "done-after-bundle"})
	addWitness(witness{Prop: "C12", Name: "generation-reused", File: "pkg/core/split.go",
		Old: "\ts.SplitDescriptor.GenerationID = generationID.String()\n", New: "\tif s.SplitDescriptor.GenerationID == \"\" {\n\t\ts.SplitDescriptor.GenerationID = generationID.String()\n\t}\n",
		Expect: "fresh-generation"})
	addWitness(witness{Prop: "C12", Name: "running-splits-collected", File: "pkg/core/diamond_commit.go",
		Old: "\t\t\tif sd.State == model.SplitDone {\n\t\t\t\tsplits = append(splits, sd)\n\t\t\t}", New: "\t\t\tsplits = append(splits, sd)",
		Expect: "done-splits-only"})
	addWitness(witness{Prop: "C12", Name: "commit-reads-latest-generation", File: "pkg/core/index_iterators.go",
		Old:    "return model.GetArchivePathToSplitFileList(sp.repoID, sp.diamondID, sp.splits[sp.i-1].SplitID, sp.splits[sp.i-1].GenerationID, index)",
		New:    "return model.GetArchivePathToSplitFileList(sp.repoID, sp.diamondID, sp.splits[sp.i-1].SplitID, sp.splits[0].GenerationID, index)",
		Expect: "generation-paths"})
}

// mergerLit finds the merger goroutine literal of mergeSplits (the literal ranging over the input channel).
func mergerLit(f *FuncInfo) *ast.FuncLit {
	info := f.Info()
	for _, l := range f.Lits {
		found := false
		ast.Inspect(l.Body, func(n ast.Node) bool {
			if rs, ok := n.(*ast.RangeStmt); ok {
				if ch, ok := info.TypeOf(rs.X).Underlying().(*types.Chan); ok && namedTypeID(ch.Elem()) == "pkg/core.bundleEntriesRes" {
					found = true
				}
			}
			return true
		})
		if found {
			return l
		}
	}
	return nil
}

func runC11(c *Ctx) {
	p := c.P
	c.assume("split file lists carry the upload time stamped by fileIndex.pack; clocks of concurrent splits are comparable")
	f := p.Func("pkg/core.Diamond.mergeSplits")
	info := f.Info()
	lit := mergerLit(f)
	if lit == nil {
		undecided("merger literal of mergeSplits not found")
	}
	lb := p.LitBody(f, lit)
	// identify the roles: file (range value over BundleEntries), splitID (from res.id), existing (type assertion to mergeEntry)
	var fileVar, splitVar, existVar *types.Var
	ast.Inspect(lit.Body, func(n ast.Node) bool {
		switch x := n.(type) {
		case *ast.RangeStmt:
			if strings.HasSuffix(exprString(x.X), ".BundleEntries") {
				if id, ok := x.Value.(*ast.Ident); ok {
					fileVar, _ = info.Defs[id].(*types.Var)
				}
			}
		case *ast.AssignStmt:
			if len(x.Lhs) == 1 && len(x.Rhs) == 1 {
				if id, ok := x.Lhs[0].(*ast.Ident); ok {
					if strings.HasSuffix(exprString(x.Rhs[0]), ".id") && x.Tok == token.DEFINE {
						splitVar, _ = info.Defs[id].(*types.Var)
					}
					if ta, ok := x.Rhs[0].(*ast.TypeAssertExpr); ok && ta.Type != nil && namedTypeID(info.TypeOf(ta.Type)) == "pkg/core.mergeEntry" && x.Tok == token.DEFINE && existVar == nil {
						existVar, _ = info.Defs[id].(*types.Var)
					}
				}
			}
		}
		return true
	})
	if fileVar == nil || splitVar == nil || existVar == nil {
		undecided("mergeSplits changed shape: cannot identify the incoming file, the incoming split ID and the existing entry")
	}
	derivesFromFile := func(e ast.Expr) bool {
		e = ast.Unparen(e)
		id, ok := e.(*ast.Ident)
		if !ok {
			return false
		}
		v, _ := info.Uses[id].(*types.Var)
		if v == fileVar {
			return true
		}
		// newEntry := file
		for _, d := range defsOfVar(f, v) {
			if did, ok := ast.Unparen(d).(*ast.Ident); ok && info.Uses[did] == fileVar {
				return true
			}
		}
		return false
	}
	// (1) ownership
	nIns := 0
	ast.Inspect(lit.Body, func(n ast.Node) bool {
		call, ok := n.(*ast.CallExpr)
		if !ok || !strings.HasSuffix(calleeID(info, call), "go-immutable-radix.Tree.Insert") || len(call.Args) != 2 {
			return true
		}
		nIns++
		key := "mergeSplits:Insert#" + itoa(nIns)
		switch v := ast.Unparen(call.Args[1]).(type) {
		case *ast.CompositeLit:
			be, idv := fieldOfCompositeLit(v, "BundleEntry"), fieldOfCompositeLit(v, "ID")
			okPair := be != nil && idv != nil && derivesFromFile(be) && isVar(info, idv, splitVar)
			c.check(okPair, "ownership.inserted-pairs", key, p.Pos(call.Pos()), "an entry built from the incoming file carries the incoming split ID",
				"a merge entry pairs `"+exprString(be)+"` with split `"+exprString(idv)+"`: an entry built from the incoming file must carry the incoming split's ID, otherwise a later conflict files it under the wrong split")
		case *ast.Ident:
			c.check(info.Uses[v] == existVar, "ownership.inserted-pairs", key, p.Pos(call.Pos()), "the stored entry is re-inserted (renamed) as a whole", "an unexpected value `"+v.Name+"` is inserted in the merge index")
		default:
			c.fail("ownership.inserted-pairs", key, p.Pos(call.Pos()), "an unexpected value is inserted in the merge index")
		}
		return true
	})
	c.requireInstances("ownership.inserted-pairs", 4)
	// the stored entry is only renamed
	okOnlyRename := true
	var badAssign ast.Node
	ast.Inspect(lit.Body, func(n ast.Node) bool {
		as, ok := n.(*ast.AssignStmt)
		if !ok {
			return true
		}
		for _, l := range as.Lhs {
			if sel, ok := ast.Unparen(l).(*ast.SelectorExpr); ok {
				if id, ok := ast.Unparen(sel.X).(*ast.Ident); ok && info.Uses[id] == existVar && sel.Sel.Name != "NameWithPath" {
					okOnlyRename = false
					badAssign = as
				}
			}
		}
		return true
	})
	pos := p.Pos(lit.Pos())
	if badAssign != nil {
		pos = p.Pos(badAssign.Pos())
	}
	c.check(okOnlyRename, "ownership.existing-only-renamed", "mergeSplits:existing", pos, "the stored entry is only ever renamed", "a field other than NameWithPath of the stored entry is overwritten (e.g. its BundleEntry replaced by the incoming file) while its split ID stays: the new winner is recorded under the previous winner's split")
	// deconflicter calls
	nDec := 0
	ast.Inspect(lit.Body, func(n ast.Node) bool {
		call, ok := n.(*ast.CallExpr)
		if !ok || calleeID(info, call) != "field:deconflicter" || len(call.Args) != 2 {
			return true
		}
		nDec++
		key := "mergeSplits:deconflicter#" + itoa(nDec)
		// what does the result rename?
		par := lb.parent[call]
		target := ""
		if as, ok := par.(*ast.AssignStmt); ok && len(as.Lhs) == 1 {
			target = exprString(as.Lhs[0])
		}
		a0, a1 := ast.Unparen(call.Args[0]), exprString(call.Args[1])
		okOwner := false
		why := ""
		if strings.HasPrefix(target, existVarName(existVar)+".") {
			// renames the stored entry: owner must be existing.ID
			if sel, ok := a0.(*ast.SelectorExpr); ok && sel.Sel.Name == "ID" {
				if id, ok := ast.Unparen(sel.X).(*ast.Ident); ok && info.Uses[id] == existVar {
					okOwner = true
				}
			}
			why = "renames the stored (superseded) entry: the owner must be " + existVarName(existVar) + ".ID"
		} else {
			// renames / keys the incoming (older) file: owner must be the incoming split
			okOwner = isVar(info, a0, splitVar)
			why = "files the incoming (older) version: the owner must be the incoming split ID"
		}
		okPath := strings.HasSuffix(a1, ".NameWithPath")
		c.check(okOwner && okPath, "ownership.deconflicter-owner", key, p.Pos(call.Pos()), why+" — ok ("+exprString(a0)+")",
			"deconflicter("+exprString(a0)+", "+a1+") "+why+": the losing version is filed under a split that did not upload it, and the result depends on the order in which file lists arrive")
		return true
	})
	c.requireInstances("ownership.deconflicter-owner", 3)

	// (2) mode table
	{
		// hash equality skip dominates the timestamp test
		const noSkip, skipped = 1, 2
		bad := false
		nAfter := 0
		lb.run(flowSpec{entry: noSkip,
			node: func(n ast.Node, s uint64) uint64 {
				ast.Inspect(n, func(m ast.Node) bool {
					if call, ok := m.(*ast.CallExpr); ok {
						if fn, ok := calleeObj(info, call).(*types.Func); ok && fn.Name() == "After" && funcID(fn) == "time.Time.After" {
							nAfter++
							if s&noSkip != 0 {
								bad = true
							}
						}
					}
					return true
				})
				return s
			},
			edge: func(blk *cfg.Block, i int, s uint64) uint64 {
				if cond := condOf(blk); cond != nil {
					if be, ok := ast.Unparen(cond).(*ast.BinaryExpr); ok && be.Op == token.EQL && strings.HasSuffix(exprString(be.X), ".Hash") && strings.HasSuffix(exprString(be.Y), ".Hash") {
						if i == 1 {
							return skipped
						}
						return s
					}
					// new iteration of the entries loop resets
				}
				if blk.Kind == cfg.KindRangeLoop {
					return noSkip
				}
				return s
			}})
		c.check(nAfter == 1 && !bad, "mode-table.identical-skipped-first", "mergeSplits:hash-eq", p.Pos(lit.Pos()), "identical contents are skipped before the timestamp arbitration", "the timestamp arbitration can run for two entries with identical hashes: identical contents would be reported as conflicts")
		// hash-eq branch continues
		okCont := false
		ast.Inspect(lit.Body, func(n ast.Node) bool {
			if ifs, ok := n.(*ast.IfStmt); ok {
				if be, ok := ast.Unparen(ifs.Cond).(*ast.BinaryExpr); ok && be.Op == token.EQL && strings.HasSuffix(exprString(be.X), ".Hash") && strings.HasSuffix(exprString(be.Y), ".Hash") && len(ifs.Body.List) == 1 {
					if br, ok := ifs.Body.List[0].(*ast.BranchStmt); ok && br.Tok == token.CONTINUE {
						okCont = true
					}
				}
			}
			return true
		})
		c.check(okCont, "mode-table.identical-skipped-first", "mergeSplits:hash-eq-continue", p.Pos(lit.Pos()), "equal hashes -> continue", "the equal-hash test no longer skips the entry")
		// arbitration expression
		okArb := false
		var arbIf *ast.IfStmt
		ast.Inspect(lit.Body, func(n ast.Node) bool {
			if ifs, ok := n.(*ast.IfStmt); ok {
				if call, ok := ast.Unparen(ifs.Cond).(*ast.CallExpr); ok {
					if sel, ok := ast.Unparen(call.Fun).(*ast.SelectorExpr); ok && sel.Sel.Name == "After" && len(call.Args) == 1 {
						recv, arg := exprString(sel.X), exprString(call.Args[0])
						if recv == fileVar.Name()+".Timestamp" && arg == existVarName(existVar)+".Timestamp" {
							okArb = true
							arbIf = ifs
						}
					}
				}
			}
			return true
		})
		c.check(okArb, "arbitration.by-upload-time", "mergeSplits:winner-test", p.Pos(lit.Pos()), "the incoming entry wins iff file.Timestamp.After(existing.Timestamp)", "the winner test is no longer file.Timestamp.After(existing.Timestamp)")
		if arbIf != nil {
			// newer branch: switch {case ignore||same: insert; case forbid: error+return; default: deconflict}
			var newerSw, olderSw *ast.SwitchStmt
			for _, st := range arbIf.Body.List {
				if s, ok := st.(*ast.SwitchStmt); ok {
					newerSw = s
				}
			}
			for _, st := range elseOrRest(f, arbIf) {
				if s, ok := st.(*ast.SwitchStmt); ok {
					olderSw = s
				}
			}
			modesIn := func(cc *ast.CaseClause) []string {
				var ms []string
				ast.Inspect(cc, func(m ast.Node) bool {
					if cc2, ok := m.(*ast.CaseClause); ok && cc2 != cc {
						return false
					}
					return true
				})
				for _, e := range cc.List {
					ast.Inspect(e, func(m ast.Node) bool {
						if sel, ok := m.(*ast.SelectorExpr); ok {
							if cst, ok := info.Uses[sel.Sel].(*types.Const); ok && namedTypeID(cst.Type()) == "pkg/model.ConflictMode" {
								ms = append(ms, cst.Name())
							}
						}
						return true
					})
				}
				sort.Strings(ms)
				return ms
			}
			clauseActs := func(cc *ast.CaseClause) (inserts, decon, errs int, returns bool) {
				for _, st := range cc.Body {
					ast.Inspect(st, func(m ast.Node) bool {
						if call, ok := m.(*ast.CallExpr); ok {
							id := calleeID(info, call)
							if strings.HasSuffix(id, "go-immutable-radix.Tree.Insert") {
								inserts++
							}
							if id == "field:deconflicter" {
								decon++
							}
						}
						if _, ok := m.(*ast.SendStmt); ok {
							errs++
						}
						if _, ok := m.(*ast.ReturnStmt); ok {
							returns = true
						}
						return true
					})
				}
				return
			}
			if newerSw == nil || olderSw == nil {
				c.fail("mode-table.branches", "mergeSplits", p.Pos(arbIf.Pos()), "the newer/older branches no longer dispatch on the conflict mode with a switch")
			} else {
				var rows []string
				for _, st := range newerSw.Body.List {
					cc := st.(*ast.CaseClause)
					ins, dec, errs, ret := clauseActs(cc)
					ms := modesIn(cc)
					name := strings.Join(ms, "+")
					if cc.List == nil {
						name = "default"
					}
					rows = append(rows, name+":ins="+itoa(ins)+",dec="+itoa(dec)+",err="+itoa(errs)+",ret="+boolS(ret))
				}
				want := "IgnoreConflicts:ins=1,dec=0,err=0,ret=false;ForbidConflicts:ins=0,dec=0,err=1,ret=true;default:ins=2,dec=1,err=0,ret=false"
				c.check(strings.Join(rows, ";") == want, "mode-table.newer-branch", "mergeSplits:newer", p.Pos(newerSw.Pos()), strings.Join(rows, ";"),
					"newer-file branch handles modes as ["+strings.Join(rows, ";")+"], expected ["+want+"] (ignore/self: replace; forbid: error and stop; otherwise: move the superseded entry to its conflict location and replace)")
				rows = nil
				for _, st := range olderSw.Body.List {
					cc := st.(*ast.CaseClause)
					ins, dec, errs, ret := clauseActs(cc)
					ms := modesIn(cc)
					name := strings.Join(ms, "+")
					if cc.List == nil {
						name = "default"
					}
					rows = append(rows, name+":ins="+itoa(ins)+",dec="+itoa(dec)+",err="+itoa(errs)+",ret="+boolS(ret))
				}
				want = "EnableCheckpoints+EnableConflicts:ins=1,dec=2,err=0,ret=false;ForbidConflicts:ins=0,dec=0,err=1,ret=true"
				c.check(strings.Join(rows, ";") == want, "mode-table.older-branch", "mergeSplits:older", p.Pos(olderSw.Pos()), strings.Join(rows, ";"),
					"older-file branch handles modes as ["+strings.Join(rows, ";")+"], expected ["+want+"] (conflicts/checkpoints: file the older version under its own split; forbid: error; ignore: nothing)")
			}
			// main-tree insert uses the incoming entry unchanged: Insert(key, mergeEntry{BundleEntry: file ...}) with key = []byte(file.NameWithPath)
			okKey := false
			ast.Inspect(lit.Body, func(n ast.Node) bool {
				if as, ok := n.(*ast.AssignStmt); ok && len(as.Lhs) == 1 && len(as.Rhs) == 1 {
					// <key variable> := []byte(<incoming entry>.NameWithPath), whatever the variables are called
					if cv, ok := ast.Unparen(as.Rhs[0]).(*ast.CallExpr); ok && len(cv.Args) == 1 {
						if tv, ok := info.Types[cv.Fun]; ok && tv.IsType() {
							if sel, ok := ast.Unparen(cv.Args[0]).(*ast.SelectorExpr); ok && sel.Sel.Name == "NameWithPath" {
								if id, ok := ast.Unparen(sel.X).(*ast.Ident); ok && info.Uses[id] == fileVar {
									okKey = true
								}
							}
						}
					}
				}
				return true
			})
			c.check(okKey, "arbitration.main-tree-key", "mergeSplits:key", p.Pos(lit.Pos()), "the merge key is the incoming entry's path", "the merge index is no longer keyed by the incoming entry's NameWithPath")
		}
		// NewDiamond mapping
		nd := p.Func("pkg/core.NewDiamond")
		ninfo := nd.Info()
		got := map[string]string{}
		ast.Inspect(nd.Decl.Body, func(n ast.Node) bool {
			cc, ok := n.(*ast.CaseClause)
			if !ok {
				return true
			}
			name := "default"
			if len(cc.List) == 1 {
				if sel, ok := ast.Unparen(cc.List[0]).(*ast.SelectorExpr); ok {
					name = sel.Sel.Name
				}
			}
			for _, st := range cc.Body {
				if as, ok := st.(*ast.AssignStmt); ok && strings.HasSuffix(exprString(as.Lhs[0]), ".deconflicter") {
					got[name] = describeExpr(nd, as.Rhs[0], 0)
				}
				if br, ok := st.(*ast.BranchStmt); ok && br.Tok == token.FALLTHROUGH {
					got[name] = "fallthrough"
				}
			}
			return true
		})
		_ = ninfo
		okMap := got["EnableCheckpoints"] == "func:pkg/model.GenerateCheckpointPath" && got["default"] == "func:pkg/model.GenerateConflictPath" && got["EnableConflicts"] == "fallthrough" && got["ForbidConflicts"] == "funclit"
		c.check(okMap, "mode-table.deconflicter-by-mode", nd.ID, p.Pos(nd.Decl.Pos()), "checkpoints -> GenerateCheckpointPath, conflicts/default -> GenerateConflictPath, forbid -> must-not-call", "NewDiamond maps conflict modes to renaming functions as "+mapS(got))
		for _, g := range []struct{ id, want string }{{"pkg/model.GenerateConflictPath", ".conflicts/{0}/{1}"}, {"pkg/model.GenerateCheckpointPath", ".checkpoints/{0}/{1}"}} {
			ts, why := evalBuilder(p, p.Func(g.id))
			c.check(why == "" && len(ts) == 1 && ts[0].String() == g.want, "mode-table.conflict-paths", g.id, p.Pos(p.Func(g.id).Decl.Pos()), "builds "+g.want, g.id+" no longer builds "+g.want)
		}
	}
	// (3) pack stamps each entry
	{
		pk := p.Func("pkg/core.fileIndex.pack")
		okStamp := false
		var loop ast.Node
		ast.Inspect(pk.Decl.Body, func(n ast.Node) bool {
			if fs, ok := n.(*ast.ForStmt); ok && loop == nil {
				loop = fs
			}
			if as, ok := n.(*ast.AssignStmt); ok && len(as.Lhs) == 1 && strings.HasSuffix(exprString(as.Lhs[0]), ".Timestamp") {
				if describeExpr(pk, as.Rhs[0], 0) == "call:time.Now()" && loop != nil && containsNode(loop, as) {
					// the clock must be read inside the loop, for this entry: a direct call, or a local defined in the loop
					switch r := ast.Unparen(as.Rhs[0]).(type) {
					case *ast.CallExpr:
						okStamp = true
					case *ast.Ident:
						if v, ok := pk.Info().Uses[r].(*types.Var); ok && v.Pos() > loop.Pos() && v.Pos() < loop.End() {
							okStamp = true
						}
					}
				}
			}
			return true
		})
		c.check(okStamp, "arbitration.stamped-at-upload", pk.ID, p.Pos(pk.Decl.Pos()), "every packed entry is stamped with time.Now() when it is received", "fileIndex.pack no longer stamps each entry with time.Now() as it is packed (e.g. one timestamp per split): the commit arbitrates on it, so overlapping splits resolve to a stale version")
		me := p.Func("pkg/core.mergeEntryToFilePacked")
		for _, cl := range compositeLits(me, "pkg/core.filePacked") {
			checkLitFields(c, "arbitration.output-plumbing", me, cl, me.ID+":filePacked", map[string]string{"hash": "param#0.Hash", "name": "param#0.NameWithPath", "size": "param#0.Size"}, "the committed bundle would not list the merged entries")
		}
	}
	// (4) hand-off
	{
		checkFanoutCoordinator(c, "hand-off.fanout", p.BodyOf(p.Func("pkg/core.fileIndex.downloadAll")), semNamesCore, sendOn("doneOk"))
		checkFanoutWorker(c, "hand-off.fanout", p.BodyOf(p.Func("pkg/core.fileIndex.downloadIndex")), semNamesCore)
		// close(filePackedC) dominated by wg.Wait() after the merger; not reachable on the download-error path
		b := p.BodyOf(f)
		const st0, waited, failed = 1, 2, 4
		badClose := false
		nClose := 0
		b.run(flowSpec{entry: st0,
			node: func(n ast.Node, s uint64) uint64 {
				for _, call := range callsIn(n) {
					id := calleeID(info, call)
					if id == "sync.WaitGroup.Wait" {
						// the wait group local to mergeSplits (the merger's), not the caller's passed as parameter
						if rid, ok := ast.Unparen(ast.Unparen(call.Fun).(*ast.SelectorExpr).X).(*ast.Ident); ok {
							if v, ok := info.Uses[rid].(*types.Var); ok && paramIndex(f, v) < 0 {
								s |= waited
							}
						}
					}
					if id == "builtin.close" && len(call.Args) == 1 && describeExpr(f, call.Args[0], 0) == "param#0" {
						nClose++
						if s&waited == 0 || s&failed != 0 {
							badClose = true
						}
					}
				}
				return s
			},
			edge: func(blk *cfg.Block, i int, s uint64) uint64 {
				if cond := condOf(blk); cond != nil && strings.Contains(exprString(cond), "Download()") || cond != nil && strings.Contains(describeExpr(f, cond, 0), ".Download()") {
					if i == 0 {
						return s | failed
					}
				}
				return s
			}})
		c.check(nClose == 1 && !badClose, "hand-off.close-after-merger", f.ID, p.Pos(f.Decl.Pos()), "the output channel is closed only after the merger goroutine finished and never on the download-error path", "mergeSplits can close its output channel before the merger finished (entries are lost / send on closed channel) or after a failed download (a partial merge is published)")
		// implCommit: merge started before Upload consumes; covered by C06 for descriptor ordering
		ic := p.Func("pkg/core.Diamond.implCommit")
		icb := p.BodyOf(ic)
		bad, nB := icb.dominatedBy(func(bd *Body, call *ast.CallExpr) bool {
			return calleeID(bd.Info(), call) == "pkg/core.Diamond.collectSplits"
		}, callTo("pkg/core.fileIndex.Upload"))
		c.check(nB == 1 && len(bad) == 0, "hand-off.splits-collected-first", ic.ID, p.Pos(ic.Decl.Pos()), "the splits are collected before the merge output is uploaded", "implCommit uploads the merged index before collecting the splits")
	}
	checkIteratorNilOnlyAtExhaustion(c, "hand-off.iterator-nil-at-exhaustion")
	checkGenericErrorDiscipline(c, "pkg/core")
}

func existVarName(v *types.Var) string { return v.Name() }
func boolS(b bool) string {
	if b {
		return "true"
	}
	return "false"
}
func mapS(m map[string]string) string {
	var ks []string
	for k := range m {
		ks = append(ks, k)
	}
	sort.Strings(ks)
	var out []string
	for _, k := range ks {
		out = append(out, k+"->"+m[k])
	}
	return strings.Join(out, ", ")
}

// ---------------------------------------------------------------------------------------------------

func runC12(c *Ctx) {
	p := c.P
	c.assume("NoOverWrite is an atomic create-if-absent on the vmetadata store; two commits that both pass diamondReady before either writes diamond-done are outside what a shape-of-code rule can exclude (see DESIGN)")
	ic := p.Func("pkg/core.Diamond.implCommit")
	icb := p.BodyOf(ic)
	info := ic.Info()
	// (a) ready first
	{
		writers := callTo("pkg/core.uploadBundleDescriptor", "pkg/core.fileIndex.Upload", "pkg/core.Diamond.uploadDescriptor", "pkg/core.Diamond.mergeSplits")
		bad, nB := icb.dominatedBy(callTo("pkg/core.diamondReady"), writers)
		c.check(nB >= 2 && len(bad) == 0, "ready-first.commit", ic.ID, p.Pos(ic.Decl.Pos()), "diamondReady dominates every write of the commit", "implCommit can write (index files, bundle descriptor) without having checked that the diamond is still open: a done or canceled diamond is committed again")
		checkErrDiscipline(c, "ready-first.commit", ic, func(id string) bool { return id == "pkg/core.diamondReady" || id == "pkg/core.RepoExists" }, nil)
		checkNoSwallow(c, "ready-first.commit", ic, func(id string) bool { return id == "pkg/core.diamondReady" }, nil)
		// the deferred completion step
		var dlit *ast.FuncLit
		for _, d := range icb.defers {
			if l, ok := ast.Unparen(d.Call.Fun).(*ast.FuncLit); ok {
				has := false
				ast.Inspect(l.Body, func(n ast.Node) bool {
					if call, ok := n.(*ast.CallExpr); ok && calleeID(info, call) == "pkg/core.Diamond.uploadDescriptor" {
						has = true
					}
					return true
				})
				if has {
					dlit = l
				}
			}
		}
		if dlit == nil {
			c.fail("done-after-bundle", ic.ID, p.Pos(ic.Decl.Pos()), "no deferred step writing the final diamond descriptor found")
		} else {
			db := p.LitBody(ic, dlit)
			errV := icb.namedErrResult()
			const unk, isNil, nonNil = 1, 2, 4
			badW := false
			nW := 0
			okState := false
			db.run(flowSpec{entry: unk,
				node: func(n ast.Node, s uint64) uint64 {
					for _, call := range callsIn(n) {
						switch calleeID(info, call) {
						case "pkg/core.Diamond.uploadDescriptor":
							nW++
							if s&(unk|nonNil) != 0 {
								badW = true
							}
						case "pkg/core.Diamond.WithState":
							if len(call.Args) == 1 && strings.HasSuffix(exprString(call.Args[0]), ".DiamondDone") {
								okState = true
							}
						}
					}
					return s
				},
				edge: func(blk *cfg.Block, i int, s uint64) uint64 {
					cond := condOf(blk)
					if cond == nil || errV == nil {
						return s
					}
					var r int
					if i == 0 {
						r = condNilness(info, cond, errV)
					} else {
						r = condNilnessWhenFalse(info, cond, errV)
					}
					switch r {
					case +1:
						return nonNil
					case -1:
						return isNil
					}
					return s
				}})
			c.check(nW == 1 && !badW && okState, "done-after-bundle", ic.ID+":deferred", p.Pos(dlit.Pos()), "the DiamondDone descriptor is written only when the commit body returned nil (i.e. after the bundle descriptor)", "the deferred step can write the done descriptor although the commit failed (or writes another state): the diamond is closed without a bundle")
			// a failed done-write is the commit's verdict: its error is stored in the named result
			okVerdict := false
			ast.Inspect(dlit.Body, func(n ast.Node) bool {
				as, ok := n.(*ast.AssignStmt)
				if !ok || as.Tok != token.ASSIGN || len(as.Lhs) != 1 || len(as.Rhs) != 1 {
					return true
				}
				call, ok := ast.Unparen(as.Rhs[0]).(*ast.CallExpr)
				if !ok || calleeID(info, call) != "pkg/core.Diamond.uploadDescriptor" {
					return true
				}
				if id, ok := ast.Unparen(as.Lhs[0]).(*ast.Ident); ok && errV != nil && info.Uses[id] == errV {
					okVerdict = true
				}
				return true
			})
			c.check(okVerdict, "done-after-bundle", ic.ID+":done-write-is-verdict", p.Pos(dlit.Pos()), "the outcome of the no-overwrite write of the done descriptor is the commit's result", "a failure to write diamond-done (lost race against another commit or a cancel, both refused by NoOverWrite) is no longer returned by Commit: two commits of one diamond both report success, or a canceled diamond reports a successful commit")
			// the defer is registered after diamondReady and is the only writer of the final state in implCommit
			var dstmt *ast.DeferStmt
			for _, d := range icb.defers {
				if ast.Unparen(d.Call.Fun) == ast.Expr(dlit) {
					dstmt = d
				}
			}
			okOrder := false
			for _, cs := range icb.findCalls(callTo("pkg/core.diamondReady"), false) {
				if dstmt != nil && cs.Pos() < dstmt.Pos() {
					okOrder = true
				}
			}
			c.check(okOrder, "done-after-bundle", ic.ID+":defer-after-ready", p.Pos(ic.Decl.Pos()), "the completion step is armed only after the readiness check passed", "the deferred completion step is registered before diamondReady: a refused commit still runs it")
			direct := icb.findCalls(callTo("pkg/core.Diamond.uploadDescriptor"), false)
			c.check(len(direct) == 0, "done-after-bundle", ic.ID+":single-writer", p.Pos(ic.Decl.Pos()), "the diamond state is written only by the deferred step", "implCommit writes the diamond descriptor outside the deferred completion step")
		}
	}
	// no-overwrite of diamond / split descriptors
	for _, s := range enumPutSites(p, "pkg/core") {
		if s.Fn.ID == "pkg/core.Diamond.uploadDescriptor" || s.Fn.ID == "pkg/core.Split.uploadDescriptor" {
			c.check(s.Mode == "NoOverWrite" && (s.Kind == "diamond-descriptor" || s.Kind == "split-descriptor"), "no-overwrite", s.Key, p.Pos(s.Call.Pos()), s.Kind+" written with the constant NoOverWrite",
				s.Fn.ID+" writes "+s.Kind+" with mode "+s.Mode+": create-if-absent of the done descriptors is the only arbiter between concurrent commits/cancels and between runs of a split")
		}
	}
	c.requireInstances("no-overwrite", 2)
	// the state in the path is the descriptor's state
	for _, x := range []struct{ fn, builder, want string }{
		{"pkg/core.Diamond.uploadDescriptor", "pkg/model.GetArchivePathToDiamond", "recv.RepoID;recv.DiamondDescriptor.DiamondID;recv.DiamondDescriptor.State"},
		{"pkg/core.Split.uploadDescriptor", "pkg/model.GetArchivePathToSplit", "recv.RepoID;recv.DiamondID;recv.SplitDescriptor.SplitID;recv.SplitDescriptor.State"},
	} {
		f := p.Func(x.fn)
		for _, cs := range callersOf(p, x.builder) {
			if cs.Fn.ID != x.fn {
				continue
			}
			var ds []string
			for _, a := range cs.Call.Args {
				ds = append(ds, describeExpr(f, a, 0))
			}
			c.check(strings.Join(ds, ";") == x.want, "no-overwrite.state-in-key", callKey(f, cs.Call), p.Pos(cs.Call.Pos()), "descriptor key built from the object's own IDs and state", x.fn+" builds its key from ("+strings.Join(ds, ";")+")")
		}
	}
	// (b) state tables
	{
		f := p.Func("pkg/core.Diamond.Cancel")
		finfo := f.Info()
		fb := p.BodyOf(f)
		var sw *ast.SwitchStmt
		ast.Inspect(f.Decl.Body, func(n ast.Node) bool {
			if s, ok := n.(*ast.SwitchStmt); ok && s.Tag != nil && strings.HasSuffix(exprString(s.Tag), ".State") {
				sw = s
			}
			return true
		})
		okRef := false
		if sw != nil {
			for _, st := range sw.Body.List {
				cc := st.(*ast.CaseClause)
				var names []string
				for _, e := range cc.List {
					if sel, ok := ast.Unparen(e).(*ast.SelectorExpr); ok {
						names = append(names, sel.Sel.Name)
					}
				}
				sort.Strings(names)
				if strings.Join(names, ",") == "DiamondCanceled,DiamondDone" && len(cc.Body) > 0 {
					if r, ok := cc.Body[len(cc.Body)-1].(*ast.ReturnStmt); ok && fb.classifyReturn(r) == retFailure {
						okRef = true
					}
				}
			}
		}
		if !okRef {
			// the same table written with ifs: the write of the canceled descriptor is reached only where the state is
			// known to be neither DiamondCanceled nor DiamondDone (guard atoms: nesting, early returns and `||` are the same)
			ast.Inspect(f.Decl.Body, func(n ast.Node) bool {
				call, ok := n.(*ast.CallExpr)
				if !ok || calleeID(finfo, call) != "pkg/core.Diamond.uploadDescriptor" {
					return true
				}
				atoms, _ := atomsAt(f, f.Decl.Body, call.Pos())
				excluded := map[string]bool{}
				for _, at := range atoms {
					be, ok := ast.Unparen(at.Expr).(*ast.BinaryExpr)
					if !ok || (be.Op != token.EQL && be.Op != token.NEQ) {
						continue
					}
					if holdsEq := (be.Op == token.EQL) != at.Neg; holdsEq {
						continue
					}
					for _, side := range [][2]ast.Expr{{be.X, be.Y}, {be.Y, be.X}} {
						sel, isSel := ast.Unparen(side[1]).(*ast.SelectorExpr)
						if isSel && strings.HasSuffix(describeExprAt(f, side[0]), ".State") {
							excluded[sel.Sel.Name] = true
						}
					}
				}
				if excluded["DiamondCanceled"] && excluded["DiamondDone"] {
					okRef = true
				}
				return true
			})
		}
		c.check(okRef, "state-tables.cancel", f.ID, p.Pos(f.Decl.Pos()), "Cancel refuses done and canceled diamonds", "Cancel no longer refuses both DiamondDone and DiamondCanceled")
		badC, nC := fb.dominatedBy(callTo("pkg/core.Diamond.downloadDescriptor"), callTo("pkg/core.Diamond.uploadDescriptor"))
		c.check(nC == 1 && len(badC) == 0, "state-tables.cancel", f.ID+":reads-state-first", p.Pos(f.Decl.Pos()), "the current state is read before the canceled descriptor is written", "Cancel writes without reading the current state")
		_ = finfo
		g := p.Func("pkg/core.diamondReady")
		gb := p.BodyOf(g)
		// every success return of diamondReady is conditioned on State == DiamondInitialized: as the single name of a
		// `switch X.State` case, or as a guard atom (if / early-return forms)
		isInit := func(e ast.Expr) bool {
			sel, ok := ast.Unparen(e).(*ast.SelectorExpr)
			return ok && sel.Sel.Name == "DiamondInitialized"
		}
		isState := func(e ast.Expr) bool { return strings.HasSuffix(exprString(ast.Unparen(e)), ".State") }
		ggas := guardedActions(g, g.Decl.Body)
		okReady := true
		nSucc := 0
		ast.Inspect(g.Decl.Body, func(n ast.Node) bool {
			if _, ok := n.(*ast.FuncLit); ok {
				return false
			}
			r, ok := n.(*ast.ReturnStmt)
			if !ok || gb.classifyReturn(r) == retFailure {
				return true
			}
			nSucc++
			guarded := false
			for x := gb.parent[r]; x != nil && !guarded; x = gb.parent[x] {
				if cc, ok := x.(*ast.CaseClause); ok {
					if sw, ok := gb.parent[gb.parent[cc]].(*ast.SwitchStmt); ok && sw.Tag != nil && isState(sw.Tag) {
						guarded = len(cc.List) == 1 && isInit(cc.List[0])
						break
					}
				}
			}
			for _, ga := range ggas {
				if ga.Node != ast.Node(r) {
					continue
				}
				for _, at := range ga.Atoms {
					be, ok := ast.Unparen(at.Expr).(*ast.BinaryExpr)
					if !ok {
						continue
					}
					pair := (isState(be.X) && isInit(be.Y)) || (isState(be.Y) && isInit(be.X))
					if pair && ((be.Op == token.EQL && !at.Neg) || (be.Op == token.NEQ && at.Neg)) {
						guarded = true
					}
				}
			}
			if !guarded {
				okReady = false
			}
			return true
		})
		okReady = okReady && nSucc > 0
		c.check(okReady, "state-tables.ready", g.ID, p.Pos(g.Decl.Pos()), "diamondReady succeeds only for DiamondInitialized", "diamondReady returns success for a state other than DiamondInitialized")
		checkNoSwallow(c, "state-tables.ready", g, func(id string) bool { return id == "pkg/core.GetDiamond" }, nil)
	}
	// terminal state read: fallback only on ErrNotExists
	for _, fn := range []string{"pkg/core.Diamond.downloadDescriptor", "pkg/core.Split.downloadDescriptor"} {
		f := p.Func(fn)
		checkErrDiscipline(c, "terminal-state-read", f, func(id string) bool {
			return id == "pkg/core.metaObject.readMetadata" || id == "gopkg.in/yaml.v2.Unmarshal"
		}, nil)
		// the first read is of the final descriptor
		first := ""
		ast.Inspect(f.Decl.Body, func(n ast.Node) bool {
			if call, ok := n.(*ast.CallExpr); ok && first == "" {
				id := calleeID(f.Info(), call)
				if strings.HasPrefix(id, "pkg/model.GetArchivePathTo") {
					first = id
				}
			}
			return true
		})
		c.check(strings.Contains(first, "Final"), "terminal-state-read.final-first", fn, p.Pos(f.Decl.Pos()), "the done descriptor is looked up before the running one", fn+" no longer looks up the done descriptor first")
		// classification sentinel
		okCls := false
		ast.Inspect(f.Decl.Body, func(n ast.Node) bool {
			if ifs, ok := n.(*ast.IfStmt); ok {
				if u, ok := ast.Unparen(ifs.Cond).(*ast.UnaryExpr); ok && u.Op == token.NOT {
					if call, ok := ast.Unparen(u.X).(*ast.CallExpr); ok && strings.HasSuffix(calleeID(f.Info(), call), "errors.Is") && len(call.Args) == 2 && strings.HasSuffix(exprString(call.Args[1]), ".ErrNotExists") {
						if len(ifs.Body.List) == 1 {
							if r, ok := ifs.Body.List[0].(*ast.ReturnStmt); ok && len(r.Results) == 1 && exprString(r.Results[0]) == exprString(call.Args[0]) {
								okCls = true
							}
						}
					}
				}
			}
			return true
		})
		c.check(okCls, "terminal-state-read.only-not-exists", fn, p.Pos(f.Decl.Pos()), "only ErrNotExists on the done descriptor falls back to the running one", fn+" falls back to the running descriptor on errors other than ErrNotExists: a transient read failure makes a done/canceled object look open")
	}
	// (c) splits
	{
		f := p.Func("pkg/core.CreateSplit")
		fb := p.BodyOf(f)
		bad, nB := fb.dominatedBy(callTo("pkg/core.diamondReady"), callTo("pkg/core.Split.uploadDescriptor", "pkg/core.Split.downloadDescriptor"))
		c.check(nB >= 2 && len(bad) == 0, "ready-first.create-split", f.ID, p.Pos(f.Decl.Pos()), "diamondReady dominates the split creation", "CreateSplit can create or restart a split without checking that the diamond is open")
		checkNoSwallow(c, "ready-first.create-split", f, func(id string) bool { return id == "pkg/core.diamondReady" || id == "pkg/core.Split.uploadDescriptor" }, nil)
		// SplitDone case returns failure
		okDone := false
		ast.Inspect(f.Decl.Body, func(n ast.Node) bool {
			if cc, ok := n.(*ast.CaseClause); ok && len(cc.List) == 1 && strings.HasSuffix(exprString(cc.List[0]), ".SplitDone") && len(cc.Body) > 0 {
				if r, ok := cc.Body[len(cc.Body)-1].(*ast.ReturnStmt); ok && fb.classifyReturn(r) == retFailure {
					okDone = true
				}
			}
			return true
		})
		c.check(okDone, "state-tables.split-done-refused", f.ID, p.Pos(f.Decl.Pos()), "CreateSplit refuses a split that is already done", "CreateSplit no longer refuses a SplitDone split: a completed split can be rerun")
	}
	{
		f := p.Func("pkg/core.Split.implUpload")
		fb := p.BodyOf(f)
		finfo := f.Info()
		// refuse SplitDone first
		okRef := false
		var refIf *ast.IfStmt
		ast.Inspect(f.Decl.Body, func(n ast.Node) bool {
			if ifs, ok := n.(*ast.IfStmt); ok && refIf == nil {
				if be, ok := ast.Unparen(ifs.Cond).(*ast.BinaryExpr); ok && be.Op == token.EQL && strings.HasSuffix(exprString(be.X), ".State") && strings.HasSuffix(exprString(be.Y), ".SplitDone") && len(ifs.Body.List) > 0 {
					if r, ok := ifs.Body.List[len(ifs.Body.List)-1].(*ast.ReturnStmt); ok && fb.classifyReturn(r) == retFailure {
						okRef = true
						refIf = ifs
					}
				}
			}
			return true
		})
		firstWrite := token.Pos(0)
		for _, cs := range fb.findCalls(callTo("pkg/core.fileIndex.Upload", "pkg/core.Split.uploadDescriptor", "pkg/core.uploadBundleFiles"), true) {
			if firstWrite == 0 || cs.Pos() < firstWrite {
				firstWrite = cs.Pos()
			}
		}
		c.check(okRef && refIf.Pos() < firstWrite, "state-tables.split-done-refused", f.ID, p.Pos(f.Decl.Pos()), "a done split refuses to upload again, before anything is written", "Split.implUpload no longer refuses a SplitDone split before writing")
		// fresh generation before upload
		okGen := false
		var genAssign *ast.AssignStmt
		ast.Inspect(f.Decl.Body, func(n ast.Node) bool {
			if as, ok := n.(*ast.AssignStmt); ok && len(as.Lhs) == 1 && strings.HasSuffix(exprString(as.Lhs[0]), ".SplitDescriptor.GenerationID") {
				d := describeExpr(f, as.Rhs[0], 0)
				if d == "call:github.com/segmentio/ksuid.NewRandom()#0.String()" {
					genAssign = as
				}
			}
			return true
		})
		if genAssign != nil {
			// unconditional: a direct statement of the function body
			for _, st := range f.Decl.Body.List {
				if st == ast.Stmt(genAssign) {
					okGen = true
				}
			}
			for _, cs := range fb.findCalls(callTo("pkg/core.newUploadSplitIterator", "pkg/core.fileIndex.Upload"), true) {
				if cs.Pos() < genAssign.Pos() {
					okGen = false
				}
			}
		}
		c.check(okGen, "fresh-generation", f.ID, p.Pos(f.Decl.Pos()), "every upload attempt unconditionally draws a new random generation ID before building its index paths", "Split.implUpload no longer draws a fresh generation ID unconditionally before uploading: a rerun writes into (and collides with) the file lists of an earlier run")
		// the iterator receives the descriptor carrying that generation
		okIt := false
		for _, cs := range callersOf(p, "pkg/core.newUploadSplitIterator") {
			if cs.Fn.ID == f.ID && describeExpr(f, cs.Call.Args[2], 0) == "recv.SplitDescriptor" {
				okIt = true
			}
		}
		c.check(okIt, "generation-paths.upload", f.ID, p.Pos(f.Decl.Pos()), "index paths are built from the split descriptor holding the new generation", "the upload iterator is no longer built from s.SplitDescriptor")
		// split-done last
		isDone := func(bd *Body, call *ast.CallExpr) bool {
			return calleeID(finfo, call) == "pkg/core.Split.uploadDescriptor"
		}
		isIdx := callTo("pkg/core.fileIndex.Upload")
		badA, nA, nBB := fb.neverAfter(isDone, isIdx)
		badS, nS := fb.mustPassBeforeSuccess(isDone)
		badD, _ := fb.dominatedBy(isIdx, isDone)
		okState := false
		for _, cs := range fb.findCalls(callTo("pkg/core.Split.WithState"), false) {
			if strings.HasSuffix(exprString(cs.Args[0]), ".SplitDone") {
				okState = true
			}
		}
		c.check(nA == 1 && nBB == 1 && len(badA) == 0 && nS > 0 && len(badS) == 0 && len(badD) == 0 && okState, "split-done-last", f.ID, p.Pos(f.Decl.Pos()), "split-done is written after the index files, on every success path, and nothing is uploaded after it", "Split.implUpload does not write split-done last (after its index files, on every success path)")
		checkNoSwallow(c, "split-done-last", f, func(id string) bool {
			return id == "pkg/core.fileIndex.Upload" || id == "pkg/core.Split.uploadDescriptor"
		}, nil)
		// count recorded
		okCnt := false
		ast.Inspect(f.Decl.Body, func(n ast.Node) bool {
			if as, ok := n.(*ast.AssignStmt); ok && len(as.Lhs) == 1 && strings.HasSuffix(exprString(as.Lhs[0]), ".BundleEntriesFileCount") && strings.HasSuffix(describeExpr(f, as.Rhs[0], 0), ".Upload(call:builtin.make(expr),call:builtin.make(expr),call:builtin.make(expr))#0") {
				okCnt = true
			}
			return true
		})
		c.check(okCnt, "split-done-last", f.ID+":count", p.Pos(f.Decl.Pos()), "the number of index files recorded is the one returned by the upload", "the split descriptor no longer records the number of index files returned by Upload")
	}
	// generation in paths (iterators)
	for _, it := range []struct{ fn, recv, want string }{
		{"pkg/core.uploadSplitIterator.Next", "recv", "recv.repoID;recv.diamondID;recv.split.SplitID;recv.split.GenerationID;litparam"},
		{"pkg/core.downloadSplitIterator.Next", "recv", "recv.repoID;recv.diamondID;recv.split.SplitID;recv.split.GenerationID;litparam"},
		{"pkg/core.downloadAllSplitsIterator.Next", "recv", "recv.repoID;recv.diamondID;recv.splits[(recv.i-const:1)].SplitID;recv.splits[(recv.i-const:1)].GenerationID;litparam"},
	} {
		f := p.Func(it.fn)
		n := 0
		for _, cs := range callersOf(p, "pkg/model.GetArchivePathToSplitFileList") {
			if cs.Fn.ID != it.fn {
				continue
			}
			n++
			var ds []string
			for _, a := range cs.Call.Args {
				ds = append(ds, describeExpr(f, a, 0))
			}
			okPath := strings.Join(ds, ";") == it.want
			if !okPath && it.fn == "pkg/core.downloadAllSplitsIterator.Next" && len(ds) == 5 {
				// any single element expression of the iterator's own list is fine (e.g. pinned in a local before the
				// cursor moves): what matters is that ID and generation come from the same element
				e1, e2 := strings.TrimSuffix(ds[2], ".SplitID"), strings.TrimSuffix(ds[3], ".GenerationID")
				okPath = ds[0] == "recv.repoID" && ds[1] == "recv.diamondID" && ds[4] == "litparam" && e1 == e2 && e1 != ds[2] && e2 != ds[3] &&
					strings.HasPrefix(e1, "recv.splits[") && strings.Contains(e1, "recv.i")
			}
			c.check(okPath, "generation-paths.iterators", callKey(f, cs.Call), p.Pos(cs.Call.Pos()), "file-list path built from the split's own ID and recorded generation", it.fn+" builds file-list paths from ("+strings.Join(ds, ";")+"): a split's lists must be addressed by that split's ID and the generation recorded in its descriptor")
		}
		if n == 0 {
			c.fail("generation-paths.iterators", it.fn, p.Pos(f.Decl.Pos()), "no GetArchivePathToSplitFileList call")
		}
	}
	{
		// the commit's download iterator receives the collected (done) splits
		f := p.Func("pkg/core.Diamond.makeDownloadIndexer")
		okA := false
		for _, cs := range callersOf(p, "pkg/core.newDownloadAllSplitsIterator") {
			if cs.Fn.ID == f.ID && describeExpr(f, cs.Call.Args[2], 0) == "recv.DiamondDescriptor.Splits" {
				okA = true
			}
		}
		c.check(okA, "generation-paths.commit-uses-collected", f.ID, p.Pos(f.Decl.Pos()), "the commit reads the lists of the splits recorded in its descriptor", "the commit's download iterator is no longer built from d.DiamondDescriptor.Splits")
		okS := false
		ast.Inspect(ic.Decl.Body, func(n ast.Node) bool {
			if as, ok := n.(*ast.AssignStmt); ok && len(as.Lhs) == 1 && strings.HasSuffix(exprString(as.Lhs[0]), ".DiamondDescriptor.Splits") && strings.HasSuffix(describeExpr(ic, as.Rhs[0], 0), ".collectSplits(param#0)#0") {
				okS = true
			}
			return true
		})
		c.check(okS, "generation-paths.commit-uses-collected", ic.ID, p.Pos(ic.Decl.Pos()), "d.DiamondDescriptor.Splits <- collectSplits()", "implCommit no longer records the collected splits in its descriptor")
	}
	// (d) only done splits
	{
		f := p.Func("pkg/core.Diamond.collectSplits")
		okOnly := false
		ast.Inspect(f.Decl.Body, func(n ast.Node) bool {
			if ifs, ok := n.(*ast.IfStmt); ok {
				if be, ok := ast.Unparen(ifs.Cond).(*ast.BinaryExpr); ok && be.Op == token.EQL && strings.HasSuffix(exprString(be.X), ".State") && strings.HasSuffix(exprString(be.Y), ".SplitDone") {
					hasApp := false
					ast.Inspect(ifs.Body, func(m ast.Node) bool {
						if call, ok := m.(*ast.CallExpr); ok {
							if id, ok := ast.Unparen(call.Fun).(*ast.Ident); ok && id.Name == "append" {
								hasApp = true
							}
						}
						return true
					})
					okOnly = hasApp
				}
			}
			return true
		})
		// and no append outside that if
		nApp := 0
		ast.Inspect(f.Decl.Body, func(n ast.Node) bool {
			if call, ok := n.(*ast.CallExpr); ok {
				if id, ok := ast.Unparen(call.Fun).(*ast.Ident); ok && id.Name == "append" {
					nApp++
				}
			}
			return true
		})
		c.check(okOnly && nApp == 1, "done-splits-only", f.ID, p.Pos(f.Decl.Pos()), "a split is collected iff its state is SplitDone", "collectSplits no longer keeps exactly the splits whose state is SplitDone: running or failed splits contribute file lists that may be incomplete")
	}
	// completed splits only: the done/running merge of split descriptor keys must survive listing page boundaries
	// (shared with C07), otherwise a completed split is seen as running and left out of the commit
	checkMergeKeysState(c)
	checkIteratorNilOnlyAtExhaustion(c, "done-splits-only.iterator-nil-at-exhaustion")
	checkListApplySiblings(c, "done-splits-only.listing-errors")
	checkSilentSkipOnlyNotExists(c, c.P.BodyOf(c.P.Func("pkg/core.getSplitAsync")), "done-splits-only.split-skip-only-not-exists")
	checkNoRelabelAsMissing(c, "done-splits-only.no-relabel")
	checkGenericErrorDiscipline(c, "pkg/core")
	checkBatchDistributesAllKeys(c, "done-splits-only.batch-distributes-all")
	checkCollectSplitsAlwaysLists(c, "commit.splits-from-store")
	checkStateToKeyTable(c, "no-overwrite.state-to-key")
	checkBundleIDNeverReset(c, "commit.bundle-id-never-reset")
}
