package main

import (
	"go/ast"
	"go/token"
	"go/types"
	"path/filepath"
	"sort"
	"strings"

	"golang.org/x/tools/go/cfg"
)

func checkRWReadDir(c *Ctx) {
	p := c.P
	f := p.Func("pkg/fuse.fsMutable.ReadDir")
	info := f.Info()
	checkDirentWriteFlow(c, f, func(b *Body, w *ast.CallExpr) {
		key := callKey(f, w)
		// (a) the loop around the write must not range over a map
		var loop ast.Node
		for n := b.parent[w]; n != nil; n = b.parent[n] {
			if _, ok := n.(*ast.RangeStmt); ok {
				loop = n
				break
			}
			if _, ok := n.(*ast.ForStmt); ok {
				loop = n
				break
			}
		}
		rs, _ := loop.(*ast.RangeStmt)
		if rs == nil {
			c.shapeChanged("readdir.shape", key, p.Pos(w.Pos()), f.ID, "fsMutable.ReadDir no longer writes entries inside a range loop: the ordering rules cannot be applied")
			return
		}
		if _, isMap := info.TypeOf(rs.X).Underlying().(*types.Map); isMap {
			c.fail("readdir.deterministic-order", key, p.Pos(rs.Pos()), "the listing loop ranges directly over a Go map: iteration order changes between calls, so a listing resumed at an offset repeats some children and misses others")
			return
		}
		// the slice ranged over
		sliceDesc := describeExpr(f, rs.X, 0)
		sliceID, _ := ast.Unparen(rs.X).(*ast.Ident)
		var sliceVar *types.Var
		if sliceID != nil {
			sliceVar, _ = info.Uses[sliceID].(*types.Var)
		}
		valID, _ := rs.Value.(*ast.Ident)
		var idVar *types.Var
		if valID != nil {
			idVar, _ = info.Defs[valID].(*types.Var)
		}
		if sliceVar == nil || idVar == nil {
			c.shapeChanged("readdir.shape", key, p.Pos(rs.Pos()), f.ID, "the listing loop of fsMutable.ReadDir does not range `for _, id := range <slice variable>` (ranges over `"+sliceDesc+"`)")
			return
		}
		// (b) sorted before the loop, ascending
		sorted := false
		ast.Inspect(f.Decl.Body, func(n ast.Node) bool {
			call, ok := n.(*ast.CallExpr)
			if !ok || call.Pos() > rs.Pos() {
				return true
			}
			id := calleeID(info, call)
			if (id == "sort.Slice" || id == "sort.SliceStable") && len(call.Args) == 2 && isVar(info, call.Args[0], sliceVar) {
				if lit, ok := call.Args[1].(*ast.FuncLit); ok && len(lit.Body.List) == 1 && len(lit.Type.Params.List) >= 1 {
					if r, ok := lit.Body.List[0].(*ast.ReturnStmt); ok && len(r.Results) == 1 {
						if be, ok := ast.Unparen(r.Results[0]).(*ast.BinaryExpr); ok && be.Op == token.LSS {
							lx, ok1 := ast.Unparen(be.X).(*ast.IndexExpr)
							ly, ok2 := ast.Unparen(be.Y).(*ast.IndexExpr)
							if ok1 && ok2 && isVar(info, lx.X, sliceVar) && isVar(info, ly.X, sliceVar) {
								var names []*ast.Ident
								for _, fl := range lit.Type.Params.List {
									names = append(names, fl.Names...)
								}
								if len(names) == 2 {
									i0, _ := ast.Unparen(lx.Index).(*ast.Ident)
									j0, _ := ast.Unparen(ly.Index).(*ast.Ident)
									if i0 != nil && j0 != nil && info.Uses[i0] == info.Defs[names[0]] && info.Uses[j0] == info.Defs[names[1]] {
										sorted = true
									}
								}
							}
						}
					}
				}
			}
			return true
		})
		c.check(sorted, "readdir.deterministic-order", key, p.Pos(rs.Pos()),
			"the children are listed from a slice sorted in increasing inode order",
			"the slice the listing loop ranges over is not sorted (sort.Slice with less = s[i] < s[j]) before the loop: its order comes from map iteration and changes between calls")
		// (c) cookie = own inode; entry = *children[id]
		var entVar *types.Var
		if id, ok := ast.Unparen(w.Args[1]).(*ast.Ident); ok {
			entVar, _ = info.Uses[id].(*types.Var)
		}
		okEnt, okCookie := false, false
		if entVar != nil {
			ast.Inspect(rs.Body, func(n ast.Node) bool {
				as, ok := n.(*ast.AssignStmt)
				if !ok || len(as.Lhs) != 1 || len(as.Rhs) != 1 || as.Pos() > w.Pos() {
					return true
				}
				if isVar(info, as.Lhs[0], entVar) {
					if st, ok := ast.Unparen(as.Rhs[0]).(*ast.StarExpr); ok {
						if ix, ok := ast.Unparen(st.X).(*ast.IndexExpr); ok && isVar(info, ix.Index, idVar) && describeExpr(f, ix.X, 0) == "recv.readDirMap[param#1.Inode]#0" {
							okEnt = true
						}
					}
				}
				if sel, ok := ast.Unparen(as.Lhs[0]).(*ast.SelectorExpr); ok && sel.Sel.Name == "Offset" && isVar(info, sel.X, entVar) {
					if cv, ok := ast.Unparen(as.Rhs[0]).(*ast.CallExpr); ok && len(cv.Args) == 1 && isVar(info, cv.Args[0], idVar) {
						if tv, ok := info.Types[cv.Fun]; ok && tv.IsType() {
							okCookie = true
						}
					}
				}
				return true
			})
		}
		c.check(okEnt && okCookie, "readdir.cookie", key, p.Pos(w.Pos()),
			"the entry written is a copy of children[id] whose Offset is id itself",
			"the entry written is not `*children[id]` with `Offset = DirOffset(id)` (entry: "+boolStr(okEnt)+", cookie: "+boolStr(okCookie)+"): the offset the kernel hands back no longer identifies where the listing stopped")
		// (d) filter: slice filled from the map keys with key > op.Offset
		okFilter := false
		ast.Inspect(f.Decl.Body, func(n ast.Node) bool {
			fr, ok := n.(*ast.RangeStmt)
			if !ok || fr == rs || fr.Pos() > rs.Pos() {
				return true
			}
			if describeExpr(f, fr.X, 0) != "recv.readDirMap[param#1.Inode]#0" {
				return true
			}
			kid, _ := fr.Key.(*ast.Ident)
			if kid == nil {
				return true
			}
			kv, _ := info.Defs[kid].(*types.Var)
			ast.Inspect(fr.Body, func(m ast.Node) bool {
				ifs, ok := m.(*ast.IfStmt)
				if !ok {
					return true
				}
				be, ok := ast.Unparen(ifs.Cond).(*ast.BinaryExpr)
				if !ok {
					return true
				}
				strip := func(e ast.Expr) ast.Expr {
					e = ast.Unparen(e)
					if cv, ok := e.(*ast.CallExpr); ok && len(cv.Args) == 1 {
						if tv, ok := info.Types[cv.Fun]; ok && tv.IsType() {
							return ast.Unparen(cv.Args[0])
						}
					}
					return e
				}
				x, y := strip(be.X), strip(be.Y)
				gt := (be.Op == token.GTR && isVar(info, x, kv) && describeExpr(f, y, 0) == "param#1.Offset") ||
					(be.Op == token.LSS && isVar(info, y, kv) && describeExpr(f, x, 0) == "param#1.Offset")
				if !gt {
					return true
				}
				ast.Inspect(ifs.Body, func(q ast.Node) bool {
					if as, ok := q.(*ast.AssignStmt); ok && len(as.Lhs) == 1 && len(as.Rhs) == 1 && isVar(info, as.Lhs[0], sliceVar) {
						if call, ok := ast.Unparen(as.Rhs[0]).(*ast.CallExpr); ok && calleeID(info, call) == "builtin.append" && len(call.Args) == 2 && isVar(info, call.Args[0], sliceVar) && isVar(info, call.Args[1], kv) {
							okFilter = true
						}
					}
					return true
				})
				return true
			})
			return true
		})
		c.check(okFilter, "readdir.resume-filter", key, p.Pos(rs.Pos()),
			"exactly the children whose inode is greater than op.Offset (the cookie of the last entry returned) are listed",
			"the listing is not built from the children whose inode is > op.Offset: a resumed listing repeats or skips children")
	})
}

// ---------------------------------------------------------------------------------------------------
// crash inventory

type crashSite struct {
	key, kind, pos, detail string
	foundGuarded           bool
}

// reviewedCrashSites: every panic, unchecked type assertion and map-element dereference of the mutable mount,
// with the invariant (established by the other C18 rules) that keeps it from firing in a protocol-conforming program.
var reviewedCrashSites = map[string]string{
	"pkg/fuse.lookup:assert#1":                       "guarded by the found flag of the same Get; every lookupTree insert stores a lookupEntry (crash.value-types)",
	"pkg/fuse.fsMutable.deleteNSEntry:assert#1":      "guarded by the found flag of the same Get; iNodeStore holds only *nodeEntry (crash.value-types)",
	"pkg/fuse.fsMutable.deleteNSEntry:panic#1":       "unreachable while every name in lookupTree has its node in iNodeStore: nodes are released only with link count 0, which deleteNSEntry sets after removing the name (forget.* and namespace.delete rules)",
	"pkg/fuse.fsMutable.deleteNSEntry:assert#2":      "after the found check (panic above)",
	"pkg/fuse.fsMutable.LookUpInode:assert#1":        "the found flag is discarded: safe only by the invariant lookupTree names have nodes (forget.* rules); a nil value would panic here",
	"pkg/fuse.fsMutable.GetInodeAttributes:assert#1": "guarded by the found flag",
	"pkg/fuse.fsMutable.SetInodeAttributes:assert#1": "guarded by the found flag",
	"pkg/fuse.fsMutable.ForgetInode:panic#1":         "forget of an inode the file system does not know: excluded by the kernel protocol (forgets only for inodes with lookups) given nodes stay stored while their lookup count is positive (forget.should-delete)",
	"pkg/fuse.fsMutable.ForgetInode:assert#1":        "guarded by the found flag (panic above)",
	"pkg/fuse.fsMutable.ForgetInode:panic#2":         "more forgets than lookups: excluded by the kernel protocol; counts start at 1 on create (namespace.create refCount) and grow by one per lookup",
	"pkg/fuse.fsMutable.ForgetInode:assert#2":        "guarded by the found flag under fs.lock",
	"pkg/fuse.fsMutable.Rename:map-elem-deref#1":     "rC = readDirMap[OldParent][inode of the looked-up source]: non-nil while lookupTree and readDirMap agree (namespace.* rules)",
	"pkg/fuse.fsMutable.Rename:assert#1":             "value deleted from lookupTree under the key that lookup just found, under fs.lock: a lookupEntry",
	"pkg/fuse.fsMutable.Rename:assert#2":             "guarded by the found flag",
	"pkg/fuse.fsMutable.Rename:assert#3":             "guarded by the found flag",
	"pkg/fuse.fsMutable.WriteFile:panic#1":           "write to an inode without node: excluded by the kernel protocol (an open file pins its inode: no forget) given forget.should-delete",
	"pkg/fuse.fsMutable.WriteFile:assert#1":          "guarded by the found flag (panic above)",
	"pkg/fuse.fsMutable.SyncFile:map-elem-deref#1":   "dereferences backingFiles[inode] without nil check: an fsync on an inode whose backing file was never registered (creation of the backing file failed) crashes; needs a failing local disk, outside the sequential-program quantifier of C18 (no fault injection) — recorded as an observation in DESIGN.md",
	"pkg/fuse.fsMutable.ReadDir:map-elem-deref#1":    "children[id] with id taken from the keys of the same map a few lines above, under fs.lock: present and non-nil (insertReadDirEntry stores only non-nil dirents)",
	"pkg/fuse.fsMutable.preCreateCheck:assert#1":     "guarded by the found flag",
	"pkg/fuse.fsMutable.createNode:assert#1":         "parent node fetched with the found flag discarded: createNode runs only after a successful preCreateCheck of the same parent (namespace.create.checked) or for the root, where the parent is the node just inserted",
}

func enumCrashSites(p *Prog, f *FuncInfo) []crashSite {
	var out []crashSite
	info := f.Info()
	counts := map[string]int{}
	add := func(kind string, n ast.Node, detail string) {
		counts[kind]++
		out = append(out, crashSite{key: f.ID + ":" + kind + "#" + itoa(counts[kind]), kind: kind, pos: p.Pos(n.Pos()), detail: detail})
	}
	ast.Inspect(f.Decl.Body, func(n ast.Node) bool {
		switch x := n.(type) {
		case *ast.CallExpr:
			if id, ok := ast.Unparen(x.Fun).(*ast.Ident); ok {
				if bi, ok := info.Uses[id].(*types.Builtin); ok && bi.Name() == "panic" {
					add("panic", x, "explicit panic")
				}
			}
		case *ast.TypeAssertExpr:
			if x.Type == nil {
				return true // type switch
			}
			// comma-ok form?
			par := f.parentOf(x)
			for {
				if pe, ok := par.(*ast.ParenExpr); ok {
					par = f.parentOf(pe)
					continue
				}
				break
			}
			if as, ok := par.(*ast.AssignStmt); ok && len(as.Lhs) == 2 && len(as.Rhs) == 1 {
				return true
			}
			if vs, ok := par.(*ast.ValueSpec); ok && len(vs.Names) == 2 && len(vs.Values) == 1 {
				return true
			}
			add("assert", x, "single-value type assertion "+exprString(x))
			out[len(out)-1].foundGuarded = assertGuardedByFound(f, x)
		case *ast.StarExpr:
			if ix, ok := ast.Unparen(x.X).(*ast.IndexExpr); ok {
				if _, isMap := info.TypeOf(ix.X).Underlying().(*types.Map); isMap {
					// `*m[k]` as an expression (not a type)
					if tv, ok := info.Types[x]; ok && !tv.IsType() && !nilCheckedBefore(f, ix, x) {
						add("map-elem-deref", x, "dereference of a map element "+exprString(x))
					}
				}
			}
		case *ast.SelectorExpr:
			// v.f where v's only definition is a map element of pointer type, never compared with nil
			id, ok := ast.Unparen(x.X).(*ast.Ident)
			if !ok {
				return true
			}
			v, ok := info.Uses[id].(*types.Var)
			if !ok || v.IsField() {
				return true
			}
			if _, isPtr := v.Type().Underlying().(*types.Pointer); !isPtr {
				return true
			}
			defs := defsOfVarWithIndex(f, v)
			if len(defs) != 1 || defs[0].rhs == nil || defs[0].index >= 0 {
				return true
			}
			ix, ok := ast.Unparen(defs[0].rhs).(*ast.IndexExpr)
			if !ok {
				return true
			}
			if _, isMap := info.TypeOf(ix.X).Underlying().(*types.Map); !isMap {
				return true
			}
			if comparedWithNil(f, v) {
				return true
			}
			// count once per variable
			k := "map-elem-deref-var:" + v.Name()
			if counts[k] == 0 {
				counts[k] = 1
				add("map-elem-deref", x, "field access through "+v.Name()+" = "+exprString(ix)+" (a map element that may be absent) without nil check")
			}
		}
		return true
	})
	return out
}

func comparedWithNil(f *FuncInfo, v *types.Var) bool {
	info := f.Info()
	found := false
	ast.Inspect(f.Decl.Body, func(n ast.Node) bool {
		if be, ok := n.(*ast.BinaryExpr); ok && (be.Op == token.NEQ || be.Op == token.EQL) {
			if (isVar(info, be.X, v) && isNil(info, be.Y)) || (isVar(info, be.Y, v) && isNil(info, be.X)) {
				found = true
			}
		}
		return !found
	})
	return found
}

// nilCheckedBefore: `*m[k]` where the same m[k] was bound to a variable compared with nil — not the shape used
// today; kept conservative (false).
func nilCheckedBefore(f *FuncInfo, ix *ast.IndexExpr, at ast.Node) bool { return false }

func checkCrashInventory(c *Ctx) {
	p := c.P
	seen := map[string]bool{}
	for _, f := range p.FuncsIn("pkg/fuse") {
		if f.Decl.Body == nil {
			continue
		}
		file := filepath.Base(p.Fset.Position(f.Decl.Pos()).Filename)
		if file != "fs_rw_ops.go" && file != "inode.go" {
			continue
		}
		for _, s := range enumCrashSites(p, f) {
			seen[s.key] = true
			if why, ok := reviewedCrashSites[s.key]; ok {
				c.ok("crash.inventory", s.key, s.pos, s.detail+": "+why)
				continue
			}
			if s.kind == "assert" && s.foundGuarded {
				// decided by class, wherever the code sits: the value comes from a Get of one of the two radix trees, the
				// assertion is evaluated only where the found flag of that same Get holds, and the asserted type is the
				// tree's value type (crash.value-types)
				c.ok("crash.inventory", s.key, s.pos, s.detail+": guarded by the found flag of the same Get; the tree holds only this type (crash.value-types)")
				continue
			}
			c.add("crash.inventory", s.key, s.pos, OK, s.detail+": NOT in the reviewed inventory")
			c.softUndecided("crash.inventory: new potential crash site %s at %s (%s) in the mutable mount is not in the reviewed inventory: 'never crashes' cannot be established for it without review", s.key, s.pos, s.detail)
		}
	}
	var gone []string
	for k := range reviewedCrashSites {
		if !seen[k] {
			gone = append(gone, k)
		}
	}
	sort.Strings(gone)
	for _, k := range gone {
		c.note("reviewed crash site %s no longer exists", k)
	}
	c.requireInstances("crash.inventory", 15)
	// value types of the two radix trees
	for _, f := range p.FuncsIn("pkg/fuse") {
		if f.Decl.Body == nil {
			continue
		}
		info := f.Info()
		ast.Inspect(f.Decl.Body, func(n ast.Node) bool {
			call, ok := n.(*ast.CallExpr)
			if !ok || calleeID(info, call) != "github.com/hashicorp/go-immutable-radix.Tree.Insert" || len(call.Args) != 2 {
				return true
			}
			sel := ast.Unparen(call.Fun).(*ast.SelectorExpr)
			tbl := describeExpr(f, sel.X, 0)
			vt := namedTypeID(info.TypeOf(call.Args[1]))
			_, isPtr := info.TypeOf(call.Args[1]).(*types.Pointer)
			switch {
			case strings.HasSuffix(tbl, ".iNodeStore"):
				c.check(vt == "pkg/fuse.nodeEntry" && isPtr, "crash.value-types", callKey(f, call), p.Pos(call.Pos()), "iNodeStore values are *nodeEntry", "a value of type "+vt+" is stored in iNodeStore: readers assert *nodeEntry and panic")
			case strings.HasSuffix(tbl, ".lookupTree") && strings.Contains(f.ID, "fsMutable"):
				c.check(vt == "pkg/fuse.lookupEntry" && !isPtr, "crash.value-types", callKey(f, call), p.Pos(call.Pos()), "lookupTree values of the mutable mount are lookupEntry", "a value of type "+vt+" is stored in the mutable mount's lookupTree: readers assert lookupEntry and panic")
			}
			return true
		})
	}
	c.requireInstances("crash.value-types", 3)
}

// ---------------------------------------------------------------------------------------------------
// commit

func checkCommitWalk(c *Ctx) {
	p := c.P
	// walk starts at the root with the empty name
	wk := p.Func("pkg/fuse.commitWalkReadDirMap")
	okRoot := false
	root, _ := importedConst(p, "pkg/fuse", "github.com/jacobsa/fuse/fuseops", "RootInodeID")
	for _, cl := range compositeLits(wk, "pkg/fuse.commitUploadTask") {
		i, n := fieldOfCompositeLit(cl, "inodeID"), fieldOfCompositeLit(cl, "name")
		if i != nil && n != nil && root != nil && describeExpr(wk, i, 0) == constDesc(root) && describeExpr(wk, n, 0) == "const:\"\"" {
			okRoot = true
		}
	}
	c.check(okRoot, "commit.walk", wk.ID+":root", p.Pos(wk.Decl.Pos()), "the walk starts at RootInodeID with the empty path", "the commit walk no longer starts at the root inode with the empty path: part of the visible tree is not committed")
	// close(bundleEntry) after both waits, in the deferred function
	{
		okClose := false
		for _, l := range wk.Lits {
			var order []string
			ast.Inspect(l.Body, func(n ast.Node) bool {
				if call, ok := n.(*ast.CallExpr); ok {
					switch calleeID(wk.Info(), call) {
					case "sync.WaitGroup.Wait":
						order = append(order, "wait")
					case "builtin.close":
						order = append(order, "close:"+describeExpr(wk, call.Args[0], 0))
					}
				}
				return true
			})
			if len(order) == 3 && order[0] == "wait" && order[1] == "wait" && order[2] == "close:param#2.bundleEntry" {
				okClose = true
			}
			// and the directory walkers are waited for first: they are the ones that register file uploads (a wait on
			// the uploads that runs first can return before a deeper directory has added any)
			var waits []string
			ast.Inspect(l.Body, func(n ast.Node) bool {
				if call, ok := n.(*ast.CallExpr); ok && calleeID(wk.Info(), call) == "sync.WaitGroup.Wait" {
					if sel, ok := ast.Unparen(call.Fun).(*ast.SelectorExpr); ok {
						if _, isField := ast.Unparen(sel.X).(*ast.SelectorExpr); isField {
							waits = append(waits, "walkers") // the wait group kept in the directory-walk struct
						} else {
							waits = append(waits, "uploads")
						}
					}
				}
				return true
			})
			if len(waits) == 2 && !(waits[0] == "walkers" && waits[1] == "uploads") {
				okClose = false
			}
		}
		c.check(okClose, "commit.walk", wk.ID+":close-after-wait", p.Pos(wk.Decl.Pos()), "the entry channel is closed after the directory and file wait groups", "the bundle-entry channel is no longer closed after waiting for both wait groups: the collector stops before every file was reported, or never stops")
	}
	// commitUploadDir: task composition, Add before go
	ud := p.Func("pkg/fuse.commitUploadDir")
	{
		okTask := false
		for _, cl := range compositeLits(ud, "pkg/fuse.commitUploadTask") {
			i, n := fieldOfCompositeLit(cl, "inodeID"), fieldOfCompositeLit(cl, "name")
			if i != nil && n != nil && describeExpr(ud, i, 0) == "rangekey(param#1.readDirMap[param#6.inodeID])" &&
				describeExpr(ud, n, 0) == "((param#6.name+const:\"/\")+range(param#1.readDirMap[param#6.inodeID]).Name)" {
				okTask = true
			}
		}
		c.check(okTask, "commit.walk", ud.ID+":task", p.Pos(ud.Decl.Pos()),
			"each child task is {inode: key of readDirMap[dir], name: dir name + \"/\" + dirent name}",
			"a child task of the commit walk is no longer {inode: the child's key in readDirMap[dir], name: directory path + \"/\" + the dirent's name}: files are committed under a wrong path or from another inode's backing file")
		// switch on the dirent type: files uploaded, directories recursed
		upl, rec := 0, 0
		ast.Inspect(ud.Decl.Body, func(n ast.Node) bool {
			g, ok := n.(*ast.GoStmt)
			if !ok {
				return true
			}
			id := calleeID(ud.Info(), g.Call)
			// WaitGroup.Add(1) is the statement just before the go
			addBefore := false
			if blk, ok := ud.parentOf(g).(*ast.BlockStmt); ok {
				for i, st := range blk.List {
					if st == ast.Stmt(g) && i > 0 {
						if es, ok := blk.List[i-1].(*ast.ExprStmt); ok {
							if call, ok := es.X.(*ast.CallExpr); ok && calleeID(ud.Info(), call) == "sync.WaitGroup.Add" {
								addBefore = true
							}
						}
					}
				}
			} else if cc, ok := ud.parentOf(g).(*ast.CaseClause); ok {
				for i, st := range cc.Body {
					if st == ast.Stmt(g) && i > 0 {
						if es, ok := cc.Body[i-1].(*ast.ExprStmt); ok {
							if call, ok := es.X.(*ast.CallExpr); ok && calleeID(ud.Info(), call) == "sync.WaitGroup.Add" {
								addBefore = true
							}
						}
					}
				}
			}
			switch id {
			case "pkg/fuse.commitFileUpload":
				upl++
			case "pkg/fuse.commitUploadDir":
				rec++
			default:
				return true
			}
			c.check(addBefore, "commit.walk", callKey(ud, g.Call)+":add-before-go", p.Pos(g.Pos()), "WaitGroup.Add(1) immediately precedes the go statement", "a commit goroutine is started without WaitGroup.Add(1) right before it: the walk can be declared finished (channel closed) while uploads are still running — their entries are lost or sent on a closed channel")
			return true
		})
		c.check(upl == 1 && rec == 1, "commit.walk", ud.ID+":dispatch", p.Pos(ud.Decl.Pos()), "file dirents are uploaded, directory dirents are walked", "commitUploadDir no longer starts one upload per file dirent and one walk per directory dirent")
	}
	// commitFileUpload: plumbing
	fu := p.Func("pkg/fuse.commitFileUpload")
	{
		lits := compositeLits(fu, "pkg/model.BundleEntry")
		if len(lits) != 1 {
			c.fail("commit.entry", fu.ID, p.Pos(fu.Decl.Pos()), "expected one BundleEntry literal in commitFileUpload")
		} else {
			const put = "param#4.Put(param#0,param#1.localCache.OpenFile(call:pkg/fuse.getPathToBackingFile(param#5.inodeID),const:1052672,const:438)#0)#0"
			checkLitFields(c, "commit.entry", fu, lits[0], fu.ID, map[string]string{
				"Hash":         put + ".Key.String()",
				"NameWithPath": "param#5.name",
				"Size":         "conv:uint64(" + put + ".Written)",
			}, "the committed entry must carry the key and size of the upload of this inode's backing file under the task's path")
		}
		bf := p.Func("pkg/fuse.getPathToBackingFile")
		okBF := false
		ast.Inspect(bf.Decl.Body, func(n ast.Node) bool {
			if r, ok := n.(*ast.ReturnStmt); ok && len(r.Results) == 1 {
				d := describeExpr(bf, r.Results[0], 0)
				okBF = d == "call:fmt.Sprint(conv:uint64(param#0))" || d == "call:fmt.Sprint(param#0)"
			}
			return true
		})
		c.check(okBF, "commit.entry", bf.ID, p.Pos(bf.Decl.Pos()), "the backing file of an inode is named by its decimal number (as createNode creates it)", "getPathToBackingFile no longer names the backing file by the inode's decimal number, which is what createNode creates and the write path opens")
	}
	// commitImpl: collector
	ci := p.Func("pkg/fuse.fsMutable.commitImpl")
	{
		b := p.BodyOf(ci)
		info := ci.Info()
		// every entry received is appended; error returns; publication after the loop with the collected list
		okAppend, okErr, okAssign := false, false, false
		ast.Inspect(ci.Decl.Body, func(n ast.Node) bool {
			switch s := n.(type) {
			case *ast.AssignStmt:
				if len(s.Lhs) == 1 && len(s.Rhs) == 1 {
					l, r := describeExpr(ci, s.Lhs[0], 0), ast.Unparen(s.Rhs[0])
					if call, ok := r.(*ast.CallExpr); ok && calleeID(info, call) == "builtin.append" && len(call.Args) == 2 {
						if id, ok := ast.Unparen(call.Args[1]).(*ast.Ident); ok && id.Name != "" && namedTypeID(info.TypeOf(id)) == "pkg/model.BundleEntry" {
							okAppend = true
						}
					}
					if l == "recv.bundle.BundleEntries" {
						okAssign = true
					}
				}
			case *ast.CommClause:
				if as, ok := s.Comm.(*ast.AssignStmt); ok && len(as.Rhs) == 1 {
					if u, ok := ast.Unparen(as.Rhs[0]).(*ast.UnaryExpr); ok && u.Op == token.ARROW && isErrorChan(info.TypeOf(u.X)) {
						if len(s.Body) > 0 {
							if r, ok := s.Body[len(s.Body)-1].(*ast.ReturnStmt); ok && b.classifyReturn(r) != retSuccess {
								okErr = true
							}
						}
					}
				}
			}
			return true
		})
		c.check(okAppend && okAssign, "commit.collect", ci.ID+":entries", p.Pos(ci.Decl.Pos()), "every received entry is appended and the list becomes the bundle's entries", "commitImpl no longer appends every received bundle entry and assigns the list to the bundle: files of the visible tree are missing from the committed bundle")
		c.check(okErr, "commit.collect", ci.ID+":error-wins", p.Pos(ci.Decl.Pos()), "an error from any upload aborts the commit with that error", "commitImpl no longer returns the error received from an upload goroutine: a partial tree is committed as if complete")
		// returns that are certainly success (the `return err` of the error-channel case carries a received, non-nil error)
		nSucc, nBad := 0, 0
		isPub := callTo("pkg/core.Bundle.UploadBundleEntries")
		b.run(flowSpec{
			entry: 1,
			node: func(n ast.Node, s uint64) uint64 {
				for _, call := range callsIn(n) {
					if isPub(b, call) {
						return 2
					}
				}
				return s
			},
			exit: func(blk *cfg.Block, ret *ast.ReturnStmt, s uint64) {
				if ret != nil && b.classifyReturn(ret) != retSuccess {
					return
				}
				nSucc++
				if s&1 != 0 {
					nBad++
				}
			},
		})
		c.check(nBad == 0 && nSucc > 0, "commit.collect", ci.ID+":publish", p.Pos(ci.Decl.Pos()), "every success return follows UploadBundleEntries", "commitImpl can report success without publishing the bundle")
	}
}

func isErrorChan(t types.Type) bool {
	if t == nil {
		return false
	}
	ch, ok := t.Underlying().(*types.Chan)
	return ok && isErrorType(ch.Elem())
}

// assertGuardedByFound: `v.(T)` where `v, found := <tree>.Get(k)` is v's only definition, <tree> is iNodeStore (T must be
// *nodeEntry) or lookupTree (T must be lookupEntry), and the statement holding the assertion runs only where found holds
// (inside `if found`, or after `if !found { return / panic }`).
func assertGuardedByFound(f *FuncInfo, x *ast.TypeAssertExpr) bool {
	info := f.Info()
	id, ok := ast.Unparen(x.X).(*ast.Ident)
	if !ok {
		return false
	}
	v, ok := info.Uses[id].(*types.Var)
	if !ok {
		return false
	}
	defs := defsOfVarWithIndex(f, v)
	if len(defs) != 1 || defs[0].index != 0 || defs[0].rhs == nil {
		return false
	}
	call, ok := ast.Unparen(defs[0].rhs).(*ast.CallExpr)
	if !ok || calleeID(info, call) != "github.com/hashicorp/go-immutable-radix.Tree.Get" {
		return false
	}
	sel, ok := ast.Unparen(call.Fun).(*ast.SelectorExpr)
	if !ok {
		return false
	}
	tbl := describeExpr(f, sel.X, 0)
	want := ""
	switch {
	case strings.HasSuffix(tbl, ".iNodeStore"):
		want = "*pkg/fuse.nodeEntry"
	case strings.HasSuffix(tbl, ".lookupTree"):
		want = "pkg/fuse.lookupEntry"
	}
	at := info.TypeOf(x.Type)
	got := namedTypeID(at)
	if _, isPtr := at.(*types.Pointer); isPtr {
		got = "*" + got
	}
	if want == "" || got != want {
		return false
	}
	// the found flag: the second variable of the same definition
	var found *types.Var
	ast.Inspect(f.Decl.Body, func(n ast.Node) bool {
		if as, ok := n.(*ast.AssignStmt); ok && len(as.Lhs) == 2 && len(as.Rhs) == 1 && ast.Unparen(as.Rhs[0]) == ast.Expr(call) {
			if fid, ok := as.Lhs[1].(*ast.Ident); ok {
				if fv, ok := info.Defs[fid].(*types.Var); ok {
					found = fv
				} else if fv, ok := info.Uses[fid].(*types.Var); ok {
					found = fv
				}
			}
		}
		return true
	})
	if found == nil || len(defsOfVarWithIndex(f, found)) != 1 {
		return false
	}
	var best *guardedAction
	gas := guardedActions(f, f.Decl.Body)
	for i := range gas {
		ga := &gas[i]
		if ga.Node == nil || !encloses(ga.Node, x.Pos()) {
			continue
		}
		if best == nil || (ga.Node.End()-ga.Node.Pos()) < (best.Node.End()-best.Node.Pos()) {
			best = ga
		}
	}
	if best == nil {
		return false
	}
	for _, a := range best.Atoms {
		if !a.Neg && isVar(info, a.Expr, found) {
			return true
		}
	}
	return false
}
