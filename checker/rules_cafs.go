package main

import (
	"go/ast"
	"go/token"
	"go/types"
	"strconv"
	"strings"

	"golang.org/x/tools/go/cfg"
)

// C01, C02, C03 — content-addressable store: structural clauses on pkg/cafs.

func init() {
	register(&propSpec{
		id: "C01",
		explanation: "Static structural clauses for the cafs content round trip: (1) every two-sided slice of pkg/cafs is proven well-formed by the difference-bound prover (writer input window, reader accumulation, key extraction); " +
			"(2) the leaf buffer handed to the asynchronous flush is the writer's own staging buffer, never (part of) the caller's slice, and the writer re-binds a fresh buffer and resets its offset before touching it again; " +
			"(3) leaf keys are placed by leaf number: count incremented exactly once before each flush goroutine, pFlush reports (count,key) as received/computed, Flush stores key at leaves[count-1]; " +
			"(4) Flush waits for all flushers (cap-fold fill, close, done handshake) before reading their results, hashes the trailing partial leaf after that and the root after the trailing leaf; Put flushes, closes, then writes keys||root and reports io.Copy's count; " +
			"(5) Read, ReadAt and WriteTo guard the empty / exhausted key list before indexing it. " +
			"Not decided: byte-for-byte equality, Read's buffer arithmetic, prefetch/LRU correctness.",
		run: runC01,
	})
	register(&propSpec{
		id: "C02",
		explanation: "Static structural clauses for deterministic BLAKE2b tree keys: (1) the blake2b.Tree literals of keyFromBytes/rootHash carry the format constants (fanout 0, depth 2, inner/outer size 64, node depth 0 resp. 1) and take leaf size, node offset and last-node flag from the call's own parameters, built per call; " +
			"(2) writer and the three readers agree on the node-offset convention: full leaves (index+1,false), trailing partial leaf (index,true), the discriminator being `last index AND length != leafSize` at every site; " +
			"(3) the leaf handed to the hash is the writer's own full staging buffer (C01 clause 2); " +
			"(4) dedup: the store write is skipped exactly on found && !overwrite, PutRes.Found is that found, the duplicate branch performs no Put and no Delete. " +
			"Not decided: collision freedom, equality with an independent BLAKE2b implementation, blake2b-simd itself.",
		run: runC02,
	})
	register(&propSpec{
		id: "C03",
		explanation: "Static structural clauses for corruption detection: (1) closed world of blob readers: every storage Get in pkg/cafs is in a routine that verifies — Read, the readLeaf closure and the WriteTo WriterAt worker each reach verifyHash guarded only by withVerifyHash (plus end-of-leaf conditions in Read) and propagate its error, and the WriterAt worker writes the verified buffer; leavesForHash always goes through verifiedKeys; " +
			"(2) verifyHash, verifiedKeys and LeafKeys return a non-nil error on the mismatch branch; " +
			"(3) verification defaults to on in cafs and core and the bundle's flag is what reaches cafs.VerifyHash; " +
			"(4) errors surface along download -> ConsumableStore.Put -> WriteTo/PipeIO (E-ERR), including both retry operands of localfs.Put. " +
			"Not decided: that BLAKE2b detects every alteration; bytes handed out by Read before the end-of-leaf check.",
		run: runC03,
	})

	addWitness(witness{Prop: "C01", Name: "writer-window-regression", File: "pkg/cafs/writer.go",
		Old: "\t\tc := copy(w.buf[w.offset:], p[written:])", New: "\t\twritable := len(w.buf) - w.offset\n\t\tif len(p) < writable {\n\t\t\twritable = len(p)\n\t\t}\n\t\tc := copy(w.buf[w.offset:], p[written:writable])",
		Expect: "slice-bounds"})
	addWitness(witness{Prop: "C01", Name: "zero-copy-handoff", File: "pkg/cafs/writer.go",
		Old: "\t\t\t\tfalse,\n\t\t\t\tw.buf,", New: "\t\t\t\tfalse,\n\t\t\t\tp[:len(w.buf)],",
		Expect: "buffer-handoff"})
	addWitness(witness{Prop: "C01", Name: "buffer-not-rebound", File: "pkg/cafs/writer.go",
		Old: "\t\t\tw.buf = make([]byte, w.leafSize) // new buffer\n", New: "",
		Expect: "buffer-handoff"})
	addWitness(witness{Prop: "C01", Name: "leaf-placed-by-arrival", File: "pkg/cafs/writer.go",
		Old: "\t\tw.leaves[bf.count-1] = bf.key", New: "\t\tw.leaves[len(w.leaves)-int(bf.count)] = bf.key",
		Expect: "leaf-numbering|guarded-core"})
	addWitness(witness{Prop: "C01", Name: "flush-reads-before-handshake", File: "pkg/cafs/writer.go",
		Old:    "\tclose(w.flushChan)\n\t<-w.flushThreadDoneChan\n\n\tif len(w.errors) != 0 {\n\t\treturn Key{}, nil, w.errors[0]\n\t}\n",
		New:    "\tif len(w.errors) != 0 {\n\t\treturn Key{}, nil, w.errors[0]\n\t}\n\tclose(w.flushChan)\n\t<-w.flushThreadDoneChan\n",
		Expect: "flush-order"})
	addWitness(witness{Prop: "C01", Name: "read-empty-guard-removed", File: "pkg/cafs/reader.go",
		Old: "\tif r.idx >= len(r.keys) {\n\t\t// no leaf (left) to read, e.g. empty content\n\t\treturn 0, io.EOF\n\t}\n", New: "",
		Expect: "empty-guard"})
	addWitness(witness{Prop: "C02", Name: "node-depth-changed", File: "pkg/cafs/hasher.go",
		Old: "\t\t\tNodeOffset:    n,\n\t\t\tNodeDepth:     0,", New: "\t\t\tNodeOffset:    n,\n\t\t\tNodeDepth:     1,",
		Expect: "tree-format"})
	addWitness(witness{Prop: "C02", Name: "last-flag-on-aligned-leaf", File: "pkg/cafs/reader.go",
		Old: "\t\t\t\tif index+1 == len(r.keys) && uint32(len(leaf)) != r.leafSize {", New: "\t\t\t\tif index+1 == len(r.keys) {",
		Expect: "offset-convention"})
	addWitness(witness{Prop: "C02", Name: "writer-flush-index-shift", File: "pkg/cafs/writer.go",
		Old: "KeyFromBytes(w.buf[:w.offset], w.leafSize, uint64(len(w.leaves)), isLastNode)", New: "KeyFromBytes(w.buf[:w.offset], w.leafSize, uint64(len(w.leaves)+1), isLastNode)",
		Expect: "offset-convention"})
	addWitness(witness{Prop: "C02", Name: "dedup-skips-corrupted", File: "pkg/cafs/writer.go",
		Old: "\tcase found && !overwrite:\n\t\t// the blob has been found and checked", New: "\tcase found:\n\t\t// the blob has been found and checked",
		Expect: "dedup|guarded-core"})
	addWitness(witness{Prop: "C03", Name: "writeto-skips-verify", File: "pkg/cafs/reader.go",
		Old:    "\t\t\t\tif erv := r.verifyHash(key, leaf, nodeOffset, isLastNode); erv != nil {\n\t\t\t\t\terrC <- erv\n\t\t\t\t\treturn\n\t\t\t\t}\n",
		New:    "\t\t\t\t_, _ = nodeOffset, isLastNode\n",
		Expect: "verify-coverage"})
	addWitness(witness{Prop: "C03", Name: "verify-only-last-leaf", File: "pkg/cafs/reader.go",
		Old: "\t\tif r.withVerifyHash {\n\t\t\tlogger.Debug(\"cafs reader ReadAt: hash verification\")", New: "\t\tif r.withVerifyHash && index+1 == len(r.keys) {\n\t\t\tlogger.Debug(\"cafs reader ReadAt: hash verification\")",
		Expect: "verify-coverage"})
	addWitness(witness{Prop: "C03", Name: "root-fastpath-skips-checksum", File: "pkg/cafs/hasher.go",
		Old:    "\tb, err := bytesFromRoot(blobs, hash, prefix)\n\tif err != nil {\n\t\treturn nil, err\n\t}\n\treturn verifiedKeys(b, leafSize)",
		New:    "\tb, err := bytesFromRoot(blobs, hash, prefix)\n\tif err != nil {\n\t\treturn nil, err\n\t}\n\tif len(b) == KeySize {\n\t\treturn []Key{}, nil\n\t}\n\treturn verifiedKeys(b, leafSize)",
		Expect: "verify-coverage"})
	addWitness(witness{Prop: "C03", Name: "mismatch-logged-only", File: "pkg/cafs/reader.go",
		Old: "\t\treturn errors.New(\"hash verification failed\")\n\t}\n\treturn nil", New: "\t\t_ = errors.New(\"hash verification failed\")\n\t}\n\treturn nil",
		Expect: "mismatch-is-error"})
	addWitness(witness{Prop: "C03", Name: "put-clobbers-write-error", File: "pkg/storage/localfs/store.go",
		Old:    "\t\t\tif e := target.Close(); e != nil {\n\t\t\t\tl.l.Error(\"write error, retrying\",\n\t\t\t\t\tzap.String(\"key\", key),\n\t\t\t\t\tzap.Error(e),\n\t\t\t\t)\n\t\t\t\tif err == nil {\n\t\t\t\t\t// do not mask a write error by the outcome of Close\n\t\t\t\t\terr = e\n\t\t\t\t}\n\t\t\t}\n\n\t\t\terr = commit(err)\n\t\t\treturn err\n\t\t}\n\t\terr = backoff.Retry(operation, retryPolicy)\n\t\tif err != nil {\n\t\t\treturn fmt.Errorf(\"write record for %q: %v\", key, err)\n\t\t}\n\t} else {",
		New:    "\t\t\terr = target.Close()\n\t\t\tif err != nil {\n\t\t\t\tl.l.Error(\"write error, retrying\",\n\t\t\t\t\tzap.String(\"key\", key),\n\t\t\t\t\tzap.Error(err),\n\t\t\t\t)\n\t\t\t}\n\n\t\t\terr = commit(err)\n\t\t\treturn err\n\t\t}\n\t\terr = backoff.Retry(operation, retryPolicy)\n\t\tif err != nil {\n\t\t\treturn fmt.Errorf(\"write record for %q: %v\", key, err)\n\t\t}\n\t} else {",
		Expect: "errors-surface"})
	addWitness(witness{Prop: "C03", Name: "download-absorbs-put-error", File: "pkg/core/bundle_unpack.go",
		Old:    "\t\tbundle.l.Error(\"Failed to download bundle entry: put to store\",\n\t\t\tzap.String(\"name\", bundleEntry.NameWithPath),\n\t\t\tzap.Error(err))\n\t\treturn err",
		New:    "\t\tbundle.l.Error(\"Failed to download bundle entry: put to store\",\n\t\t\tzap.String(\"name\", bundleEntry.NameWithPath),\n\t\t\tzap.Error(err))\n\t\tif !overwrite {\n\t\t\treturn nil\n\t\t}\n\t\treturn err",
		Expect: "no-success-on-failure"})
	addWitness(witness{Prop: "C03", Name: "default-verify-off", File: "pkg/cafs/cafs.go",
		Old: "\t\twithVerifyHash:              true,  // verify read blobs and written root key", New: "\t\twithVerifyHash:              false, // verify read blobs and written root key",
		Expect: "defaults"})
}

// ---------------------------------------------------------------------------------------------------

func runC01(c *Ctx) {
	p := c.P
	c.assume("the backing store returns the bytes that were put under a key (C16 for localfs)")
	// (1) slice bounds
	accepted := map[string]string{}
	for _, s := range enumTwoSidedSlices(p, "pkg/cafs") {
		if strings.Contains(s.Fn.ID, "fake_data") || strings.HasSuffix(s.Fn.Decl.Name.Name, "Fake") {
			continue
		}
		ok, why := proveSliceBounds(s.Fn, s.Expr)
		if w, acc := accepted[s.Key]; acc {
			c.ok("slice-bounds", s.Key, p.Pos(s.Expr.Pos()), "accepted with argument: "+w)
			continue
		}
		c.check(ok, "slice-bounds", s.Key, p.Pos(s.Expr.Pos()), "`"+exprString(s.Expr)+"`: "+why,
			"two-sided slice `"+exprString(s.Expr)+"` is not provably well-formed ("+why+"): it can panic with slice bounds out of range or copy nothing and spin")
	}
	c.requireInstances("slice-bounds", 3)
	// the writer's copy window: copy(w.buf[w.offset:], p[written:]) — source must be a one-sided slice of the input
	// starting at the running count, destination the staging buffer from its fill offset
	{
		f := p.Func("pkg/cafs.fsWriter.Write")
		info := f.Info()
		n := 0
		ast.Inspect(f.Decl.Body, func(nd ast.Node) bool {
			call, ok := nd.(*ast.CallExpr)
			if !ok {
				return true
			}
			id, ok := ast.Unparen(call.Fun).(*ast.Ident)
			if !ok || id.Name != "copy" {
				return true
			}
			if _, isB := info.Uses[id].(*types.Builtin); !isB {
				return true
			}
			n++
			dst, src := describeExpr(f, call.Args[0], 0), describeExpr(f, call.Args[1], 0)
			okDst := dst == "recv.buf[recv.offset:]"
			c.check(okDst, "writer-window", f.ID+":copy.dst", p.Pos(call.Pos()), "destination is w.buf[w.offset:]", "the writer copies input into `"+dst+"` instead of w.buf[w.offset:]")
			// src: param#0[<running count>:] with no upper bound, the running count being advanced by copy's result
			se, isSlice := ast.Unparen(call.Args[1]).(*ast.SliceExpr)
			okSrc := isSlice && se.High == nil && describeExpr(f, se.X, 0) == "param#0" && se.Low != nil
			c.check(okSrc, "writer-window", f.ID+":copy.src", p.Pos(call.Pos()), "source is p[written:] ("+src+")", "the writer's copy source is `"+src+"`: the window of the input must be p[written:] (bounded by copy itself)")
			return true
		})
		if n != 1 {
			c.fail("writer-window", f.ID+":copy", p.Pos(f.Decl.Pos()), "expected exactly one copy into the staging buffer, found "+itoa(n))
		}
	}
	// (2) buffer hand-off
	checkWriterHandoff(c, "buffer-handoff")
	// (3) leaf numbering
	{
		f := p.Func("pkg/cafs.fsWriter.Write")
		info := f.Info()
		const fresh, counted = 1, 2
		// helpers of the package that Write calls and that start the flush goroutine themselves (a hand-off extracted
		// from Write): analysed as part of Write
		var helpers []*FuncInfo
		ast.Inspect(f.Decl.Body, func(nd ast.Node) bool {
			call, ok := nd.(*ast.CallExpr)
			if !ok {
				return true
			}
			h := p.FuncOpt(calleeID(info, call))
			if h == nil || h.Decl.Body == nil || ast.IsExported(h.Decl.Name.Name) || !strings.HasPrefix(h.ID, "pkg/cafs.") || h.ID == "pkg/cafs.pFlush" {
				return true
			}
			starts := false
			ast.Inspect(h.Decl.Body, func(m ast.Node) bool {
				if g, ok := m.(*ast.GoStmt); ok && calleeID(h.Info(), g.Call) == "pkg/cafs.pFlush" {
					starts = true
				}
				return true
			})
			if starts {
				helpers = append(helpers, h)
			}
			return true
		})
		isHelperCall := func(n ast.Node) *FuncInfo {
			es, ok := n.(*ast.ExprStmt)
			if !ok {
				return nil
			}
			call, ok := ast.Unparen(es.X).(*ast.CallExpr)
			if !ok {
				return nil
			}
			id := calleeID(info, call)
			for _, h := range helpers {
				if h.ID == id {
					return h
				}
			}
			return nil
		}
		// countFlow: on every path w.count is incremented exactly once before each `go pFlush`; returns the offending
		// nodes, the number of flush starts, and whether every exit leaves no pending increment
		var countFlow func(g *FuncInfo, depth int) ([]ast.Node, int, bool)
		countFlow = func(g *FuncInfo, depth int) ([]ast.Node, int, bool) {
			gb := p.BodyOf(g)
			ginfo := g.Info()
			var bad []ast.Node
			nGo := 0
			clean := true
			gb.run(flowSpec{entry: fresh, node: func(n ast.Node, s uint64) uint64 {
				if inc, ok := n.(*ast.IncDecStmt); ok && inc.Tok == token.INC && describeExpr(g, inc.X, 0) == "recv.count" {
					if s&counted != 0 {
						bad = append(bad, n)
					}
					return counted
				}
				if gs, ok := n.(*ast.GoStmt); ok && calleeID(ginfo, gs.Call) == "pkg/cafs.pFlush" {
					nGo++
					if s&fresh != 0 {
						bad = append(bad, gs)
					}
					return fresh
				}
				if g == f && depth == 0 {
					if h := isHelperCall(n); h != nil {
						hbad, hgo, hclean := countFlow(h, 1)
						if len(hbad) > 0 || hgo == 0 || !hclean || s&counted != 0 {
							bad = append(bad, n)
						}
						nGo += hgo
						return fresh
					}
				}
				return s
			}, exit: func(_ *cfg.Block, _ *ast.ReturnStmt, s uint64) {
				if depth > 0 && s&counted != 0 {
					clean = false
				}
			}})
			return bad, nGo, clean
		}
		bad, nGo, _ := countFlow(f, 0)
		c.check(nGo > 0 && len(bad) == 0, "leaf-numbering.count-once-per-leaf", f.ID, p.Pos(f.Decl.Pos()),
			"w.count is incremented exactly once before each flush goroutine", "w.count is not incremented exactly once before each `go pFlush`: two leaves would share a number or a number would be skipped, and Flush places keys by that number")
		// the count handed over is w.count
		for _, g := range append([]*FuncInfo{f}, helpers...) {
			g := g
			ginfo := g.Info()
			ast.Inspect(g.Decl.Body, func(nd ast.Node) bool {
				if gs, ok := nd.(*ast.GoStmt); ok && calleeID(ginfo, gs.Call) == "pkg/cafs.pFlush" && len(gs.Call.Args) >= 4 {
					got := describeExpr(g, gs.Call.Args[3], 0)
					c.check(got == "recv.count", "leaf-numbering.count-passed", callKey(g, gs.Call), p.Pos(gs.Pos()), "leaf number argument <- w.count", "the leaf number handed to pFlush is `"+got+"`, not w.count")
					last := describeExpr(g, gs.Call.Args[0], 0)
					c.check(last == "const:false", "leaf-numbering.count-passed", callKey(g, gs.Call)+":isLast", p.Pos(gs.Pos()), "full leaves are flushed with isLastNode=false", "full leaves are flushed with isLastNode="+last)
					ls := describeExpr(g, gs.Call.Args[2], 0)
					c.check(ls == "recv.leafSize", "leaf-numbering.count-passed", callKey(g, gs.Call)+":leafSize", p.Pos(gs.Pos()), "leaf size argument <- w.leafSize", "leaf size handed to pFlush is `"+ls+"`")
				}
				return true
			})
		}
	}
	{
		f := p.Func("pkg/cafs.pFlush")
		lits := compositeLits(f, "pkg/cafs.blobFlush")
		if len(lits) != 1 {
			c.fail("leaf-numbering.flush-report", f.ID, p.Pos(f.Decl.Pos()), "expected one blobFlush literal")
		} else {
			checkLitFields(c, "leaf-numbering.flush-report", f, lits[0], f.ID+":blobFlush", map[string]string{
				"count": "param#3",
				"key":   "call:pkg/cafs.KeyFromBytes(param#1,param#2,param#3,param#0)#0",
			}, "Flush would file the key under another leaf number")
		}
		// the blob written is the hashed buffer under the computed key
		info := f.Info()
		ast.Inspect(f.Decl.Body, func(nd ast.Node) bool {
			if call, ok := nd.(*ast.CallExpr); ok {
				if v, ok := calleeObj(info, call).(*types.Var); ok && paramIndex(f, v) == 7 && len(call.Args) == 3 {
					a0, a1 := describeExpr(f, call.Args[0], 0), describeExpr(f, call.Args[1], 0)
					c.check(a0 == "param#1" && a1 == "call:pkg/cafs.KeyFromBytes(param#1,param#2,param#3,param#0)#0", "leaf-numbering.flush-report", f.ID+":blobWriter", p.Pos(call.Pos()),
						"the buffer that was hashed is the buffer that is stored, under its own key", "pFlush stores `"+a0+"` under key `"+a1+"`")
				}
			}
			return true
		})
	}
	{
		f := p.Func("pkg/cafs.fsWriter.Flush")
		info := f.Info()
		n := 0
		ast.Inspect(f.Decl.Body, func(nd ast.Node) bool {
			as, ok := nd.(*ast.AssignStmt)
			if !ok || len(as.Lhs) != 1 {
				return true
			}
			ix, ok := as.Lhs[0].(*ast.IndexExpr)
			if !ok || describeExpr(f, ix.X, 0) != "recv.leaves" {
				return true
			}
			n++
			idx := describeExpr(f, ix.Index, 0)
			val := describeExpr(f, as.Rhs[0], 0)
			// the element is named by a range value or, equivalently, indexed by the range key / an index loop
			el := "recv.blobFlushes[rangekey(recv.blobFlushes)]"
			if (idx == "(range(recv.blobFlushes).count-const:1)" && val == "range(recv.blobFlushes).key") || (idx == "("+el+".count-const:1)" && val == el+".key") {
				c.ok("leaf-numbering.placed-by-number", f.ID+":leaves[]", p.Pos(as.Pos()), "leaves[bf.count-1] = bf.key for every collected flush")
			} else {
				c.fail("leaf-numbering.placed-by-number", f.ID+":leaves[]", p.Pos(as.Pos()), "Flush stores `"+val+"` at leaves[`"+idx+"`]: leaf keys must be placed by their leaf number, flush goroutines complete in any order")
			}
			return true
		})
		if n != 1 {
			c.fail("leaf-numbering.placed-by-number", f.ID+":leaves[]", p.Pos(f.Decl.Pos()), "expected one indexed store into w.leaves, found "+itoa(n))
		}
		_ = info
	}
	// (4) Flush order
	checkFlushOrder(c, "flush-order")
	// (5) empty guards
	checkKeysIndexGuards(c, "empty-guard")
	// the three read styles recompute each leaf key with the writer's (offset, last-node) convention: a reader that
	// disagrees cannot read back what the writer stored (shared with C02, which needs it for key determinism)
	checkOffsetConvention(c, "offset-convention")
	checkReadAccounting(c, "read.bytes-accounted")
	checkEOFByIdentity(c, "read.eof-by-identity")
	if n := checkReadCountConsumed(c, "read.count-before-eof"); n < 2 {
		c.fail("read.count-before-eof", "instances", "-", "expected at least 2 Read loops in the data path, found "+itoa(n))
	}
	checkWriterIntakeClosedWorld(c, "writer.intake-closed-world")
	checkGenericErrorDiscipline(c, "pkg/cafs")
	checkReadAtOffsetWithinLeaf(c, "read.offset-within-leaf")
	checkEmptyObjectReadable(c, "read.empty-object-readable")
	checkWriterChannelsUnbuffered(c, "flush-order.channels-unbuffered")
	checkNoStreamInRetry(c, "read.no-stream-in-retry", "pkg/cafs")
	checkShortReadIsNotEOF(c, "read.short-read-not-eof")
	checkBlobPutsIdempotent(c, "dedup.blob-puts-idempotent")
	checkLeafBufferNotRetained(c, "read.leaf-buffer-not-retained")
	checkReadAtExits(c, "read.readat-exits")
	checkWriterFlushShape(c, "flush.shape")
}

// checkWriterHandoff: ownership of the buffer given to `go pFlush`.
func checkWriterHandoff(c *Ctx, rule string) {
	p := c.P
	f := p.Func("pkg/cafs.fsWriter.Write")
	b := p.BodyOf(f)
	info := f.Info()
	const owned, handed = 1, 2
	var bad []ast.Node
	var badWhy string
	nGo := 0
	mentionsBuf := func(n ast.Node) bool {
		found := false
		ast.Inspect(n, func(m ast.Node) bool {
			if sel, ok := m.(*ast.SelectorExpr); ok && sel.Sel.Name == "buf" && describeExpr(f, sel, 0) == "recv.buf" {
				found = true
			}
			return !found
		})
		return found
	}
	// the hand-off: `go pFlush(_, buf, …)` in Write itself, or a call of an unexported helper of the package that does
	// `go pFlush(_, <its parameter>, …)` — then the buffer is the argument passed for that parameter
	handoff := func(n ast.Node) (ast.Node, ast.Expr) {
		if g, ok := n.(*ast.GoStmt); ok && calleeID(info, g.Call) == "pkg/cafs.pFlush" && len(g.Call.Args) > 1 {
			return g, g.Call.Args[1]
		}
		es, ok := n.(*ast.ExprStmt)
		if !ok {
			return nil, nil
		}
		call, ok := ast.Unparen(es.X).(*ast.CallExpr)
		if !ok {
			return nil, nil
		}
		h := p.FuncOpt(calleeID(info, call))
		if h == nil || h.Decl.Body == nil || ast.IsExported(h.Decl.Name.Name) || !strings.HasPrefix(h.ID, "pkg/cafs.") {
			return nil, nil
		}
		var buf ast.Expr
		ast.Inspect(h.Decl.Body, func(m ast.Node) bool {
			if g, ok := m.(*ast.GoStmt); ok && calleeID(h.Info(), g.Call) == "pkg/cafs.pFlush" && len(g.Call.Args) > 1 {
				d := describeExpr(h, g.Call.Args[1], 0)
				if strings.HasPrefix(d, "param#") {
					if i, err := strconv.Atoi(strings.TrimPrefix(d, "param#")); err == nil && i < len(call.Args) {
						buf = call.Args[i]
					}
				} else if d == "recv.buf" {
					if sel, ok := ast.Unparen(call.Fun).(*ast.SelectorExpr); ok {
						buf = &ast.SelectorExpr{X: sel.X, Sel: ast.NewIdent("buf")}
					}
				}
			}
			return true
		})
		if buf == nil {
			return nil, nil
		}
		return es, buf
	}
	b.run(flowSpec{entry: owned, node: func(n ast.Node, s uint64) uint64 {
		if g, bufArg := handoff(n); g != nil {
			nGo++
			{
				got := "recv.buf"
				if _, synthetic := bufArg.(*ast.SelectorExpr); !synthetic || bufArg.Pos().IsValid() {
					got = describeExpr(f, bufArg, 0)
				}
				if got != "recv.buf" {
					bad = append(bad, g)
					if badWhy == "" {
						badWhy = "the buffer handed to the asynchronous flush is `" + got + "`, not the writer's own staging buffer: Write returns while the flush goroutine still reads memory the caller may reuse"
					}
					return s // the staging buffer itself was not handed over
				}
			}
			if s&handed != 0 {
				bad = append(bad, g)
				badWhy = "a buffer already handed to a flush goroutine is handed over again"
			}
			return handed
		}
		if as, ok := n.(*ast.AssignStmt); ok && len(as.Lhs) == 1 && len(as.Rhs) == 1 && describeExpr(f, as.Lhs[0], 0) == "recv.buf" {
			rhs := describeExpr(f, as.Rhs[0], 0)
			if strings.HasPrefix(rhs, "call:builtin.make(") {
				return owned
			}
			bad = append(bad, as)
			badWhy = "w.buf is re-bound to `" + rhs + "`, not to a fresh make([]byte, leafSize)"
			return owned
		}
		if s&handed != 0 && mentionsBuf(n) {
			bad = append(bad, n)
			badWhy = "the staging buffer is used again after being handed to a flush goroutine and before being re-bound to a fresh buffer: the next input overwrites the leaf being hashed/stored"
		}
		if _, ok := n.(*ast.ReturnStmt); ok && s&handed != 0 {
			bad = append(bad, n)
			badWhy = "Write can return while w.buf still designates a buffer owned by a flush goroutine"
		}
		return s
	}})
	if nGo == 0 {
		c.fail(rule, f.ID, p.Pos(f.Decl.Pos()), "no `go pFlush` found in Write")
		return
	}
	if len(bad) > 0 {
		c.fail(rule, f.ID+":go-pFlush", p.Pos(bad[0].Pos()), badWhy)
	} else {
		c.ok(rule, f.ID+":go-pFlush", p.Pos(f.Decl.Pos()), "the buffer handed to pFlush is w.buf, re-bound to a fresh make() before any further use or return")
	}
	// offset reset after hand-off
	okReset := false
	ast.Inspect(f.Decl.Body, func(nd ast.Node) bool {
		if as, ok := nd.(*ast.AssignStmt); ok && len(as.Lhs) == 1 && describeExpr(f, as.Lhs[0], 0) == "recv.offset" && describeExpr(f, as.Rhs[0], 0) == "const:0" {
			okReset = true
		}
		return true
	})
	c.check(okReset, rule, f.ID+":offset-reset", p.Pos(f.Decl.Pos()), "w.offset is reset to 0 with the new buffer", "w.offset is no longer reset to 0 after the hand-off")
	// hand-off happens only when the buffer is full: the go statement is on the true edge of w.offset == len(w.buf)
	okFull := false
	ast.Inspect(f.Decl.Body, func(nd ast.Node) bool {
		ifs, ok := nd.(*ast.IfStmt)
		if !ok {
			return true
		}
		hasGo := false
		ast.Inspect(ifs.Body, func(m ast.Node) bool {
			if g, _ := handoff(m); g != nil {
				hasGo = true
			}
			return true
		})
		if hasGo {
			d := describeExpr(f, ifs.Cond, 0)
			if d == "(recv.offset==call:builtin.len(recv.buf))" || d == "(call:builtin.len(recv.buf)==recv.offset)" {
				okFull = true
			}
		}
		return true
	})
	c.check(okFull, rule, f.ID+":full-leaf-only", p.Pos(f.Decl.Pos()), "a leaf is flushed from Write only when the staging buffer is full", "Write flushes a leaf under a condition other than w.offset == len(w.buf): partial leaves would be hashed as full ones")
}

func checkFlushOrder(c *Ctx, rule string) {
	p := c.P
	f := p.Func("pkg/cafs.fsWriter.Flush")
	b := p.BodyOf(f)
	info := f.Info()
	// events
	isClose := func(n ast.Node) bool {
		es, ok := n.(*ast.ExprStmt)
		if !ok {
			return false
		}
		call, ok := es.X.(*ast.CallExpr)
		if !ok {
			return false
		}
		id, ok := ast.Unparen(call.Fun).(*ast.Ident)
		return ok && id.Name == "close" && len(call.Args) == 1 && describeExpr(f, call.Args[0], 0) == "recv.flushChan"
	}
	isHandshake := func(n ast.Node) bool {
		es, ok := n.(*ast.ExprStmt)
		if !ok {
			return false
		}
		u, ok := ast.Unparen(es.X).(*ast.UnaryExpr)
		return ok && u.Op == token.ARROW && describeExpr(f, u.X, 0) == "recv.flushThreadDoneChan"
	}
	readsResults := func(n ast.Node) bool {
		found := false
		ast.Inspect(n, func(m ast.Node) bool {
			if sel, ok := m.(*ast.SelectorExpr); ok && (sel.Sel.Name == "errors" || sel.Sel.Name == "blobFlushes") && info.Selections[sel] != nil {
				if d := describeExpr(f, sel, 0); d == "recv.errors" || d == "recv.blobFlushes" {
					found = true
				}
			}
			return !found
		})
		return found
	}
	const s0, sFilled, sClosed, sDone, sTrail, sRoot = 1, 2, 4, 8, 16, 32
	fillCond := map[ast.Expr]bool{}
	ast.Inspect(f.Decl.Body, func(nd ast.Node) bool {
		fs, ok := nd.(*ast.ForStmt)
		if ok && fs.Cond != nil && strings.Contains(describeExpr(f, fs.Cond, 0), "call:builtin.cap(recv.maxGoRoutines)") {
			for _, st := range fs.Body.List {
				if s, ok := st.(*ast.SendStmt); ok && describeExpr(f, s.Chan, 0) == "recv.maxGoRoutines" {
					fillCond[fs.Cond] = true
				}
			}
		}
		return true
	})
	var bad []string
	var badPos token.Pos
	note := func(pos token.Pos, s string) {
		if len(bad) == 0 {
			badPos = pos
		}
		bad = append(bad, s)
	}
	seen := map[string]bool{}
	b.run(flowSpec{entry: s0,
		node: func(n ast.Node, s uint64) uint64 {
			if isClose(n) {
				seen["close"] = true
				if s&sFilled == 0 {
					note(n.Pos(), "flushChan is closed before the semaphore was filled cap times: flush goroutines may still be running and will send on a closed channel or be missed")
				}
				return s | sClosed
			}
			if isHandshake(n) {
				seen["handshake"] = true
				if s&sClosed == 0 {
					note(n.Pos(), "the done handshake is awaited before flushChan is closed (deadlock) or without closing it")
				}
				return s | sDone
			}
			if readsResults(n) && s&sDone == 0 {
				note(n.Pos(), "w.errors / w.blobFlushes are read before the flush thread signalled completion: errors and leaf keys collected concurrently are missed (and the read races)")
			}
			for _, call := range callsIn(n) {
				switch calleeID(info, call) {
				case "pkg/cafs.fsWriter.flush":
					seen["trail"] = true
					if s&sDone == 0 {
						note(call.Pos(), "the trailing leaf is hashed before the parallel flushes were collected: its node offset len(w.leaves) is wrong")
					}
					if len(call.Args) == 1 && describeExpr(f, call.Args[0], 0) != "const:true" {
						note(call.Pos(), "Flush hashes the trailing leaf with isLastNode != true")
					}
					s |= sTrail
				case "pkg/cafs.RootHash":
					seen["root"] = true
					if s&sTrail == 0 {
						note(call.Pos(), "the root hash is computed before the trailing partial leaf was flushed: the last bytes of the content are not covered by the key")
					}
					s |= sRoot
				}
			}
			return s
		},
		edge: func(blk *cfg.Block, i int, s uint64) uint64 {
			if cond := condOf(blk); cond != nil && fillCond[cond] && i == 1 {
				return s | sFilled
			}
			return s
		},
		exit: func(blk *cfg.Block, ret *ast.ReturnStmt, s uint64) {
			if ret != nil && b.classifyReturn(ret) != retFailure && s&sRoot == 0 {
				note(ret.Pos(), "Flush can return success without computing the root hash")
			}
		},
	})
	for _, k := range []string{"close", "handshake", "trail", "root"} {
		if !seen[k] {
			note(f.Decl.Pos(), "Flush no longer contains its "+k+" step")
		}
	}
	if len(fillCond) == 0 {
		note(f.Decl.Pos(), "Flush no longer fills the flush semaphore cap times before collecting results")
	}
	if len(bad) > 0 {
		c.fail(rule, f.ID, p.Pos(badPos), bad[0])
	} else {
		c.ok(rule, f.ID, p.Pos(f.Decl.Pos()), "fill(cap) -> close(flushChan) -> <-done -> read results -> flush(true) -> RootHash -> success, on every path")
	}
	// Put: Flush, Close, root write with keys||root, Written from io.Copy
	{
		pf := p.Func("pkg/cafs.defaultFs.Put")
		pb := p.BodyOf(pf)
		pinfo := pf.Info()
		isFlush := func(bd *Body, call *ast.CallExpr) bool { return calleeID(pinfo, call) == "pkg/cafs.Writer.Flush" }
		isRootW := func(bd *Body, call *ast.CallExpr) bool {
			return calleeID(pinfo, call) == "pkg/cafs.defaultFs.writeRootKey"
		}
		badW, nB := pb.dominatedBy(isFlush, isRootW)
		c.check(nB > 0 && len(badW) == 0, rule, pf.ID+":root-after-flush", p.Pos(pf.Decl.Pos()), "the root blob is written only after Flush", "the root blob can be written before the writer was flushed")
		lits := compositeLits(pf, "pkg/cafs.PutRes")
		okLit := false
		for _, cl := range lits {
			if fieldOfCompositeLit(cl, "Key") == nil {
				continue
			}
			okLit = true
			// Written: the count of the copy of the source into this Put's own writer; a copy buffer, if any, must be
			// local to the call (a buffer shared by the Fs is overwritten by concurrent Puts)
			if wv := fieldOfCompositeLit(cl, "Written"); wv != nil {
				d := describeExpr(pf, wv, 0)
				okW := d == "call:io.Copy(recv.writer(),param#1)#0"
				if !okW && strings.HasPrefix(d, "call:io.CopyBuffer(recv.writer(),param#1,") && strings.HasSuffix(d, ")#0") {
					buf := strings.TrimSuffix(strings.TrimPrefix(d, "call:io.CopyBuffer(recv.writer(),param#1,"), ")#0")
					okW = buf == "nil" || strings.HasPrefix(buf, "call:builtin.make(")
				}
				c.check(okW, rule, pf.ID+":PutRes.Written", p.Pos(wv.Pos()), "Written <- "+d,
					"field Written is fed from `"+d+"`, expected the count of io.Copy (or io.CopyBuffer with a buffer local to the call) of the source into this Put's own writer: a copy buffer shared by the Fs lets concurrent Puts overwrite one another's bytes before they reach the leaves")
			} else {
				c.fail(rule, pf.ID+":PutRes.Written", p.Pos(cl.Pos()), "PutRes.Written is not set")
			}
			checkLitFields(c, rule, pf, cl, pf.ID+":PutRes", map[string]string{
				"Key":  "recv.writer().Flush()#0",
				"Keys": "recv.writer().Flush()#1",
			}, "the reported size/key would not describe what was stored")
		}
		c.check(okLit, rule, pf.ID+":PutRes", p.Pos(pf.Decl.Pos()), "Put returns a populated PutRes", "Put no longer returns a PutRes with Key/Keys/Written")
		// root blob content = keys || root
		mk := p.Func("pkg/cafs.defaultFs.makeRootKey")
		okApp := false
		ast.Inspect(mk.Decl.Body, func(nd ast.Node) bool {
			if call, ok := nd.(*ast.CallExpr); ok && len(call.Args) == 2 && strings.HasPrefix(describeExpr(mk, call, 0), "call:builtin.append(") {
				a0, a1 := describeExpr(mk, call.Args[0], 0), describeExpr(mk, call.Args[1], 0)
				if a1 == "param#1[:]" && (a0 == "param#2" || strings.HasSuffix(a0, "|param#2}")) {
					okApp = true
				}
			}
			return true
		})
		c.check(okApp, rule, mk.ID, p.Pos(mk.Decl.Pos()), "root blob content is the leaf keys followed by the root key", "makeRootKey no longer builds keys||root: verifiedKeys reads the trailing 64 bytes as the verification key")
		vk := p.Func("pkg/cafs.verificationKey")
		okTail := false
		ast.Inspect(vk.Decl.Body, func(nd ast.Node) bool {
			if se, ok := nd.(*ast.SliceExpr); ok {
				if describeExpr(vk, se, 0) == "param#0[(call:builtin.len(param#0)-const:64):]" {
					okTail = true
				}
			}
			return true
		})
		c.check(okTail, rule, vk.ID, p.Pos(vk.Decl.Pos()), "the verification key is the last KeySize bytes of the root blob", "verificationKey no longer reads the trailing KeySize bytes")
	}
}

// checkKeysIndexGuards: Read/ReadAt/WriteTo guard r.keys before indexing it with reader state.
func checkKeysIndexGuards(c *Ctx, rule string) {
	p := c.P
	for _, id := range []string{"pkg/cafs.chunkReader.Read", "pkg/cafs.chunkReader.ReadAt", "pkg/cafs.chunkReader.WriteTo"} {
		f := p.Func(id)
		b := p.BodyOf(f)
		info := f.Info()
		// first non-range indexing of recv.keys in the body (outside literals)
		var firstIdx *ast.IndexExpr
		ast.Inspect(f.Decl.Body, func(nd ast.Node) bool {
			if _, ok := nd.(*ast.FuncLit); ok {
				return false
			}
			if ix, ok := nd.(*ast.IndexExpr); ok && firstIdx == nil && describeExpr(f, ix.X, 0) == "recv.keys" {
				firstIdx = ix
			}
			return true
		})
		if firstIdx == nil {
			// iterates with range only: safe by construction
			c.ok(rule, id, p.Pos(f.Decl.Pos()), "r.keys is only ranged over: no index can be out of bounds")
			continue
		}
		idxDesc := describeExpr(f, firstIdx.Index, 0)
		// a guard: if <idx> >= len(recv.keys) { return } (or len(recv.keys) == 0) whose true branch returns, dominating firstIdx
		const unguarded, guarded = 1, 2
		bad := false
		b.run(flowSpec{entry: unguarded,
			node: func(n ast.Node, s uint64) uint64 {
				if containsNode(n, firstIdx) && s&unguarded != 0 {
					bad = true
				}
				return s
			},
			edge: func(blk *cfg.Block, i int, s uint64) uint64 {
				cond := condOf(blk)
				if cond == nil {
					return s
				}
				d := describeExpr(f, cond, 0)
				isGuard := d == "("+idxDesc+">=call:builtin.len(recv.keys))" || d == "(call:builtin.len(recv.keys)==const:0)" || d == "(call:builtin.len(recv.keys)<="+idxDesc+")"
				if isGuard && i == 1 {
					return guarded
				}
				return s
			}})
		_ = info
		c.check(!bad, rule, id, p.Pos(firstIdx.Pos()), "r.keys["+idxDesc+"] is reached only after a bounds test against len(r.keys)",
			"r.keys["+idxDesc+"] can be evaluated without any test against len(r.keys): reading an empty object (or past the last leaf) panics with index out of range")
	}
}

// ---------------------------------------------------------------------------------------------------

func runC02(c *Ctx) {
	p := c.P
	c.assume("github.com/minio/blake2b-simd implements BLAKE2b tree mode for the parameters it is given")
	// (1) tree format
	wantLeaf := map[string]string{"Fanout": "const:0", "MaxDepth": "const:2", "LeafSize": "param#1", "NodeOffset": "param#2", "NodeDepth": "const:0", "InnerHashSize": "const:64", "IsLastNode": "param#3"}
	wantRoot := map[string]string{"Fanout": "const:0", "MaxDepth": "const:2", "LeafSize": "param#1", "NodeOffset": "const:0", "NodeDepth": "const:1", "InnerHashSize": "const:64", "IsLastNode": "const:true"}
	for id, want := range map[string]map[string]string{"pkg/cafs.keyFromBytes": wantLeaf, "pkg/cafs.rootHash": wantRoot} {
		f := p.Func(id)
		info := f.Info()
		var newCall *ast.CallExpr
		ast.Inspect(f.Decl.Body, func(nd ast.Node) bool {
			if call, ok := nd.(*ast.CallExpr); ok && strings.HasSuffix(calleeID(info, call), "blake2b-simd.New") {
				newCall = call
			}
			return true
		})
		if newCall == nil || len(newCall.Args) != 1 {
			c.fail("tree-format", id, p.Pos(f.Decl.Pos()), "no blake2b.New(config) call found")
			continue
		}
		// the config must be a literal built in this call (not a cached package-level value)
		arg := ast.Unparen(newCall.Args[0])
		var cfgLit *ast.CompositeLit
		if u, ok := arg.(*ast.UnaryExpr); ok && u.Op == token.AND {
			cfgLit, _ = ast.Unparen(u.X).(*ast.CompositeLit)
		}
		if cfgLit == nil {
			c.fail("tree-format", id+":config", p.Pos(newCall.Pos()), "the hash configuration passed to blake2b.New is `"+describeExpr(f, arg, 0)+"`, not a literal built from this call's parameters: leaf size / node offset of another call can leak into this key")
			continue
		}
		inLit := false
		for _, l := range f.Lits {
			if containsNode(l, cfgLit) {
				inLit = true
			}
		}
		c.check(!inLit, "tree-format", id+":config", p.Pos(cfgLit.Pos()), "configuration literal built per call", "the hash configuration is built inside a closure (e.g. once): its parameters are frozen at first use")
		if sz := fieldOfCompositeLit(cfgLit, "Size"); sz == nil || describeExpr(f, sz, 0) != "const:64" {
			c.fail("tree-format", id+":Size", p.Pos(cfgLit.Pos()), "digest size is not the constant 64")
		} else {
			c.ok("tree-format", id+":Size", p.Pos(cfgLit.Pos()), "digest size 64")
		}
		var tree *ast.CompositeLit
		if tv := fieldOfCompositeLit(cfgLit, "Tree"); tv != nil {
			if u, ok := ast.Unparen(tv).(*ast.UnaryExpr); ok {
				tree, _ = ast.Unparen(u.X).(*ast.CompositeLit)
			}
		}
		if tree == nil {
			c.fail("tree-format", id+":Tree", p.Pos(cfgLit.Pos()), "no Tree literal in the hash configuration")
			continue
		}
		checkLitFields(c, "tree-format", f, tree, id+":Tree", want, "keys would differ from the on-disk format datamon has always used (docs/blake2.md, pinned testdata)")
		// hashed input
		okIn := false
		ast.Inspect(f.Decl.Body, func(nd ast.Node) bool {
			if call, ok := nd.(*ast.CallExpr); ok {
				if fn, ok := calleeObj(info, call).(*types.Func); ok && fn.Name() == "Write" && len(call.Args) == 1 {
					d := describeExpr(f, call.Args[0], 0)
					if id == "pkg/cafs.keyFromBytes" && d == "param#0" || id == "pkg/cafs.rootHash" && d == "range(param#0)[:]" {
						okIn = true
					}
				}
			}
			return true
		})
		c.check(okIn, "tree-format", id+":input", p.Pos(f.Decl.Pos()), "the hasher is fed the data / the ordered leaf keys", "the hasher is no longer fed exactly the data (leaf) / the ordered leaf keys (root)")
	}
	// exported wrappers forward unchanged
	for id, want := range map[string]string{"pkg/cafs.KeyFromBytes": "call:pkg/cafs.keyFromBytes(param#0,param#1,param#2,param#3)", "pkg/cafs.RootHash": "call:pkg/cafs.rootHash(param#0,param#1)"} {
		f := p.Func(id)
		okW := false
		ast.Inspect(f.Decl.Body, func(nd ast.Node) bool {
			if r, ok := nd.(*ast.ReturnStmt); ok && len(r.Results) == 1 && describeExpr(f, r.Results[0], 0) == want {
				okW = true
			}
			return true
		})
		c.check(okW, "tree-format", id+":forwards", p.Pos(f.Decl.Pos()), "exported wrapper forwards its arguments unchanged", id+" no longer forwards its arguments unchanged")
	}
	// (2) offset convention
	checkOffsetConvention(c, "offset-convention")
	// (3) chunking independence: C01's hand-off clause
	checkWriterHandoff(c, "chunking-independence")
	// (4) dedup
	{
		f := p.Func("pkg/cafs.fsWriter.writeBlob")
		b := p.BodyOf(f)
		info := f.Info()
		const unknown, dup, notDup = 1, 2, 4
		var badPut, badDel []ast.Node
		nPut := 0
		sawCond := false
		isDupCond := func(e ast.Expr) bool {
			d := describeExpr(f, e, 0)
			return d == "(call:pkg/cafs.existsAndValidBlob(call:context.TODO(),recv.store,call:recv.pather(param#1),param#0,recv.l.With(call:go.uber.org/zap.String(const:\"blob_key\",call:recv.pather(param#1)),call:go.uber.org/zap.Uint64(const:\"offset\",param#2)))#0&&!call:pkg/cafs.existsAndValidBlob(call:context.TODO(),recv.store,call:recv.pather(param#1),param#0,recv.l.With(call:go.uber.org/zap.String(const:\"blob_key\",call:recv.pather(param#1)),call:go.uber.org/zap.Uint64(const:\"offset\",param#2)))#1)" ||
				isFoundAndNotOverwrite(f, e)
		}
		b.run(flowSpec{entry: unknown,
			node: func(n ast.Node, s uint64) uint64 {
				for _, call := range callsIn(n) {
					switch calleeID(info, call) {
					case "pkg/storage.Store.Put", "pkg/storage.StoreCRC.PutCRC":
						nPut++
						if s&(dup|unknown) != 0 {
							badPut = append(badPut, call)
						}
					case "pkg/storage.Store.Delete":
						badDel = append(badDel, call)
					}
				}
				return s
			},
			edge: func(blk *cfg.Block, i int, s uint64) uint64 {
				cond := condOf(blk)
				if cond != nil && isDupCond(cond) {
					sawCond = true
					if i == 0 {
						return dup
					}
					return notDup
				}
				return s
			},
			exit: func(blk *cfg.Block, ret *ast.ReturnStmt, s uint64) {},
		})
		if !sawCond || nPut == 0 {
			// the test may be nested (`if found { if !overwrite { return nil } … }`): decide on the guard of the skip instead
			okSkip, nSkip := true, 0
			for _, ga := range guardedActions(f, f.Decl.Body) {
				if ga.Action != "return nil" {
					continue
				}
				hasF, hasNotO, mentions := false, false, false
				for _, lit := range ga.Guard {
					if !strings.Contains(lit, "pkg/cafs.existsAndValidBlob(") {
						continue
					}
					mentions = true
					if strings.HasSuffix(lit, "#0") && !strings.HasPrefix(lit, "!") {
						hasF = true
					}
					if strings.HasSuffix(lit, "#1") && strings.HasPrefix(lit, "!") {
						hasNotO = true
					}
				}
				if mentions {
					nSkip++
					if !(hasF && hasNotO) {
						okSkip = false
					}
				}
			}
			c.check(nSkip > 0 && okSkip && nPut > 0, "dedup.skip-exactly-duplicates", f.ID, p.Pos(f.Decl.Pos()),
				"the write is skipped exactly where the blob was found and need not be overwritten",
				"writeBlob skips the write under a condition other than `found && !overwrite` from existsAndValidBlob (or no longer skips duplicates): a blob found corrupted is never repaired, or every duplicate is rewritten")
		} else {
			c.check(len(badPut) == 0 && len(badDel) == 0, "dedup.skip-exactly-duplicates", f.ID, p.Pos(f.Decl.Pos()),
				"the blob write is reachable only when the blob is absent or found corrupted; the duplicate branch writes and deletes nothing",
				"writeBlob can rewrite or delete an existing valid blob, or skip the write under a condition other than found && !overwrite")
		}
	}
	{
		f := p.Func("pkg/cafs.defaultFs.Put")
		info := f.Info()
		okGate := false
		ast.Inspect(f.Decl.Body, func(nd ast.Node) bool {
			ifs, ok := nd.(*ast.IfStmt)
			if !ok {
				return true
			}
			has := false
			ast.Inspect(ifs.Body, func(m ast.Node) bool {
				if call, ok := m.(*ast.CallExpr); ok && calleeID(info, call) == "pkg/cafs.defaultFs.writeRootKey" {
					has = true
				}
				return true
			})
			if has && isNotFoundOrOverwrite(f, ifs.Cond) {
				okGate = true
			}
			return true
		})
		c.check(okGate, "dedup.root-write-gate", f.ID, p.Pos(f.Decl.Pos()), "the root blob is (re)written exactly when !found || overwrite", "Put no longer writes the root blob exactly when it is absent or found corrupted")
		for _, cl := range compositeLits(f, "pkg/cafs.PutRes") {
			if v := fieldOfCompositeLit(cl, "Found"); v != nil {
				d := describeExpr(f, v, 0)
				c.check(strings.HasPrefix(d, "call:pkg/cafs.existsAndValidBlob(") && strings.HasSuffix(d, "#0"), "dedup.found-reported", f.ID+":PutRes.Found", p.Pos(v.Pos()), "PutRes.Found <- found of existsAndValidBlob on the root key", "PutRes.Found is fed from `"+d+"`")
			}
		}
		c.requireInstances("dedup.found-reported", 1)
	}
	{
		// existsAndValidBlob: found == (GetAttr error is nil); overwrite only for empty or CRC mismatch
		f := p.Func("pkg/cafs.existsAndValidBlob")
		okF := false
		ast.Inspect(f.Decl.Body, func(nd ast.Node) bool {
			if as, ok := nd.(*ast.AssignStmt); ok && len(as.Lhs) == 1 && len(as.Rhs) == 1 {
				if describeExpr(f, as.Rhs[0], 0) == "(param#1.GetAttr(param#0,param#2)#1==nil)" {
					okF = true
				}
			}
			return true
		})
		if !okF {
			// equivalent form: `if err != nil { return false, false }; found = true` — decided on guards: where the GetAttr
			// error is non-nil the function returns (false, …), and found is set true only where it is nil
			okNon, okNil := false, true
			for _, ga := range guardedActions(f, f.Decl.Body) {
				errNil, errNon := false, false
				for _, at := range ga.Atoms {
					if be, ok := ast.Unparen(at.Expr).(*ast.BinaryExpr); ok && (be.Op == token.EQL || be.Op == token.NEQ) {
						d := describeExprAt(f, be.X)
						if d == "param#1.GetAttr(param#0,param#2)#1" {
							isNil := (be.Op == token.EQL) != at.Neg
							errNil, errNon = errNil || isNil, errNon || !isNil
						}
					}
				}
				if errNon && strings.HasPrefix(ga.Action, "return const:false") {
					okNon = true
				}
				if strings.HasPrefix(ga.Action, "result#0 = const:true") && !errNil {
					okNil = false
				}
			}
			okF = okNon && okNil
		}
		c.check(okF, "dedup.found-means-present", f.ID, p.Pos(f.Decl.Pos()), "found <=> GetAttr of the blob path returned no error", "existsAndValidBlob no longer derives found from GetAttr(pth) succeeding")
	}
	// dedup: stored content is not rewritten on stores that report no checksum (shared with C15)
	checkCRCOptional(c, "dedup.crc-optional")
	checkReadCountConsumed(c, "chunking-independence.count-before-eof")
	checkWriterIntakeClosedWorld(c, "chunking-independence.intake-closed-world")
	checkFlushGuard(c, "tree-format.empty-tail-adds-no-leaf")
	checkGenericErrorDiscipline(c, "pkg/cafs")
	checkWriterChannelsUnbuffered(c, "chunking-independence.channels-unbuffered")
	checkKeyDerivationStateless(c, "tree-format.key-derivation-stateless")
	checkWriterFlushShape(c, "tree-format.flush-shape")
}

func isFoundAndNotOverwrite(f *FuncInfo, e ast.Expr) bool {
	be, ok := ast.Unparen(e).(*ast.BinaryExpr)
	if !ok || be.Op != token.LAND {
		return false
	}
	x := describeExpr(f, be.X, 0)
	u, ok := ast.Unparen(be.Y).(*ast.UnaryExpr)
	if !ok || u.Op != token.NOT {
		return false
	}
	y := describeExpr(f, u.X, 0)
	return strings.HasPrefix(x, "call:pkg/cafs.existsAndValidBlob(") && strings.HasSuffix(x, "#0") && strings.HasPrefix(y, "call:pkg/cafs.existsAndValidBlob(") && strings.HasSuffix(y, "#1")
}

func isNotFoundOrOverwrite(f *FuncInfo, e ast.Expr) bool {
	be, ok := ast.Unparen(e).(*ast.BinaryExpr)
	if !ok || be.Op != token.LOR {
		return false
	}
	u, ok := ast.Unparen(be.X).(*ast.UnaryExpr)
	if !ok || u.Op != token.NOT {
		return false
	}
	x := describeExpr(f, u.X, 0)
	y := describeExpr(f, be.Y, 0)
	return strings.HasPrefix(x, "call:pkg/cafs.existsAndValidBlob(") && strings.HasSuffix(x, "#0") && strings.HasPrefix(y, "call:pkg/cafs.existsAndValidBlob(") && strings.HasSuffix(y, "#1")
}

// checkOffsetConvention: the (node offset, last flag) pair at the writer and the three verifying readers.
func checkOffsetConvention(c *Ctx, rule string) {
	p := c.P
	// writer: trailing leaf
	{
		f := p.Func("pkg/cafs.fsWriter.flush")
		info := f.Info()
		n := 0
		ast.Inspect(f.Decl.Body, func(nd ast.Node) bool {
			call, ok := nd.(*ast.CallExpr)
			if !ok || calleeID(info, call) != "pkg/cafs.KeyFromBytes" {
				return true
			}
			n++
			data, off, last := describeExpr(f, call.Args[0], 0), describeExpr(f, call.Args[2], 0), describeExpr(f, call.Args[3], 0)
			c.check(data == "recv.buf[:recv.offset]" && off == "conv:uint64(call:builtin.len(recv.leaves))" && last == "param#0", rule+".writer-trailing", callKey(f, call), p.Pos(call.Pos()),
				"trailing leaf hashed as (data=w.buf[:w.offset], offset=len(w.leaves), last=isLastNode)",
				"the trailing leaf is hashed as (data="+data+", offset="+off+", last="+last+") instead of (w.buf[:w.offset], len(w.leaves), isLastNode): readers recompute another key")
			return true
		})
		if n != 1 {
			c.fail(rule+".writer-trailing", f.ID, p.Pos(f.Decl.Pos()), "expected one KeyFromBytes call in flush")
		}
	}
	// readers: every function in pkg/cafs calling verifyHash
	type site struct {
		f    *FuncInfo
		call *ast.CallExpr
	}
	var sites []site
	for _, f := range p.FuncsIn("pkg/cafs") {
		if f.Decl.Body == nil {
			continue
		}
		info := f.Info()
		ast.Inspect(f.Decl.Body, func(nd ast.Node) bool {
			if call, ok := nd.(*ast.CallExpr); ok && calleeID(info, call) == "pkg/cafs.chunkReader.verifyHash" {
				sites = append(sites, site{f, call})
			}
			return true
		})
	}
	for _, s := range sites {
		f := s.f
		info := f.Info()
		key := callKey(f, s.call)
		if len(s.call.Args) != 4 {
			continue
		}
		offID, _ := ast.Unparen(s.call.Args[2]).(*ast.Ident)
		lastID, _ := ast.Unparen(s.call.Args[3]).(*ast.Ident)
		if offID == nil || lastID == nil {
			c.fail(rule+".reader", key, p.Pos(s.call.Pos()), "verifyHash is not called with an (offset variable, last-flag variable) pair: the convention cannot be established")
			continue
		}
		offV, _ := info.Uses[offID].(*types.Var)
		lastV, _ := info.Uses[lastID].(*types.Var)
		dataDesc := types.ExprString(s.call.Args[1])
		// find the if statement that sets lastV = true
		var theIf *ast.IfStmt
		ast.Inspect(f.Decl.Body, func(nd ast.Node) bool {
			ifs, ok := nd.(*ast.IfStmt)
			if !ok {
				return true
			}
			for _, st := range ifs.Body.List {
				if as, ok := st.(*ast.AssignStmt); ok {
					for i, l := range as.Lhs {
						if id, ok := ast.Unparen(l).(*ast.Ident); ok && (info.Uses[id] == lastV || info.Defs[id] == lastV) && i < len(as.Rhs) {
							if v, ok := isBoolConst(info, as.Rhs[i]); ok && v {
								theIf = ifs
							}
						}
					}
				}
			}
			return true
		})
		if theIf == nil {
			c.shapeChanged(rule+".reader", key, p.Pos(s.call.Pos()), f.ID, "no branch sets the last-node flag to true: a trailing partial leaf can never verify")
			continue
		}
		// condition: conjunction containing (a) a last-index test and (b) len(data) != leafSize on the same data
		conj := conjuncts(theIf.Cond)
		hasLen, hasLast := false, false
		for _, cj := range conj {
			be, ok := ast.Unparen(cj).(*ast.BinaryExpr)
			txt := types.ExprString(cj)
			if ok && be.Op == token.NEQ && strings.Contains(txt, "leafSize") && strings.Contains(txt, "len("+dataDesc+")") {
				hasLen = true
				continue
			}
			if ok && be.Op == token.EQL && strings.Contains(txt, "len(") && strings.Contains(txt, ".keys)") {
				hasLast = true
				continue
			}
			// a flag variable defined as idx == len(keys)
			d := describeExpr(f, cj, 0)
			if strings.Contains(d, "lastChunk") {
				// r.lastChunk = r.idx == len(r.keys)
				okDef := false
				ast.Inspect(f.Decl.Body, func(nd ast.Node) bool {
					if as, ok := nd.(*ast.AssignStmt); ok && len(as.Lhs) == 1 && len(as.Rhs) == 1 && types.ExprString(as.Lhs[0]) == txt {
						if be2, ok := ast.Unparen(as.Rhs[0]).(*ast.BinaryExpr); ok && be2.Op == token.EQL && strings.Contains(types.ExprString(be2), "len(") && strings.Contains(types.ExprString(be2), ".keys)") {
							okDef = true
						}
					}
					return true
				})
				if okDef {
					hasLast = true
				}
			}
		}
		c.check(hasLen && hasLast && len(conj) == 2, rule+".reader", key+":discriminator", p.Pos(theIf.Pos()),
			"last-node flag set exactly when (last leaf index) && len("+dataDesc+") != leafSize",
			"the trailing-leaf discriminator is `"+types.ExprString(theIf.Cond)+"`: it must be (this is the last leaf) && (len("+dataDesc+") != leafSize) — the writer flags only a partial trailing leaf as last node, so any other test makes aligned or partial contents fail verification (or verify with the wrong offset)")
		// in the branch, the offset is the leaf index (default: index+1): either `off--`, or off assigned an expression
		// one less than its default
		decOK := false
		for _, st := range theIf.Body.List {
			switch x := st.(type) {
			case *ast.IncDecStmt:
				if id, ok := ast.Unparen(x.X).(*ast.Ident); ok && info.Uses[id] == offV && x.Tok == token.DEC {
					decOK = true
				}
			case *ast.AssignStmt:
				for i, l := range x.Lhs {
					if id, ok := ast.Unparen(l).(*ast.Ident); ok && (info.Uses[id] == offV) && i < len(x.Rhs) {
						// default elsewhere must be this + 1
						inBranch := types.ExprString(x.Rhs[i])
						def := defaultAssignOutside(f, offV, theIf)
						if def == inBranch+" + 1" || def == "("+inBranch+") + 1" {
							decOK = true
						}
					}
				}
			}
		}
		if !decOK {
			// `off--` form requires the default to be the already-incremented index; accept when default = index+1 literal form matched above
			c.fail(rule+".reader", key+":offsets", p.Pos(theIf.Pos()), "in the trailing-leaf branch the node offset is not (default offset - 1): full leaves use index+1, the trailing partial leaf uses index")
		} else {
			c.ok(rule+".reader", key+":offsets", p.Pos(theIf.Pos()), "node offset = index+1 for full leaves, index for the trailing partial leaf")
		}
	}
	if len(sites) < 3 {
		c.fail(rule+".reader", "sites", "-", "expected 3 verifying readers (Read, readLeaf, WriteTo), found "+itoa(len(sites)))
	}
	// Read: default offset is r.idx after increment
	{
		f := p.Func("pkg/cafs.chunkReader.Read")
		b := p.BodyOf(f)
		info := f.Info()
		// nodeOffset := r.idx must come after r.idx++ on every path
		isInc := func(n ast.Node) bool {
			x, ok := n.(*ast.IncDecStmt)
			return ok && x.Tok == token.INC && describeExpr(f, x.X, 0) == "recv.idx"
		}
		const noInc, inc = 1, 2
		bad := false
		nDef := 0
		b.run(flowSpec{entry: noInc, node: func(n ast.Node, s uint64) uint64 {
			if isInc(n) {
				return inc
			}
			if as, ok := n.(*ast.AssignStmt); ok && len(as.Lhs) == 1 && len(as.Rhs) == 1 && as.Tok == token.DEFINE {
				if id, ok := as.Lhs[0].(*ast.Ident); ok && id.Name != "_" && describeExpr(f, as.Rhs[0], 0) == "recv.idx" {
					if _, isInt := info.TypeOf(as.Rhs[0]).Underlying().(*types.Basic); isInt {
						nDef++
						if s&noInc != 0 {
							bad = true
						}
						return noInc // consumed: next leaf needs a new increment
					}
				}
			}
			return s
		}})
		c.check(nDef == 1 && !bad, rule+".reader", f.ID+":default-offset", p.Pos(f.Decl.Pos()), "Read's default node offset is r.idx taken after r.idx++ (= index+1)", "Read's node offset is no longer taken from r.idx right after its increment")
	}
}

func conjuncts(e ast.Expr) []ast.Expr {
	e = ast.Unparen(e)
	if be, ok := e.(*ast.BinaryExpr); ok && be.Op == token.LAND {
		return append(conjuncts(be.X), conjuncts(be.Y)...)
	}
	return []ast.Expr{e}
}

// defaultAssignOutside returns the text of the value assigned to v outside the given if statement (the last one
// found), "" if none.
func defaultAssignOutside(f *FuncInfo, v *types.Var, skip *ast.IfStmt) string {
	info := f.Info()
	out := ""
	ast.Inspect(f.Decl.Body, func(nd ast.Node) bool {
		if nd == ast.Node(skip.Body) {
			return false
		}
		if as, ok := nd.(*ast.AssignStmt); ok {
			for i, l := range as.Lhs {
				if id, ok := ast.Unparen(l).(*ast.Ident); ok && (info.Uses[id] == v || info.Defs[id] == v) && i < len(as.Rhs) && len(as.Lhs) == len(as.Rhs) {
					out = types.ExprString(as.Rhs[i])
				}
			}
		}
		return true
	})
	return out
}

// ---------------------------------------------------------------------------------------------------

func runC03(c *Ctx) {
	p := c.P
	c.assume("a BLAKE2b mismatch is the only corruption signal; an attacker producing collisions is out of scope")
	// (1) closed world of blob readers
	allowedGet := map[string]string{
		"pkg/cafs.chunkReader.Read":    "verifies at end of leaf",
		"pkg/cafs.readLeafFunc":        "readLeaf closure verifies the whole leaf",
		"pkg/cafs.chunkReader.WriteTo": "WriterAt worker verifies the buffered leaf",
		"pkg/cafs.bytesFromRoot":       "root blob, verified by verifiedKeys in leavesForHash",
	}
	nGet := 0
	for _, g := range enumStoreCalls(p, "Get", 1, "pkg/cafs") {
		if strings.Contains(g.Fn.ID, "Fake") || strings.Contains(g.Fn.ID, "fake") {
			continue
		}
		nGet++
		why, ok := allowedGet[g.Fn.ID]
		c.check(ok, "verify-coverage.known-readers", g.Key, p.Pos(g.Call.Pos()), "blob read inside a verifying routine: "+why, "new blob read site in "+g.Fn.ID+": bytes fetched here are not covered by any hash verification clause")
	}
	for _, g := range enumStoreCalls(p, "GetAt", 1, "pkg/cafs") {
		c.fail("verify-coverage.known-readers", g.Key, p.Pos(g.Call.Pos()), "blob read through GetAt in "+g.Fn.ID+": random-access reads of blobs bypass leaf verification")
	}
	c.requireInstances("verify-coverage.known-readers", 4)

	// the three leaf readers: verifyHash present, guarded only by withVerifyHash (+ EOF conditions), error propagated
	type vs struct {
		fn      string
		allowed []string // allowed enclosing conditions (described)
	}
	for _, v := range []vs{
		{"pkg/cafs.chunkReader.Read", []string{"recv.withVerifyHash", "(recv.rdr.Read(param#0[recv.readSoFar:])#1!=nil)", "(recv.rdr.Read(param#0[recv.readSoFar:])#1==global:io.EOF)"}},
		{"pkg/cafs.readLeafFunc", []string{"param#0.withVerifyHash"}},
		{"pkg/cafs.chunkReader.WriteTo", []string{"recv.withVerifyHash"}},
	} {
		f := p.Func(v.fn)
		info := f.Info()
		var vcall *ast.CallExpr
		ast.Inspect(f.Decl.Body, func(nd ast.Node) bool {
			if call, ok := nd.(*ast.CallExpr); ok && calleeID(info, call) == "pkg/cafs.chunkReader.verifyHash" {
				vcall = call
			}
			return true
		})
		if vcall == nil {
			c.fail("verify-coverage.leaf-verified", v.fn, p.Pos(f.Decl.Pos()), "this routine reads leaf blobs from the store but no longer calls verifyHash: corrupted leaves are delivered as valid")
			continue
		}
		// enclosing conditions between the call and the function (or literal) that contains the Get
		b := p.BodyOf(f)
		var conds []string
		okConds := true
		var child ast.Node = vcall
		for x := b.parent[vcall]; x != nil; child, x = x, b.parent[x] {
			if _, isLit := x.(*ast.FuncLit); isLit {
				break
			}
			switch s := x.(type) {
			case *ast.IfStmt:
				if child == ast.Node(s.Body) {
					for _, cj := range conjuncts(s.Cond) {
						conds = append(conds, describeExpr(f, cj, 0))
					}
				} else if child == s.Else {
					conds = append(conds, "!"+describeExpr(f, s.Cond, 0))
				}
			case *ast.CaseClause, *ast.CommClause, *ast.ForStmt, *ast.RangeStmt:
				// loops are fine; case clauses are conditions we cannot describe
				if _, isCase := x.(*ast.CaseClause); isCase {
					conds = append(conds, "case")
				}
			}
		}
		allowed := map[string]bool{}
		for _, a := range v.allowed {
			allowed[a] = true
		}
		hasFlag := false
		for _, cd := range conds {
			if !allowed[cd] {
				okConds = false
			}
			if strings.HasSuffix(cd, ".withVerifyHash") {
				hasFlag = true
			}
		}
		c.check(okConds && hasFlag, "verify-coverage.leaf-verified", v.fn+":guard", p.Pos(vcall.Pos()),
			"verifyHash runs under withVerifyHash only"+fmtConds(conds),
			"verifyHash is guarded by"+fmtConds(conds)+": with verification enabled some leaves (or some read styles) are no longer verified")
		// the error of verifyHash must be surfaced
		lb := b
		for _, l := range f.Lits {
			if containsNode(l, vcall) {
				lb = p.LitBody(f, l)
			}
		}
		sites, blanks := lb.errDefsIn(func(id string) bool { return id == "pkg/cafs.chunkReader.verifyHash" })
		okErr := len(blanks) == 0 && len(sites) > 0
		for _, s := range sites {
			if vd := lb.checkErrSite(s); vd.Kind != "ok" {
				okErr = false
			}
		}
		c.check(okErr, "verify-coverage.leaf-verified", v.fn+":error", p.Pos(vcall.Pos()), "a verification failure is returned / reported", "the result of verifyHash is not surfaced: a mismatch does not fail the read")
	}
	// WriteTo: what is written when verification is on is the verified buffer
	{
		f := p.Func("pkg/cafs.chunkReader.WriteTo")
		info := f.Info()
		okSrc := false
		ast.Inspect(f.Decl.Body, func(nd ast.Node) bool {
			call, ok := nd.(*ast.CallExpr)
			if !ok || calleeID(info, call) != "io.Copy" || len(call.Args) != 2 {
				return true
			}
			d := describeExpr(f, call.Args[1], 0)
			// source is {Get result | bytes.NewReader(verified leaf)}
			if strings.Contains(d, "call:bytes.NewReader(call:io/ioutil.ReadAll(") && strings.HasPrefix(d, "{") {
				okSrc = true
			}
			return true
		})
		// the verified data is that same ReadAll result
		var vdata string
		ast.Inspect(f.Decl.Body, func(nd ast.Node) bool {
			if call, ok := nd.(*ast.CallExpr); ok && calleeID(info, call) == "pkg/cafs.chunkReader.verifyHash" {
				vdata = describeExpr(f, call.Args[1], 0)
			}
			return true
		})
		c.check(okSrc && strings.HasPrefix(vdata, "call:io/ioutil.ReadAll("), "verify-coverage.verified-bytes-written", f.ID, p.Pos(f.Decl.Pos()),
			"with verification on, the WriterAt worker writes the buffer it verified", "the WriterAt worker does not write the buffer it verified (verified: "+vdata+")")
	}
	// leavesForHash always through verifiedKeys
	{
		f := p.Func("pkg/cafs.leavesForHash")
		b := p.BodyOf(f)
		bad, nS := b.mustPassBeforeSuccess(callTo("pkg/cafs.verifiedKeys"))
		c.check(nS > 0 && len(bad) == 0, "verify-coverage.root-checksum", f.ID, p.Pos(f.Decl.Pos()), "every success return of leavesForHash goes through verifiedKeys", "leavesForHash can return leaf keys without the root checksum (verifiedKeys): a damaged root blob is accepted")
		// and readers get keys only from LeavesForHash or the keys cache
		rf := p.Func("pkg/cafs.defaultFs.reader")
		okK := false
		for _, cs := range callersOf(p, "pkg/cafs.LeavesForHash") {
			if cs.Fn.ID == rf.ID {
				okK = true
			}
			// or through a helper of the same type that reader calls (keys resolution extracted)
			for _, cs2 := range callersOf(p, cs.Fn.ID) {
				if cs2.Fn.ID == rf.ID && strings.HasPrefix(cs.Fn.ID, "pkg/cafs.defaultFs.") {
					okK = true
				}
			}
		}
		c.check(okK, "verify-coverage.root-checksum", rf.ID, p.Pos(rf.Decl.Pos()), "the reader obtains leaf keys from LeavesForHash", "defaultFs.reader no longer obtains leaf keys from LeavesForHash")
		nr := p.Func("pkg/cafs.newReader")
		okN := false
		for _, cs := range callersOf(p, "pkg/cafs.LeavesForHash") {
			if cs.Fn.ID == nr.ID {
				okN = true
			}
		}
		c.check(okN, "verify-coverage.root-checksum", nr.ID, p.Pos(nr.Decl.Pos()), "newReader without preset keys obtains them from LeavesForHash", "newReader no longer falls back to LeavesForHash")
	}
	// (2) mismatch is an error: in the guards of the function's returns, the atom comparing two Key values (or
	// bytes.Equal on them) decides: every return reached where the keys differ is a failure, and some return is reached
	// there (the form of the test — `!=` with an error body, `==` with an early success — is immaterial)
	for _, fid := range []string{"pkg/cafs.chunkReader.verifyHash", "pkg/cafs.verifiedKeys", "pkg/cafs.LeafKeys"} {
		f := p.Func(fid)
		b := p.BodyOf(f)
		info := f.Info()
		isKeyCmp := func(a guardAtom) (isCmp bool, differ bool) {
			switch x := ast.Unparen(a.Expr).(type) {
			case *ast.BinaryExpr:
				if (x.Op == token.NEQ || x.Op == token.EQL) && namedTypeID(info.TypeOf(x.X)) == "pkg/cafs.Key" {
					return true, (x.Op == token.NEQ) != a.Neg
				}
			case *ast.CallExpr:
				if calleeID(info, x) == "bytes.Equal" {
					return true, a.Neg
				}
			}
			return false, false
		}
		nDiffer, okRet := 0, true
		var cmpExpr ast.Expr
		for _, ga := range guardedActions(f, f.Decl.Body) {
			ret, isRet := ga.Node.(*ast.ReturnStmt)
			if !isRet {
				continue
			}
			for _, at := range ga.Atoms {
				if isCmp, differ := isKeyCmp(at); isCmp {
					cmpExpr = at.Expr
					if differ {
						nDiffer++
						if b.classifyReturn(ret) != retFailure {
							okRet = false
						}
					}
				}
			}
		}
		c.check(nDiffer > 0 && okRet, "mismatch-is-error", fid, p.Pos(f.Decl.Pos()), "every return reached where the keys differ reports an error", "the hash/checksum mismatch of "+fid+" no longer ends in an error return (or the keys are no longer compared): corrupted content passes as valid")
		if fid == "pkg/cafs.chunkReader.verifyHash" {
			okCmp := false
			if be, ok := ast.Unparen(cmpExpr).(*ast.BinaryExpr); ok {
				x, y := describeExprAt(f, be.X), describeExprAt(f, be.Y)
				want := "call:pkg/cafs.KeyFromBytes(param#1,recv.leafSize,conv:uint64(param#2),param#3)#0"
				okCmp = x == "param#0" && y == want || y == "param#0" && x == want
			}
			c.check(okCmp, "mismatch-is-error", f.ID+":compares", p.Pos(f.Decl.Pos()), "verifyHash compares the expected key with KeyFromBytes(data, leafSize, offset, isLast)", "verifyHash no longer compares its key argument with KeyFromBytes(data, r.leafSize, offset, isLastNode)")
		}
	}
	// (3) defaults
	{
		f := p.Func("pkg/cafs.defaultsForFs")
		ok1 := false
		for _, cl := range compositeLitsAny(f, "pkg/cafs.defaultFs") {
			if v := fieldOfCompositeLit(cl, "withVerifyHash"); v != nil && describeExpr(f, v, 0) == "const:true" {
				ok1 = true
			}
		}
		c.check(ok1, "defaults", f.ID, p.Pos(f.Decl.Pos()), "cafs verifies read blobs by default", "cafs' default for withVerifyHash is no longer true: verification is off unless requested")
		g := p.Func("pkg/core.defaultBundle")
		ok2 := false
		for _, cl := range compositeLitsAny(g, "pkg/core.Bundle") {
			if v := fieldOfCompositeLit(cl, "withVerifyHash"); v != nil && describeExpr(g, v, 0) == "const:true" {
				ok2 = true
			}
		}
		c.check(ok2, "defaults", g.ID, p.Pos(g.Decl.Pos()), "bundles verify downloaded blobs by default", "core's default bundle no longer enables hash verification")
		for _, cs := range callersOf(p, "pkg/cafs.VerifyHash") {
			if !strings.HasPrefix(cs.Fn.ID, "pkg/core.") && !strings.HasPrefix(cs.Fn.ID, "pkg/fuse.") {
				continue
			}
			d := describeExpr(cs.Fn, cs.Call.Args[0], 0)
			c.check(strings.HasSuffix(d, ".withVerifyHash"), "defaults", callKey(cs.Fn, cs.Call), p.Pos(cs.Call.Pos()), "cafs.VerifyHash receives the owner's withVerifyHash ("+d+")", "cafs.VerifyHash is given `"+d+"` instead of the bundle's/mount's withVerifyHash flag")
		}
		// the reader receives the fs flag
		rf := p.Func("pkg/cafs.defaultFs.reader")
		okR := false
		for _, cs := range callersOf(p, "pkg/cafs.ReaderVerifyHash") {
			if cs.Fn.ID == rf.ID && describeExpr(rf, cs.Call.Args[0], 0) == "recv.withVerifyHash" {
				okR = true
			}
		}
		c.check(okR, "defaults", rf.ID+":ReaderVerifyHash", p.Pos(rf.Decl.Pos()), "readers inherit the file system's withVerifyHash", "readers no longer inherit the file system's withVerifyHash flag")
	}
	// (4) errors surface along the download chain
	storeIO := func(id string) bool {
		switch id {
		case "pkg/storage.Store.Get", "pkg/storage.Store.Put", "pkg/storage.Store.Delete", "pkg/cafs.Fs.Get", "pkg/cafs.KeyFromString",
			"io.WriterTo.WriteTo", "pkg/storage.PipeIO", "io.Copy", "io/ioutil.ReadAll", "github.com/spf13/afero.Fs.OpenFile", "github.com/spf13/afero.File.Close",
			"pkg/core.downloadBundleEntrySync", "pkg/core.downloadBundleEntrySyncMaybeOverwrite", "github.com/cenkalti/backoff/v4.Retry",
			"pkg/cafs.chunkReader.verifyHash", "io.Reader.Read", "io.ReadCloser.Read", "pkg/cafs.LeavesForHash", "pkg/cafs.leavesForHash", "pkg/cafs.bytesFromRoot", "pkg/cafs.verifiedKeys":
			return true
		}
		return false
	}
	n := 0
	for _, id := range []string{"pkg/core.downloadBundleEntrySyncMaybeOverwrite", "pkg/core.downloadBundleEntry", "pkg/core.downloadBundleEntryOverwrite", "pkg/core.unpackDataFile",
		"pkg/storage/localfs.localFS.Put", "pkg/cafs.leavesForHash", "pkg/cafs.bytesFromRoot", "pkg/cafs.defaultFs.reader", "pkg/cafs.chunkReader.WriteTo", "pkg/cafs.readLeafFunc"} {
		n += checkErrDiscipline(c, "errors-surface", p.Func(id), storeIO, map[string]string{})
	}
	c.requireInstances("errors-surface", 14)
	for _, id := range []string{"pkg/core.downloadBundleEntrySyncMaybeOverwrite", "pkg/core.unpackDataFile", "pkg/core.unpackDataFiles", "pkg/storage/localfs.localFS.Put",
		"pkg/cafs.leavesForHash", "pkg/cafs.bytesFromRoot", "pkg/cafs.defaultFs.reader", "pkg/cafs.readLeafFunc", "pkg/cafs.chunkReader.Read"} {
		checkNoSwallow(c, "errors-surface.no-success-on-failure", p.Func(id), nil, []string{"EOF"}) // io.EOF ends a leaf / a stream: not a failure
	}
	c.requireInstances("errors-surface.no-success-on-failure", 15)
	n += checkRetryOperands(c, "errors-surface.retry-operand", p.Func("pkg/storage/localfs.localFS.Put"))
	_ = n
	checkVerifyAlwaysHashes(c, "mismatch-is-error.always-hashes")
	checkWriteToWorkerExclusive(c, "verify-coverage.writeto-error-exclusive")
	checkEOFByIdentity(c, "errors-surface.eof-by-identity")
	checkGenericErrorDiscipline(c, "pkg/cafs", "pkg/storage/localfs")
	checkShortReadIsNotEOF(c, "verify.short-read-not-eof")
	checkCacheOnlyVerifiedLeaves(c, "verify.cache-only-verified")
	checkNoTruncatingConsumer(c, "verify.no-truncating-consumer", "pkg/core", "pkg/fuse")
	checkVerifySettingOnlyFromOptions(c, "defaults.verify-setting-only-from-options")
}

func fmtConds(conds []string) string {
	if len(conds) == 0 {
		return " (no condition)"
	}
	return " [" + strings.Join(conds, " && ") + "]"
}
