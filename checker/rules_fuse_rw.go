package main

import (
	"go/ast"
	"go/token"
	"go/types"
	"regexp"
	"sort"
	"strconv"
	"strings"
)

// C18 — a mutable mount behaves like a file system and commits what it shows. Structural clauses on pkg/fuse:
//   lock:       every Lock/Unlock of the mount's mutexes pairs on every path (no double unlock, no exit while held)
//   allocator:  the inode high-water mark only moves by one inside alloc/free; a fresh inode is read after the
//               increment; the free-list pop removes the very element it returns; free pushes exactly its argument
//   namespace:  createNode / deleteNSEntry / Rename keep lookupTree, readDirMap and iNodeStore in step, Rename uses
//               (OldParent, OldName) and (NewParent, NewName) as pairs, directory link counts move with directories
//   forget:     a node and its inode number are released only under shouldDelete, which requires lookup count 0 and
//               link count 0; the link count reaches 0 only in deleteNSEntry after the name was removed
//   readdir:    listing order is deterministic (sorted), the offset cookie of an entry is its own inode, resumption
//               filters on cookie > op.Offset; nothing is written after an entry that did not fit
//   crash:      closed inventory of panics, unchecked type assertions and map-value dereferences reachable in the
//               mutable mount, each tied to the invariant that makes it unreachable
//   commit:     the walk starts at the root, names are parent + "/" + dirent name, every file dirent is uploaded from
//               the backing file of its own inode, every result is collected, an error wins

func init() {
	register(&propSpec{
		id: "C18",
		explanation: "Static structural clauses for the mutable mount, decided on the type-checked source and CFGs of pkg/fuse for all paths: " +
			"(lock) typestate over every sync.Mutex/RWMutex operation of pkg/fuse: never unlocked when not held (explicit + deferred), never locked when held, released at every exit; " +
			"(allocator) highestInode is written only by allocINode (increment, read after the increment, on the empty-free-list branch) and freeINode (decrement guarded by equality with the freed inode); the free-list pop reads index len-1 before re-slicing [:len-1] (or 0 and [1:]); freeINode pushes exactly its argument; " +
			"(namespace) createNode inserts the same inode under the lookup key, into the parent's readDirMap (with the child's name and type) and into iNodeStore, creates the child's own readDirMap for directories and bumps the parent's link count; deleteNSEntry refuses non-empty directories before mutating anything, removes the looked-up key and the dirent of the looked-up inode from the same parent, and clears the child's link count; Rename uses Old*/New* operands only as (parent,name) pairs of the same side, deletes an existing target through the New pair, moves dirent (new name, same inode and type) and lookup entry, and moves a directory's link from the old to the new parent; " +
			"(forget) iNodeStore.Delete and freeINode are reachable only where shouldDelete held; shouldDelete is refCount == 0 && Nlink == 0; Nlink is cleared only in deleteNSEntry and after the name was removed from lookupTree; nodes are created with a link count >= 1 and lookup count 1; " +
			"(readdir) the listing loop ranges over a sorted slice, never directly over the map; entries carry their own inode as offset cookie and only entries with cookie > op.Offset are listed; no WriteDirent after one that returned 0; every result added to BytesRead; " +
			"(crash) every panic call, single-value type assertion and dereference of a map element in fs_rw_ops.go / inode.go is in the reviewed inventory; a new site makes the run UNDECIDED; values stored in iNodeStore are *nodeEntry and in lookupTree lookupEntry at every insert; createNode is dominated by a successful preCreateCheck in MkDir/CreateFile; " +
			"(commit) walk from RootInodeID, task name = parent name + \"/\" + dirent name, inode = map key, files uploaded from getPathToBackingFile(inode), BundleEntry{Hash: key, NameWithPath: task name, Size: written}, WaitGroup.Add before every go, the entry channel closed after both Waits, the collector appends every entry, returns the first error, and publishes through UploadBundleEntries (C06 clause 1). " +
			"Not decided: equivalence with a POSIX model for concrete programs, kernel protocol conformance beyond the stated invariants, file data (write/truncate/read) semantics, concurrency of operations (C18 quantifies over sequential programs).",
		run: runC18,
	})
	addWitness(witness{Prop: "C18", Name: "mkdir-double-unlock", File: "pkg/fuse/fs_rw_ops.go",
		Old:    "\terr = fs.preCreateCheck(op.Parent, lk)\n\tif err != nil {\n\t\treturn\n\t}\n\n\terr = fs.createNode(lk, op.Parent, op.Name, &op.Entry, fuseutil.DT_Directory, false)",
		New:    "\terr = fs.preCreateCheck(op.Parent, lk)\n\tif err != nil {\n\t\tfs.lock.Unlock()\n\t\treturn\n\t}\n\n\terr = fs.createNode(lk, op.Parent, op.Name, &op.Entry, fuseutil.DT_Directory, false)",
		Expect: "lock.pairing"})
	addWitness(witness{Prop: "C18", Name: "alloc-rewinds-high-water-mark", File: "pkg/fuse/inode.go",
		Old:    "\t\tn = g.freeInodes[len(g.freeInodes)-1]\n\t\tg.freeInodes = g.freeInodes[:len(g.freeInodes)-1]\n",
		New:    "\t\tn = g.freeInodes[len(g.freeInodes)-1]\n\t\tg.freeInodes = g.freeInodes[:len(g.freeInodes)-1]\n\t\tif len(g.freeInodes) == 0 {\n\t\t\tg.highestInode = firstINode\n\t\t}\n",
		Expect: "allocator.high-water-mark"})
	addWitness(witness{Prop: "C18", Name: "pop-does-not-remove-returned", File: "pkg/fuse/inode.go",
		Old:    "\t\tn = g.freeInodes[len(g.freeInodes)-1]\n",
		New:    "\t\tn = g.freeInodes[0]\n",
		Expect: "allocator.pop"})
	addWitness(witness{Prop: "C18", Name: "fresh-inode-read-before-increment", File: "pkg/fuse/inode.go",
		Old:    "\t\tg.highestInode++\n\t\tn = g.highestInode\n",
		New:    "\t\tn = g.highestInode\n\t\tg.highestInode++\n",
		Expect: "allocator.fresh"})
	addWitness(witness{Prop: "C18", Name: "rename-deletes-target-in-old-parent", File: "pkg/fuse/fs_rw_ops.go",
		Old:    "\t\t_ = fs.deleteNSEntry(op.NewParent, op.NewName)\n",
		New:    "\t\t_ = fs.deleteNSEntry(op.OldParent, op.NewName)\n",
		Expect: "namespace.rename"})
	addWitness(witness{Prop: "C18", Name: "rename-keeps-old-name-in-listing", File: "pkg/fuse/fs_rw_ops.go",
		Old:    "\t\tInode: rC.Inode,\n\t\tName:  op.NewName,\n",
		New:    "\t\tInode: rC.Inode,\n\t\tName:  rC.Name,\n",
		Expect: "namespace.rename"})
	addWitness(witness{Prop: "C18", Name: "forget-releases-linked-directory", File: "pkg/fuse/fs_rw_ops.go",
		Old:    "\treturn n.refCount == 0 && n.attr.Nlink == 0\n",
		New:    "\treturn n.refCount == 0 && (n.attr.Nlink == 0 || n.attr.Mode.IsDir())\n",
		Expect: "forget.should-delete"})
	addWitness(witness{Prop: "C18", Name: "unlink-keeps-link-count", File: "pkg/fuse/fs_rw_ops.go",
		Old:    "\tcNode.lock.Lock()\n\tcNode.attr.Nlink = 0\n\tcNode.lock.Unlock()\n\treturn nil\n",
		New:    "\tif cNode.attr.Mode.IsDir() {\n\t\tcNode.lock.Lock()\n\t\tcNode.attr.Nlink = 0\n\t\tcNode.lock.Unlock()\n\t}\n\treturn nil\n",
		Expect: "namespace.delete"})
	addWitness(witness{Prop: "C18", Name: "readdir-over-map", File: "pkg/fuse/fs_rw_ops.go",
		Old:    "\tfor _, id := range iNodes {\n\t\tchild := *children[id]\n",
		New:    "\tfor id := range children {\n\t\tif uint64(id) <= uint64(op.Offset) {\n\t\t\tcontinue\n\t\t}\n\t\tchild := *children[id]\n",
		Expect: "readdir"})
	addWitness(witness{Prop: "C18", Name: "rmdir-mutates-before-emptiness-check", File: "pkg/fuse/fs_rw_ops.go",
		Old:    "\t\tchildren := fs.readDirMap[cLE.iNode]\n\t\tif len(children) > 0 {\n\t\t\treturn jfuse.ENOTEMPTY\n\t\t}\n",
		New:    "\t\tchildren := fs.readDirMap[cLE.iNode]\n\t\tif len(children) > 1 {\n\t\t\treturn jfuse.ENOTEMPTY\n\t\t}\n",
		Expect: "namespace.delete"})
	addWitness(witness{Prop: "C18", Name: "commit-names-without-parent", File: "pkg/fuse/fs_rw_ops.go",
		Old:    "tsk := commitUploadTask{inodeID: currInode, name: uploadTask.name + \"/\" + currEnt.Name}",
		New:    "tsk := commitUploadTask{inodeID: currInode, name: \"/\" + currEnt.Name}",
		Expect: "commit"})
	addWitness(witness{Prop: "C18", Name: "moved-directory-keeps-old-parent-link", File: "pkg/fuse/fs_rw_ops.go",
		Old:    "\tif rC.Type == fuseutil.DT_Directory && op.OldParent != op.NewParent {\n",
		New:    "\tif rC.Type == fuseutil.DT_Directory && op.OldParent != op.NewParent && op.OldName != op.NewName {\n",
		Expect: "namespace.dir-links"})
}

func runC18(c *Ctx) {
	p := c.P
	c.assume("operations of one program run one after the other (C18 quantifies over sequential programs); the kernel sends forgets only for inodes it holds lookups on, and never for an inode with open handles or known children")
	c.assume("iradix trees and Go maps behave as maps; afero OsFs behaves as a POSIX file system for the backing files")

	// --- lock pairing ---------------------------------------------------------------------------------
	nLocks := 0
	for _, f := range p.FuncsIn("pkg/fuse") {
		if f.Decl.Body != nil {
			nLocks += checkLockPairing(c, "lock.pairing", f)
		}
	}
	c.requireInstances("lock.pairing", 16)

	checkAllocator(c)
	checkNamespace(c)
	checkForget(c)
	checkRWReadDir(c)
	checkCrashInventory(c)
	checkCommitWalk(c)
	checkBackingFileTruncated(c, "namespace.create.backing-file-empty")
	checkCommitWalkerReleasesBeforeWaiting(c, "commit.walk.release-before-wait")
	checkGenericErrorDiscipline(c, "pkg/fuse")
	checkWriteKeepsFileSize(c, "write.size-from-backing-file")
	checkFreeINodeSingleStep(c, "allocator.free-single-step")
	checkTruncateOwnWritableHandle(c, "setattr.truncate-own-writable-handle")
}

// fieldWrites lists writes (assign, op-assign, inc/dec) to the struct field with the given ID in a package.
type fieldWrite struct {
	fn   *FuncInfo
	node ast.Node // AssignStmt or IncDecStmt
	lhs  ast.Expr
	tok  token.Token
	rhs  ast.Expr // nil for inc/dec
}

func fieldWritesIn(p *Prog, pkgRel, fid string) []fieldWrite {
	var out []fieldWrite
	for _, f := range p.FuncsIn(pkgRel) {
		if f.Decl.Body == nil {
			continue
		}
		info := f.Info()
		isField := func(e ast.Expr) bool {
			sel, ok := ast.Unparen(e).(*ast.SelectorExpr)
			if !ok {
				return false
			}
			s := info.Selections[sel]
			if s == nil {
				return false
			}
			v, ok := s.Obj().(*types.Var)
			return ok && v.IsField() && fieldID(v, s.Recv()) == fid
		}
		ast.Inspect(f.Decl.Body, func(n ast.Node) bool {
			switch s := n.(type) {
			case *ast.AssignStmt:
				for i, l := range s.Lhs {
					if isField(l) {
						var r ast.Expr
						if len(s.Rhs) == len(s.Lhs) {
							r = s.Rhs[i]
						}
						out = append(out, fieldWrite{f, s, l, s.Tok, r})
					}
				}
			case *ast.IncDecStmt:
				if isField(s.X) {
					out = append(out, fieldWrite{f, s, s.X, s.Tok, nil})
				}
			}
			return true
		})
	}
	return out
}

func checkAllocator(c *Ctx) {
	p := c.P
	alloc := p.Func("pkg/fuse.iNodeGenerator.allocINode")
	free := p.Func("pkg/fuse.iNodeGenerator.freeINode")
	// a. who writes the high-water mark
	for _, w := range fieldWritesIn(p, "pkg/fuse", "pkg/fuse.iNodeGenerator.highestInode") {
		key := w.fn.ID + ":highestInode" + w.tok.String()
		pos := p.Pos(w.node.Pos())
		switch {
		case w.fn.ID == alloc.ID && w.tok == token.INC:
			c.ok("allocator.high-water-mark", key, pos, "allocINode raises the mark by one")
		case w.fn.ID == free.ID && w.tok == token.DEC:
			// guarded by `g.highestInode == i` with i the freed inode
			guarded := false
			for x := free.parentOf(w.node); x != nil; x = free.parentOf(x) {
				if ifs, ok := x.(*ast.IfStmt); ok && encloses(ifs.Body, w.node.Pos()) {
					d := nos(describeExpr(free, ifs.Cond, 0))
					if d == "(recv.highestInode==param#0)" || d == "(param#0==recv.highestInode)" {
						guarded = true
					}
				}
			}
			c.check(guarded, "allocator.high-water-mark", key, pos,
				"freeINode lowers the mark by one only when the freed inode is the mark itself",
				"freeINode lowers the high-water mark without testing that the freed inode is the mark: a live inode above the new mark is handed out again")
		default:
			c.fail("allocator.high-water-mark", key, pos, "the inode high-water mark is written ("+w.tok.String()+") outside the single increment of allocINode and the guarded decrement of freeINode: inode numbers still in use can be handed out again")
		}
	}
	c.requireInstances("allocator.high-water-mark", 2)

	// b/c. allocINode shape
	info := alloc.Info()
	var branch *ast.IfStmt
	ast.Inspect(alloc.Decl.Body, func(n ast.Node) bool {
		if ifs, ok := n.(*ast.IfStmt); ok && branch == nil {
			d := nos(describeExpr(alloc, ifs.Cond, 0))
			if d == "(call:builtin.len(recv.freeInodes)==const:0)" {
				branch = ifs
			}
		}
		return true
	})
	if branch == nil || branch.Else == nil {
		c.shapeChanged("allocator.shape", alloc.ID, p.Pos(alloc.Decl.Pos()), alloc.ID, "allocINode no longer branches on `len(g.freeInodes) == 0` with an else arm: the allocator rules cannot be applied")
		return
	}
	// result variable: the one returned
	var resVar *types.Var
	ast.Inspect(alloc.Decl.Body, func(n ast.Node) bool {
		if r, ok := n.(*ast.ReturnStmt); ok && len(r.Results) == 1 {
			if id, ok := ast.Unparen(r.Results[0]).(*ast.Ident); ok {
				resVar, _ = info.Uses[id].(*types.Var)
			}
		}
		return true
	})
	if resVar == nil {
		c.softUndecided("allocator: allocINode does not return a local variable")
		return
	}
	// fresh branch: INC of highestInode strictly before `n = g.highestInode`
	incPos, readPos := token.NoPos, token.NoPos
	ast.Inspect(branch.Body, func(n ast.Node) bool {
		switch s := n.(type) {
		case *ast.IncDecStmt:
			if s.Tok == token.INC && describeExpr(alloc, s.X, 0) == "recv.highestInode" {
				incPos = s.Pos()
			}
		case *ast.AssignStmt:
			if len(s.Lhs) == 1 && len(s.Rhs) == 1 && isVar(info, s.Lhs[0], resVar) && describeExpr(alloc, ast.Unparen(s.Rhs[0]), 5) == "recv.highestInode" {
				readPos = s.Pos()
			}
		}
		return true
	})
	c.check(incPos.IsValid() && readPos.IsValid() && incPos < readPos, "allocator.fresh", alloc.ID, p.Pos(branch.Pos()),
		"on the empty-free-list branch the mark is incremented, then returned",
		"on the empty-free-list branch the returned inode is not the mark read after its increment: the previous highest inode, which is in use, is returned again")
	// pop branch
	var idx ast.Expr
	var reslice *ast.SliceExpr
	idxPos, reslicePos := token.NoPos, token.NoPos
	ast.Inspect(branch.Else, func(n ast.Node) bool {
		as, ok := n.(*ast.AssignStmt)
		if !ok || len(as.Lhs) != 1 || len(as.Rhs) != 1 {
			return true
		}
		if isVar(info, as.Lhs[0], resVar) {
			if ix, ok := ast.Unparen(as.Rhs[0]).(*ast.IndexExpr); ok && describeExpr(alloc, ix.X, 0) == "recv.freeInodes" {
				idx, idxPos = ix.Index, as.Pos()
			}
		}
		if describeExpr(alloc, as.Lhs[0], 0) == "recv.freeInodes" {
			if se, ok := ast.Unparen(as.Rhs[0]).(*ast.SliceExpr); ok && describeExpr(alloc, se.X, 0) == "recv.freeInodes" {
				reslice, reslicePos = se, as.Pos()
			}
		}
		return true
	})
	if idx == nil || reslice == nil {
		c.fail("allocator.pop", alloc.ID, p.Pos(branch.Else.Pos()), "the free-list branch of allocINode no longer reads one element of freeInodes into the result and re-slices the list: an inode can stay on the free list after being handed out")
	} else {
		const last = "(call:builtin.len(recv.freeInodes)-const:1)"
		i := nos(describeExpr(alloc, idx, 0))
		lo, hi := "", ""
		if reslice.Low != nil {
			lo = nos(describeExpr(alloc, reslice.Low, 0))
		}
		if reslice.High != nil {
			hi = nos(describeExpr(alloc, reslice.High, 0))
		}
		tail := i == last && (lo == "" || lo == "const:0") && hi == last
		head := i == "const:0" && lo == "const:1" && hi == ""
		c.check((tail || head) && idxPos < reslicePos, "allocator.pop", alloc.ID, p.Pos(idxPos),
			"the element returned (index "+i+") is the one the re-slice ["+lo+":"+hi+"] removes, and it is read before the re-slice",
			"the free-list pop returns element ["+i+"] but re-slices ["+lo+":"+hi+"] (read before re-slice: "+boolStr(idxPos < reslicePos)+"): the inode handed out stays on the free list (and another one is dropped), so a later allocation returns the same inode again")
	}
	// e. freeINode pushes its argument
	pushed := false
	ast.Inspect(free.Decl.Body, func(n ast.Node) bool {
		as, ok := n.(*ast.AssignStmt)
		if ok && len(as.Lhs) == 1 && len(as.Rhs) == 1 && describeExpr(free, as.Lhs[0], 0) == "recv.freeInodes" &&
			describeExpr(free, as.Rhs[0], 0) == "call:builtin.append(recv.freeInodes,param#0)" {
			pushed = true
		}
		return true
	})
	c.check(pushed, "allocator.push", free.ID, p.Pos(free.Decl.Pos()), "freeINode appends exactly the freed inode to the free list", "freeINode no longer appends exactly its argument to the free list")
	// the constructor starts the mark at firstINode
	ctor := p.Func("pkg/fuse.defaultMutableFS")
	okInit := false
	for _, cl := range compositeLits(ctor, "pkg/fuse.iNodeGenerator") {
		if v := fieldOfCompositeLit(cl, "highestInode"); v != nil && describeExpr(ctor, v, 0) == describeConst(p, "pkg/fuse", "firstINode") {
			okInit = true
		}
	}
	c.check(okInit, "allocator.init", ctor.ID, p.Pos(ctor.Decl.Pos()), "the mark starts at firstINode (above the root inode)", "the inode high-water mark no longer starts at firstINode")
}

func describeConst(p *Prog, pkgRel, name string) string {
	v, ok := repoConst(p, pkgRel, name)
	if !ok {
		return "const:?"
	}
	return constDesc(v)
}

// sameSideOperands: for a call taking (InodeID, string) arguments drawn from a RenameOp, both must be Old* or both New*.
func renameSide(desc string) string {
	switch {
	case strings.HasSuffix(desc, ".OldParent"), strings.HasSuffix(desc, ".OldName"):
		return "Old"
	case strings.HasSuffix(desc, ".NewParent"), strings.HasSuffix(desc, ".NewName"):
		return "New"
	}
	return ""
}

func checkNamespace(c *Ctx) {
	p := c.P
	// ---- createNode ----
	cn := p.Func("pkg/fuse.fsMutable.createNode")
	{
		const id = "{param#1|recv.iNodeGenerator.allocINode()}"
		var lkKey, lkVal, rdParent, rdEnt, nsKey, nsVal, child string
		var dirent *ast.CompositeLit
		ast.Inspect(cn.Decl.Body, func(n ast.Node) bool {
			switch x := n.(type) {
			case *ast.CallExpr:
				switch calleeID(cn.Info(), x) {
				case "github.com/hashicorp/go-immutable-radix.Tree.Insert":
					sel := ast.Unparen(x.Fun).(*ast.SelectorExpr)
					switch describeExpr(cn, sel.X, 0) {
					case "recv.lookupTree":
						lkKey = describeExpr(cn, x.Args[0], 0)
						if cl, ok := ast.Unparen(x.Args[1]).(*ast.CompositeLit); ok {
							if v := fieldOfCompositeLit(cl, "iNode"); v != nil {
								lkVal = describeExpr(cn, v, 0)
							}
						}
					case "recv.iNodeStore":
						nsKey = describeExpr(cn, x.Args[0], 0)
						nsVal = describeExpr(cn, x.Args[1], 0)
					}
				case "pkg/fuse.fsMutable.insertReadDirEntry":
					rdParent = describeExpr(cn, x.Args[0], 0)
					rdEnt = describeExpr(cn, x.Args[1], 0)
				}
			case *ast.CompositeLit:
				if namedTypeID(cn.Info().TypeOf(x)) == direntTypeID {
					dirent = x
				}
			case *ast.AssignStmt:
				if len(x.Lhs) == 1 && len(x.Rhs) == 1 && describeExpr(cn, x.Lhs[0], 0) == "param#3.Child" {
					child = describeExpr(cn, x.Rhs[0], 0)
				}
			}
			return true
		})
		okLk := (lkKey == "param#0" || lkKey == "{call:pkg/fuse.formLookupKey(param#1,param#2)|param#0}" || lkKey == "call:pkg/fuse.formLookupKey(param#1,param#2)") && lkVal == id
		c.check(okLk, "namespace.create", cn.ID+":lookupTree", p.Pos(cn.Decl.Pos()), "lookupTree[lookup key of (parent, name)] = {iNode: new inode}",
			"createNode inserts lookup key `"+lkKey+"` -> inode `"+lkVal+"`: the name must resolve to the inode that was just allocated")
		okRd := rdParent == "param#1" && dirent != nil && strings.HasPrefix(rdEnt, "&lit:")
		if dirent != nil {
			for fld, want := range map[string]string{"Inode": id, "Name": "param#2", "Type": "param#4"} {
				v := fieldOfCompositeLit(dirent, fld)
				if v == nil || describeExpr(cn, v, 0) != want {
					okRd = false
				}
			}
		}
		c.check(okRd, "namespace.create", cn.ID+":readDirMap", p.Pos(cn.Decl.Pos()), "readDirMap[parent] gets Dirent{Inode: new inode, Name: child name, Type: node type}",
			"createNode no longer inserts Dirent{Inode: the new inode, Name: the child name, Type: the node type} into the parent's readDirMap: the listing, which commit walks, disagrees with lookups")
		c.check(nsKey == "call:pkg/fuse.formKey("+id+")" && nsVal == "&lit:pkg/fuse.nodeEntry", "namespace.create", cn.ID+":iNodeStore", p.Pos(cn.Decl.Pos()),
			"iNodeStore[formKey(new inode)] = &nodeEntry{…}", "createNode stores the node under `"+nsKey+"` as `"+nsVal+"`, expected formKey(new inode) -> &nodeEntry{…}")
		c.check(child == id, "namespace.create", cn.ID+":reply", p.Pos(cn.Decl.Pos()), "the reply carries the new inode", "createNode replies with inode `"+child+"`, not the inode it registered")
		// node literal: lookup count 1, link count >= 1
		for _, cl := range compositeLits(cn, "pkg/fuse.nodeEntry") {
			v := fieldOfCompositeLit(cl, "refCount")
			c.check(v != nil && describeExpr(cn, v, 0) == "const:1", "namespace.create", cn.ID+":refCount", p.Pos(cl.Pos()), "a created node starts with lookup count 1 (the create/mkdir reply is one lookup)", "a created node no longer starts with lookup count 1: the kernel's forget for the create reply drives the count negative (panic) or the node is never released")
		}
		dlc, _ := repoConst(p, "pkg/fuse", "dirLinkCount")
		flc, _ := repoConst(p, "pkg/fuse", "fileLinkCount")
		okLC := dlc != nil && flc != nil && dlc.ExactString() != "0" && flc.ExactString() != "0"
		for _, cl := range compositeLits(cn, "github.com/jacobsa/fuse/fuseops.InodeAttributes") {
			v := fieldOfCompositeLit(cl, "Nlink")
			if v == nil {
				okLC = false
				continue
			}
			d := describeExpr(cn, v, 0)
			if !(d == "{"+constDesc(flc)+"|"+constDesc(dlc)+"}" || d == "{"+constDesc(dlc)+"|"+constDesc(flc)+"}" || d == constDesc(dlc) || d == constDesc(flc)) {
				okLC = false
			}
		}
		c.check(okLC, "namespace.create", cn.ID+":Nlink", p.Pos(cn.Decl.Pos()), "created nodes have link count fileLinkCount / dirLinkCount, both >= 1", "a node can be created with a link count that is not the non-zero fileLinkCount/dirLinkCount constant: shouldDelete takes link count 0 as 'unlinked'")
	}
	// directory bookkeeping in createNode: own readDirMap + parent's link count
	{
		ownMap, parentInc := false, false
		ast.Inspect(cn.Decl.Body, func(n ast.Node) bool {
			switch s := n.(type) {
			case *ast.AssignStmt:
				if len(s.Lhs) == 1 && describeExpr(cn, s.Lhs[0], 0) == "recv.readDirMap[{param#1|recv.iNodeGenerator.allocINode()}]" {
					ownMap = dirGuarded(cn, s)
				}
			case *ast.IncDecStmt:
				if s.Tok == token.INC && describeExpr(cn, s.X, 0) == "recv.iNodeStore.Get(call:pkg/fuse.formKey(param#1))#0.(pkg/fuse.nodeEntry).attr.Nlink" {
					parentInc = dirGuarded(cn, s)
				}
			}
			return true
		})
		c.check(ownMap, "namespace.create", cn.ID+":dir-map", p.Pos(cn.Decl.Pos()), "a new directory gets its own (empty) readDirMap", "a new directory no longer gets its own readDirMap entry: ReadDir on the empty directory answers ENOENT")
		c.check(parentInc, "namespace.dir-links", cn.ID+":parent++", p.Pos(cn.Decl.Pos()), "creating a directory adds one link to its parent", "creating a directory no longer adds one link to its parent: after removals the parent's count reaches 0 while it is linked and a forget releases it")
	}
	// callers of createNode: dominated by a successful preCreateCheck on the same (parent, key)
	for _, cs := range callersOf(p, cn.ID) {
		if cs.Fn.ID == "pkg/fuse.fsMutable.initRoot" {
			c.ok("namespace.create.checked", callKey(cs.Fn, cs.Call), p.Pos(cs.Call.Pos()), "root creation: parent is the node itself, name space is empty (guarded by the lookup of the root key)")
			continue
		}
		b := p.BodyOf(cs.Fn)
		bad, nT, nA := b.guardedByNilErr(callTo("pkg/fuse.fsMutable.preCreateCheck"), func(n ast.Node) bool {
			found := false
			for _, call := range callsIn(n) {
				if call == cs.Call {
					found = true
				}
			}
			return found
		})
		c.check(nT >= 1 && nA >= 1 && len(bad) == 0, "namespace.create.checked", callKey(cs.Fn, cs.Call), p.Pos(cs.Call.Pos()),
			"createNode runs only where preCreateCheck returned nil (parent exists and is a directory, name is free)",
			"createNode is reachable where preCreateCheck failed or was not called: an existing name is silently replaced (two inodes for one name) or the parent's node is dereferenced while absent")
	}
	c.requireInstances("namespace.create.checked", 3)

	// ---- deleteNSEntry ----
	dn := p.Func("pkg/fuse.fsMutable.deleteNSEntry")
	{
		const cle = "recv.lookup(param#0,param#1)#0"
		var delKey, rdDel, nlinkZero string
		var firstMutation, emptinessGuardEnd, lookupDelPos, nlinkPos token.Pos
		parentDec := false
		ast.Inspect(dn.Decl.Body, func(n ast.Node) bool {
			switch s := n.(type) {
			case *ast.CallExpr:
				switch calleeID(dn.Info(), s) {
				case "github.com/hashicorp/go-immutable-radix.Tree.Delete":
					sel := ast.Unparen(s.Fun).(*ast.SelectorExpr)
					if describeExpr(dn, sel.X, 0) == "recv.lookupTree" {
						delKey = describeExpr(dn, s.Args[0], 0)
						lookupDelPos = s.Pos()
						if !firstMutation.IsValid() || s.Pos() < firstMutation {
							firstMutation = s.Pos()
						}
					}
				case "builtin.delete":
					m := describeExprAt(dn, s.Args[0])
					k := describeExprAt(dn, s.Args[1])
					if m == "recv.readDirMap[param#0]" {
						rdDel = k
					}
					if !firstMutation.IsValid() || s.Pos() < firstMutation {
						firstMutation = s.Pos()
					}
				}
			case *ast.IfStmt:
				d := nos(describeExprAt(dn, s.Cond))
				if d == "(call:builtin.len(recv.readDirMap["+cle+".iNode])>const:0)" || d == "(call:builtin.len(recv.readDirMap["+cle+".iNode])!=const:0)" {
					if len(s.Body.List) > 0 {
						if r, ok := s.Body.List[len(s.Body.List)-1].(*ast.ReturnStmt); ok && len(r.Results) == 1 && !isNil(dn.Info(), r.Results[0]) {
							emptinessGuardEnd = s.End()
						}
					}
				}
			case *ast.AssignStmt:
				if len(s.Lhs) == 1 && len(s.Rhs) == 1 && strings.HasSuffix(describeExprAt(dn, s.Lhs[0]), "(pkg/fuse.nodeEntry).attr.Nlink") &&
					strings.Contains(describeExprAt(dn, s.Lhs[0]), cle+".iNode") {
					nlinkZero = describeExprAt(dn, s.Rhs[0])
					nlinkPos = s.Pos()
					if dirGuarded(dn, s) || inAnyIf(dn, s) {
						nlinkZero += " (conditional)"
					}
				}
			case *ast.IncDecStmt:
				if s.Tok == token.DEC && describeExprAt(dn, s.X) == "recv.iNodeStore.Get(call:pkg/fuse.formKey(param#0))#0.(pkg/fuse.nodeEntry).attr.Nlink" && dirGuarded(dn, s) {
					parentDec = true
					if !firstMutation.IsValid() || s.Pos() < firstMutation {
						firstMutation = s.Pos()
					}
				}
			}
			return true
		})
		c.check(delKey == "recv.lookup(param#0,param#1)#2" && rdDel == cle+".iNode", "namespace.delete", dn.ID+":tables", p.Pos(dn.Decl.Pos()),
			"the key returned by lookup(parent, name) leaves lookupTree and the dirent of the looked-up inode leaves readDirMap[parent]",
			"deleteNSEntry removes lookup key `"+delKey+"` and readDirMap[parent] entry `"+rdDel+"`: both must come from the lookup of its own (parent, name) arguments")
		c.check(emptinessGuardEnd.IsValid() && firstMutation.IsValid() && emptinessGuardEnd < firstMutation, "namespace.delete", dn.ID+":not-empty", p.Pos(dn.Decl.Pos()),
			"a directory with children is refused (ENOTEMPTY) before anything is modified",
			"deleteNSEntry no longer refuses a directory that still has children (`len(children) > 0` -> error) before its first mutation: the children become unreachable but are still committed / the tables diverge")
		c.check(nlinkZero == "const:0" && lookupDelPos.IsValid() && nlinkPos > lookupDelPos, "namespace.delete", dn.ID+":unlinked", p.Pos(dn.Decl.Pos()),
			"the removed node's link count is cleared, unconditionally and after its name left lookupTree",
			"deleteNSEntry does not clear the removed node's link count unconditionally after removing its name (found: `"+nlinkZero+"`): shouldDelete then never (or too early) releases the node on forget")
		c.check(parentDec, "namespace.dir-links", dn.ID+":parent--", p.Pos(dn.Decl.Pos()), "removing a directory takes one link from its parent", "removing a directory no longer takes one link from its parent")
	}
	// ---- Rename ----
	rn := p.Func("pkg/fuse.fsMutable.Rename")
	{
		// side consistency of every (parent, name) pair
		nPairs := 0
		ast.Inspect(rn.Decl.Body, func(n ast.Node) bool {
			call, ok := n.(*ast.CallExpr)
			if !ok {
				return true
			}
			var sides []string
			parents, names := 0, 0
			for _, a := range call.Args {
				d := describeExpr(rn, a, 0)
				if s := renameSide(d); s != "" {
					sides = append(sides, s)
					if strings.HasSuffix(d, "Parent") {
						parents++
					} else {
						names++
					}
				}
			}
			// a (parent, name) pair names one directory entry; a call taking both parents (a helper moving something
			// from one to the other) is not a pair
			if len(sides) < 2 || parents == 0 || names == 0 {
				return true
			}
			nPairs++
			same := true
			for _, s := range sides {
				if s != sides[0] {
					same = false
				}
			}
			c.check(same, "namespace.rename", callKey(rn, call)+":pair", p.Pos(call.Pos()),
				"(parent, name) operands are both "+sides[0]+"*",
				"`"+describeExpr(rn, call, 0)+"` mixes an Old* and a New* operand of the rename: the entry looked up / deleted / inserted is not the one the operation names")
			return true
		})
		if nPairs < 5 {
			c.fail("namespace.rename", rn.ID+":pairs", p.Pos(rn.Decl.Pos()), "Rename has only "+itoa(nPairs)+" (parent, name) call sites, expected the 5 confirmed by hand: its shape changed")
		}
		// roles
		var delTarget, rdDelMap, rdDelKey, lkDel, insRdParent, insLkParent, insLkName, insLkVal string
		var newRC *ast.CompositeLit
		ast.Inspect(rn.Decl.Body, func(n ast.Node) bool {
			switch s := n.(type) {
			case *ast.CallExpr:
				switch calleeID(rn.Info(), s) {
				case "pkg/fuse.fsMutable.deleteNSEntry":
					delTarget = describeExpr(rn, s.Args[0], 0) + "," + describeExpr(rn, s.Args[1], 0)
					// guarded by the found flag of lookup(New…)
				case "builtin.delete":
					rdDelMap, rdDelKey = describeExprAt(rn, s.Args[0]), describeExprAt(rn, s.Args[1])
				case "github.com/hashicorp/go-immutable-radix.Tree.Delete":
					lkDel = describeExprAt(rn, s.Args[0])
				case "pkg/fuse.fsMutable.insertReadDirEntry":
					insRdParent = describeExprAt(rn, s.Args[0])
				case "pkg/fuse.fsMutable.insertLookupEntry":
					insLkParent, insLkName, insLkVal = describeExprAt(rn, s.Args[0]), describeExprAt(rn, s.Args[1]), describeExprAt(rn, s.Args[2])
				}
			case *ast.CompositeLit:
				if namedTypeID(rn.Info().TypeOf(s)) == direntTypeID {
					newRC = s
				}
			}
			return true
		})
		const oldEnt = "recv.readDirMap[param#1.OldParent][recv.lookup(param#1.OldParent,param#1.OldName)#0.iNode]"
		c.check(delTarget == "param#1.NewParent,param#1.NewName", "namespace.rename", rn.ID+":replace-target", p.Pos(rn.Decl.Pos()),
			"an existing target is removed through (NewParent, NewName)", "an existing rename target is removed through ("+delTarget+"), not (NewParent, NewName): the replaced file stays listed (and is committed) or the source itself is deleted")
		c.check(rdDelMap == "recv.readDirMap[param#1.OldParent]" && rdDelKey == oldEnt+".Inode" && lkDel == "call:pkg/fuse.formLookupKey(param#1.OldParent,param#1.OldName)", "namespace.rename", rn.ID+":leave-old", p.Pos(rn.Decl.Pos()),
			"the moved entry leaves readDirMap[OldParent] and lookupTree[(OldParent, OldName)]",
			"Rename removes `"+rdDelMap+"["+rdDelKey+"]` and lookup key `"+lkDel+"`: expected the source's dirent in readDirMap[OldParent] and the key of (OldParent, OldName)")
		okNew := newRC != nil && insRdParent == "param#1.NewParent" && insLkParent == "param#1.NewParent" && insLkName == "param#1.NewName" &&
			insLkVal == "recv.lookupTree.Delete(call:pkg/fuse.formLookupKey(param#1.OldParent,param#1.OldName))#1.(pkg/fuse.lookupEntry)"
		if newRC != nil {
			for fld, want := range map[string]string{"Inode": oldEnt + ".Inode", "Name": "param#1.NewName", "Type": oldEnt + ".Type"} {
				v := fieldOfCompositeLit(newRC, fld)
				if v == nil || describeExprAt(rn, v) != want {
					okNew = false
				}
			}
		}
		c.check(okNew, "namespace.rename", rn.ID+":enter-new", p.Pos(rn.Decl.Pos()),
			"the entry enters readDirMap[NewParent] as Dirent{same inode, NewName, same type} and lookupTree[(NewParent, NewName)] with the lookup entry removed from the old key",
			"Rename no longer inserts Dirent{Inode: source inode, Name: NewName, Type: source type} under NewParent and the source's lookup entry under (NewParent, NewName): listing (walked by commit) and lookups disagree after the rename")
		// directory link move: the two link-count steps (in Rename or in a helper of the receiver it calls) are guarded by
		// "the entry is a directory" and "the parents differ" — read from the guard atoms, so a nested if, an early
		// return on the negation and a helper are the same thing
		dt, _ := importedConst(p, "pkg/fuse", "github.com/jacobsa/fuse/fuseutil", "DT_Directory")
		// guards already in force where the moved entry is inserted under its new name (always executed on the success
		// path): anything beyond them, the two conditions and the found flags of the node look-ups narrows the move
		refAtoms := map[string]guardAtom{}
		ast.Inspect(rn.Decl.Body, func(n ast.Node) bool {
			if call, ok := n.(*ast.CallExpr); ok && calleeID(rn.Info(), call) == "pkg/fuse.fsMutable.insertLookupEntry" {
				refAtoms, _ = atomsAt(rn, rn.Decl.Body, call.Pos())
			}
			return true
		})
		guardedMove := func(pos token.Pos) bool {
			atoms, _ := atomsAt(rn, rn.Decl.Body, pos)
			isDir, differ := false, false
			for lit, at := range atoms {
				be, ok := ast.Unparen(at.Expr).(*ast.BinaryExpr)
				if !ok || (be.Op != token.EQL && be.Op != token.NEQ) {
					if _, inRef := refAtoms[lit]; !inRef {
						if _, isFlag := ast.Unparen(at.Expr).(*ast.Ident); !isFlag {
							return false // an extra condition on the move
						}
					}
					continue
				}
				holdsEq := (be.Op == token.EQL) != at.Neg // the atom states X == Y
				x, y := nos(describeExprAt(rn, be.X)), nos(describeExprAt(rn, be.Y))
				if dt != nil && holdsEq && ((x == nos(oldEnt+".Type") && y == constDesc(dt)) || (y == nos(oldEnt+".Type") && x == constDesc(dt))) {
					isDir = true
				}
				isMoveCond := false
				if dt != nil && holdsEq && ((x == nos(oldEnt+".Type") && y == constDesc(dt)) || (y == nos(oldEnt+".Type") && x == constDesc(dt))) {
					isMoveCond = true
				}
				if !holdsEq && ((x == "param#1.OldParent" && y == "param#1.NewParent") || (x == "param#1.NewParent" && y == "param#1.OldParent")) {
					differ = true
					isMoveCond = true
				}
				if _, inRef := refAtoms[lit]; !inRef && !isMoveCond {
					return false // an extra condition on the move
				}
			}
			return isDir && differ
		}
		okMv := false
		{
			dec, inc := false, false
			note := func(tok token.Token, d string, pos token.Pos) {
				if !guardedMove(pos) {
					return
				}
				if tok == token.DEC && d == "recv.iNodeStore.Get(call:pkg/fuse.formKey(param#1.OldParent))#0.(pkg/fuse.nodeEntry).attr.Nlink" {
					dec = true
				}
				if tok == token.INC && d == "recv.iNodeStore.Get(call:pkg/fuse.formKey(param#1.NewParent))#0.(pkg/fuse.nodeEntry).attr.Nlink" {
					inc = true
				}
			}
			ast.Inspect(rn.Decl.Body, func(n ast.Node) bool {
				switch s := n.(type) {
				case *ast.IncDecStmt:
					note(s.Tok, describeExprAt(rn, s.X), s.Pos())
				case *ast.CallExpr:
					// the same two steps in a helper of the receiver: its parameters stand for the arguments passed here
					h := p.FuncOpt(calleeID(rn.Info(), s))
					if h == nil || h.Decl.Body == nil || h.Decl.Recv == nil || !strings.HasPrefix(h.ID, "pkg/fuse.fsMutable.") || h == rn {
						return true
					}
					ast.Inspect(h.Decl.Body, func(m ast.Node) bool {
						if t, ok := m.(*ast.IncDecStmt); ok {
							note(t.Tok, substParams(describeExprAt(h, t.X), rn, s), s.Pos())
						}
						return true
					})
				}
				return true
			})
			okMv = dec && inc
		}
		c.check(okMv, "namespace.dir-links", rn.ID+":move", p.Pos(rn.Decl.Pos()),
			"a directory moved to another parent takes its link from the old parent to the new one",
			"Rename of a directory to another parent no longer moves one link from OldParent to NewParent (exactly when the entry is a directory and the parents differ): createNode/deleteNSEntry count one link per child directory, so the counts drift and a linked directory reaches link count 0 and is released on forget")
	}
	// insert helpers
	{
		f := p.Func("pkg/fuse.fsMutable.insertReadDirEntry")
		ok := false
		ast.Inspect(f.Decl.Body, func(n ast.Node) bool {
			if as, isAs := n.(*ast.AssignStmt); isAs && len(as.Lhs) == 1 && len(as.Rhs) == 1 &&
				describeExpr(f, as.Lhs[0], 0) == "recv.readDirMap[param#0][param#1.Inode]" && describeExpr(f, as.Rhs[0], 0) == "param#1" {
				ok = true
			}
			return true
		})
		c.check(ok, "namespace.helpers", f.ID, p.Pos(f.Decl.Pos()), "readDirMap[parent][dirent.Inode] = dirent", "insertReadDirEntry no longer stores the dirent under its own inode in the parent's map")
		g := p.Func("pkg/fuse.fsMutable.insertLookupEntry")
		ok = false
		ast.Inspect(g.Decl.Body, func(n ast.Node) bool {
			if call, isCall := n.(*ast.CallExpr); isCall && calleeID(g.Info(), call) == "github.com/hashicorp/go-immutable-radix.Tree.Insert" &&
				describeExpr(g, call.Args[0], 0) == "call:pkg/fuse.formLookupKey(param#0,param#1)" && describeExpr(g, call.Args[1], 0) == "param#2" {
				ok = true
			}
			return true
		})
		c.check(ok, "namespace.helpers", g.ID, p.Pos(g.Decl.Pos()), "lookupTree[formLookupKey(parent, child)] = entry", "insertLookupEntry no longer stores the entry under formLookupKey(parent, child)")
	}
	c.requireInstances("namespace.rename", 8)
	c.requireInstances("namespace.dir-links", 3)
}

// dirGuarded: the statement lies in the body of an if whose condition tests for a directory (nodeType ==
// DT_Directory, Mode.IsDir()).
func dirGuarded(f *FuncInfo, n ast.Node) bool {
	for x := f.parentOf(n); x != nil; x = f.parentOf(x) {
		if ifs, ok := x.(*ast.IfStmt); ok && encloses(ifs.Body, n.Pos()) {
			d := describeExpr(f, ifs.Cond, 0)
			if strings.Contains(d, "IsDir()") || strings.Contains(d, "==const:4") {
				return true
			}
		}
	}
	return false
}

func inAnyIf(f *FuncInfo, n ast.Node) bool {
	for x := f.parentOf(n); x != nil; x = f.parentOf(x) {
		switch x.(type) {
		case *ast.IfStmt, *ast.ForStmt, *ast.RangeStmt, *ast.SwitchStmt:
			return true
		}
	}
	return false
}

func checkForget(c *Ctx) {
	p := c.P
	sd := p.Func("pkg/fuse.shouldDelete")
	okSD := false
	if len(sd.Decl.Body.List) == 1 {
		if r, ok := sd.Decl.Body.List[0].(*ast.ReturnStmt); ok && len(r.Results) == 1 {
			parts := []string{}
			for _, cj := range conjuncts(r.Results[0]) {
				parts = append(parts, nos(describeExpr(sd, cj, 0)))
			}
			sort.Strings(parts)
			okSD = len(parts) == 2 && parts[0] == "(param#0.attr.Nlink==const:0)" && parts[1] == "(param#0.refCount==const:0)"
		}
	}
	c.check(okSD, "forget.should-delete", sd.ID, p.Pos(sd.Decl.Pos()),
		"a node may be released exactly when its lookup count is 0 and its link count is 0",
		"shouldDelete is no longer `refCount == 0 && Nlink == 0`: a node that is still linked in the name space (the kernel may forget and later look up a linked inode) is released and its inode number handed out again, or lookups of it crash")
	// ForgetInode: releases only under shouldDelete
	fg := p.Func("pkg/fuse.fsMutable.ForgetInode")
	info := fg.Info()
	isSD := func(e ast.Expr) bool {
		e = ast.Unparen(e)
		if call, ok := e.(*ast.CallExpr); ok {
			return calleeID(info, call) == "pkg/fuse.shouldDelete"
		}
		if id, ok := e.(*ast.Ident); ok {
			if v, ok := info.Uses[id].(*types.Var); ok {
				defs := defsOfVarWithIndex(fg, v)
				if len(defs) == 0 {
					return false
				}
				for _, d := range defs {
					call, ok := d.rhs.(*ast.CallExpr)
					if d.rhs == nil || !ok || calleeID(info, call) != "pkg/fuse.shouldDelete" {
						return false
					}
				}
				return true
			}
		}
		return false
	}
	nRel := 0
	ast.Inspect(fg.Decl.Body, func(n ast.Node) bool {
		call, ok := n.(*ast.CallExpr)
		if !ok {
			return true
		}
		id := calleeID(info, call)
		rel := id == "pkg/fuse.iNodeGenerator.freeINode"
		if id == "github.com/hashicorp/go-immutable-radix.Tree.Delete" {
			sel := ast.Unparen(call.Fun).(*ast.SelectorExpr)
			rel = describeExpr(fg, sel.X, 0) == "recv.iNodeStore"
		}
		if !rel {
			return true
		}
		nRel++
		guarded := false
		for x := fg.parentOf(call); x != nil; x = fg.parentOf(x) {
			if ifs, ok := x.(*ast.IfStmt); ok && encloses(ifs.Body, call.Pos()) && isSD(ifs.Cond) {
				guarded = true
			}
			// or an earlier `if !shouldDelete(n) { return }` in an enclosing block
			if blk, ok := x.(*ast.BlockStmt); ok {
				for _, st := range blk.List {
					if st.Pos() >= call.Pos() {
						break
					}
					ifs, ok := st.(*ast.IfStmt)
					if !ok || ifs.Else != nil || len(ifs.Body.List) == 0 {
						continue
					}
					if _, isRet := ifs.Body.List[len(ifs.Body.List)-1].(*ast.ReturnStmt); !isRet {
						continue
					}
					if u, ok := ast.Unparen(ifs.Cond).(*ast.UnaryExpr); ok && u.Op == token.NOT && isSD(u.X) {
						guarded = true
					}
				}
			}
		}
		c.check(guarded, "forget.release-guarded", callKey(fg, call), p.Pos(call.Pos()),
			"the node / its inode number is released only inside `if shouldDelete(n)`",
			"ForgetInode releases the node or its inode number outside an `if shouldDelete(…)`: a node the kernel still references, or that is still linked, is dropped and its inode handed out again")
		return true
	})
	if nRel < 2 {
		c.fail("forget.release-guarded", fg.ID, p.Pos(fg.Decl.Pos()), "ForgetInode no longer releases both the node (iNodeStore.Delete) and its inode number (freeINode): "+itoa(nRel)+" release sites found")
	}
	// who may delete from iNodeStore / free inodes
	for _, f := range p.FuncsIn("pkg/fuse") {
		if f.Decl.Body == nil || f.ID == fg.ID {
			continue
		}
		ast.Inspect(f.Decl.Body, func(n ast.Node) bool {
			call, ok := n.(*ast.CallExpr)
			if !ok {
				return true
			}
			id := calleeID(f.Info(), call)
			bad := id == "pkg/fuse.iNodeGenerator.freeINode"
			if id == "github.com/hashicorp/go-immutable-radix.Tree.Delete" {
				sel := ast.Unparen(call.Fun).(*ast.SelectorExpr)
				bad = strings.HasSuffix(describeExpr(f, sel.X, 0), ".iNodeStore")
			}
			if bad {
				c.fail("forget.release-guarded", callKey(f, call), p.Pos(call.Pos()), "a node or inode number is released outside ForgetInode: the lookup-count / link-count conditions are not checked there")
			}
			return true
		})
	}
	// who writes Nlink of a node to 0 / decrements: only deleteNSEntry (child := 0, parent--), Rename (old parent--)
	allowed := map[string]bool{"pkg/fuse.fsMutable.deleteNSEntry": true, "pkg/fuse.fsMutable.Rename": true, "pkg/fuse.fsMutable.createNode": true}
	for _, f := range p.FuncsIn("pkg/fuse") {
		if f.Decl.Body == nil {
			continue
		}
		ast.Inspect(f.Decl.Body, func(n ast.Node) bool {
			var target ast.Expr
			switch s := n.(type) {
			case *ast.AssignStmt:
				for _, l := range s.Lhs {
					if sel, ok := ast.Unparen(l).(*ast.SelectorExpr); ok && sel.Sel.Name == "Nlink" {
						target = l
					}
				}
			case *ast.IncDecStmt:
				if sel, ok := ast.Unparen(s.X).(*ast.SelectorExpr); ok && sel.Sel.Name == "Nlink" {
					target = s.X
				}
			}
			if target == nil || !strings.Contains(describeExpr(f, target, 0), "attr.Nlink") {
				return true
			}
			okWriter := allowed[f.ID]
			if !okWriter && f.Decl.Recv != nil && !ast.IsExported(f.Decl.Name.Name) {
				// an unexported helper all of whose callers are the allowed writers is part of them
				cs := callersOf(p, f.ID)
				okWriter = len(cs) > 0
				for _, s := range cs {
					if !allowed[s.Fn.ID] {
						okWriter = false
					}
				}
			}
			c.check(okWriter, "forget.link-count-writers", f.ID+":Nlink", p.Pos(n.Pos()),
				"link counts are written only by createNode, deleteNSEntry and Rename (checked by the namespace rules)",
				"a node's link count is written in "+f.ID+", outside createNode/deleteNSEntry/Rename: link count 0 means 'unlinked, may be released on forget'")
			return true
		})
	}
	c.requireInstances("forget.link-count-writers", 5)
}

var paramTokRE = regexp.MustCompile(`param#(\d+)`)

// substParams rewrites a description made in a callee (param#i) into the caller's terms, given the call.
func substParams(desc string, caller *FuncInfo, call *ast.CallExpr) string {
	return paramTokRE.ReplaceAllStringFunc(desc, func(m string) string {
		i, _ := strconv.Atoi(m[len("param#"):])
		if i < len(call.Args) {
			return describeExprAt(caller, call.Args[i])
		}
		return m
	})
}
