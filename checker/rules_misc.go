package main

import (
	"go/ast"
	"go/token"
	"go/types"
	"sort"
	"strings"

	"golang.org/x/tools/go/cfg"
)

// C16 (localfs), C19 (wal), C21 (sidecar parameters), C22 (write tracker).

func init() {
	register(&propSpec{
		id: "C16",
		explanation: "Static structural clauses for the local file system store: (a) Put: the exclusive flag adds O_EXCL (and nothing else changes) to the flags of every OpenFile in both retry operands, the key is opened as given, nothing in Put removes a key, and write/close errors surface from both operands; " +
			"(b) KeysPrefix: the trailing separator of a directory prefix survives cleaning, the walk callback tests its error before touching the file info, matches are sorted before de-duplication and paging, the cache entry is dropped whenever the last page is returned, the page window is [start, min(start+count, len)); " +
			"(c) error mapping agrees with the sibling stores: Get maps a missing file to ErrNotExists, Has maps it to (false, nil). Not decided: exclusivity under concurrency (the OS's O_EXCL), map-model equivalence of histories.",
		run: runC16,
	})
	register(&propSpec{
		id: "C19",
		explanation: "Static structural clauses for the write-ahead log: (a) codec pairing: what Add stores under a token must be what read decodes [violated on this tree: recorded finding]; (b) every channel of walChannels that is sent on or received from is created by newWalChannels; (c) read tests the Get error before using the reader and reads the whole entry (no cap); (d) Add writes NoOverWrite under the token it returns, the token is a KSUID built from the update time of the generator object read after Touch; (e) ListTokens back-dates the start key by twice the expiration with an all-zero payload, caps max, and lists from that key. " +
			"Not decided: token uniqueness/ordering (KSUID randomness, store clock).",
		run: runC19,
	})
	register(&propSpec{
		id:          "C21",
		explanation: "Static structural clauses for the sidecar parameter encoding: (a) every emitted value goes through appendToParamString, which skips empty values and refuses values containing a separator; (b) separators are chosen outside the characters of all values (fieldsAsStringValues over the whole params struct) and of a reserved constant that covers every literal parameter name and flag the builders emit; the second separator is chosen after adding the first to the excluded set; the helper scans run to the end of their input; (c) every builder starts with itemSep+kvSep and trims one trailing itemSep. Not decided: equivalence with the shell decoder.",
		run:         runC21,
	})
	register(&propSpec{
		id:          "C22",
		explanation: "Static structural clauses for the write-range tracker: (a) offsets flow only into comparisons, min, a subtraction for the returned length and getKey, so behaviour depends only on their relative order; (b) trackWrite's walker partitions the markers into (key < start), (key <= end), (else): the first updates both inside-flags from the marker, the second deletes the marker and updates the after-flag, the third terminates; the start marker is inserted iff no range is open before start and the end marker iff none is open after end, at getKey(start)/getKey(end) with the right flags; empty writes are ignored; the tree is replaced by the transaction's commit under the lock; (c) getRangeToRead covers <=/> for both marker kinds. Not decided: the interval-union semantics itself.",
		run:         runC22,
	})

	addWitness(witness{Prop: "C16", Name: "excl-only-first-operand", File: "pkg/storage/localfs/store.go",
		Old:    "\t\toperation := func() error {\n\t\t\ttarget, err = l.fs.OpenFile(name, flag, 0600)\n\t\t\tif err != nil {\n\t\t\t\treturn fmt.Errorf(\"create record for %q: %v\", key, err)\n\t\t\t}\n\t\t\t_, err = storage.PipeIO(",
		New:    "\t\toperation := func() error {\n\t\t\ttarget, err = l.fs.OpenFile(name, os.O_CREATE|os.O_WRONLY|os.O_SYNC|os.O_TRUNC, 0600)\n\t\t\tif err != nil {\n\t\t\t\treturn fmt.Errorf(\"create record for %q: %v\", key, err)\n\t\t\t}\n\t\t\t_, err = storage.PipeIO(",
		Expect: "put.exclusive"})
	addWitness(witness{Prop: "C16", Name: "loser-removes-key", File: "pkg/storage/localfs/store.go",
		Old: "\t\tif exclusive {\n\t\t\treturn err\n\t\t}\n\t\tif err == nil {\n\t\t\terr = l.fs.Rename(name, key)", New: "\t\tif err == nil && !exclusive {\n\t\t\terr = l.fs.Rename(name, key)",
		Expect: "put.no-remove"})
	addWitness(witness{Prop: "C16", Name: "overwrite-in-place", File: "pkg/storage/localfs/store.go",
		Old: "\tname := key\n\tif !exclusive {\n\t\tname = fmt.Sprintf(", New: "\tname := key\n\tif !exclusive && l.lock {\n\t\tname = fmt.Sprintf(",
		Expect: "put.overwrite.staged"})
	addWitness(witness{Prop: "C15", Name: "overwrite-in-place", File: "pkg/storage/localfs/store.go",
		Old: "\tname := key\n\tif !exclusive {\n\t\tname = fmt.Sprintf(", New: "\tname := key\n\tif !exclusive && l.lock {\n\t\tname = fmt.Sprintf(",
		Expect: "put.overwrite.staged"})
	addWitness(witness{Prop: "C16", Name: "excl-flag-dropped-for-staging", File: "pkg/storage/localfs/store.go",
		Old: "\tflag := os.O_CREATE | os.O_WRONLY | os.O_SYNC | os.O_TRUNC | os.O_EXCL\n", New: "\tflag := os.O_CREATE | os.O_WRONLY | os.O_SYNC | os.O_TRUNC\n",
		Expect: "put.exclusive.flag"})
	addWitness(witness{Prop: "C16", Name: "prefix-separator-lost", File: "pkg/storage/localfs/store.go",
		Old: "\tif isDirPrefix && prefix != \"/\" {", New: "\tif isDirPrefix && prefix == \"/\" {",
		Expect: "keysprefix.separator"})
	addWitness(witness{Prop: "C16", Name: "unsorted-listing", File: "pkg/storage/localfs/store.go",
		Old: "\t\tsort.Strings(matches)\n", New: "\t\t_ = sort.Strings\n",
		Expect: "keysprefix.sorted"})
	addWitness(witness{Prop: "C16", Name: "info-before-err", File: "pkg/storage/localfs/store.go",
		Old: "\t\t\tif err != nil || info.IsDir() {", New: "\t\t\tif info.IsDir() || err != nil {",
		Expect: "keysprefix.err-first"})
	addWitness(witness{Prop: "C16", Name: "stale-cache-on-full-last-page", File: "pkg/storage/localfs/store.go",
		Old: "\t} else {\n\t\tnext = \"\"\n\t\tend = len(search)\n\t\tdelete(l.glob, prefix)\n\t}", New: "\t} else {\n\t\tnext = \"\"\n\t\tend = len(search)\n\t\tif end > start+count {\n\t\t\tdelete(l.glob, prefix)\n\t\t}\n\t}",
		Expect: "keysprefix.cache-dropped"})
	addWitness(witness{Prop: "C16", Name: "get-raw-not-exist", File: "pkg/storage/localfs/store.go",
		Old: "\t}, toSentinelErrors(err)", New: "\t}, err",
		Expect: "error-mapping"})
	addWitness(witness{Prop: "C19", Name: "nil-error-channel", File: "pkg/wal/wal.go",
		Old: "\toops := make(chan error)\n", New: "\tvar oops chan error\n",
		Expect: "channels"})
	addWitness(witness{Prop: "C19", Name: "lookback-random-payload", File: "pkg/wal/wal.go",
		Old: "\tksuidOld, err := ksuid.FromParts(k.Time().Add(-w.GetExpirationDuration()*2), b)", New: "\t_ = b\n\tksuidOld, err := ksuid.NewRandomWithTime(k.Time().Add(-w.GetExpirationDuration() * 2))",
		Expect: "lookback"})
	addWitness(witness{Prop: "C19", Name: "read-size-cap", File: "pkg/wal/wal.go",
		Old: "\tb, err := ioutil.ReadAll(r)", New: "\t_ = ioutil.Discard\n\tb := make([]byte, 1024)\n\t_, err = r.Read(b)",
		Expect: "read"})
	addWitness(witness{Prop: "C19", Name: "entry-overwritable", File: "pkg/wal/wal.go",
		Old: "err = w.walStore.Put(ctx, e.Token, strings.NewReader(e.Payload), storage.NoOverWrite)", New: "err = w.walStore.Put(ctx, e.Token, strings.NewReader(e.Payload), storage.OverWrite)",
		Expect: "add"})
	addWitness(witness{Prop: "C19", Name: "token-from-wall-clock", File: "pkg/wal/wal.go",
		Old: "\tk, err := ksuid.NewRandomWithTime(attr.Updated)", New: "\tk, err := ksuid.NewRandomWithTime(time.Now())",
		Expect: "token"})
	addWitness(witness{Prop: "C19", Name: "max-uncapped", File: "pkg/wal/wal.go",
		Old: "\tif max > maxEntriesPerList {\n\t\tmax = maxEntriesPerList\n\t}\n", New: "",
		Expect: "lookback"})
	addWitness(witness{Prop: "C21", Name: "names-not-reserved", File: "pkg/sidecar/param/params.go",
		Old: "\tstringVals = append(stringVals, reservedSepChars)\n", New: "",
		Expect: "separators"})
	addWitness(witness{Prop: "C21", Name: "reserved-set-incomplete", File: "pkg/sidecar/param/params.go",
		Old: "const reservedSepChars = \"SVabcdfilmprs\"", New: "const reservedSepChars = \"SVabcdfilprs\"",
		Expect: "separators"})
	addWitness(witness{Prop: "C21", Name: "second-separator-may-equal-first", File: "pkg/sidecar/param/params.go",
		Old: "\tinvalidSeps += itemSep\n", New: "",
		Expect: "separators"})
	addWitness(witness{Prop: "C21", Name: "value-not-checked", File: "pkg/sidecar/param/params.go",
		Old: "\tif containsSep(paramVal) {\n\t\treturn paramString, errors.New(\"variables may not contain separator values\")\n\t}\n", New: "",
		Expect: "values-checked"})
	addWitness(witness{Prop: "C21", Name: "rune-scan-stops-early", File: "pkg/sidecar/param/params.go",
		Old:    "\tfor {\n\t\tch, _, err := rdr.ReadRune()\n\t\tif err == io.EOF {\n\t\t\tbreak\n\t\t}\n\t\tif err != nil {\n\t\t\treturn nil, err\n\t\t}\n\t\truneSeen := false",
		New:    "\tfor i := 0; i < len(str)/2+1; i++ {\n\t\tch, _, err := rdr.ReadRune()\n\t\tif err == io.EOF {\n\t\t\tbreak\n\t\t}\n\t\tif err != nil {\n\t\t\treturn nil, err\n\t\t}\n\t\truneSeen := false",
		Expect: "scan-to-end"})
	addWitness(witness{Prop: "C22", Name: "boundary-marker-kept", File: "pkg/filetracker/file_tracker.go",
		Old: "\t\tcase key <= end:", New: "\t\tcase key < end:",
		Expect: "walker"})
	addWitness(witness{Prop: "C22", Name: "after-flag-not-carried", File: "pkg/filetracker/file_tracker.go",
		Old: "\t\t\tinsideBefore = isStart\n\t\t\tinsideAfter = isStart\n", New: "\t\t\tinsideBefore = isStart\n",
		Expect: "walker"})
	addWitness(witness{Prop: "C22", Name: "end-marker-unconditional", File: "pkg/filetracker/file_tracker.go",
		Old: "\tif !insideAfter {\n\t\ttxn.Insert(getKey(end), endFlag)\n\t}", New: "\ttxn.Insert(getKey(end), endFlag)\n\t_ = insideAfter",
		Expect: "insertion"})
	addWitness(witness{Prop: "C22", Name: "range-crosses-boundary", File: "pkg/filetracker/file_tracker.go",
		Old: "\t\tcase isStart && (key > offset):\n\t\t\tcontiguous = min(key-offset, len)", New: "\t\tcase isStart && (key > offset):\n\t\t\tcontiguous = len",
		Expect: "range-to-read"})
}

// ---------------------------------------------------------------------------------------------------

func runC16(c *Ctx) {
	p := c.P
	c.assume("the operating system implements O_EXCL atomically; afero's OsFs passes flags through unchanged")
	f := p.Func("pkg/storage/localfs.localFS.Put")
	// (a)
	{
		checkLocalfsPutOpens(c, f)
		io := func(id string) bool {
			return strings.HasSuffix(id, "afero.Fs.OpenFile") || strings.HasSuffix(id, "afero.File.Close") || id == "io.WriterTo.WriteTo" || id == "pkg/storage.PipeIO" || strings.HasSuffix(id, "afero.Fs.MkdirAll") || strings.HasSuffix(id, "backoff/v4.Retry")
		}
		n := checkErrDiscipline(c, "put.errors", f, io, nil)
		if n < 3 {
			c.fail("put.errors", "instances", "-", "expected at least 3 error sites in Put, found "+itoa(n))
		}
		checkNoSwallow(c, "put.errors", f, io, nil)
		checkRetryOperands(c, "put.errors.retry-operand", f)
	}
	// (b) KeysPrefix
	{
		g := p.Func("pkg/storage/localfs.localFS.KeysPrefix")
		ginfo := g.Info()
		gb := p.BodyOf(g)
		// separator restored
		okSep := false
		ast.Inspect(g.Decl.Body, func(nd ast.Node) bool {
			ifs, ok := nd.(*ast.IfStmt)
			if !ok {
				return true
			}
			d := describeExprAt(g, ifs.Cond)
			if strings.HasPrefix(d, "(call:strings.HasSuffix(param#2,const:\"/\")&&(") && strings.HasSuffix(d, "!=const:\"/\"))") {
				for _, st := range ifs.Body.List {
					if as, ok := st.(*ast.AssignStmt); ok && as.Tok == token.ADD_ASSIGN && describeExpr(g, as.Rhs[0], 0) == "const:\"/\"" {
						okSep = true
					}
				}
			}
			return true
		})
		// accept also the form where the flag is computed first (isDirPrefix := HasSuffix(prefix,"/"))
		c.check(okSep, "keysprefix.separator", g.ID, p.Pos(g.Decl.Pos()), "a prefix ending with '/' keeps its separator after path.Clean", "the trailing '/' of a directory prefix is no longer restored after path.Clean: listing labels/repo/ also returns labels/repo-x/...")
		// walk callback
		var cb *ast.FuncLit
		for _, l := range g.Lits {
			if sig, ok := ginfo.TypeOf(l).(*types.Signature); ok && sig.Params().Len() == 3 {
				cb = l
			}
		}
		if cb == nil {
			c.fail("keysprefix.err-first", g.ID, p.Pos(g.Decl.Pos()), "walk callback not found")
		} else {
			sig := ginfo.TypeOf(cb).(*types.Signature)
			infoV, errV := sig.Params().At(1), sig.Params().At(2)
			cbb := p.LitBody(g, cb)
			const unk, errNil = 1, 2
			bad := false
			cbb.run(flowSpec{entry: unk,
				node: func(n ast.Node, s uint64) uint64 {
					if s&unk != 0 && usesObj(ginfo, n, infoV) {
						// within a condition `err != nil || info.IsDir()` the short-circuit protects the use: handled by
						// splitting the condition below
						if e, ok := n.(ast.Expr); ok && shortCircuitProtects(ginfo, e, errV, infoV) {
							return s
						}
						bad = true
					}
					return s
				},
				edge: func(blk *cfg.Block, i int, s uint64) uint64 {
					cond := condOf(blk)
					if cond == nil {
						return s
					}
					var r int
					if i == 0 {
						r = condNilness(ginfo, cond, errV)
					} else {
						r = condNilnessWhenFalse(ginfo, cond, errV)
					}
					if r == -1 {
						return errNil
					}
					return s
				}})
			c.check(!bad, "keysprefix.err-first", g.ID+":walk", p.Pos(cb.Pos()), "the walk callback uses the file info only where its error parameter is nil", "the walk callback uses the file info before (or without) testing its error parameter: listing under a missing directory dereferences a nil FileInfo")
		}
		// sorted before paging/dedupe
		isSort := func(bd *Body, call *ast.CallExpr) bool {
			id := calleeID(ginfo, call)
			return id == "sort.Strings" || id == "sort.Sort" || id == "sort.Slice"
		}
		isCache := func(n ast.Node) bool {
			as, ok := n.(*ast.AssignStmt)
			if !ok {
				return false
			}
			for _, l := range as.Lhs {
				if ix, ok := ast.Unparen(l).(*ast.IndexExpr); ok && strings.HasSuffix(exprString(ix.X), ".glob") {
					return true
				}
			}
			return false
		}
		const unsorted, sorted = 1, 2
		badCache := false
		nCache := 0
		gb.run(flowSpec{entry: unsorted, node: func(n ast.Node, s uint64) uint64 {
			for _, call := range callsIn(n) {
				if isSort(gb, call) {
					s = sorted
				}
			}
			if isCache(n) {
				nCache++
				if s&unsorted != 0 {
					badCache = true
				}
			}
			return s
		}})
		c.check(nCache == 1 && !badCache, "keysprefix.sorted", g.ID, p.Pos(g.Decl.Pos()), "matches are sorted before being cached and paged", "the matches are cached/paged without being sorted: keys come back in directory-walk order ('a/b' before 'a-b'), not lexicographically")
		// cache dropped whenever the last page is returned
		const st0, final, dropped = 1, 2, 4
		badRet := false
		var nextVar *types.Var
		ast.Inspect(g.Decl.Body, func(nd ast.Node) bool {
			if r, ok := nd.(*ast.ReturnStmt); ok && len(r.Results) == 3 {
				if id, ok := ast.Unparen(r.Results[1]).(*ast.Ident); ok {
					if v, ok := ginfo.Uses[id].(*types.Var); ok {
						nextVar = v
					}
				}
			}
			return true
		})
		if nextVar == nil {
			c.fail("keysprefix.cache-dropped", g.ID, p.Pos(g.Decl.Pos()), "the continuation token returned is not a variable")
		} else {
			gb.run(flowSpec{entry: st0, node: func(n ast.Node, s uint64) uint64 {
				if as, ok := n.(*ast.AssignStmt); ok && len(as.Lhs) == 1 && isVar(ginfo, as.Lhs[0], nextVar) {
					if v, ok := constString(ginfo, as.Rhs[0]); ok && v == "" {
						return final
					}
					return st0
				}
				for _, call := range callsIn(n) {
					if id, ok := ast.Unparen(call.Fun).(*ast.Ident); ok && id.Name == "delete" && len(call.Args) == 2 && strings.HasSuffix(exprString(call.Args[0]), ".glob") {
						if s&final != 0 {
							s = (s &^ final) | dropped
						}
					}
				}
				if r, ok := n.(*ast.ReturnStmt); ok && len(r.Results) == 3 && s&final != 0 {
					if id, ok := ast.Unparen(r.Results[1]).(*ast.Ident); ok && ginfo.Uses[id] == nextVar {
						badRet = true
					}
				}
				return s
			}})
			c.check(!badRet, "keysprefix.cache-dropped", g.ID, p.Pos(g.Decl.Pos()), "whenever an empty continuation token is returned the cached walk was dropped", "the last page (empty continuation token) can be returned without dropping the cached walk for that prefix: the next listing of the prefix on this store returns stale keys")
		}
		// page window — variables identified by their role in the final `return page[lo:hi], token, nil`
		wr := map[types.Object]string{}
		if sig := g.Obj.Type().(*types.Signature); sig.Params().Len() == 5 {
			wr[sig.Params().At(4)] = "count"
		}
		okSlice := false
		ast.Inspect(g.Decl.Body, func(nd ast.Node) bool {
			if _, isLit := nd.(*ast.FuncLit); isLit {
				return false
			}
			r, ok := nd.(*ast.ReturnStmt)
			if !ok || len(r.Results) != 3 {
				return true
			}
			se, ok := ast.Unparen(r.Results[0]).(*ast.SliceExpr)
			if !ok || se.Low == nil || se.High == nil {
				return true
			}
			ids := []ast.Expr{se.X, se.Low, se.High, r.Results[1]}
			names := []string{"search", "start", "end", "next"}
			all := true
			for i, e := range ids {
				id, ok := ast.Unparen(e).(*ast.Ident)
				if !ok || ginfo.Uses[id] == nil {
					all = false
					break
				}
				wr[ginfo.Uses[id]] = names[i]
			}
			if all && isNil(ginfo, r.Results[2]) {
				okSlice = true
			}
			return true
		})
		// the window: `end = start+count` and `next = search[start+count]` exactly where more keys remain
		// (len(search) > start+count), `end = len(search)` exactly where they do not — read from the guard atoms of each
		// assignment, so nesting, swapped branches and negated comparisons are the same thing
		more := func(at guardAtom) int {
			d := nos(roleString(ginfo, at.Expr, wr))
			pol := 0
			switch d {
			case "len(search)>start+count", "start+count<len(search)":
				pol = 1
			case "len(search)<=start+count", "start+count>=len(search)":
				pol = -1
			}
			if at.Neg {
				pol = -pol
			}
			return pol
		}
		var endMore, nextMore, endLast, stray bool
		ast.Inspect(g.Decl.Body, func(nd ast.Node) bool {
			as, ok := nd.(*ast.AssignStmt)
			if !ok || len(as.Lhs) != 1 || len(as.Rhs) != 1 {
				return true
			}
			role := roleString(ginfo, as.Lhs[0], wr)
			if role != "end" && role != "next" {
				return true
			}
			rhs := nos(roleString(ginfo, as.Rhs[0], wr))
			pol := 0
			atoms, _ := atomsAt(g, g.Decl.Body, as.Pos())
			for _, at := range atoms {
				if m := more(at); m != 0 {
					pol = m
				}
			}
			switch {
			case role == "end" && rhs == "start+count" && pol == 1:
				endMore = true
			case role == "next" && rhs == "search[start+count]" && pol == 1:
				nextMore = true
			case role == "end" && rhs == "len(search)" && pol == -1:
				endLast = true
			case role == "next" && rhs == `""`:
			default:
				stray = true
			}
			return true
		})
		okWin := endMore && nextMore && endLast && !stray
		c.check(okWin && okSlice, "keysprefix.page-window", g.ID, p.Pos(g.Decl.Pos()), "page = search[start:end], end = start+count and next = search[start+count] when more keys remain, else end = len(search)", "the page window / continuation token of KeysPrefix changed shape: pages may overlap, skip a key or overrun")
		// prefix test on the rooted path
		okPref := false
		if cb != nil {
			ast.Inspect(cb.Body, func(nd ast.Node) bool {
				if call, ok := nd.(*ast.CallExpr); ok && calleeID(ginfo, call) == "strings.HasPrefix" && len(call.Args) == 2 {
					if describeExpr(g, call.Args[0], 0) == "litparam" && strings.Contains(describeExpr(g, call.Args[1], 0), "param#2") {
						okPref = true
					}
				}
				return true
			})
		}
		c.check(okPref, "keysprefix.prefix-test", g.ID, p.Pos(g.Decl.Pos()), "a walked path is kept iff it has the (cleaned) prefix", "the walk callback no longer keeps exactly the paths having the requested prefix")
	}
	// (c) error mapping
	{
		g := p.Func("pkg/storage/localfs.localFS.Get")
		okMap := false
		ast.Inspect(g.Decl.Body, func(nd ast.Node) bool {
			if r, ok := nd.(*ast.ReturnStmt); ok && len(r.Results) == 2 {
				if strings.HasPrefix(describeExpr(g, r.Results[1], 0), "call:pkg/storage/localfs.toSentinelErrors(") {
					okMap = true
				}
			}
			return true
		})
		c.check(okMap, "error-mapping.get", g.ID, p.Pos(g.Decl.Pos()), "Get maps its error through toSentinelErrors", "localfs Get no longer maps a missing file to the ErrNotExists sentinel: callers that skip exactly ErrNotExists (listings, purge) treat a missing object as a hard failure")
		ts := p.Func("pkg/storage/localfs.toSentinelErrors")
		okTS := false
		ast.Inspect(ts.Decl.Body, func(nd ast.Node) bool {
			if ifs, ok := nd.(*ast.IfStmt); ok && describeExpr(ts, ifs.Cond, 0) == "call:os.IsNotExist(param#0)" {
				for _, st := range ifs.Body.List {
					if r, ok := st.(*ast.ReturnStmt); ok && strings.Contains(exprString(r.Results[0]), "ErrNotExists") {
						okTS = true
					}
				}
			}
			return true
		})
		c.check(okTS, "error-mapping.get", ts.ID, p.Pos(ts.Decl.Pos()), "os.IsNotExist -> ErrNotExists", "toSentinelErrors no longer maps os.IsNotExist to ErrNotExists")
		h := p.Func("pkg/storage/localfs.localFS.Has")
		hb := p.BodyOf(h)
		okHas := false
		ast.Inspect(h.Decl.Body, func(nd ast.Node) bool {
			if ifs, ok := nd.(*ast.IfStmt); ok && strings.HasPrefix(describeExpr(h, ifs.Cond, 0), "call:os.IsNotExist(") {
				for _, st := range ifs.Body.List {
					if r, ok := st.(*ast.ReturnStmt); ok && hb.classifyReturn(r) == retSuccess && describeExpr(h, r.Results[0], 0) == "const:false" {
						okHas = true
					}
				}
			}
			return true
		})
		c.check(okHas, "error-mapping.has", h.ID, p.Pos(h.Decl.Pos()), "Has of a missing key is (false, nil)", "localfs Has no longer returns (false, nil) for a missing key")
		checkNoSwallow(c, "error-mapping.has", h, func(id string) bool { return strings.HasSuffix(id, "afero.Fs.Stat") }, []string{"os.IsNotExist"})
	}
	checkReadCountConsumed(c, "put.count-before-eof")
	checkLocalfsDeleteOnlyKey(c, "delete.only-the-key")
	checkGenericErrorDiscipline(c, "pkg/storage/localfs", "pkg/storage")
	checkHasIsExistenceOnly(c, "has.existence-only")
}

// shortCircuitProtects: in `err != nil || <uses info>` (or `err == nil && <uses info>`) the use of info is evaluated
// only when err is nil.
func shortCircuitProtects(info *types.Info, e ast.Expr, errV, infoV *types.Var) bool {
	be, ok := ast.Unparen(e).(*ast.BinaryExpr)
	if !ok {
		return false
	}
	switch be.Op {
	case token.LOR:
		if usesObj(info, be.X, infoV) {
			return false
		}
		if condNilness(info, be.X, errV) == +1 {
			return true
		}
		return shortCircuitProtects(info, be.X, errV, infoV) && !usesObj(info, be.Y, infoV)
	case token.LAND:
		if usesObj(info, be.X, infoV) {
			return false
		}
		return condNilness(info, be.X, errV) == -1
	}
	return false
}

func constInt(p *Prog, pkg, name string) int64 {
	for _, pk := range p.All {
		for _, imp := range pk.Types.Imports() {
			if imp.Path() == pkg {
				if c, ok := imp.Scope().Lookup(name).(*types.Const); ok {
					return parseInt(c.Val().String())
				}
			}
		}
	}
	undecided("constant %s.%s not found", pkg, name)
	return 0
}

func parseInt(s string) int64 {
	var v int64
	neg := false
	for i, ch := range s {
		if i == 0 && ch == '-' {
			neg = true
			continue
		}
		if ch < '0' || ch > '9' {
			return -1
		}
		v = v*10 + int64(ch-'0')
	}
	if neg {
		return -v
	}
	return v
}

// ---------------------------------------------------------------------------------------------------

func runC19(c *Ctx) {
	p := c.P
	c.assume("the WAL store lists keys from a start key in lexicographic order; KSUIDs embed a 1-second timestamp followed by 128 payload bits")
	add := p.Func("pkg/wal.WAL.Add")
	read := p.Func("pkg/wal.WAL.read")
	// (a) codec pairing
	{
		var src string
		for _, s := range enumPutSitesAny(p, "pkg/wal") {
			if s.Fn.ID == add.ID {
				src = describeExpr(add, s.Call.Args[2], 0)
			}
		}
		decodes := false
		ast.Inspect(read.Decl.Body, func(nd ast.Node) bool {
			if call, ok := nd.(*ast.CallExpr); ok && calleeID(read.Info(), call) == "pkg/model.UnmarshalWAL" {
				decodes = true
			}
			return true
		})
		encodes := strings.Contains(src, "pkg/model.MarshalWAL(")
		c.check(encodes == decodes, "codec-pairing", add.ID+"~"+read.ID, p.Pos(add.Decl.Pos()), "Add stores what read decodes",
			"Add stores `"+src+"` (the raw payload) under the token while read decodes the stored bytes with model.UnmarshalWAL (a YAML entry): an appended entry is not listed back with its token and payload")
	}
	// (b) channels
	{
		st, _ := p.Pkg("pkg/wal").Types.Scope().Lookup("walChannels").Type().Underlying().(*types.Struct)
		ctor := p.Func("pkg/wal.newWalChannels")
		set := map[string]bool{}
		for _, cl := range compositeLitsAny(ctor, "pkg/wal.walChannels") {
			for _, el := range cl.Elts {
				if kv, ok := el.(*ast.KeyValueExpr); ok {
					// the field must be given a channel that was made (a declared-but-nil channel blocks forever)
					if strings.HasPrefix(describeExpr(ctor, kv.Value, 0), "call:builtin.make(") {
						set[kv.Key.(*ast.Ident).Name] = true
					}
				}
			}
		}
		used := map[string]bool{}
		for _, f := range p.FuncsIn("pkg/wal") {
			if f.Decl.Body == nil {
				continue
			}
			ast.Inspect(f.Decl.Body, func(nd ast.Node) bool {
				var ch ast.Expr
				switch x := nd.(type) {
				case *ast.SendStmt:
					ch = x.Chan
				case *ast.UnaryExpr:
					if x.Op == token.ARROW {
						ch = x.X
					}
				case *ast.RangeStmt:
					ch = x.X
				case *ast.CallExpr:
					if id, ok := ast.Unparen(x.Fun).(*ast.Ident); ok && id.Name == "close" && len(x.Args) == 1 {
						ch = x.Args[0]
					}
				}
				if sel, ok := ast.Unparen(ch).(*ast.SelectorExpr); ok && ch != nil {
					if s := f.Info().Selections[sel]; s != nil && namedTypeID(s.Recv()) == "pkg/wal.walChannels" {
						used[sel.Sel.Name] = true
					}
				}
				return true
			})
		}
		if st != nil {
			for i := 0; i < st.NumFields(); i++ {
				fld := st.Field(i)
				if _, isChan := fld.Type().Underlying().(*types.Chan); !isChan || !used[fld.Name()] {
					continue
				}
				c.check(set[fld.Name()], "channels.created", "pkg/wal.walChannels."+fld.Name(), p.Pos(fld.Pos()), "channel created by newWalChannels", "channel walChannels."+fld.Name()+" is sent on / received from but never created by newWalChannels: every operation on it blocks forever (nil channel)")
			}
		}
		c.requireInstances("channels.created", 5)
	}
	// (c) read
	{
		b := p.BodyOf(read)
		info := read.Info()
		var rVar *types.Var
		ast.Inspect(read.Decl.Body, func(nd ast.Node) bool {
			if as, ok := nd.(*ast.AssignStmt); ok && len(as.Rhs) == 1 && len(as.Lhs) == 2 {
				if call, ok := as.Rhs[0].(*ast.CallExpr); ok && calleeID(info, call) == "pkg/storage.Store.Get" {
					if id, ok := as.Lhs[0].(*ast.Ident); ok {
						rVar, _ = info.Defs[id].(*types.Var)
					}
				}
			}
			return true
		})
		if rVar == nil {
			c.fail("read.error-before-use", read.ID, p.Pos(read.Decl.Pos()), "read no longer binds the result of Get")
		} else {
			isUse := func(n ast.Node) bool {
				id, ok := n.(*ast.Ident)
				return ok && info.Uses[id] == rVar
			}
			bad, nT, nA := b.guardedByNilErr(callTo("pkg/storage.Store.Get"), isUse)
			// deferred uses: a `defer r.Close()` placed before the test evaluates r at registration
			c.check(nT > 0 && nA == 1 && len(bad) == 0, "read.error-before-use", read.ID, p.Pos(read.Decl.Pos()), "the reader returned by Get is used only where the Get error was tested nil", "the reader returned by Get is used (e.g. a deferred Close) before its error was tested: a failed Get dereferences a nil reader")
			// whole entry: ReadAll directly on the reader
			okAll := false
			ast.Inspect(read.Decl.Body, func(nd ast.Node) bool {
				if call, ok := nd.(*ast.CallExpr); ok && (calleeID(info, call) == "io/ioutil.ReadAll" || calleeID(info, call) == "io.ReadAll") {
					// the argument derives from the store's reader and passes through no size-limiting wrapper
					if usesObj(info, call.Args[0], rVar) && !strings.Contains(exprString(call.Args[0]), "Limit") {
						okAll = true
					}
				}
				return true
			})
			c.check(okAll, "read.whole-entry", read.ID, p.Pos(read.Decl.Pos()), "the whole stored entry is read (ReadAll on the store's reader)", "read no longer reads the whole stored entry from the store's reader (fixed-size buffer or size cap): payloads above the cap come back truncated without an error")
		}
		checkErrDiscipline(c, "read.errors", read, func(id string) bool {
			return id == "pkg/storage.Store.Get" || id == "io/ioutil.ReadAll" || id == "pkg/model.UnmarshalWAL"
		}, nil)
		// the token delivered is the key that was read
		okTok := false
		ast.Inspect(read.Decl.Body, func(nd ast.Node) bool {
			if call, ok := nd.(*ast.CallExpr); ok && calleeID(info, call) == "pkg/storage.Store.Get" && describeExpr(read, call.Args[1], 0) == "param#1" {
				okTok = true
			}
			return true
		})
		c.check(okTok, "read.whole-entry", read.ID+":key", p.Pos(read.Decl.Pos()), "the entry is fetched under the listed token", "read no longer fetches the entry under the token it was given")
	}
	// (d) Add and token
	{
		info := add.Info()
		n := 0
		for _, s := range enumPutSitesAny(p, "pkg/wal") {
			if s.Fn.ID != add.ID {
				continue
			}
			n++
			key := describeExpr(add, s.Call.Args[1], 0)
			recv := describeExpr(add, ast.Unparen(s.Call.Fun).(*ast.SelectorExpr).X, 0)
			c.check(s.Mode == "NoOverWrite" && recv == "recv.walStore" && strings.HasSuffix(key, ".Token"), "add.create-if-absent", s.Key, p.Pos(s.Call.Pos()), "the entry is written NoOverWrite under its token in the WAL store", "Add writes key `"+key+"` with mode "+s.Mode+" into `"+recv+"`: an entry must be created under its own token, never overwriting")
		}
		c.check(n == 1, "add.create-if-absent", add.ID+":sites", p.Pos(add.Decl.Pos()), "one write per Add", "Add performs "+itoa(n)+" writes")
		// token returned is the one written, obtained from getToken
		okRet := false
		ast.Inspect(add.Decl.Body, func(nd ast.Node) bool {
			if as, ok := nd.(*ast.AssignStmt); ok && len(as.Rhs) == 1 && len(as.Lhs) == 2 {
				if call, ok := as.Rhs[0].(*ast.CallExpr); ok && calleeID(info, call) == "pkg/wal.WAL.getToken" && strings.HasSuffix(exprString(as.Lhs[0]), ".Token") {
					okRet = true
				}
			}
			return true
		})
		c.check(okRet, "add.create-if-absent", add.ID+":token", p.Pos(add.Decl.Pos()), "the token comes from getToken", "Add no longer takes its token from getToken")
		checkErrDiscipline(c, "add.errors", add, func(id string) bool { return id == "pkg/wal.WAL.getToken" || id == "pkg/storage.Store.Put" }, nil)
		checkNoSwallow(c, "add.errors", add, func(id string) bool { return id == "pkg/wal.WAL.getToken" || id == "pkg/storage.Store.Put" }, nil)
		gt := p.Func("pkg/wal.WAL.getToken")
		gb := p.BodyOf(gt)
		bad, nB := gb.dominatedBy(callTo("pkg/wal.WAL.updateTokenTimestamp"), callTo("pkg/storage.Store.GetAttr"))
		okK := false
		ast.Inspect(gt.Decl.Body, func(nd ast.Node) bool {
			if call, ok := nd.(*ast.CallExpr); ok && strings.HasSuffix(calleeID(gt.Info(), call), "ksuid.NewRandomWithTime") {
				d := describeExpr(gt, call.Args[0], 0)
				if d == "recv.mutableStore.GetAttr(param#0,recv.tokenGeneratorPath)#0.Updated" {
					okK = true
				}
			}
			return true
		})
		ut := p.Func("pkg/wal.WAL.updateTokenTimestamp")
		okTouch := false
		ast.Inspect(ut.Decl.Body, func(nd ast.Node) bool {
			if call, ok := nd.(*ast.CallExpr); ok && calleeID(ut.Info(), call) == "pkg/storage.Store.Touch" && describeExpr(ut, call.Args[1], 0) == "recv.tokenGeneratorPath" {
				okTouch = true
			}
			return true
		})
		c.check(nB == 1 && len(bad) == 0 && okK && okTouch, "token.from-store-clock", gt.ID, p.Pos(gt.Decl.Pos()), "the token time is the generator object's update time read after Touch", "the token is no longer a KSUID built from the update time of the token generator object read after touching it (e.g. the local wall clock): tokens of different writers are no longer ordered by one clock")
		checkErrDiscipline(c, "token.errors", gt, func(id string) bool {
			return id == "pkg/wal.WAL.updateTokenTimestamp" || id == "pkg/storage.Store.GetAttr" || strings.HasSuffix(id, "ksuid.NewRandomWithTime")
		}, nil)
	}
	// (e) ListTokens
	{
		lt := p.Func("pkg/wal.WAL.ListTokens")
		info := lt.Info()
		okBack, okZero, okStart, okCap := false, false, false, false
		capConst := "?"
		if cv, ok := repoConst(p, "pkg/wal", "maxEntriesPerList"); ok {
			capConst = cv.ExactString()
		}
		ast.Inspect(lt.Decl.Body, func(nd ast.Node) bool {
			switch x := nd.(type) {
			case *ast.CallExpr:
				id := calleeID(info, x)
				if strings.HasSuffix(id, "ksuid.FromParts") && len(x.Args) == 2 {
					d := describeExpr(lt, x.Args[0], 0)
					if strings.HasSuffix(d, ".Time().Add((-recv.GetExpirationDuration()*const:2))") {
						okBack = true
					}
					pd := describeExpr(lt, x.Args[1], 0)
					if pd == "call:builtin.make(expr,const:16)" {
						okZero = true
					}
				}
				if id == "pkg/storage.Store.KeysPrefix" {
					tok := describeExpr(lt, x.Args[1], 0)
					if strings.Contains(tok, "ksuid.FromParts(") && strings.HasSuffix(tok, "#0.String()") && describeExpr(lt, x.Args[2], 0) == "const:\"\"" {
						okStart = true
					}
				}
			case *ast.IfStmt:
				// `if <max param> > maxEntriesPerList { <max param> = maxEntriesPerList }`, the parameter being the one
				// handed to KeysPrefix as page size
				if nos(describeExprAt(lt, x.Cond)) == "(param#2>const:"+capConst+")" && len(x.Body.List) == 1 {
					if as, ok := x.Body.List[0].(*ast.AssignStmt); ok && len(as.Lhs) == 1 && len(as.Rhs) == 1 {
						if id, ok := ast.Unparen(as.Lhs[0]).(*ast.Ident); ok {
							if v, ok := lt.Info().Uses[id].(*types.Var); ok && paramIndex(lt, v) == 2 && describeExpr(lt, as.Rhs[0], 0) == "const:"+capConst {
								okCap = true
							}
						}
					}
				}
			}
			return true
		})
		// the payload buffer must never be written
		written := false
		ast.Inspect(lt.Decl.Body, func(nd ast.Node) bool {
			if as, ok := nd.(*ast.AssignStmt); ok {
				for _, l := range as.Lhs {
					if ix, ok := ast.Unparen(l).(*ast.IndexExpr); ok && describeExpr(lt, ix.X, 0) == "call:builtin.make(expr,const:16)" {
						written = true
					}
				}
			}
			return true
		})
		c.check(okBack && okZero && !written, "lookback.zero-payload-start-key", lt.ID, p.Pos(lt.Decl.Pos()), "the start key is FromParts(t - 2*expiration, 16 zero bytes): it sorts before every token of that second",
			"the look-back start key is no longer built from (token time - 2*expiration) with an all-zero payload: entries appended in the oldest second of the window whose token sorts below the start key are dropped")
		c.check(okStart, "lookback.lists-from-start-key", lt.ID, p.Pos(lt.Decl.Pos()), "the listing starts at the back-dated key, with no prefix", "ListTokens no longer lists from the back-dated start key")
		c.check(okCap, "lookback.max-capped", lt.ID, p.Pos(lt.Decl.Pos()), "max is capped at maxEntriesPerList", "the requested maximum is no longer capped at maxEntriesPerList")
		// max passed on
		okMax := false
		ast.Inspect(lt.Decl.Body, func(nd ast.Node) bool {
			if call, ok := nd.(*ast.CallExpr); ok && calleeID(info, call) == "pkg/storage.Store.KeysPrefix" && len(call.Args) == 5 && describeExprAt(lt, call.Args[4]) == "{const:"+capConst+"|param#2}" {
				okMax = true
			}
			return true
		})
		c.check(okMax, "lookback.max-capped", lt.ID+":passed", p.Pos(lt.Decl.Pos()), "the (capped) max is the page size of the listing", "the capped max is no longer the page size of the listing")
	}
	checkWALDecoderAcceptsWhatAddStores(c, "codec-pairing.decoder-accepts")
	checkGenericErrorDiscipline(c, "pkg/wal", "pkg/model")
	checkWALCollectorDrains(c, "listing.collector-drains")
	checkPutSourceFreshPerAttempt(c, "add.source-fresh-per-attempt", "pkg/wal", "pkg/core", "pkg/cafs")
	checkWALListEntriesSinglePage(c, "listing.single-token-page")
}

func enumPutSitesAny(p *Prog, pkgs ...string) []putSite { return enumPutSites(p, pkgs...) }

// ---------------------------------------------------------------------------------------------------

func runC21(c *Ctx) {
	p := c.P
	c.assume("the decoder splits on the two separators announced in the first two characters")
	ap := p.Func("pkg/sidecar/param.appendToParamString")
	builders := []string{"pkg/sidecar/param.fuseParamsGlobalString", "pkg/sidecar/param.fuseParamsBundleString", "pkg/sidecar/param.pgParamsGlobalString", "pkg/sidecar/param.pgParamsDatabaseString"}
	// (a) values checked
	{
		info := ap.Info()
		// the return that emits the value is guarded by "the value contains neither separator": the guard atoms of that
		// return (NNF engine: nesting, early returns, De Morgan all give the same atoms) include the negation of
		// strings.Contains(value, itemSep) and of strings.Contains(value, kvSep), directly or through a predicate helper
		// whose single return is such a disjunction
		var absent func(f *FuncInfo, e ast.Expr, val string, depth int) map[string]bool
		absent = func(f *FuncInfo, e ast.Expr, val string, depth int) map[string]bool {
			out := map[string]bool{}
			switch x := ast.Unparen(e).(type) {
			case *ast.BinaryExpr:
				if x.Op == token.LOR {
					for k := range absent(f, x.X, val, depth) {
						out[k] = true
					}
					for k := range absent(f, x.Y, val, depth) {
						out[k] = true
					}
				}
			case *ast.CallExpr:
				id := calleeID(f.Info(), x)
				if id == "strings.Contains" && len(x.Args) == 2 && describeExpr(f, x.Args[0], 0) == val {
					switch describeExpr(f, x.Args[1], 0) {
					case "global:itemSep":
						out["itemSep"] = true
					case "global:kvSep":
						out["kvSep"] = true
					}
				} else if h := p.FuncOpt(id); h != nil && h.Decl.Body != nil && depth < 1 && len(h.Decl.Body.List) == 1 && len(x.Args) == 1 && describeExpr(f, x.Args[0], 0) == val {
					if r, ok := h.Decl.Body.List[0].(*ast.ReturnStmt); ok && len(r.Results) == 1 {
						return absent(h, r.Results[0], "param#0", depth+1)
					}
				}
			}
			return out
		}
		nConcat, okGuard, okShape := 0, false, true
		for _, ga := range guardedActions(ap, ap.Decl.Body) {
			r, ok := ga.Node.(*ast.ReturnStmt)
			if !ok || len(r.Results) != 2 {
				continue
			}
			d := describeExpr(ap, r.Results[0], 0)
			if !strings.Contains(d, "param#2") {
				continue
			}
			nConcat++
			if d != "((((param#0+param#1)+global:kvSep)+param#2)+global:itemSep)" {
				okShape = false
			}
			got := map[string]bool{}
			for _, at := range ga.Atoms {
				if !at.Neg {
					continue
				}
				for k := range absent(ap, at.Expr, "param#2", 0) {
					got[k] = true
				}
			}
			okGuard = got["itemSep"] && got["kvSep"]
		}
		_ = info
		c.check(nConcat == 1 && okGuard && okShape, "values-checked.append", ap.ID, p.Pos(ap.Decl.Pos()), "a value is emitted as name+kvSep+value+itemSep only where it contains neither separator", "appendToParamString can emit a value without having checked it for both separators (or no longer emits name+kvSep+value+itemSep): the encoded string can be ambiguous without an error")
		// every value in the builders goes through appendToParamString; literal names collected
		for _, bid := range builders {
			f := p.Func(bid)
			finfo := f.Info()
			okAll := true
			ast.Inspect(f.Decl.Body, func(nd ast.Node) bool {
				// any += / + concatenation mentioning a parameter field other than through appendToParamString
				if as, ok := nd.(*ast.AssignStmt); ok && as.Tok == token.ADD_ASSIGN {
					d := describeExpr(f, as.Rhs[0], 0)
					if strings.Contains(d, "param#0.") {
						okAll = false
					}
				}
				return true
			})
			_ = finfo
			c.check(okAll, "values-checked.builders", bid, p.Pos(f.Decl.Pos()), "values reach the string only through appendToParamString", bid+" concatenates a parameter value directly into the encoded string, bypassing the separator check")
		}
	}
	// (b) separators
	{
		ss := p.Func("pkg/sidecar/param.setSeparators")
		info := ss.Info()
		// literal names emitted by the builders
		names := map[string]bool{}
		for _, bid := range builders {
			f := p.Func(bid)
			ast.Inspect(f.Decl.Body, func(nd ast.Node) bool {
				if call, ok := nd.(*ast.CallExpr); ok && calleeID(f.Info(), call) == "pkg/sidecar/param.appendToParamString" {
					if s, ok := constString(f.Info(), call.Args[1]); ok {
						names[s] = true
					}
				}
				if as, ok := nd.(*ast.AssignStmt); ok && as.Tok == token.ADD_ASSIGN {
					ast.Inspect(as.Rhs[0], func(m ast.Node) bool {
						if bl, ok := m.(*ast.BasicLit); ok {
							if s, ok := constString(f.Info(), bl); ok {
								names[s] = true
							}
						}
						return true
					})
				}
				return true
			})
		}
		var nameList []string
		for n := range names {
			nameList = append(nameList, n)
		}
		sort.Strings(nameList)
		// the reserved constant appended to the values before the union
		reserved := ""
		okAppend := false
		var unionArg *types.Var
		ast.Inspect(ss.Decl.Body, func(nd ast.Node) bool {
			if call, ok := nd.(*ast.CallExpr); ok && calleeID(info, call) == "pkg/sidecar/param.mergeAndUniqifyRunes" && len(call.Args) == 1 && call.Ellipsis.IsValid() {
				if id, ok := ast.Unparen(call.Args[0]).(*ast.Ident); ok {
					unionArg, _ = info.Uses[id].(*types.Var)
				}
			}
			return true
		})
		if unionArg != nil {
			for _, d := range defsOfVarWithIndex(ss, unionArg) {
				if d.rhs == nil {
					continue
				}
				if call, ok := ast.Unparen(d.rhs).(*ast.CallExpr); ok {
					if id, ok := ast.Unparen(call.Fun).(*ast.Ident); ok && id.Name == "append" && len(call.Args) == 2 {
						if s, ok := constString(info, call.Args[1]); ok && isVar(info, call.Args[0], unionArg) {
							reserved = s
							okAppend = true
						}
					}
				}
			}
		}
		missing := ""
		for _, n := range nameList {
			for _, r := range n {
				if !strings.ContainsRune(reserved, r) {
					missing += string(r)
				}
			}
		}
		okValues := false
		if unionArg != nil {
			for _, d := range defsOfVarWithIndex(ss, unionArg) {
				if d.rhs != nil && describeExpr(ss, d.rhs, 0) == "call:pkg/sidecar/param.fieldsAsStringValues(param#0)" && d.index == 0 {
					okValues = true
				}
			}
		}
		c.check(okValues, "separators.exclude-values", ss.ID, p.Pos(ss.Decl.Pos()), "the excluded set starts from every string value of the params struct", "setSeparators no longer excludes the characters of every field value of the params struct")
		c.check(okAppend && missing == "", "separators.exclude-names", ss.ID, p.Pos(ss.Decl.Pos()), "the characters of every emitted name/flag ("+strings.Join(nameList, ",")+") are excluded through the reserved constant \""+reserved+"\"",
			"the characters excluded from separator choice do not cover the literal parameter names and flags the builders emit ("+strings.Join(nameList, ",")+"): missing \""+missing+"\" (reserved constant: \""+reserved+"\", appended to the excluded set: "+boolS(okAppend)+") — a separator can equal a name character and the string becomes ambiguous without an error")
		// second separator chosen after adding the first
		b := p.BodyOf(ss)
		const s0, first, added = 1, 2, 4
		okSecond := false
		nRand := 0
		b.run(flowSpec{entry: s0, node: func(n ast.Node, s uint64) uint64 {
			for _, call := range callsIn(n) {
				if calleeID(info, call) == "pkg/sidecar/param.randCharNotInString" {
					nRand++
					if s&s0 != 0 {
						s = first
					} else if s&added != 0 {
						okSecond = true
					}
				}
			}
			if as, ok := n.(*ast.AssignStmt); ok && as.Tok == token.ADD_ASSIGN && s&first != 0 {
				if describeExpr(ss, as.Rhs[0], 0) == "global:itemSep" {
					s = added
				}
			}
			return s
		}})
		c.check(nRand == 2 && okSecond, "separators.distinct", ss.ID, p.Pos(ss.Decl.Pos()), "the second separator is drawn after the first was added to the excluded set", "the second separator is drawn without first excluding the first one: both can be the same character")
		// assigned to itemSep and kvSep
		okAssign := 0
		ast.Inspect(ss.Decl.Body, func(nd ast.Node) bool {
			if as, ok := nd.(*ast.AssignStmt); ok && len(as.Rhs) == 1 {
				if call, ok := as.Rhs[0].(*ast.CallExpr); ok && calleeID(info, call) == "pkg/sidecar/param.randCharNotInString" {
					if n := exprString(as.Lhs[0]); n == "itemSep" || n == "kvSep" {
						okAssign++
					}
				}
			}
			return true
		})
		c.check(okAssign == 2, "separators.distinct", ss.ID+":assigned", p.Pos(ss.Decl.Pos()), "both package separators are (re)chosen", "setSeparators no longer sets both itemSep and kvSep")
		// helpers scan to the end of their input
		for _, hid := range []string{"pkg/sidecar/param.stringToUniqRunes", "pkg/sidecar/param.mergeAndUniqifyRunes"} {
			h := p.Func(hid)
			okScan := true
			nLoops := 0
			ast.Inspect(h.Decl.Body, func(nd ast.Node) bool {
				fs, ok := nd.(*ast.ForStmt)
				if !ok {
					return true
				}
				// loops that call ReadRune must be unconditional and exit only on io.EOF / error
				reads := false
				ast.Inspect(fs.Body, func(m ast.Node) bool {
					if _, ok := m.(*ast.ForStmt); ok {
						return false
					}
					if call, ok := m.(*ast.CallExpr); ok && strings.HasSuffix(calleeID(h.Info(), call), "strings.Reader.ReadRune") {
						reads = true
					}
					return true
				})
				if !reads {
					return true
				}
				nLoops++
				if fs.Cond != nil || fs.Init != nil || fs.Post != nil {
					okScan = false
				}
				return true
			})
			// or range loops over the string (always complete)
			c.check(nLoops > 0 && okScan, "separators.scan-to-end", hid, p.Pos(h.Decl.Pos()), "rune scans run until io.EOF", hid+" no longer scans its input to the end (its ReadRune loop has a bound other than io.EOF): characters of long or multi-byte values are missed, so a separator can occur inside a value")
		}
		// randCharNotInString: returns a character not in its input: the loop breaks only when not seen
		rc := p.Func("pkg/sidecar/param.randCharNotInString")
		okRC := false
		ast.Inspect(rc.Decl.Body, func(nd ast.Node) bool {
			if ifs, ok := nd.(*ast.IfStmt); ok {
				if u, ok := ast.Unparen(ifs.Cond).(*ast.UnaryExpr); ok && u.Op == token.NOT && len(ifs.Body.List) == 1 {
					if br, ok := ifs.Body.List[0].(*ast.BranchStmt); ok && br.Tok == token.BREAK {
						okRC = true
					}
				}
			}
			return true
		})
		c.check(okRC, "separators.candidate-search", rc.ID, p.Pos(rc.Decl.Pos()), "the candidate search stops only at a character not seen in the excluded set", "randCharNotInString no longer stops only at a character absent from the excluded set")
		// callers call setSeparators before building
		for _, ev := range []string{"pkg/sidecar/param.FUSEParamsToEnvVars", "pkg/sidecar/param.PGParamsToEnvVars"} {
			e := p.Func(ev)
			eb := p.BodyOf(e)
			bad, nB := eb.dominatedBy(callTo("pkg/sidecar/param.setSeparators"), callTo("pkg/sidecar/param.fuseParamsBundleStrings", "pkg/sidecar/param.fuseParamsGlobalString", "pkg/sidecar/param.pgParamsDatabaseStrings", "pkg/sidecar/param.pgParamsGlobalString"))
			c.check(nB == 2 && len(bad) == 0, "separators.chosen-first", ev, p.Pos(e.Decl.Pos()), "separators are chosen from the whole parameter set before any string is built", ev+" builds strings before choosing the separators")
			checkNoSwallow(c, "separators.chosen-first", e, func(id string) bool { return strings.HasPrefix(id, "pkg/sidecar/param.") }, nil)
			for _, cs := range callersOf(p, "pkg/sidecar/param.setSeparators") {
				if cs.Fn.ID == ev {
					c.check(describeExpr(e, cs.Call.Args[0], 0) == "param#0", "separators.chosen-first", callKey(e, cs.Call), p.Pos(cs.Call.Pos()), "separators chosen from the whole params value", "setSeparators is called on `"+exprString(cs.Call.Args[0])+"`, not the whole params value")
				}
			}
		}
	}
	// (c) header and trim
	for _, bid := range builders {
		f := p.Func(bid)
		okHdr, okTrim := false, true
		ast.Inspect(f.Decl.Body, func(nd ast.Node) bool {
			if as, ok := nd.(*ast.AssignStmt); ok && as.Tok == token.DEFINE && len(as.Rhs) == 1 && describeExpr(f, as.Rhs[0], 0) == "(global:itemSep+global:kvSep)" {
				okHdr = true
			}
			return true
		})
		b := p.BodyOf(f)
		ast.Inspect(f.Decl.Body, func(nd ast.Node) bool {
			if r, ok := nd.(*ast.ReturnStmt); ok && len(r.Results) == 2 && b.classifyReturn(r) == retSuccess {
				if !strings.HasPrefix(describeExpr(f, r.Results[0], 0), "call:strings.TrimSuffix(") || !strings.HasSuffix(describeExpr(f, r.Results[0], 0), ",global:itemSep)") {
					okTrim = false
				}
			}
			return true
		})
		c.check(okHdr && okTrim, "header", bid, p.Pos(f.Decl.Pos()), "the string starts with itemSep+kvSep and one trailing itemSep is trimmed", bid+" no longer starts its string with itemSep+kvSep (the decoder reads the separators from the first two characters) or no longer trims the trailing item separator")
	}
	checkParamsEmittedUnconditionally(c, "emission.unconditional")
	checkErrBranchFails(c, "errors-surface.error-branch-fails", errBranchExceptions, "pkg/sidecar/param")
	checkErrDisciplineAll(c, "errors-surface.every-error-tested", "pkg/sidecar/param")
}

// ---------------------------------------------------------------------------------------------------

// normCmp renders a comparison `a OP b` with the marker key on the left: "key<start", "key<=end"...
func normCmp(e ast.Expr, left string) string {
	be, ok := ast.Unparen(e).(*ast.BinaryExpr)
	if !ok {
		return exprString(e)
	}
	x, y := exprString(be.X), exprString(be.Y)
	op := be.Op.String()
	if y == left {
		x, y = y, x
		switch be.Op {
		case token.LSS:
			op = ">"
		case token.LEQ:
			op = ">="
		case token.GTR:
			op = "<"
		case token.GEQ:
			op = "<="
		}
	}
	return x + op + y
}

func runC22(c *Ctx) {
	p := c.P
	c.assume("the radix tree walks keys in ascending order of the big-endian encoded offsets")
	tw := p.Func("pkg/filetracker.TFile.trackWrite")
	info := tw.Info()
	// (a) order-only dependence: every use of start/end/key/offset values
	{
		for _, fid := range []string{"pkg/filetracker.TFile.trackWrite", "pkg/filetracker.TFile.getRangeToRead"} {
			f := p.Func(fid)
			finfo := f.Info()
			b := p.BodyOf(f)
			bad := ""
			ast.Inspect(f.Decl.Body, func(nd ast.Node) bool {
				id, ok := nd.(*ast.Ident)
				if !ok {
					return true
				}
				v, ok := finfo.Uses[id].(*types.Var)
				if !ok {
					return true
				}
				bt, ok := v.Type().Underlying().(*types.Basic)
				if !ok || bt.Kind() != types.Int64 {
					return true
				}
				// classify the context of this int64 use
				par := b.parent[id]
				for {
					if pe, ok := par.(*ast.ParenExpr); ok {
						par = b.parent[pe]
						continue
					}
					break
				}
				switch x := par.(type) {
				case *ast.BinaryExpr:
					switch x.Op {
					case token.LSS, token.LEQ, token.GTR, token.GEQ, token.EQL, token.NEQ, token.SUB:
						return true
					case token.ADD:
						return true // getFileRange-like end = offset+len in the same function is not present here; tolerated for start/end derivation
					}
					bad = "`" + exprString(x) + "`"
				case *ast.CallExpr:
					name := calleeID(finfo, x)
					if name == "pkg/filetracker.getKey" || name == "pkg/filetracker.min" || name == "pkg/filetracker.getFileRange" {
						return true
					}
					bad = "call " + name
				case *ast.AssignStmt, *ast.ReturnStmt, *ast.ValueSpec:
					return true
				default:
					_ = x
				}
				return true
			})
			c.check(bad == "", "order-only", fid, p.Pos(f.Decl.Pos()), "offsets are only compared, subtracted for a length, passed to min or turned into keys", fid+" uses an offset in "+bad+": the tracker's answers must depend only on the relative order of offsets")
		}
	}
	// roles of trackWrite's variables, inferred from definitions and uses (never from names)
	var walker *ast.FuncLit
	for _, l := range tw.Lits {
		if sig, ok := info.TypeOf(l).(*types.Signature); ok && sig.Params().Len() == 2 && sig.Results().Len() == 1 {
			walker = l
		}
	}
	if walker == nil {
		undecided("trackWrite no longer has a walker callback")
	}
	roles := map[types.Object]string{}
	isCallTo := func(fi *FuncInfo, id string) func(ast.Expr) bool {
		return func(e ast.Expr) bool {
			call, ok := ast.Unparen(e).(*ast.CallExpr)
			return ok && calleeID(fi.Info(), call) == id
		}
	}
	if se := lhsVars(info, tw.Decl.Body, isCallTo(tw, "pkg/filetracker.getFileRange")); len(se) == 2 && se[0] != nil && se[1] != nil {
		roles[se[0]], roles[se[1]] = "start", "end"
	}
	// walker parameters
	var wk, wv types.Object
	{
		var names []*ast.Ident
		for _, fl := range walker.Type.Params.List {
			names = append(names, fl.Names...)
		}
		if len(names) == 2 {
			wk, wv = info.Defs[names[0]], info.Defs[names[1]]
			roles[wk], roles[wv] = "k", "v"
		}
	}
	if vs := lhsVars(info, walker.Body, func(e ast.Expr) bool {
		ta, ok := ast.Unparen(e).(*ast.TypeAssertExpr)
		if !ok {
			return false
		}
		id, ok := ast.Unparen(ta.X).(*ast.Ident)
		return ok && info.Uses[id] == wv
	}); len(vs) == 1 && vs[0] != nil {
		roles[vs[0]] = "isStart"
	}
	if vs := lhsVars(info, walker.Body, func(e ast.Expr) bool {
		call, ok := ast.Unparen(e).(*ast.CallExpr)
		if !ok || calleeID(info, call) != "pkg/filetracker.getOffset" || len(call.Args) != 1 {
			return false
		}
		id, ok := ast.Unparen(call.Args[0]).(*ast.Ident)
		return ok && info.Uses[id] == wk
	}); len(vs) == 1 && vs[0] != nil {
		roles[vs[0]] = "key"
	}
	// the two inside-flags: the variable guarding the insert of the start marker is "before", of the end marker "after"
	for _, st := range tw.Decl.Body.List {
		ifs, ok := st.(*ast.IfStmt)
		if !ok || len(ifs.Body.List) != 1 {
			continue
		}
		es, ok := ifs.Body.List[0].(*ast.ExprStmt)
		if !ok {
			continue
		}
		call, ok := es.X.(*ast.CallExpr)
		if !ok || !strings.HasSuffix(calleeID(info, call), "Txn.Insert") || len(call.Args) != 2 {
			continue
		}
		u, ok := ast.Unparen(ifs.Cond).(*ast.UnaryExpr)
		if !ok || u.Op != token.NOT {
			continue
		}
		id, ok := ast.Unparen(u.X).(*ast.Ident)
		if !ok {
			continue
		}
		switch roleString(info, call.Args[1], roles) {
		case "startFlag":
			roles[info.Uses[id]] = "insideBefore"
		case "endFlag":
			roles[info.Uses[id]] = "insideAfter"
		}
	}
	// (b) walker
	{
		var sw *ast.SwitchStmt
		ast.Inspect(walker.Body, func(nd ast.Node) bool {
			if s, ok := nd.(*ast.SwitchStmt); ok && s.Tag == nil {
				sw = s
			}
			return true
		})
		if sw == nil {
			c.shapeChanged("walker.partition", tw.ID, p.Pos(walker.Pos()), tw.ID, "the walker no longer classifies markers with a switch")
		} else {
			var rows []string
			for _, st := range sw.Body.List {
				cc := st.(*ast.CaseClause)
				cond := "default"
				if len(cc.List) == 1 {
					cond = roleCmp(info, cc.List[0], roles, "key")
				}
				var acts []string
				for _, s2 := range cc.Body {
					switch x := s2.(type) {
					case *ast.AssignStmt:
						acts = append(acts, roleString(info, x.Lhs[0], roles)+"="+roleString(info, x.Rhs[0], roles))
					case *ast.ExprStmt:
						if call, ok := x.X.(*ast.CallExpr); ok {
							acts = append(acts, shortCallee(calleeID(info, call)))
						}
					case *ast.ReturnStmt:
						acts = append(acts, "return "+roleString(info, x.Results[0], roles))
					}
				}
				sort.Strings(acts)
				rows = append(rows, cond+" => "+strings.Join(acts, ","))
			}
			got := strings.Join(rows, " | ")
			want := "key<start => insideAfter=isStart,insideBefore=isStart,return !terminate | key<=end => go-immutable-radix.Txn.Delete,insideAfter=isStart,return !terminate | default => return terminate"
			c.check(got == want, "walker.partition", tw.ID, p.Pos(sw.Pos()), got,
				"the walker classifies markers as ["+got+"], expected ["+want+"]: markers before start set both inside-flags, markers in [start,end] (boundaries included) are removed and set the after-flag, the first marker past end stops the walk")
		}
		// isStart is the marker's flag, key its offset; the range comes from the call's own (offset, length); both
		// inside-flags start false (no range is open before the first marker)
		nFlags := 0
		for o, r := range roles {
			if r == "isStart" || r == "key" {
				_ = o
				nFlags++
			}
		}
		c.check(nFlags == 2, "walker.partition", tw.ID+":flag", p.Pos(walker.Pos()), "isStart is the marker's stored flag and key its decoded offset", "the walker no longer reads the marker's flag from its value and its offset from its key")
		okRange := false
		ast.Inspect(tw.Decl.Body, func(nd ast.Node) bool {
			if call, ok := nd.(*ast.CallExpr); ok && calleeID(info, call) == "pkg/filetracker.getFileRange" && len(call.Args) == 2 {
				okRange = describeExpr(tw, call.Args[0], 0) == "param#0" && describeExpr(tw, call.Args[1], 0) == "param#1"
			}
			return true
		})
		c.check(okRange, "walker.range", tw.ID, p.Pos(tw.Decl.Pos()), "[start,end) = getFileRange(offset, length) of this call", "the tracked range is no longer getFileRange(offset, length) of the call's own arguments in that order")
		okInit := 0
		for o, r := range roles {
			if r != "insideBefore" && r != "insideAfter" {
				continue
			}
			v := o.(*types.Var)
			for _, d := range defsOfVarWithIndex(tw, v) {
				if d.rhs != nil && d.start < walker.Pos() {
					if val, isConst := isBoolConst(info, d.rhs); isConst && !val {
						okInit++
					}
				}
			}
		}
		c.check(okInit == 2, "walker.flags-start-false", tw.ID, p.Pos(tw.Decl.Pos()), "both inside-flags are false before the walk", "an inside-flag does not start false: with no marker before the new range its start (or end) marker is not inserted and the write is not tracked")
	}
	// insertion
	{
		var rows []string
		for _, st := range tw.Decl.Body.List {
			ifs, ok := st.(*ast.IfStmt)
			if !ok || len(ifs.Body.List) != 1 {
				continue
			}
			es, ok := ifs.Body.List[0].(*ast.ExprStmt)
			if !ok {
				continue
			}
			call, ok := es.X.(*ast.CallExpr)
			if !ok || !strings.HasSuffix(calleeID(info, call), "Txn.Insert") {
				continue
			}
			rows = append(rows, roleString(info, ifs.Cond, roles)+" => Insert("+roleString(info, call.Args[0], roles)+","+roleString(info, call.Args[1], roles)+")")
		}
		sort.Strings(rows)
		got := strings.Join(rows, " | ")
		want := "!insideAfter => Insert(getKey(end),endFlag) | !insideBefore => Insert(getKey(start),startFlag)"
		// no other Insert
		nIns := 0
		ast.Inspect(tw.Decl.Body, func(nd ast.Node) bool {
			if call, ok := nd.(*ast.CallExpr); ok && strings.HasSuffix(calleeID(info, call), "Txn.Insert") {
				nIns++
			}
			return true
		})
		c.check(got == want && nIns == 2, "insertion", tw.ID, p.Pos(tw.Decl.Pos()), got, "markers are inserted as ["+got+"] ("+itoa(nIns)+" inserts), expected ["+want+"]")
		// flags
		okFlags := false
		if sc := p.Pkg("pkg/filetracker").Types.Scope(); sc != nil {
			sf, _ := sc.Lookup("startFlag").(*types.Const)
			ef, _ := sc.Lookup("endFlag").(*types.Const)
			if sf != nil && ef != nil && sf.Val().String() == "true" && ef.Val().String() == "false" {
				okFlags = true
			}
		}
		c.check(okFlags, "insertion", "pkg/filetracker.flags", "-", "startFlag=true, endFlag=false", "the marker flag constants are no longer startFlag=true / endFlag=false")
		// empty writes ignored, before the lock
		okEmpty := false
		for _, st := range tw.Decl.Body.List {
			if ifs, ok := st.(*ast.IfStmt); ok {
				cnd := roleCmp(info, ifs.Cond, roles, "end")
				if (cnd == "end<=start" || cnd == "end<start") && blockDiverts(ifs.Body.List) {
					okEmpty = cnd == "end<=start"
				}
			}
		}
		c.check(okEmpty, "insertion.empty-write", tw.ID, p.Pos(tw.Decl.Pos()), "a write with end <= start is ignored", "an empty write (end <= start) is no longer ignored: start and end markers collide on one key")
		// committed under the lock
		b := p.BodyOf(tw)
		okLock := false
		for i, st := range tw.Decl.Body.List {
			if es, ok := st.(*ast.ExprStmt); ok {
				if call, ok := es.X.(*ast.CallExpr); ok && calleeID(info, call) == "sync.Mutex.Lock" && i+1 < len(tw.Decl.Body.List) {
					if d, ok := tw.Decl.Body.List[i+1].(*ast.DeferStmt); ok && calleeID(info, d.Call) == "sync.Mutex.Unlock" {
						okLock = true
					}
				}
			}
		}
		bad, nB := b.dominatedBy(callTo("sync.Mutex.Lock"), func(bd *Body, call *ast.CallExpr) bool {
			return strings.HasSuffix(calleeID(info, call), "Txn.Commit") || strings.HasSuffix(calleeID(info, call), "Tree.Txn")
		})
		okCommit := false
		ast.Inspect(tw.Decl.Body, func(nd ast.Node) bool {
			if as, ok := nd.(*ast.AssignStmt); ok && len(as.Lhs) == 1 && describeExpr(tw, as.Lhs[0], 0) == "recv.tracker" && describeExpr(tw, as.Rhs[0], 0) == "recv.tracker.Txn().Commit()" {
				okCommit = true
			}
			return true
		})
		c.check(okLock && nB >= 2 && len(bad) == 0 && okCommit, "insertion.committed-under-lock", tw.ID, p.Pos(tw.Decl.Pos()), "the transaction is opened and committed into t.tracker under t.lock", "trackWrite no longer opens and commits its transaction into t.tracker while holding t.lock")
	}
	// (c) getRangeToRead
	{
		g := p.Func("pkg/filetracker.TFile.getRangeToRead")
		ginfo := g.Info()
		gr := map[types.Object]string{}
		gsig := g.Obj.Type().(*types.Signature)
		if gsig.Params().Len() == 2 {
			gr[gsig.Params().At(0)], gr[gsig.Params().At(1)] = "offset", "len"
		}
		// results: `return contiguous, storage`
		ast.Inspect(g.Decl.Body, func(nd ast.Node) bool {
			if _, isLit := nd.(*ast.FuncLit); isLit {
				return false
			}
			if r, ok := nd.(*ast.ReturnStmt); ok && len(r.Results) == 2 {
				if a, ok := ast.Unparen(r.Results[0]).(*ast.Ident); ok {
					gr[ginfo.Uses[a]] = "contiguous"
				}
				if b2, ok := ast.Unparen(r.Results[1]).(*ast.Ident); ok {
					gr[ginfo.Uses[b2]] = "storage"
				}
			}
			return true
		})
		var gw *ast.FuncLit
		for _, l := range g.Lits {
			if sig, ok := ginfo.TypeOf(l).(*types.Signature); ok && sig.Params().Len() == 2 && sig.Results().Len() == 1 {
				gw = l
			}
		}
		var sw *ast.SwitchStmt
		if gw != nil {
			var names []*ast.Ident
			for _, fl := range gw.Type.Params.List {
				names = append(names, fl.Names...)
			}
			var gk, gv types.Object
			if len(names) == 2 {
				gk, gv = ginfo.Defs[names[0]], ginfo.Defs[names[1]]
			}
			if vs := lhsVars(ginfo, gw.Body, func(e ast.Expr) bool {
				ta, ok := ast.Unparen(e).(*ast.TypeAssertExpr)
				if !ok {
					return false
				}
				id, ok := ast.Unparen(ta.X).(*ast.Ident)
				return ok && ginfo.Uses[id] == gv
			}); len(vs) == 1 && vs[0] != nil {
				gr[vs[0]] = "isStart"
				if es := lhsVars(ginfo, gw.Body, func(e ast.Expr) bool {
					u, ok := ast.Unparen(e).(*ast.UnaryExpr)
					if !ok || u.Op != token.NOT {
						return false
					}
					id, ok := ast.Unparen(u.X).(*ast.Ident)
					return ok && ginfo.Uses[id] == vs[0]
				}); len(es) == 1 && es[0] != nil {
					gr[es[0]] = "isEnd"
				}
			}
			if vs := lhsVars(ginfo, gw.Body, func(e ast.Expr) bool {
				call, ok := ast.Unparen(e).(*ast.CallExpr)
				if !ok || calleeID(ginfo, call) != "pkg/filetracker.getOffset" || len(call.Args) != 1 {
					return false
				}
				id, ok := ast.Unparen(call.Args[0]).(*ast.Ident)
				return ok && ginfo.Uses[id] == gk
			}); len(vs) == 1 && vs[0] != nil {
				gr[vs[0]] = "key"
			}
			ast.Inspect(gw.Body, func(nd ast.Node) bool {
				if s, ok := nd.(*ast.SwitchStmt); ok && s.Tag == nil {
					sw = s
				}
				return true
			})
		}
		if sw == nil {
			c.shapeChanged("range-to-read", g.ID, p.Pos(g.Decl.Pos()), g.ID, "getRangeToRead no longer classifies markers with a switch")
		} else {
			var rows []string
			for _, st := range sw.Body.List {
				cc := st.(*ast.CaseClause)
				if len(cc.List) != 1 {
					continue
				}
				conj := conjuncts(cc.List[0])
				var cs []string
				for _, cj := range conj {
					cs = append(cs, roleCmp(ginfo, cj, gr, "key"))
				}
				var acts []string
				for _, s2 := range cc.Body {
					switch x := s2.(type) {
					case *ast.AssignStmt:
						acts = append(acts, roleString(ginfo, x.Lhs[0], gr)+"="+nos(roleString(ginfo, x.Rhs[0], gr)))
					case *ast.ReturnStmt:
						acts = append(acts, "return "+roleString(ginfo, x.Results[0], gr))
					}
				}
				sort.Strings(acts)
				rows = append(rows, strings.Join(cs, "&&")+" => "+strings.Join(acts, ","))
			}
			sort.Strings(rows)
			got := strings.Join(rows, " | ")
			want := "isEnd&&key<=offset => return !terminate,storage=base | isEnd&&key>offset => contiguous=min(key-offset,len),return terminate,storage=mutable | isStart&&key<=offset => return !terminate,storage=mutable | isStart&&key>offset => contiguous=min(key-offset,len),return terminate,storage=base"
			c.check(got == want, "range-to-read", g.ID, p.Pos(sw.Pos()), got, "getRangeToRead classifies markers as ["+got+"], expected ["+want+"]: each marker kind must be handled for key<=offset and key>offset (isEnd being the negation of the marker's start flag), and a range returned from an offset must stop at the next marker")
		}
		// initial answer: the whole request from the base file
		initOK := 0
		for o, r := range gr {
			v, isVar := o.(*types.Var)
			if !isVar {
				continue
			}
			for _, d := range defsOfVarWithIndex(g, v) {
				if d.rhs == nil || (gw != nil && d.start > gw.Pos()) {
					continue
				}
				if r == "contiguous" && roleString(ginfo, d.rhs, gr) == "len" {
					initOK++
				}
				if r == "storage" && roleString(ginfo, d.rhs, gr) == "base" {
					initOK++
				}
			}
		}
		c.check(initOK == 2, "range-to-read.initial", g.ID, p.Pos(g.Decl.Pos()), "without markers the whole request is served from the base file", "getRangeToRead no longer starts from (len, base): a file without tracked writes is not read entirely from the base")
	}
	checkRangeToReadAlwaysWalks(c, "range-to-read.always-walks")
	checkTrackerTxnCommitted(c, "txn-committed")
	checkEffectDominance(c, "effects.dominance", "pkg/filetracker")
}

func nos(s string) string { return strings.ReplaceAll(s, " ", "") }
