package main

import (
	"go/ast"
	"go/token"
	"go/types"

	"golang.org/x/tools/go/cfg"
)

// Additional cafs clauses found necessary by independently produced defective variants (seeded/C01-n2, C03-n1, C03-n2).

// checkReadAccounting (C01): in chunkReader.Read every byte count returned by the blob reader's Read is added to
// r.readSoFar before the blob reader is read again: otherwise the next Read lands at the same offset of the caller's
// buffer and the bytes of the previous one are lost (or counted twice).
func checkReadAccounting(c *Ctx, rule string) {
	p := c.P
	f := p.Func("pkg/cafs.chunkReader.Read")
	b := p.BodyOf(f)
	info := f.Info()
	isProducer := func(call *ast.CallExpr) bool {
		id := calleeID(info, call)
		if id != "io.Reader.Read" && id != "io.ReadCloser.Read" {
			return false
		}
		sel, ok := ast.Unparen(call.Fun).(*ast.SelectorExpr)
		return ok && describeExpr(f, sel.X, 0) == "recv.rdr"
	}
	var nVar *types.Var
	nProd := 0
	ast.Inspect(f.Decl.Body, func(n ast.Node) bool {
		if _, isLit := n.(*ast.FuncLit); isLit {
			return false
		}
		if call, ok := n.(*ast.CallExpr); ok && isProducer(call) {
			nProd++
			if as, ok := b.parent[call].(*ast.AssignStmt); ok && len(as.Lhs) == 2 {
				if id, ok := as.Lhs[0].(*ast.Ident); ok {
					nVar, _ = info.Defs[id].(*types.Var)
					if nVar == nil {
						nVar, _ = info.Uses[id].(*types.Var)
					}
				}
			}
			// the destination window starts at readSoFar
			okDst := false
			if len(call.Args) == 1 {
				if se, ok := ast.Unparen(call.Args[0]).(*ast.SliceExpr); ok && se.Low != nil {
					okDst = describeExpr(f, se.X, 0) == "param#0" && describeExpr(f, se.Low, 0) == "recv.readSoFar"
				}
			}
			c.check(okDst, rule, f.ID+":destination", p.Pos(call.Pos()), "the blob reader fills data[r.readSoFar:…]", "the blob reader no longer fills the caller's buffer from r.readSoFar on")
		}
		return true
	})
	if nProd != 1 || nVar == nil {
		c.softUndecided("%s: chunkReader.Read no longer reads the current blob with one `n, err := r.rdr.Read(data[r.readSoFar:…])`: the accounting rule cannot be applied", rule)
		return
	}
	isAccount := func(n ast.Node) bool {
		as, ok := n.(*ast.AssignStmt)
		if !ok || len(as.Lhs) != 1 || len(as.Rhs) != 1 || describeExpr(f, as.Lhs[0], 0) != "recv.readSoFar" {
			return false
		}
		if as.Tok == token.ADD_ASSIGN {
			return isVar(info, as.Rhs[0], nVar)
		}
		return false
	}
	const accounted, pending = 1, 2
	var bad []ast.Node
	b.run(flowSpec{
		entry: accounted,
		node: func(n ast.Node, s uint64) uint64 {
			if _, isDefer := n.(*ast.DeferStmt); isDefer {
				return s
			}
			for _, call := range callsIn(n) {
				if isProducer(call) {
					if s&pending != 0 {
						bad = append(bad, call)
					}
					s = pending
				}
			}
			if isAccount(n) {
				s = accounted
			}
			return s
		},
		edge: func(blk *cfg.Block, i int, s uint64) uint64 { return s },
	})
	c.check(len(bad) == 0, rule, f.ID, p.Pos(f.Decl.Pos()),
		"every count returned by the blob reader is added to r.readSoFar before the blob reader is read again (all loop paths, EOF included)",
		"the blob reader can be read again while the count of its previous Read has not been added to r.readSoFar (a loop path — e.g. the end-of-leaf path — skips the accounting): the next leaf is written over those bytes and the caller gets altered content without error")
}

// checkVerifyAlwaysHashes (C03): verifyHash has no success return that is not preceded by the recomputation of the
// key from the data it was given (no memo, no shortcut).
func checkVerifyAlwaysHashes(c *Ctx, rule string) {
	p := c.P
	f := p.Func("pkg/cafs.chunkReader.verifyHash")
	b := p.BodyOf(f)
	isHash := func(bd *Body, call *ast.CallExpr) bool {
		if calleeID(bd.Info(), call) != "pkg/cafs.KeyFromBytes" || len(call.Args) < 1 {
			return false
		}
		return describeExpr(f, call.Args[0], 0) == "param#1"
	}
	bad, nSucc := b.mustPassBeforeSuccess(isHash)
	c.check(len(bad) == 0 && nSucc > 0, rule, f.ID, p.Pos(f.Decl.Pos()),
		"every success return of verifyHash follows KeyFromBytes on the bytes it was given",
		"verifyHash can report success without recomputing the key from the bytes it was given (memoised or skipped verification): a blob damaged after a first successful read is delivered as valid")
}

// checkWriteToWorkerExclusive (C03): in the io.WriterAt branch of WriteTo, a worker that reported an error does not also
// report a byte count: the collector stops as soon as it has counted len(keys) results, and would return nil with the
// error still queued.
func checkWriteToWorkerExclusive(c *Ctx, rule string) {
	p := c.P
	f := p.Func("pkg/cafs.chunkReader.WriteTo")
	info := f.Info()
	n := 0
	for _, lit := range f.Lits {
		// worker literals: started by a go statement
		isGo := false
		ast.Inspect(f.Decl.Body, func(m ast.Node) bool {
			if g, ok := m.(*ast.GoStmt); ok && ast.Unparen(g.Call.Fun) == ast.Expr(lit) {
				isGo = true
			}
			return !isGo
		})
		if !isGo {
			continue
		}
		lb := p.LitBody(f, lit)
		sendKind := func(nd ast.Node) string {
			s, ok := nd.(*ast.SendStmt)
			if !ok {
				return ""
			}
			ch, ok := info.TypeOf(s.Chan).Underlying().(*types.Chan)
			if !ok {
				return ""
			}
			if isErrorType(ch.Elem()) {
				return "error"
			}
			if isStructChan(info.TypeOf(s.Chan)) {
				return ""
			}
			return "result"
		}
		hasErr, hasRes := false, false
		ast.Inspect(lit.Body, func(m ast.Node) bool {
			switch sendKind(m) {
			case "error":
				hasErr = true
			case "result":
				hasRes = true
			}
			return true
		})
		if !hasErr || !hasRes {
			continue
		}
		n++
		const clean, errSent = 1, 2
		bad := false
		// sends inside deferred literals run at every exit
		deferredResult := false
		for _, d := range lb.defers {
			ast.Inspect(d, func(m ast.Node) bool {
				if sendKind(m) == "result" {
					deferredResult = true
				}
				return true
			})
		}
		lb.run(flowSpec{
			entry: clean,
			node: func(nd ast.Node, s uint64) uint64 {
				if _, isDefer := nd.(*ast.DeferStmt); isDefer {
					return s
				}
				switch sendKind(nd) {
				case "error":
					return errSent
				case "result":
					if s&errSent != 0 {
						bad = true
					}
				}
				return s
			},
			exit: func(blk *cfg.Block, ret *ast.ReturnStmt, s uint64) {
				if s&errSent != 0 && deferredResult {
					bad = true
				}
			},
		})
		c.check(!bad, rule, lb.Key(), p.Pos(lit.Pos()),
			"a WriteTo worker reports either an error or a byte count, never both",
			"a WriteTo worker that sent an error can also send a byte count (e.g. from its defer): the collector returns nil once it has counted len(keys) results, with the verification/read error still unread — a corrupted leaf is downloaded with err == nil")
	}
	if n == 0 {
		c.softUndecided("%s: chunkReader.WriteTo no longer has a worker goroutine sending on an error and a result channel", rule)
	}
}

// checkIteratorNilOnlyAtExhaustion (C04, C11, C12): fileIndex.downloadAll / reset / pack take a nil inner iterator as
// "no more objects". Every implementation of the two-level iterator may therefore return a nil inner iterator only at
// exhaustion (a test over its own cursor state), never for a particular element (e.g. an object without index file):
// everything after that element would be silently dropped.
func checkIteratorNilOnlyAtExhaustion(c *Ctx, rule string) {
	p := c.P
	n := 0
	for _, f := range p.FuncsIn("pkg/core") {
		if f.Decl.Body == nil || f.Decl.Name.Name != "Next" || f.Decl.Recv == nil {
			continue
		}
		sig := f.Obj.Type().(*types.Signature)
		if sig.Results().Len() != 2 || namedTypeID(sig.Results().At(1).Type()) != "pkg/core.indexIterator" {
			continue
		}
		n++
		info := f.Info()
		bad := ""
		var badPos token.Pos
		nNil := 0
		ast.Inspect(f.Decl.Body, func(nd ast.Node) bool {
			if _, isLit := nd.(*ast.FuncLit); isLit {
				return false
			}
			r, ok := nd.(*ast.ReturnStmt)
			if !ok || len(r.Results) != 2 || !isNil(info, r.Results[1]) {
				return true
			}
			nNil++
			okGuard := false
			for x := f.parentOf(r); x != nil; x = f.parentOf(x) {
				ifs, ok := x.(*ast.IfStmt)
				if !ok || !encloses(ifs.Body, r.Pos()) {
					continue
				}
				d := nos(describeExpr(f, ifs.Cond, 0))
				if d == "recv.iterated" || d == "(recv.i>=call:builtin.len(recv.splits))" {
					okGuard = true
				} else {
					bad, badPos = d, ifs.Pos()
				}
			}
			if !okGuard && bad == "" {
				bad, badPos = "no exhaustion test", r.Pos()
			}
			if okGuard && bad != "" {
				// nested under another condition as well: still a per-element decision
				okGuard = false
			}
			return true
		})
		c.check(bad == "" && nNil >= 1, rule, f.ID, p.Pos(f.Decl.Pos()),
			"the inner iterator is nil only when the cursor is exhausted ("+itoa(nNil)+" nil return)",
			"Next returns a nil inner iterator under `"+bad+"` (at "+p.Pos(badPos)+"), not only when its cursor is exhausted: the callers stop at the first nil, so every later object (split) is silently left out")
	}
	if n < 5 {
		c.fail(rule, "pkg/core:iterators", "-", "expected the 5 two-level index iterators confirmed by hand, found "+itoa(n))
	}
}

// checkListApplySiblings (C07 and every property whose operation iterates a listing: C09 rename, C10 squash, C12
// commit): the five List*Apply functions agree on how the two errors they can meet surface —
//   - the listing error returned by doSelect* inside the collecting goroutine is stored (plain assignment) in a
//     variable of the enclosing function, not in a variable declared inside the goroutine (shadowing drops it);
//   - the error of the applied function is stored in a *different* variable (the goroutine writes the first one
//     concurrently, and would overwrite an apply error with nil);
//   - both variables are returned when non-nil: each is the result of a return statement guarded by its own != nil test,
//     and the only `return nil` is the default.
func checkListApplySiblings(c *Ctx, rule string) {
	p := c.P
	for _, kind := range []string{"Repos", "Bundles", "Labels", "Diamonds", "Splits"} {
		f := p.Func("pkg/core.List" + kind + "Apply")
		info := f.Info()
		selID := "pkg/core.doSelect" + kind
		var listVar, applyVar *types.Var
		listWhy, applyWhy := "no call of doSelect"+kind+" in a goroutine", "the applied function's result is not stored"
		applyParam := paramVar(f, "apply")
		if applyParam == nil {
			// the function-typed parameter, whatever its name
			sig := f.Obj.Type().(*types.Signature)
			for i := 0; i < sig.Params().Len(); i++ {
				if _, isFn := sig.Params().At(i).Type().Underlying().(*types.Signature); isFn {
					applyParam = sig.Params().At(i)
				}
			}
		}
		ast.Inspect(f.Decl.Body, func(n ast.Node) bool {
			as, ok := n.(*ast.AssignStmt)
			if !ok || len(as.Rhs) != 1 {
				return true
			}
			call, ok := ast.Unparen(as.Rhs[0]).(*ast.CallExpr)
			if !ok || len(as.Lhs) != 1 {
				return true
			}
			id, ok := ast.Unparen(as.Lhs[0]).(*ast.Ident)
			if !ok {
				return true
			}
			isList := calleeID(info, call) == selID
			isApply := false
			if fid, ok := ast.Unparen(call.Fun).(*ast.Ident); ok && applyParam != nil && info.Uses[fid] == applyParam {
				isApply = true
			}
			if !isList && !isApply {
				return true
			}
			var v *types.Var
			if as.Tok == token.DEFINE {
				v, _ = info.Defs[id].(*types.Var)
			} else {
				v, _ = info.Uses[id].(*types.Var)
			}
			if isList {
				lit := innermostSeparateLit(p, f, call)
				switch {
				case v == nil:
					listWhy = "the listing error is not stored in a variable"
				case lit != nil && v.Pos() >= lit.Pos() && v.Pos() <= lit.End():
					listWhy = "the listing error is stored in a variable declared inside the collecting goroutine (shadowing): it never reaches the caller"
				default:
					listVar = v
				}
			} else {
				applyVar = v
			}
			return true
		})
		key := f.ID
		if listVar == nil {
			c.fail(rule, key+":listing-error", p.Pos(f.Decl.Pos()), listWhy+": a failed or truncated listing is returned as success")
			continue
		}
		c.ok(rule, key+":listing-error", p.Pos(f.Decl.Pos()), "the listing error is stored in a variable of the enclosing function")
		if applyVar == nil {
			c.fail(rule, key+":apply-error", p.Pos(f.Decl.Pos()), applyWhy)
			continue
		}
		c.check(applyVar != listVar, rule, key+":apply-error", p.Pos(f.Decl.Pos()),
			"the applied function's error has its own variable",
			"the applied function's error is stored in the variable the collecting goroutine assigns the listing result to: the goroutine overwrites it (with nil when the listing itself went well) — the operation driven by the listing reports success although a step failed")
		// both returned under their own non-nil test
		returned := map[*types.Var]bool{}
		nilReturns := 0
		ast.Inspect(f.Decl.Body, func(n ast.Node) bool {
			if _, isLit := n.(*ast.FuncLit); isLit {
				return false
			}
			r, ok := n.(*ast.ReturnStmt)
			if !ok || len(r.Results) != 1 {
				return true
			}
			if isNil(info, r.Results[0]) {
				nilReturns++
				return true
			}
			if id, ok := ast.Unparen(r.Results[0]).(*ast.Ident); ok {
				if v, ok := info.Uses[id].(*types.Var); ok {
					// guarded by `v != nil` in the enclosing case clause / if
					for x := f.parentOf(r); x != nil; x = f.parentOf(x) {
						var conds []ast.Expr
						switch s := x.(type) {
						case *ast.CaseClause:
							for _, e := range s.List {
								conds = append(conds, conjuncts(e)...)
							}
						case *ast.IfStmt:
							conds = conjuncts(s.Cond)
						}
						for _, cj := range conds {
							if be, ok := ast.Unparen(cj).(*ast.BinaryExpr); ok && be.Op == token.NEQ && isVar(info, be.X, v) && isNil(info, be.Y) {
								returned[v] = true
							}
						}
					}
				}
			}
			return true
		})
		c.check(returned[listVar] && returned[applyVar] && nilReturns == 1, rule, key+":both-returned", p.Pos(f.Decl.Pos()),
			"the listing error and the applied function's error are each returned when non-nil; nil is returned only otherwise",
			"List"+kind+"Apply no longer returns both the listing error and the applied function's error when non-nil (listing: "+boolStr(returned[listVar])+", apply: "+boolStr(returned[applyVar])+", nil returns: "+itoa(nilReturns)+")")
	}
}

// checkSpecificKeysPlumbing (C04): the list of keys the caller selected reaches the upload unchanged.
func checkSpecificKeysPlumbing(c *Ctx, rule string) {
	p := c.P
	f := p.Func("pkg/core.UploadSpecificKeys")
	n := 0
	for _, call := range p.BodyOf(f).findCalls(callTo("pkg/core.implUpload"), true) {
		n++
		okArgs := len(call.Args) >= 4 && describeExpr(f, call.Args[1], 0) == "param#1" && describeExpr(f, call.Args[3], 0) == "param#2"
		got := ""
		if len(call.Args) >= 4 {
			got = describeExpr(f, call.Args[3], 0)
		}
		c.check(okArgs, rule, callKey(f, call), p.Pos(call.Pos()),
			"the caller's key function is handed to the upload unchanged",
			"UploadSpecificKeys hands `"+got+"` to the upload instead of the caller's own key function: the names uploaded are not the names selected (a rewritten name uploads a namesake file or drops the file)")
	}
	if n != 1 {
		c.fail(rule, f.ID, p.Pos(f.Decl.Pos()), "expected one implUpload call in UploadSpecificKeys, found "+itoa(n))
	}
	g := p.Func("pkg/core.Upload")
	for _, call := range p.BodyOf(g).findCalls(callTo("pkg/core.implUpload"), true) {
		okArgs := len(call.Args) >= 4 && describeExpr(g, call.Args[1], 0) == "param#1" && describeExpr(g, call.Args[3], 0) == "nil"
		c.check(okArgs, rule, callKey(g, call), p.Pos(call.Pos()), "a whole-tree upload passes no key filter", "Upload no longer runs the whole-tree upload (nil key function) on its own bundle")
	}
}
