package main

import (
	"fmt"
	"go/ast"
	"go/token"
	"go/types"
	"sort"
	"strings"

	"golang.org/x/tools/go/cfg"
)

// Additional cafs clauses found necessary by independently produced defective variants (seeded/C01-n2, C03-n1, C03-n2).

// checkReadAccounting (C01): in chunkReader.Read every byte count returned by the blob reader's Read is added to
// r.readSoFar before the blob reader is read again: otherwise the next Read lands at the same offset of the caller's
// buffer and the bytes of the previous one are lost (or counted twice).
func checkReadAccounting(c *Ctx, rule string) {
	p := c.P
	f := p.Func("pkg/cafs.chunkReader.Read")
	b := p.BodyOf(f)
	info := f.Info()
	isProducer := func(call *ast.CallExpr) bool {
		id := calleeID(info, call)
		if id != "io.Reader.Read" && id != "io.ReadCloser.Read" {
			return false
		}
		sel, ok := ast.Unparen(call.Fun).(*ast.SelectorExpr)
		return ok && describeExpr(f, sel.X, 0) == "recv.rdr"
	}
	var nVar *types.Var
	nProd := 0
	ast.Inspect(f.Decl.Body, func(n ast.Node) bool {
		if _, isLit := n.(*ast.FuncLit); isLit {
			return false
		}
		if call, ok := n.(*ast.CallExpr); ok && isProducer(call) {
			nProd++
			if as, ok := b.parent[call].(*ast.AssignStmt); ok && len(as.Lhs) == 2 {
				if id, ok := as.Lhs[0].(*ast.Ident); ok {
					nVar, _ = info.Defs[id].(*types.Var)
					if nVar == nil {
						nVar, _ = info.Uses[id].(*types.Var)
					}
				}
			}
			// the destination window starts at readSoFar
			okDst := false
			if len(call.Args) == 1 {
				if se, ok := ast.Unparen(call.Args[0]).(*ast.SliceExpr); ok && se.Low != nil {
					okDst = describeExpr(f, se.X, 0) == "param#0" && describeExpr(f, se.Low, 0) == "recv.readSoFar"
				}
			}
			c.check(okDst, rule, f.ID+":destination", p.Pos(call.Pos()), "the blob reader fills data[r.readSoFar:…]", "the blob reader no longer fills the caller's buffer from r.readSoFar on")
		}
		return true
	})
	if nProd != 1 || nVar == nil {
		c.softUndecided("%s: chunkReader.Read no longer reads the current blob with one `n, err := r.rdr.Read(data[r.readSoFar:…])`: the accounting rule cannot be applied", rule)
		return
	}
	isAccount := func(n ast.Node) bool {
		as, ok := n.(*ast.AssignStmt)
		if !ok || len(as.Lhs) != 1 || len(as.Rhs) != 1 || describeExpr(f, as.Lhs[0], 0) != "recv.readSoFar" {
			return false
		}
		if as.Tok == token.ADD_ASSIGN {
			return isVar(info, as.Rhs[0], nVar)
		}
		return false
	}
	const accounted, pending = 1, 2
	var bad []ast.Node
	b.run(flowSpec{
		entry: accounted,
		node: func(n ast.Node, s uint64) uint64 {
			if _, isDefer := n.(*ast.DeferStmt); isDefer {
				return s
			}
			for _, call := range callsIn(n) {
				if isProducer(call) {
					if s&pending != 0 {
						bad = append(bad, call)
					}
					s = pending
				}
			}
			if isAccount(n) {
				s = accounted
			}
			return s
		},
		edge: func(blk *cfg.Block, i int, s uint64) uint64 { return s },
	})
	c.check(len(bad) == 0, rule, f.ID, p.Pos(f.Decl.Pos()),
		"every count returned by the blob reader is added to r.readSoFar before the blob reader is read again (all loop paths, EOF included)",
		"the blob reader can be read again while the count of its previous Read has not been added to r.readSoFar (a loop path — e.g. the end-of-leaf path — skips the accounting): the next leaf is written over those bytes and the caller gets altered content without error")
}

// checkVerifyAlwaysHashes (C03): verifyHash has no success return that is not preceded by the recomputation of the
// key from the data it was given (no memo, no shortcut).
func checkVerifyAlwaysHashes(c *Ctx, rule string) {
	p := c.P
	f := p.Func("pkg/cafs.chunkReader.verifyHash")
	b := p.BodyOf(f)
	isHash := func(bd *Body, call *ast.CallExpr) bool {
		if calleeID(bd.Info(), call) != "pkg/cafs.KeyFromBytes" || len(call.Args) < 1 {
			return false
		}
		return describeExpr(f, call.Args[0], 0) == "param#1"
	}
	bad, nSucc := b.mustPassBeforeSuccess(isHash)
	c.check(len(bad) == 0 && nSucc > 0, rule, f.ID, p.Pos(f.Decl.Pos()),
		"every success return of verifyHash follows KeyFromBytes on the bytes it was given",
		"verifyHash can report success without recomputing the key from the bytes it was given (memoised or skipped verification): a blob damaged after a first successful read is delivered as valid")
}

// checkWriteToWorkerExclusive (C03): in the io.WriterAt branch of WriteTo, a worker that reported an error does not also
// report a byte count: the collector stops as soon as it has counted len(keys) results, and would return nil with the
// error still queued.
func checkWriteToWorkerExclusive(c *Ctx, rule string) {
	p := c.P
	f := p.Func("pkg/cafs.chunkReader.WriteTo")
	info := f.Info()
	n := 0
	for _, lit := range f.Lits {
		// worker literals: started by a go statement
		isGo := false
		ast.Inspect(f.Decl.Body, func(m ast.Node) bool {
			if g, ok := m.(*ast.GoStmt); ok && ast.Unparen(g.Call.Fun) == ast.Expr(lit) {
				isGo = true
			}
			return !isGo
		})
		if !isGo {
			continue
		}
		lb := p.LitBody(f, lit)
		sendKind := func(nd ast.Node) string {
			s, ok := nd.(*ast.SendStmt)
			if !ok {
				return ""
			}
			ch, ok := info.TypeOf(s.Chan).Underlying().(*types.Chan)
			if !ok {
				return ""
			}
			if isErrorType(ch.Elem()) {
				return "error"
			}
			if isStructChan(info.TypeOf(s.Chan)) {
				return ""
			}
			return "result"
		}
		hasErr, hasRes := false, false
		ast.Inspect(lit.Body, func(m ast.Node) bool {
			switch sendKind(m) {
			case "error":
				hasErr = true
			case "result":
				hasRes = true
			}
			return true
		})
		if !hasErr || !hasRes {
			continue
		}
		n++
		const clean, errSent = 1, 2
		bad := false
		// sends inside deferred literals run at every exit
		deferredResult := false
		for _, d := range lb.defers {
			ast.Inspect(d, func(m ast.Node) bool {
				if sendKind(m) == "result" {
					deferredResult = true
				}
				return true
			})
		}
		lb.run(flowSpec{
			entry: clean,
			node: func(nd ast.Node, s uint64) uint64 {
				if _, isDefer := nd.(*ast.DeferStmt); isDefer {
					return s
				}
				switch sendKind(nd) {
				case "error":
					return errSent
				case "result":
					if s&errSent != 0 {
						bad = true
					}
				}
				return s
			},
			exit: func(blk *cfg.Block, ret *ast.ReturnStmt, s uint64) {
				if s&errSent != 0 && deferredResult {
					bad = true
				}
			},
		})
		c.check(!bad, rule, lb.Key(), p.Pos(lit.Pos()),
			"a WriteTo worker reports either an error or a byte count, never both",
			"a WriteTo worker that sent an error can also send a byte count (e.g. from its defer): the collector returns nil once it has counted len(keys) results, with the verification/read error still unread — a corrupted leaf is downloaded with err == nil")
	}
	if n == 0 {
		c.softUndecided("%s: chunkReader.WriteTo no longer has a worker goroutine sending on an error and a result channel", rule)
	}
}

// checkIteratorNilOnlyAtExhaustion (C04, C11, C12): fileIndex.downloadAll / reset / pack take a nil inner iterator as
// "no more objects". Every implementation of the two-level iterator may therefore return a nil inner iterator only at
// exhaustion (a test over its own cursor state), never for a particular element (e.g. an object without index file):
// everything after that element would be silently dropped.
func checkIteratorNilOnlyAtExhaustion(c *Ctx, rule string) {
	p := c.P
	n := 0
	for _, f := range p.FuncsIn("pkg/core") {
		if f.Decl.Body == nil || f.Decl.Name.Name != "Next" || f.Decl.Recv == nil {
			continue
		}
		sig := f.Obj.Type().(*types.Signature)
		if sig.Results().Len() != 2 || namedTypeID(sig.Results().At(1).Type()) != "pkg/core.indexIterator" {
			continue
		}
		n++
		info := f.Info()
		bad := ""
		var badPos token.Pos
		nNil := 0
		ast.Inspect(f.Decl.Body, func(nd ast.Node) bool {
			if _, isLit := nd.(*ast.FuncLit); isLit {
				return false
			}
			r, ok := nd.(*ast.ReturnStmt)
			if !ok || len(r.Results) != 2 || !isNil(info, r.Results[1]) {
				return true
			}
			nNil++
			okGuard := false
			for x := f.parentOf(r); x != nil; x = f.parentOf(x) {
				ifs, ok := x.(*ast.IfStmt)
				if !ok || !encloses(ifs.Body, r.Pos()) {
					continue
				}
				d := nos(describeExpr(f, ifs.Cond, 0))
				if d == "recv.iterated" || d == "(recv.i>=call:builtin.len(recv.splits))" {
					okGuard = true
				} else {
					bad, badPos = d, ifs.Pos()
				}
			}
			if !okGuard && bad == "" {
				bad, badPos = "no exhaustion test", r.Pos()
			}
			if okGuard && bad != "" {
				// nested under another condition as well: still a per-element decision
				okGuard = false
			}
			return true
		})
		c.check(bad == "" && nNil >= 1, rule, f.ID, p.Pos(f.Decl.Pos()),
			"the inner iterator is nil only when the cursor is exhausted ("+itoa(nNil)+" nil return)",
			"Next returns a nil inner iterator under `"+bad+"` (at "+p.Pos(badPos)+"), not only when its cursor is exhausted: the callers stop at the first nil, so every later object (split) is silently left out")
	}
	if n < 5 {
		c.fail(rule, "pkg/core:iterators", "-", "expected the 5 two-level index iterators confirmed by hand, found "+itoa(n))
	}
}

// checkListApplySiblings (C07 and every property whose operation iterates a listing: C09 rename, C10 squash, C12
// commit): the five List*Apply functions agree on how the two errors they can meet surface —
//   - the listing error returned by doSelect* inside the collecting goroutine is stored (plain assignment) in a
//     variable of the enclosing function, not in a variable declared inside the goroutine (shadowing drops it);
//   - the error of the applied function is stored in a *different* variable (the goroutine writes the first one
//     concurrently, and would overwrite an apply error with nil);
//   - both variables are returned when non-nil: each is the result of a return statement guarded by its own != nil test,
//     and the only `return nil` is the default.
func checkListApplySiblings(c *Ctx, rule string) {
	p := c.P
	for _, kind := range []string{"Repos", "Bundles", "Labels", "Diamonds", "Splits"} {
		f := p.Func("pkg/core.List" + kind + "Apply")
		info := f.Info()
		selID := "pkg/core.doSelect" + kind
		var listVar, applyVar *types.Var
		listWhy, applyWhy := "no call of doSelect"+kind+" in a goroutine", "the applied function's result is not stored"
		applyParam := paramVar(f, "apply")
		if applyParam == nil {
			// the function-typed parameter, whatever its name
			sig := f.Obj.Type().(*types.Signature)
			for i := 0; i < sig.Params().Len(); i++ {
				if _, isFn := sig.Params().At(i).Type().Underlying().(*types.Signature); isFn {
					applyParam = sig.Params().At(i)
				}
			}
		}
		ast.Inspect(f.Decl.Body, func(n ast.Node) bool {
			as, ok := n.(*ast.AssignStmt)
			if !ok || len(as.Rhs) != 1 {
				return true
			}
			call, ok := ast.Unparen(as.Rhs[0]).(*ast.CallExpr)
			if !ok || len(as.Lhs) != 1 {
				return true
			}
			id, ok := ast.Unparen(as.Lhs[0]).(*ast.Ident)
			if !ok {
				return true
			}
			isList := calleeID(info, call) == selID
			isApply := false
			if fid, ok := ast.Unparen(call.Fun).(*ast.Ident); ok && applyParam != nil && info.Uses[fid] == applyParam {
				isApply = true
			}
			if !isList && !isApply {
				return true
			}
			var v *types.Var
			if as.Tok == token.DEFINE {
				v, _ = info.Defs[id].(*types.Var)
			} else {
				v, _ = info.Uses[id].(*types.Var)
			}
			if isList {
				lit := innermostSeparateLit(p, f, call)
				switch {
				case v == nil:
					listWhy = "the listing error is not stored in a variable"
				case lit != nil && v.Pos() >= lit.Pos() && v.Pos() <= lit.End():
					listWhy = "the listing error is stored in a variable declared inside the collecting goroutine (shadowing): it never reaches the caller"
				default:
					listVar = v
				}
			} else {
				applyVar = v
			}
			return true
		})
		key := f.ID
		if listVar == nil {
			c.fail(rule, key+":listing-error", p.Pos(f.Decl.Pos()), listWhy+": a failed or truncated listing is returned as success")
			continue
		}
		c.ok(rule, key+":listing-error", p.Pos(f.Decl.Pos()), "the listing error is stored in a variable of the enclosing function")
		if applyVar == nil {
			c.fail(rule, key+":apply-error", p.Pos(f.Decl.Pos()), applyWhy)
			continue
		}
		c.check(applyVar != listVar, rule, key+":apply-error", p.Pos(f.Decl.Pos()),
			"the applied function's error has its own variable",
			"the applied function's error is stored in the variable the collecting goroutine assigns the listing result to: the goroutine overwrites it (with nil when the listing itself went well) — the operation driven by the listing reports success although a step failed")
		// both returned under their own non-nil test
		returned := map[*types.Var]bool{}
		nilReturns := 0
		ast.Inspect(f.Decl.Body, func(n ast.Node) bool {
			if _, isLit := n.(*ast.FuncLit); isLit {
				return false
			}
			r, ok := n.(*ast.ReturnStmt)
			if !ok || len(r.Results) != 1 {
				return true
			}
			if isNil(info, r.Results[0]) {
				nilReturns++
				return true
			}
			if id, ok := ast.Unparen(r.Results[0]).(*ast.Ident); ok {
				if v, ok := info.Uses[id].(*types.Var); ok {
					// guarded by `v != nil` in the enclosing case clause / if
					for x := f.parentOf(r); x != nil; x = f.parentOf(x) {
						var conds []ast.Expr
						switch s := x.(type) {
						case *ast.CaseClause:
							for _, e := range s.List {
								conds = append(conds, conjuncts(e)...)
							}
						case *ast.IfStmt:
							conds = conjuncts(s.Cond)
						}
						for _, cj := range conds {
							if be, ok := ast.Unparen(cj).(*ast.BinaryExpr); ok && be.Op == token.NEQ && isVar(info, be.X, v) && isNil(info, be.Y) {
								returned[v] = true
							}
						}
					}
				}
			}
			return true
		})
		c.check(returned[listVar] && returned[applyVar] && nilReturns == 1, rule, key+":both-returned", p.Pos(f.Decl.Pos()),
			"the listing error and the applied function's error are each returned when non-nil; nil is returned only otherwise",
			"List"+kind+"Apply no longer returns both the listing error and the applied function's error when non-nil (listing: "+boolStr(returned[listVar])+", apply: "+boolStr(returned[applyVar])+", nil returns: "+itoa(nilReturns)+")")
	}
}

// checkSpecificKeysPlumbing (C04): the list of keys the caller selected reaches the upload unchanged.
func checkSpecificKeysPlumbing(c *Ctx, rule string) {
	p := c.P
	f := p.Func("pkg/core.UploadSpecificKeys")
	n := 0
	for _, call := range p.BodyOf(f).findCalls(callTo("pkg/core.implUpload"), true) {
		n++
		okArgs := len(call.Args) >= 4 && describeExpr(f, call.Args[1], 0) == "param#1" && describeExpr(f, call.Args[3], 0) == "param#2"
		got := ""
		if len(call.Args) >= 4 {
			got = describeExpr(f, call.Args[3], 0)
		}
		c.check(okArgs, rule, callKey(f, call), p.Pos(call.Pos()),
			"the caller's key function is handed to the upload unchanged",
			"UploadSpecificKeys hands `"+got+"` to the upload instead of the caller's own key function: the names uploaded are not the names selected (a rewritten name uploads a namesake file or drops the file)")
	}
	if n != 1 {
		c.fail(rule, f.ID, p.Pos(f.Decl.Pos()), "expected one implUpload call in UploadSpecificKeys, found "+itoa(n))
	}
	g := p.Func("pkg/core.Upload")
	for _, call := range p.BodyOf(g).findCalls(callTo("pkg/core.implUpload"), true) {
		okArgs := len(call.Args) >= 4 && describeExpr(g, call.Args[1], 0) == "param#1" && describeExpr(g, call.Args[3], 0) == "nil"
		c.check(okArgs, rule, callKey(g, call), p.Pos(call.Pos()), "a whole-tree upload passes no key filter", "Upload no longer runs the whole-tree upload (nil key function) on its own bundle")
	}
}

// checkEOFByIdentity (C01, C03, C17): the blob-fetch loops of the cafs reader take exactly io.EOF as "blob complete".
// Any other test on the read error (its text, a looser classification) accepts a transfer cut short
// (io.ErrUnexpectedEOF, "unexpected EOF" from an HTTP body) as a complete leaf, which is then cached and served.
func checkEOFByIdentity(c *Ctx, rule string) {
	p := c.P
	n := 0
	for _, fid := range []string{"pkg/cafs.readLeafFunc", "pkg/cafs.chunkReader.Read"} {
		f := p.Func(fid)
		info := f.Info()
		// error variables bound to a Read of a blob reader
		errVars := map[*types.Var]*ast.CallExpr{}
		ast.Inspect(f.Decl.Body, func(nd ast.Node) bool {
			as, ok := nd.(*ast.AssignStmt)
			if !ok || len(as.Lhs) != 2 || len(as.Rhs) != 1 {
				return true
			}
			call, ok := ast.Unparen(as.Rhs[0]).(*ast.CallExpr)
			if !ok {
				return true
			}
			id := calleeID(info, call)
			if id != "io.Reader.Read" && id != "io.ReadCloser.Read" {
				return true
			}
			if eid, ok := as.Lhs[1].(*ast.Ident); ok {
				v, _ := info.Defs[eid].(*types.Var)
				if v == nil {
					v, _ = info.Uses[eid].(*types.Var)
				}
				if v != nil {
					errVars[v] = call
				}
			}
			return true
		})
		for v, call := range errVars {
			n++
			bad := ""
			var badPos token.Pos
			ast.Inspect(f.Decl.Body, func(nd ast.Node) bool {
				id, ok := nd.(*ast.Ident)
				if !ok || info.Uses[id] != v {
					return true
				}
				// is this use inside a condition (if / for / switch case / && || operand / bool assignment)?
				inCond := false
				var top ast.Node = id
				for x := f.parentOf(id); x != nil; x = f.parentOf(x) {
					switch s := x.(type) {
					case *ast.IfStmt:
						if s.Cond != nil && encloses(s.Cond, id.Pos()) {
							inCond = true
						}
					case *ast.ForStmt:
						if s.Cond != nil && encloses(s.Cond, id.Pos()) {
							inCond = true
						}
					case *ast.CaseClause:
						for _, e := range s.List {
							if encloses(e, id.Pos()) {
								inCond = true
							}
						}
					case *ast.AssignStmt, *ast.ValueSpec:
						// a boolean computed from the error (`eof := …e…`) is a condition in disguise
						if be, ok := top.(ast.Expr); ok {
							if tv, ok := info.Types[be]; ok && tv.Type != nil {
								if b, ok := tv.Type.Underlying().(*types.Basic); ok && b.Kind() == types.Bool {
									inCond = true
								}
							}
						}
					}
					if _, isStmt := x.(ast.Stmt); isStmt {
						break
					}
					top = x
				}
				if !inCond {
					return true
				}
				// allowed: e == nil, e != nil, e == io.EOF, e != io.EOF
				okForm := false
				if be, ok := f.parentOf(id).(*ast.BinaryExpr); ok && (be.Op == token.EQL || be.Op == token.NEQ) {
					other := be.Y
					if ast.Unparen(be.Y) == ast.Expr(id) {
						other = be.X
					}
					if isNil(info, other) || describeExpr(f, other, 0) == "global:io.EOF" {
						okForm = true
					}
				}
				if !okForm && bad == "" {
					par := f.parentOf(id)
					for i := 0; i < 3 && par != nil; i++ {
						if _, ok := par.(*ast.CallExpr); ok {
							break
						}
						par = f.parentOf(par)
					}
					bad, badPos = exprString(par), id.Pos()
				}
				return true
			})
			c.check(bad == "", rule, callKey(f, call), p.Pos(call.Pos()),
				"the blob read error is tested only by identity with nil / io.EOF",
				"the error of a blob read decides control flow through `"+bad+"` (at "+p.Pos(badPos)+") instead of identity with io.EOF: a transfer cut short (io.ErrUnexpectedEOF) is taken as a complete leaf, cached, and later reads return shifted or truncated content without error")
		}
	}
	if n < 2 {
		c.fail(rule, "pkg/cafs:blob-reads", "-", "expected the 2 blob read loops confirmed by hand (readLeafFunc, Read), found "+itoa(n))
	}
}

// checkNoRelabelAsMissing (C06, C07, C08, C10, C12): listings skip exactly the objects whose descriptor does not exist
// (ErrNotExists / ErrNotFound from the store). No function of the metadata layer may wrap an arbitrary error into one
// of these sentinels: a transient read failure would then make a live bundle / label / split silently vanish from
// listings, and squash, rename or commit act on the shortened list.
func checkNoRelabelAsMissing(c *Ctx, rule string) {
	p := c.P
	n := 0
	for _, pk := range []string{"pkg/core", "pkg/wal", "pkg/fuse", "pkg/context"} {
		for _, f := range p.FuncsIn(pk) {
			if f.Decl.Body == nil {
				continue
			}
			info := f.Info()
			ast.Inspect(f.Decl.Body, func(nd ast.Node) bool {
				call, ok := nd.(*ast.CallExpr)
				if !ok {
					return true
				}
				id := calleeID(info, call)
				if id != "pkg/errors.Error.Wrap" && id != "pkg/errors.Error.WrapWithLog" && id != "pkg/errors.Error.WrapMessage" {
					return true
				}
				sel := ast.Unparen(call.Fun).(*ast.SelectorExpr)
				recv := describeExpr(f, sel.X, 0)
				if !(hasSuffixAny(recv, ".ErrNotExists", ".ErrNotFound")) {
					return true
				}
				// wrapping nil (a pure sentinel with context) is fine; wrapping an error value relabels it
				var wrapped ast.Expr
				for _, a := range call.Args {
					if isErrorType(info.TypeOf(a)) && !isNil(info, a) {
						wrapped = a
					}
				}
				if wrapped == nil {
					return true
				}
				n++
				c.fail(rule, callKey(f, call), p.Pos(call.Pos()), "`"+exprString(call)+"` relabels an arbitrary error as \"does not exist\": listings skip such objects silently, so a transient store failure makes a live bundle, label or split vanish from a listing that reports success")
				return true
			})
		}
	}
	if n == 0 {
		c.ok(rule, "pkg/core+wal+fuse+context:scan", "-", "no function of the metadata layer wraps an error value into ErrNotExists / ErrNotFound (the store packages classify, the metadata layer only tests)")
	}
}

// checkReadErrorsFail (C17): in readAtBundle a backend read that failed with anything but EOF makes the operation
// fail: no success return is reachable on the failing branch (a short count without error is taken as end of file by
// the kernel, which zero-fills the rest).
func checkReadErrorsFail(c *Ctx, rule string) {
	p := c.P
	f := p.Func("pkg/fuse.readOnlyFsInternal.readAtBundle")
	b := p.BodyOf(f)
	info := f.Info()
	const clean, failed = 1, 2
	bad := 0
	nTests := 0
	b.run(flowSpec{
		entry: clean,
		node:  func(n ast.Node, s uint64) uint64 { return s },
		edge: func(blk *cfg.Block, i int, s uint64) uint64 {
			cond := condOf(blk)
			if cond == nil {
				return s
			}
			call, ok := ast.Unparen(cond).(*ast.CallExpr)
			isTest := ok && calleeID(info, call) == "pkg/fuse.errNotEOF"
			if be, ok := ast.Unparen(cond).(*ast.BinaryExpr); ok && be.Op == token.NEQ && isNil(info, be.Y) && isErrorType(info.TypeOf(be.X)) {
				isTest = true
			}
			if !isTest {
				return s
			}
			if i == 0 {
				nTests++
				return failed
			}
			return s
		},
		exit: func(blk *cfg.Block, ret *ast.ReturnStmt, s uint64) {
			if s&failed == 0 {
				return
			}
			if ret == nil || b.classifyReturn(ret) == retSuccess {
				bad++
			}
		},
	})
	c.check(bad == 0 && nTests >= 2, rule, f.ID, p.Pos(f.Decl.Pos()),
		"every branch taken on a failed backend read (other than EOF) ends in an error return",
		"readAtBundle can return success on the branch where the backend read failed with something else than EOF: the kernel takes the short count as end of file and the reader sees a truncated / zero-filled file without error")
}

// checkParamsEmittedUnconditionally (C21): in the four parameter-string builders, a string field of the parameter
// struct is appended whatever the values of the other fields: no emission sits under a condition that tests another
// string-valued field (fields believed to be mutually exclusive are not — YAML input sets any combination — and the
// shell side decodes what it is given).
func checkParamsEmittedUnconditionally(c *Ctx, rule string) {
	p := c.P
	n := 0
	for _, f := range p.FuncsIn("pkg/sidecar/param") {
		if f.Decl.Body == nil {
			continue
		}
		info := f.Info()
		ast.Inspect(f.Decl.Body, func(nd ast.Node) bool {
			call, ok := nd.(*ast.CallExpr)
			if !ok || calleeID(info, call) != "pkg/sidecar/param.appendToParamString" || len(call.Args) != 3 {
				return true
			}
			vsel, ok := ast.Unparen(call.Args[2]).(*ast.SelectorExpr)
			if !ok || info.Selections[vsel] == nil {
				return true // literal or computed value
			}
			n++
			bad := ""
			for x := f.parentOf(call); x != nil; x = f.parentOf(x) {
				ifs, ok := x.(*ast.IfStmt)
				if !ok || encloses(ifs.Cond, call.Pos()) {
					continue
				}
				ast.Inspect(ifs.Cond, func(m ast.Node) bool {
					sel, ok := m.(*ast.SelectorExpr)
					if !ok {
						return true
					}
					s := info.Selections[sel]
					if s == nil {
						return true
					}
					v, ok := s.Obj().(*types.Var)
					if !ok || !v.IsField() {
						return true
					}
					if b, ok := v.Type().Underlying().(*types.Basic); ok && b.Kind() == types.String {
						bad = exprString(ifs.Cond)
					}
					return true
				})
			}
			name, _ := constString(info, call.Args[1])
			c.check(bad == "", rule, callKey(f, call), p.Pos(call.Pos()),
				"parameter "+name+" is emitted whatever the other string fields hold",
				"parameter "+name+" is emitted only under `"+bad+"`, a test on another string field of the parameters: when both fields are set one of them is silently dropped from the encoded string")
			return true
		})
	}
	if n < 19 {
		c.fail(rule, "pkg/sidecar/param:emissions", "-", "expected at least the 19 field emissions confirmed by hand, found "+itoa(n))
	}
}

// checkRangeToReadAlwaysWalks (C22): getRangeToRead answers only from the marker walk: every return is preceded by the
// walk over the markers (a shortcut that answers "base" from the smallest marker alone forgets to clip the length at
// the first start marker).
func checkRangeToReadAlwaysWalks(c *Ctx, rule string) {
	p := c.P
	f := p.Func("pkg/filetracker.TFile.getRangeToRead")
	b := p.BodyOf(f)
	const noWalk, walked = 1, 2
	bad := 0
	nRet := 0
	b.run(flowSpec{
		entry: noWalk,
		node: func(n ast.Node, s uint64) uint64 {
			for _, call := range callsIn(n) {
				if hasSuffixAny(calleeID(b.Info(), call), "go-immutable-radix.Node.Walk") { // the full walk: a marker before the window decides where its first bytes come from
					return walked
				}
			}
			return s
		},
		exit: func(blk *cfg.Block, ret *ast.ReturnStmt, s uint64) {
			nRet++
			if s&noWalk != 0 {
				bad++
			}
		},
	})
	c.check(bad == 0 && nRet > 0, rule, f.ID, p.Pos(f.Decl.Pos()),
		"every return of getRangeToRead follows the walk over the markers",
		"getRangeToRead can return without walking the markers (a shortcut path): the length it reports is not clipped at the next marker, so a read range runs from base data into written data (or the reverse)")
}

// checkBackingFileTruncated (C18): inode numbers are recycled (allocINode pops the free list), so createNode must
// create the backing file of a new node empty: afero's Create, or OpenFile with O_CREATE|O_TRUNC, on the path of the
// new inode.
func checkBackingFileTruncated(c *Ctx, rule string) {
	p := c.P
	f := p.Func("pkg/fuse.fsMutable.createNode")
	info := f.Info()
	const id = "{param#1|recv.iNodeGenerator.allocINode()}"
	n := 0
	ok := false
	got := ""
	ast.Inspect(f.Decl.Body, func(nd ast.Node) bool {
		call, isCall := nd.(*ast.CallExpr)
		if !isCall {
			return true
		}
		switch calleeID(info, call) {
		case "github.com/spf13/afero.Fs.Create":
			n++
			pth := describeExpr(f, call.Args[0], 0)
			got = "Create(" + pth + ")"
			ok = pth == "call:fmt.Sprint("+id+")" || pth == "call:pkg/fuse.getPathToBackingFile("+id+")"
		case "github.com/spf13/afero.Fs.OpenFile":
			n++
			pth := describeExpr(f, call.Args[0], 0)
			got = "OpenFile(" + pth + ", " + describeExpr(f, call.Args[1], 0) + ")"
			if tv, okc := info.Types[call.Args[1]]; okc && tv.Value != nil {
				var flags int64
				if v, exact := constantInt64(tv.Value); exact {
					flags = v
				}
				const oCreate, oTrunc = 0x40, 0x200 // os.O_CREATE, os.O_TRUNC on linux (the only platform FUSE mounts build for here)
				ok = flags&oCreate != 0 && flags&oTrunc != 0 && (pth == "call:fmt.Sprint("+id+")" || pth == "call:pkg/fuse.getPathToBackingFile("+id+")")
			}
		}
		return true
	})
	c.check(n == 1 && ok, rule, f.ID, p.Pos(f.Decl.Pos()),
		"the backing file of a new node is created empty (truncating) under the new inode's number",
		"createNode opens the backing file with `"+got+"`, which does not truncate an existing file: inode numbers are recycled after unlink+forget, so a new file starts with the bytes of the removed file that had its number (visible in its size, its reads and the committed bundle)")
}

// checkCommitWalkerReleasesBeforeWaiting (C18): a directory walker of the commit gives its concurrency slot back before
// it waits for slots for its sub-directories; holding it (e.g. releasing in a function-level defer) dead-locks the
// commit on trees with more simultaneously waiting walkers than slots.
func checkCommitWalkerReleasesBeforeWaiting(c *Ctx, rule string) {
	p := c.P
	f := p.Func("pkg/fuse.commitUploadDir")
	b := p.BodyOf(f)
	info := f.Info()
	isSem := func(e ast.Expr) bool {
		return isStructChan(info.TypeOf(e)) && lastSelName(e) == "bufferedChanSem"
	}
	releases := func(n ast.Node) bool {
		found := false
		ast.Inspect(n, func(m ast.Node) bool {
			if u, ok := m.(*ast.UnaryExpr); ok && u.Op == token.ARROW && isSem(u.X) {
				found = true
			}
			return !found
		})
		return found
	}
	acquires := func(n ast.Node) bool {
		found := false
		ast.Inspect(n, func(m ast.Node) bool {
			if _, isLit := m.(*ast.FuncLit); isLit {
				return false
			}
			if s, ok := m.(*ast.SendStmt); ok && isSem(s.Chan) {
				found = true
			}
			return !found
		})
		return found
	}
	const held, released = 1, 2
	bad := false
	nAcq := 0
	b.run(flowSpec{
		entry: held,
		node: func(n ast.Node, s uint64) uint64 {
			if _, isDefer := n.(*ast.DeferStmt); isDefer {
				return s // runs at exit only
			}
			if _, isGo := n.(*ast.GoStmt); isGo {
				return s
			}
			// an in-place closure (or plain statement) that receives from the semaphore releases the slot when it completes
			if es, ok := n.(*ast.ExprStmt); ok {
				if call, ok := es.X.(*ast.CallExpr); ok {
					if lit, ok := ast.Unparen(call.Fun).(*ast.FuncLit); ok && releases(lit) {
						return released
					}
				}
				if releases(es) {
					return released
				}
			}
			if acquires(n) {
				nAcq++
				if s&held != 0 {
					bad = true
				}
			}
			return s
		},
	})
	c.check(!bad && nAcq > 0, rule, f.ID, p.Pos(f.Decl.Pos()),
		"the walker's own slot is released before it waits for a slot for a sub-directory",
		"commitUploadDir waits for a free slot (send into the semaphore) while still holding its own (the release runs only at function exit): on a tree where more walkers wait than there are slots every slot is held by a waiting walker and the commit never finishes")
}

// checkReadCountConsumed (C01, C02, C16): io.Reader may return n > 0 together with io.EOF. Every caller of Read in the
// data path must therefore use the count before it lets the error end the transfer successfully: on no path from a Read
// to a success exit of the function (a return whose error is certainly nil) may the count be unused.
// Scope: every function of pkg/cafs, pkg/storage and pkg/storage/localfs calling io.Reader.Read with both results bound.
func checkReadCountConsumed(c *Ctx, rule string) int {
	p := c.P
	n := 0
	for _, pk := range []string{"pkg/cafs", "pkg/storage", "pkg/storage/localfs"} {
		for _, f := range p.FuncsIn(pk) {
			if f.Decl.Body == nil {
				continue
			}
			info := f.Info()
			type site struct {
				call *ast.CallExpr
				nVar *types.Var
			}
			var sites []site
			ast.Inspect(f.Decl.Body, func(nd ast.Node) bool {
				as, ok := nd.(*ast.AssignStmt)
				if !ok || len(as.Lhs) != 2 || len(as.Rhs) != 1 {
					return true
				}
				call, ok := ast.Unparen(as.Rhs[0]).(*ast.CallExpr)
				if !ok {
					return true
				}
				id := calleeID(info, call)
				if id != "io.Reader.Read" && id != "io.ReadCloser.Read" {
					return true
				}
				nid, ok := as.Lhs[0].(*ast.Ident)
				if !ok || nid.Name == "_" {
					return true
				}
				v, _ := info.Defs[nid].(*types.Var)
				if v == nil {
					v, _ = info.Uses[nid].(*types.Var)
				}
				if v != nil {
					sites = append(sites, site{call, v})
				}
				return true
			})
			for _, s := range sites {
				n++
				var body *Body
				if l := innermostLit(f, s.call); l != nil {
					body = p.LitBody(f, l)
				} else {
					body = p.BodyOf(f)
				}
				const idle, pending = 1, 2
				var bad ast.Node
				usesN := func(nd ast.Node) bool {
					found := false
					ast.Inspect(nd, func(m ast.Node) bool {
						if _, isLit := m.(*ast.FuncLit); isLit {
							return false
						}
						if id, ok := m.(*ast.Ident); ok && info.Uses[id] == s.nVar {
							found = true
						}
						return !found
					})
					return found
				}
				body.run(flowSpec{
					entry: idle,
					node: func(nd ast.Node, st uint64) uint64 {
						if _, isDefer := nd.(*ast.DeferStmt); isDefer {
							return st
						}
						isSite := false
						for _, call := range callsIn(nd) {
							if call == s.call {
								isSite = true
							}
						}
						if isSite {
							return pending
						}
						if st&pending != 0 && usesN(nd) {
							// a use inside a pure condition (n == 0) does not consume the bytes, but any other does
							if _, isExpr := nd.(ast.Expr); !isExpr {
								return idle
							}
						}
						return st
					},
					exit: func(blk *cfg.Block, ret *ast.ReturnStmt, st uint64) {
						if st&pending == 0 || bad != nil {
							return
						}
						if ret == nil {
							if body.Sig == nil || body.errResultIndex() < 0 {
								return
							}
							bad = body.Block
							return
						}
						if body.errResultIndex() >= 0 && body.classifyReturn(ret) == retSuccess && !usesN(ret) {
							bad = ret
						}
					},
				})
				c.check(bad == nil, rule, callKey(f, s.call), p.Pos(s.call.Pos()),
					"the byte count of this Read is used on every path to a success return",
					"a success return is reachable from this Read without its byte count having been used (the error — typically io.EOF — is tested first): a reader that returns its last bytes together with io.EOF loses them, and the operation reports success with truncated content"+posOf(p, bad))
			}
		}
	}
	return n
}

func posOf(p *Prog, n ast.Node) string {
	if n == nil {
		return ""
	}
	return " (exit at " + p.Pos(n.Pos()) + ")"
}

// innermostLit returns the innermost function literal of f containing n, or nil.
func innermostLit(f *FuncInfo, n ast.Node) *ast.FuncLit {
	var best *ast.FuncLit
	for _, l := range f.Lits {
		if l.Pos() <= n.Pos() && n.End() <= l.End() {
			if best == nil || (l.Pos() >= best.Pos() && l.End() <= best.End()) {
				best = l
			}
		}
	}
	return best
}

// checkWriterIntakeClosedWorld (C01, C02): the leaf protocol of the cafs writer (buffer, offset, leaf counter, flush
// goroutines) is driven by Write / flush / Flush only. Another method taking bytes in (e.g. an io.ReaderFrom that io.Copy
// would prefer over Write) is a second, unreviewed implementation of the chunking: UNDECIDED until reviewed.
func checkWriterIntakeClosedWorld(c *Ctx, rule string) {
	p := c.P
	reviewed := map[string]string{
		"pkg/cafs.fsWriter.Write":   "the checked intake (window, hand-off, counter rules)",
		"pkg/cafs.fsWriter.flush":   "trailing leaf",
		"pkg/cafs.fsWriter.Flush":   "hand-shake and root",
		"pkg/cafs.defaultFs.writer": "constructor",
	}
	n := 0
	for _, f := range p.FuncsIn("pkg/cafs") {
		if f.Decl.Body == nil {
			continue
		}
		info := f.Info()
		touches := ""
		ast.Inspect(f.Decl.Body, func(nd ast.Node) bool {
			switch x := nd.(type) {
			case *ast.AssignStmt:
				for _, l := range x.Lhs {
					if sel, ok := ast.Unparen(l).(*ast.SelectorExpr); ok {
						if s := info.Selections[sel]; s != nil && namedTypeID(s.Recv()) == "pkg/cafs.fsWriter" && (sel.Sel.Name == "offset" || sel.Sel.Name == "buf" || sel.Sel.Name == "count") {
							touches = "assigns fsWriter." + sel.Sel.Name
						}
					}
				}
			case *ast.IncDecStmt:
				if sel, ok := ast.Unparen(x.X).(*ast.SelectorExpr); ok {
					if s := info.Selections[sel]; s != nil && namedTypeID(s.Recv()) == "pkg/cafs.fsWriter" && (sel.Sel.Name == "offset" || sel.Sel.Name == "count") {
						touches = "steps fsWriter." + sel.Sel.Name
					}
				}
			case *ast.GoStmt:
				if calleeID(info, x.Call) == "pkg/cafs.pFlush" {
					touches = "starts pFlush"
				}
			}
			return true
		})
		if touches == "" {
			continue
		}
		n++
		if why, ok := reviewed[f.ID]; ok {
			c.ok(rule, f.ID, p.Pos(f.Decl.Pos()), f.ID+" "+touches+": "+why)
			continue
		}
		// an unexported helper called only by the reviewed drivers is a piece of them (the hand-off, counter and window
		// rules follow such helpers)
		if !ast.IsExported(f.Decl.Name.Name) {
			cs := callersOf(p, f.ID)
			only := len(cs) > 0
			for _, s := range cs {
				// the drivers of the leaf protocol, not the constructor: a helper of the constructor that resets the
				// counters of an existing writer is a second life of that writer, which no rule covers
				if _, ok := reviewed[s.Fn.ID]; !ok || s.Fn.ID == "pkg/cafs.defaultFs.writer" {
					only = false
				}
			}
			if only {
				c.ok(rule, f.ID, p.Pos(f.Decl.Pos()), f.ID+" "+touches+": helper called only by the reviewed drivers")
				continue
			}
		}
		c.add(rule, f.ID, p.Pos(f.Decl.Pos()), OK, f.ID+" "+touches+": NOT reviewed")
		c.softUndecided("%s: %s %s but is not one of the reviewed drivers of the writer's leaf protocol (Write, flush, Flush): a second intake path (e.g. io.ReaderFrom, which io.Copy prefers over Write) chunks and hashes on its own and is not covered by the hand-off, counter and window rules", rule, f.ID, touches)
	}
	if n < 2 {
		c.fail(rule, "pkg/cafs:writer-drivers", "-", "expected the 2 functions driving the writer's buffer today (Write, flush), found "+itoa(n))
	}
}

// checkFlushGuard (C02): a trailing flush adds a leaf iff bytes are pending: the only early return of fsWriter.flush is
// `offset == 0`. (An empty content has no leaf: its key is the root over zero leaves.)
func checkFlushGuard(c *Ctx, rule string) {
	p := c.P
	f := p.Func("pkg/cafs.fsWriter.flush")
	ok := false
	got := "no early return"
	if len(f.Decl.Body.List) > 0 {
		if ifs, isIf := f.Decl.Body.List[0].(*ast.IfStmt); isIf && ifs.Init == nil && ifs.Else == nil {
			got = nos(describeExpr(f, ifs.Cond, 0))
			if len(ifs.Body.List) == 1 {
				if r, isRet := ifs.Body.List[0].(*ast.ReturnStmt); isRet && len(r.Results) == 2 && isNil(f.Info(), r.Results[1]) {
					ok = got == "(recv.offset==const:0)"
				}
			}
		}
	}
	c.check(ok, rule, f.ID, p.Pos(f.Decl.Pos()),
		"flush adds a leaf exactly when bytes are pending (early return iff offset == 0)",
		"the early return of fsWriter.flush is guarded by `"+got+"` instead of `offset == 0`: a zero-length leaf is hashed and stored for some contents (e.g. empty content), so their key is no longer the documented tree over their leaves and differs from keys computed before the change")
}

// checkDownloadWrites (C04, C05): a bundle entry download reports success only after it wrote the entry to the
// destination: every success return of downloadBundleEntrySyncMaybeOverwrite follows ConsumableStore.Put.
func checkDownloadWrites(c *Ctx, rule string) {
	p := c.P
	f := p.Func("pkg/core.downloadBundleEntrySyncMaybeOverwrite")
	b := p.BodyOf(f)
	isPut := func(bd *Body, call *ast.CallExpr) bool {
		if calleeID(bd.Info(), call) != "pkg/storage.Store.Put" {
			return false
		}
		sel := ast.Unparen(call.Fun).(*ast.SelectorExpr)
		return describeExpr(f, sel.X, 0) == "param#2.ConsumableStore"
	}
	bad, nSucc := b.mustPassBeforeSuccess(isPut)
	c.check(len(bad) == 0 && nSucc > 0, rule, f.ID, p.Pos(f.Decl.Pos()),
		"every success return follows the Put of the entry into the consumable store",
		"downloadBundleEntrySyncMaybeOverwrite can report success without writing the entry (e.g. because something already exists at that path): a truncated or foreign file is kept and the result differs from a fresh download")
}

// checkDeleteBundleCallers (C06): only the explicit delete operations call DeleteBundle.
func checkDeleteBundleCallers(c *Ctx, rule string) {
	p := c.P
	allowed := map[string]string{
		"pkg/core.DeleteRepo": "explicit repo deletion",
		"pkg/core.RepoSquash": "explicit squash",
	}
	n := 0
	for _, cs := range callersOf(p, "pkg/core.DeleteBundle") {
		if strings.HasPrefix(cs.Fn.ID, "cmd/") {
			continue // command line entry points of the explicit delete
		}
		n++
		why, ok := allowed[cs.Fn.ID]
		c.check(ok, rule, callKey(cs.Fn, cs.Call), p.Pos(cs.Call.Pos()),
			"DeleteBundle called from "+cs.Fn.ID+": "+why,
			"DeleteBundle is called from "+cs.Fn.ID+", which is not an explicit delete/squash operation: a bundle that is (or has just become) visible can lose its descriptor and file lists — e.g. a clean-up after a reported upload failure removes a bundle whose descriptor write did land, or one another writer just committed under the same ID")
	}
	if n < 2 {
		c.fail(rule, "pkg/core.DeleteBundle:callers", "-", "expected the 2 callers confirmed by hand, found "+itoa(n))
	}
}

// checkLocalfsDeleteOnlyKey (C16): localfs.Delete removes the object of its key and nothing else (in particular no
// parent directory: Put creates the directory and the file in two steps, and a concurrent create of a sibling key
// would fail with ENOENT in between).
func checkLocalfsDeleteOnlyKey(c *Ctx, rule string) {
	p := c.P
	f := p.Func("pkg/storage/localfs.localFS.Delete")
	info := f.Info()
	n := 0
	ast.Inspect(f.Decl.Body, func(nd ast.Node) bool {
		call, ok := nd.(*ast.CallExpr)
		if !ok {
			return true
		}
		id := calleeID(info, call)
		if !hasSuffixAny(id, "afero.Fs.Remove", "afero.Fs.RemoveAll", "afero.Fs.Rename") {
			return true
		}
		n++
		arg := describeExpr(f, call.Args[0], 0)
		c.check(arg == "param#1" && strings.HasSuffix(id, "afero.Fs.Remove"), rule, callKey(f, call), p.Pos(call.Pos()),
			"Delete removes exactly the file of its key",
			"localfs.Delete also removes `"+arg+"` (not the key it was given): removing a directory between a concurrent Put's MkdirAll and its OpenFile makes that create-if-absent write of a different, absent key fail — the store no longer behaves like a flat object store under concurrency")
		return true
	})
	if n == 0 {
		c.fail(rule, f.ID, p.Pos(f.Decl.Pos()), "localfs.Delete no longer removes the key's file")
	}
	// nor through a helper: a repository function called from Delete must not (transitively) remove or rename anything
	seen := map[string]bool{f.ID: true}
	var removes func(g *FuncInfo, depth int) string
	removes = func(g *FuncInfo, depth int) string {
		if g == nil || g.Decl.Body == nil || seen[g.ID] || depth > 3 {
			return ""
		}
		seen[g.ID] = true
		ginfo := g.Info()
		found := ""
		ast.Inspect(g.Decl.Body, func(nd ast.Node) bool {
			call, ok := nd.(*ast.CallExpr)
			if !ok || found != "" {
				return true
			}
			id := calleeID(ginfo, call)
			if hasSuffixAny(id, "afero.Fs.Remove", "afero.Fs.RemoveAll", "afero.Fs.Rename") {
				found = shortCallee(id) + " in " + g.ID
				return true
			}
			if fn, ok := calleeObj(ginfo, call).(*types.Func); ok {
				if r := removes(p.funcs[funcID(fn)], depth+1); r != "" {
					found = r
				}
			}
			return true
		})
		return found
	}
	ast.Inspect(f.Decl.Body, func(nd ast.Node) bool {
		call, ok := nd.(*ast.CallExpr)
		if !ok {
			return true
		}
		if fn, ok := calleeObj(info, call).(*types.Func); ok {
			if g := p.funcs[funcID(fn)]; g != nil {
				if r := removes(g, 0); r != "" {
					c.fail(rule, callKey(f, call), p.Pos(call.Pos()), "localfs.Delete also removes something else than its key ("+r+"): e.g. pruning a directory left empty races with a concurrent Put of another key under it (between that Put's MkdirAll / emptiness check and its write) — an absent key cannot be created, or another key's record is wiped")
				}
			}
		}
		return true
	})
}

// checkWALDecoderAcceptsWhatAddStores (C19): UnmarshalWAL fails only on nil input or on a YAML error: Add applies no
// content validation, so a decoder that rejects some contents (e.g. an empty payload) makes every listing whose window
// contains such an entry fail as a whole.
func checkWALDecoderAcceptsWhatAddStores(c *Ctx, rule string) {
	p := c.P
	f := p.Func("pkg/model.UnmarshalWAL")
	b := p.BodyOf(f)
	info := f.Info()
	bad := ""
	ast.Inspect(f.Decl.Body, func(nd ast.Node) bool {
		r, ok := nd.(*ast.ReturnStmt)
		if !ok || len(r.Results) != 2 || b.classifyReturn(r) == retSuccess {
			return true
		}
		// allowed: returning the yaml error variable, or a failure inside `if <param> == nil`
		if id, ok := ast.Unparen(r.Results[1]).(*ast.Ident); ok {
			if v, ok := info.Uses[id].(*types.Var); ok {
				for _, d := range defsOfVarWithIndex(f, v) {
					if call, ok := d.rhs.(*ast.CallExpr); ok && d.rhs != nil && calleeID(info, call) == "gopkg.in/yaml.v2.Unmarshal" {
						return true
					}
				}
			}
		}
		for x := f.parentOf(r); x != nil; x = f.parentOf(x) {
			if ifs, ok := x.(*ast.IfStmt); ok && encloses(ifs.Body, r.Pos()) {
				d := nos(describeExpr(f, ifs.Cond, 0))
				if d == "(param#0==nil)" {
					return true
				}
				if strings.Contains(d, "yaml.v2.Unmarshal(") {
					return true
				}
				bad = d
			}
		}
		if bad == "" {
			bad = "unconditional"
		}
		return true
	})
	c.check(bad == "", rule, f.ID, p.Pos(f.Decl.Pos()),
		"UnmarshalWAL fails only on nil input or a YAML error",
		"UnmarshalWAL rejects entries under `"+bad+"`, a content condition WAL.Add does not enforce: an entry Add accepted makes every ListEntries covering it fail")
}

// checkUploadBatchProtocol (C04, C06): the collector of uploadBundle keeps received entries in a batch and writes
// file lists from it. Typestate of the batch over the collector's CFG:
//
//	empty --append--> dirty --write(list)--> written --reset--> empty
//
// obligations: every received entry is appended (the receive case appends filePacked2BundleEntry of the received
// value); a batch is written exactly when it holds entriesPerFile entries; after a write the batch is reset before
// the next append; the bundle descriptor is written only with an empty or written batch (the final `len != 0` test
// guards the last write); a write never happens on an empty batch.
func checkUploadBatchProtocol(c *Ctx, rule string) {
	p := c.P
	f := p.Func("pkg/core.uploadBundle")
	b := p.BodyOf(f)
	info := f.Info()
	// the batch: the slice passed to uploadBundleEntriesFileList
	var batch *types.Var
	writes := b.findCalls(callTo("pkg/core.uploadBundleEntriesFileList"), false)
	for _, w := range writes {
		if len(w.Args) == 3 {
			if id, ok := ast.Unparen(w.Args[2]).(*ast.Ident); ok {
				if v, ok := info.Uses[id].(*types.Var); ok {
					if batch != nil && batch != v {
						c.fail(rule, f.ID+":batch", p.Pos(w.Pos()), "file lists are written from different variables: the batch protocol cannot be followed")
						return
					}
					batch = v
				}
			}
		}
	}
	if batch == nil || len(writes) != 2 {
		c.softUndecided("%s: uploadBundle no longer writes its file lists from one batch variable at two sites (threshold, final)", rule)
		return
	}
	isAppend := func(n ast.Node) bool {
		as, ok := n.(*ast.AssignStmt)
		if !ok || len(as.Lhs) != 1 || len(as.Rhs) != 1 || !isVar(info, as.Lhs[0], batch) {
			return false
		}
		call, ok := ast.Unparen(as.Rhs[0]).(*ast.CallExpr)
		return ok && calleeID(info, call) == "builtin.append" && len(call.Args) >= 2 && isVar(info, call.Args[0], batch)
	}
	isReset := func(n ast.Node) bool {
		as, ok := n.(*ast.AssignStmt)
		if !ok || len(as.Lhs) != 1 || len(as.Rhs) != 1 || !isVar(info, as.Lhs[0], batch) {
			return false
		}
		if se, ok := ast.Unparen(as.Rhs[0]).(*ast.SliceExpr); ok && isVar(info, se.X, batch) && se.Low == nil && se.High != nil {
			if tv, ok := info.Types[se.High]; ok && tv.Value != nil && tv.Value.ExactString() == "0" {
				return true
			}
		}
		if call, ok := ast.Unparen(as.Rhs[0]).(*ast.CallExpr); ok && calleeID(info, call) == "builtin.make" {
			return true
		}
		return false
	}
	lenCmp := func(cond ast.Expr) (op token.Token, rhs string, ok bool) {
		be, isBin := ast.Unparen(cond).(*ast.BinaryExpr)
		if !isBin {
			return 0, "", false
		}
		call, isCall := ast.Unparen(be.X).(*ast.CallExpr)
		if !isCall || calleeID(info, call) != "builtin.len" || len(call.Args) != 1 || !isVar(info, call.Args[0], batch) {
			return 0, "", false
		}
		return be.Op, describeExpr(f, be.Y, 0), true
	}
	const empty, dirty, written = 1, 2, 4
	var problems []string
	var probPos []token.Pos
	report := func(n ast.Node, msg string) {
		for _, m := range problems {
			if m == msg {
				return
			}
		}
		problems = append(problems, msg)
		probPos = append(probPos, n.Pos())
	}
	isDesc := callTo("pkg/core.uploadBundleDescriptor")
	nAppend := 0
	b.run(flowSpec{
		entry: empty,
		node: func(n ast.Node, s uint64) uint64 {
			if isAppend(n) {
				nAppend++
				if s&written != 0 {
					report(n, "an entry is appended to a batch that was already written as a file list and not reset: the next list repeats the entries of the previous one")
				}
				return dirty
			}
			if isReset(n) {
				return empty
			}
			for _, call := range callsIn(n) {
				if calleeID(info, call) == "pkg/core.uploadBundleEntriesFileList" {
					if s&empty != 0 {
						report(call, "a file list can be written from an empty batch")
					}
					s = written
				}
				if isDesc(b, call) && s&dirty != 0 {
					report(call, "the bundle descriptor is written while received entries are still in the batch, not in any file list: those files are missing from the bundle")
				}
			}
			return s
		},
		edge: func(blk *cfg.Block, i int, s uint64) uint64 {
			cond := condOf(blk)
			if cond == nil {
				return s
			}
			op, rhs, ok := lenCmp(cond)
			if !ok || rhs != "const:0" {
				return s
			}
			// len(batch) != 0 : false edge => empty ; len(batch) == 0 : true edge => empty
			emptyEdge := -1
			switch op {
			case token.NEQ, token.GTR:
				emptyEdge = 1
			case token.EQL:
				emptyEdge = 0
			}
			if i == emptyEdge {
				// only an unwritten-dirty batch can be non-empty; a written one was reset or is being left behind
				if s&(empty|written) != 0 || s&dirty != 0 {
					return empty
				}
			} else if emptyEdge >= 0 {
				return s &^ empty
			}
			return s
		},
	})
	// the threshold test
	okThreshold := false
	ast.Inspect(f.Decl.Body, func(n ast.Node) bool {
		ifs, ok := n.(*ast.IfStmt)
		if !ok {
			return true
		}
		op, rhs, isLen := lenCmp(ifs.Cond)
		if !isLen || rhs == "const:0" {
			return true
		}
		hasWrite := false
		ast.Inspect(ifs.Body, func(m ast.Node) bool {
			if call, ok := m.(*ast.CallExpr); ok && calleeID(info, call) == "pkg/core.uploadBundleEntriesFileList" {
				hasWrite = true
			}
			return true
		})
		if hasWrite && (op == token.EQL || op == token.GEQ) && rhs == "conv:int(param#2)" {
			okThreshold = true
		}
		return true
	})
	// the received value is what gets appended
	okRecv := false
	ast.Inspect(f.Decl.Body, func(n ast.Node) bool {
		cc, ok := n.(*ast.CommClause)
		if !ok {
			return true
		}
		as, ok := cc.Comm.(*ast.AssignStmt)
		if !ok || len(as.Lhs) != 1 {
			return true
		}
		rid, ok := as.Lhs[0].(*ast.Ident)
		if !ok {
			return true
		}
		rv := info.Defs[rid]
		for _, st := range cc.Body {
			if isAppend(st) {
				call := ast.Unparen(st.(*ast.AssignStmt).Rhs[0]).(*ast.CallExpr)
				if conv, ok := ast.Unparen(call.Args[1]).(*ast.CallExpr); ok && calleeID(info, conv) == "pkg/core.filePacked2BundleEntry" && len(conv.Args) == 1 {
					if id, ok := ast.Unparen(conv.Args[0]).(*ast.Ident); ok && info.Uses[id] == rv {
						okRecv = true
					}
				}
			}
		}
		return true
	})
	c.check(okRecv && nAppend > 0, rule, f.ID+":append-received", p.Pos(f.Decl.Pos()), "every received upload result is appended to the batch", "the collector no longer appends filePacked2BundleEntry(received value) to the batch in the receive case: uploaded files are missing from the file lists")
	c.check(okThreshold, rule, f.ID+":threshold", p.Pos(f.Decl.Pos()), "a file list is written when the batch holds entriesPerFile entries", "the batch is no longer written exactly when len(batch) == int(bundleEntriesPerFile): file lists hold another number of entries than the reader (position = index * entriesPerFile) assumes")
	if len(problems) == 0 {
		c.ok(rule, f.ID+":typestate", p.Pos(f.Decl.Pos()), "empty -append-> dirty -write-> written -reset-> empty holds on every path; the descriptor is written with no entry left unwritten")
	}
	for i, m := range problems {
		c.fail(rule, f.ID+":typestate", p.Pos(probPos[i]), m)
	}
}

// checkBuilderArgumentRoles (C06, C20 and every property whose keys are built by pkg/model): several path builders take
// two or more strings (repo, bundle ID, diamond ID, split ID, label…). An argument whose own name says it is another
// parameter of the same call (bundle.BundleID given for `repo` while `bundleID` exists) is a swap: the key built does not
// address the object meant. Only such cross-role evidence is reported; arguments whose name says nothing are accepted.
func checkBuilderArgumentRoles(c *Ctx, rule string, pkgs ...string) int {
	p := c.P
	stem := func(s string) string {
		s = strings.ToLower(s)
		for _, suf := range []string{"id", "name", "descriptor", "desc"} {
			s = strings.TrimSuffix(s, suf)
		}
		return s
	}
	roleOfArg := func(f *FuncInfo, e ast.Expr) string {
		info := f.Info()
		switch x := ast.Unparen(e).(type) {
		case *ast.Ident:
			return stem(x.Name)
		case *ast.SelectorExpr:
			n := x.Sel.Name
			if n == "ID" || n == "Name" {
				// b.ID: the role is the type of b
				if t := info.TypeOf(x.X); t != nil {
					id := namedTypeID(t)
					if i := strings.LastIndex(id, "."); i >= 0 {
						return stem(id[i+1:])
					}
				}
				return ""
			}
			return stem(n)
		}
		return ""
	}
	n := 0
	for _, pk := range pkgs {
		for _, f := range p.FuncsIn(pk) {
			if f.Decl.Body == nil {
				continue
			}
			info := f.Info()
			ast.Inspect(f.Decl.Body, func(nd ast.Node) bool {
				call, ok := nd.(*ast.CallExpr)
				if !ok {
					return true
				}
				fn, ok := calleeObj(info, call).(*types.Func)
				if !ok || fn.Pkg() == nil || !strings.HasPrefix(fn.Pkg().Path(), modPrefix) {
					return true
				}
				sig := fn.Type().(*types.Signature)
				if sig.Variadic() || sig.Params().Len() != len(call.Args) {
					return true
				}
				// string parameters with a role name
				roles := map[string]int{}
				for i := 0; i < sig.Params().Len(); i++ {
					pv := sig.Params().At(i)
					if b, ok := pv.Type().Underlying().(*types.Basic); ok && b.Kind() == types.String && pv.Name() != "" {
						if st := stem(pv.Name()); st != "" {
							roles[st] = i
						}
					}
				}
				if len(roles) < 2 {
					return true
				}
				n++
				bad := ""
				for st, i := range roles {
					got := roleOfArg(f, call.Args[i])
					if got == "" || got == st {
						continue
					}
					if j, isOther := roles[got]; isOther && j != i {
						bad = "argument #" + itoa(i+1) + " `" + exprString(call.Args[i]) + "` is given for parameter `" + sig.Params().At(i).Name() + "` although it names parameter `" + sig.Params().At(j).Name() + "` of the same call"
					}
				}
				c.check(bad == "", rule, callKey(f, call), p.Pos(call.Pos()),
					"string arguments of "+shortCallee(funcID(fn))+" are not crossed",
					"call of "+shortCallee(funcID(fn))+": "+bad+": the two values are swapped, so the key / object addressed is not the one meant")
				return true
			})
		}
	}
	return n
}

// checkBatchDistributesAllKeys (C07, C08, C10, C12): each fetch*Batch hands the whole batch of keys it was given to
// the workers: one distributeKeys call on the unsliced keys parameter (a partition computed by hand drops the
// remainder of a division: the last keys of a batch are silently not listed).
func checkBatchDistributesAllKeys(c *Ctx, rule string) {
	p := c.P
	n := 0
	for _, kind := range []string{"Repo", "Bundle", "Label", "Diamond", "Split"} {
		f := p.FuncOpt("pkg/core.fetch" + kind + "Batch")
		if f == nil {
			continue
		}
		n++
		// the []string parameter
		keysIdx := -1
		sig := f.Obj.Type().(*types.Signature)
		for i := 0; i < sig.Params().Len(); i++ {
			if sl, ok := sig.Params().At(i).Type().Underlying().(*types.Slice); ok {
				if b, ok := sl.Elem().Underlying().(*types.Basic); ok && b.Kind() == types.String {
					keysIdx = i
				}
			}
		}
		calls := p.BodyOf(f).findCalls(callTo("pkg/core.distributeKeys"), true)
		ok := keysIdx >= 0 && len(calls) == 1 && len(calls[0].Args) == 1 && describeExpr(f, calls[0].Args[0], 0) == "param#"+itoa(keysIdx)
		got := ""
		for _, cl := range calls {
			got += describeExpr(f, cl.Args[0], 0) + " "
		}
		// and not inside a loop
		if ok {
			for x := f.parentOf(calls[0]); x != nil; x = f.parentOf(x) {
				switch x.(type) {
				case *ast.ForStmt, *ast.RangeStmt:
					ok = false
				}
			}
		}
		c.check(ok, rule, f.ID, p.Pos(f.Decl.Pos()),
			"the whole batch of keys is distributed to the workers, once",
			f.ID+" distributes `"+strings.TrimSpace(got)+"` ("+itoa(len(calls))+" distributeKeys call(s)) instead of its whole keys parameter once: keys of the batch that fall outside the hand-made shares are never fetched and the listing silently misses them")
	}
	if n < 5 {
		c.fail(rule, "pkg/core:fetch-batches", "-", "expected the 5 fetch*Batch functions, found "+itoa(n))
	}
}

// checkUpdateRunsAllPhases (C05): Update reports success only after the data phase (unpackDataFiles, which also swaps the
// metadata to the source bundle) ran: a shortcut "nothing to do" leaves the previous bundle's metadata in place.
func checkUpdateRunsAllPhases(c *Ctx, rule string) {
	p := c.P
	u := p.Func("pkg/core.Update")
	bad, nSucc := p.BodyOf(u).mustPassBeforeSuccess(callTo("pkg/core.unpackDataFiles"))
	c.check(len(bad) == 0 && nSucc > 0, rule, u.ID, p.Pos(u.Decl.Pos()),
		"every success return of Update follows unpackDataFiles",
		"Update can report success without running unpackDataFiles (data phase and metadata swap): the directory keeps the previous bundle's descriptor and file lists, so it is not what a fresh download of the target bundle gives")
	w := p.Func("pkg/core.unpackDataFiles")
	// in update mode (destination given) the metadata of the source is republished before success
	wb := p.BodyOf(w)
	bad2, nS2 := wb.mustPassBeforeSuccess(func(bd *Body, call *ast.CallExpr) bool {
		id := calleeID(bd.Info(), call)
		return id == "pkg/core.PublishMetadata" || id == "pkg/core.implPublishMetadata"
	})
	// success returns reached with bundleDest == nil (plain download) are exempt: they are the ones inside / after the `bundleDest != nil` test's false edge;
	// approximated: at most the returns that are not dominated by the update branch
	updReturns := 0
	for _, r := range bad2 {
		for x := w.parentOf(r); x != nil; x = w.parentOf(x) {
			if ifs, ok := x.(*ast.IfStmt); ok && encloses(ifs.Body, r.Pos()) && strings.Contains(nos(describeExpr(w, ifs.Cond, 0)), "param#2!=nil") {
				updReturns++
			}
		}
	}
	c.check(updReturns == 0 && nS2 > 0, rule, w.ID+":metadata-swap", p.Pos(w.Decl.Pos()),
		"in update mode no success return precedes the republication of the source bundle's metadata",
		"unpackDataFiles can return success in update mode (destination bundle given) before republishing the source bundle's metadata")
}

// checkReadAtOffsetWithinLeaf (C01, C17): ReadAt slices the leaf it obtained at the within-leaf offset derived from the
// caller's file offset. The last leaf is partial, so that offset can exceed its length (any read past the end of the
// object that still falls inside the last leaf's index range): the slice must be guarded by a comparison of the offset
// with the leaf's length, otherwise the process serving the mount panics.
func checkReadAtOffsetWithinLeaf(c *Ctx, rule string) {
	p := c.P
	f := p.Func("pkg/cafs.chunkReader.ReadAt")
	info := f.Info()
	n := 0
	ast.Inspect(f.Decl.Body, func(nd ast.Node) bool {
		se, ok := nd.(*ast.SliceExpr)
		if !ok || se.Low == nil || se.High != nil {
			return true
		}
		// a leaf's bytes: buffer.Bytes()[offset:] or a variable bound to it
		base := describeExprAt(f, se.X)
		if !strings.HasSuffix(base, ".Bytes()") {
			return true
		}
		low, ok := ast.Unparen(se.Low).(*ast.Ident)
		if !ok {
			return true
		}
		lv, _ := info.Uses[low].(*types.Var)
		n++
		guarded := false
		for x := f.parentOf(se); x != nil; x = f.parentOf(x) {
			ifs, ok := x.(*ast.IfStmt)
			if !ok || !encloses(ifs.Body, se.Pos()) {
				continue
			}
			for _, cj := range conjuncts(ifs.Cond) {
				be, ok := ast.Unparen(cj).(*ast.BinaryExpr)
				if !ok {
					continue
				}
				strip := func(e ast.Expr) ast.Expr {
					e = ast.Unparen(e)
					if cv, ok := e.(*ast.CallExpr); ok && len(cv.Args) == 1 {
						if tv, ok := info.Types[cv.Fun]; ok && tv.IsType() {
							return ast.Unparen(cv.Args[0])
						}
					}
					return e
				}
				x0, y0 := strip(be.X), strip(be.Y)
				isLen := func(e ast.Expr) bool {
					call, ok := e.(*ast.CallExpr)
					return ok && calleeID(info, call) == "builtin.len" && len(call.Args) == 1 && describeExprAt(f, call.Args[0]) == base
				}
				if (be.Op == token.LSS || be.Op == token.LEQ) && isVar(info, x0, lv) && isLen(y0) {
					guarded = true
				}
				if (be.Op == token.GTR || be.Op == token.GEQ) && isLen(x0) && isVar(info, y0, lv) {
					guarded = true
				}
			}
		}
		c.check(guarded, rule, f.ID+":leaf-slice#"+itoa(n), p.Pos(se.Pos()),
			"the within-leaf offset is compared with the leaf's length before the leaf is sliced",
			"ReadAt slices the leaf at the within-leaf offset without comparing it with the leaf's length: a read at an offset past the end of the object that still falls in the last (partial) leaf panics with slice bounds out of range")
		return true
	})
	if n == 0 {
		c.softUndecided("%s: chunkReader.ReadAt no longer slices a leaf buffer at a within-leaf offset", rule)
	}
}

// checkNoReuseAfterSend (C07 and the properties built on listings): a slice handed to another goroutine through a
// channel is not recycled by the sender: `buf = append(buf[:0], …)` on a slice that also flows into a send (directly or
// inside a composite literal) overwrites a page the consumers are still reading — keys of earlier pages vanish, later
// ones appear twice, and nothing reports an error.
func checkNoReuseAfterSend(c *Ctx, rule string, pkgs ...string) int {
	p := c.P
	n := 0
	for _, pk := range pkgs {
		for _, f := range p.FuncsIn(pk) {
			if f.Decl.Body == nil {
				continue
			}
			info := f.Info()
			// recycled slices
			recycled := map[*types.Var]ast.Node{}
			ast.Inspect(f.Decl.Body, func(nd ast.Node) bool {
				as, ok := nd.(*ast.AssignStmt)
				if !ok || len(as.Lhs) != 1 || len(as.Rhs) != 1 {
					return true
				}
				id, ok := ast.Unparen(as.Lhs[0]).(*ast.Ident)
				if !ok {
					return true
				}
				v, _ := info.Uses[id].(*types.Var)
				if v == nil {
					v, _ = info.Defs[id].(*types.Var)
				}
				if v == nil {
					return true
				}
				isReset := func(e ast.Expr) bool {
					se, ok := ast.Unparen(e).(*ast.SliceExpr)
					if !ok || !isVar(info, se.X, v) || se.Low != nil || se.High == nil {
						return false
					}
					tv, ok := info.Types[se.High]
					return ok && tv.Value != nil && tv.Value.ExactString() == "0"
				}
				if isReset(as.Rhs[0]) { // x = x[:0]
					recycled[v] = as
					return true
				}
				call, ok := ast.Unparen(as.Rhs[0]).(*ast.CallExpr)
				if !ok || calleeID(info, call) != "builtin.append" || len(call.Args) < 1 {
					return true
				}
				if isReset(call.Args[0]) { // x = append(x[:0], …)
					recycled[v] = as
				}
				return true
			})
			if len(recycled) == 0 {
				continue
			}
			for v, at := range recycled {
				n++
				sent := false
				var sendPos token.Pos
				ast.Inspect(f.Decl.Body, func(nd ast.Node) bool {
					switch x := nd.(type) {
					case *ast.SendStmt:
						if usesObj(info, x.Value, v) {
							sent, sendPos = true, x.Pos()
						}
					case *ast.GoStmt:
						// handed to (or captured by) a goroutine
						if usesObj(info, x.Call, v) {
							sent, sendPos = true, x.Pos()
						}
					}
					return true
				})
				c.check(!sent, rule, f.ID+":"+v.Name(), p.Pos(at.Pos()),
					"the recycled slice never leaves the goroutine",
					"slice `"+v.Name()+"` is recycled in place (x[:0]) and also handed to another goroutine (channel send or go statement at "+p.Pos(sendPos)+"): the receiver still reads the previous contents when the next batch overwrites them — items are lost or duplicated without any error")
			}
		}
	}
	return n
}

// checkEmptyObjectReadable (C01): the writer stores an empty content as a root blob holding the root key only (no leaf
// key). The readers of root blobs must accept that: no failure of verifiedKeys / LeafKeys is conditioned on the number
// of leaf keys being zero.
func checkEmptyObjectReadable(c *Ctx, rule string) {
	p := c.P
	for _, fid := range []string{"pkg/cafs.verifiedKeys", "pkg/cafs.LeafKeys", "pkg/cafs.leavesForHash"} {
		f := p.FuncOpt(fid)
		if f == nil || f.Decl.Body == nil {
			continue
		}
		info := f.Info()
		b := p.BodyOf(f)
		bad := ""
		ast.Inspect(f.Decl.Body, func(nd ast.Node) bool {
			ifs, ok := nd.(*ast.IfStmt)
			if !ok {
				return true
			}
			// condition comparing the length of a []Key / the number of keys with 0
			isEmptyTest := false
			for _, cj := range conjuncts(ifs.Cond) {
				be, ok := ast.Unparen(cj).(*ast.BinaryExpr)
				if !ok {
					continue
				}
				call, ok := ast.Unparen(be.X).(*ast.CallExpr)
				if !ok || calleeID(info, call) != "builtin.len" || len(call.Args) != 1 {
					continue
				}
				if sl, ok := info.TypeOf(call.Args[0]).Underlying().(*types.Slice); ok && namedTypeID(sl.Elem()) == "pkg/cafs.Key" {
					if tv, ok := info.Types[be.Y]; ok && tv.Value != nil && (tv.Value.ExactString() == "0" || tv.Value.ExactString() == "1") && (be.Op == token.EQL || be.Op == token.LSS || be.Op == token.LEQ) {
						isEmptyTest = true
					}
				}
			}
			if !isEmptyTest || len(ifs.Body.List) == 0 {
				return true
			}
			if r, ok := ifs.Body.List[len(ifs.Body.List)-1].(*ast.ReturnStmt); ok && b.classifyReturn(r) == retFailure {
				bad = exprString(ifs.Cond)
			}
			return true
		})
		c.check(bad == "", rule, fid, p.Pos(f.Decl.Pos()),
			"a root blob without leaf keys (the empty object) is accepted",
			fid+" fails when `"+bad+"`: the writer stores the empty content as a root blob with no leaf key, so an empty file can be written but not read back")
	}
}

// checkWriterChannelsUnbuffered (C01, C02, C15): the flush goroutines hand keys and errors to the writer's flush thread
// through unbuffered channels: a flusher's slot is released only after its value was received, so the hand-shake of
// Flush (all slots re-acquired) implies everything was collected. A buffered channel lets the hand-shake overtake a
// queued error.
func checkWriterChannelsUnbuffered(c *Ctx, rule string) {
	p := c.P
	n := 0
	for _, f := range p.FuncsIn("pkg/cafs") {
		if f.Decl.Body == nil {
			continue
		}
		info := f.Info()
		check := func(field string, val ast.Expr, at ast.Node) {
			call, ok := ast.Unparen(val).(*ast.CallExpr)
			if !ok || calleeID(info, call) != "builtin.make" {
				return
			}
			// the hand-over channels, told apart by what they carry: a flushed leaf's key (blobFlush) or its error
			ch, ok := info.TypeOf(val).Underlying().(*types.Chan)
			if !ok || !(isErrorType(ch.Elem()) || namedTypeID(ch.Elem()) == "pkg/cafs.blobFlush") {
				return
			}
			n++
			unb := len(call.Args) == 1
			if len(call.Args) == 2 {
				if tv, ok := info.Types[call.Args[1]]; ok && tv.Value != nil && tv.Value.ExactString() == "0" {
					unb = true
				}
			}
			c.check(unb, rule, f.ID+":"+field, p.Pos(at.Pos()),
				"fsWriter."+field+" is unbuffered",
				"fsWriter."+field+" is created buffered: a flush goroutine can queue its value, release its slot and let Flush complete its hand-shake before the flush thread received it — a failed leaf write is lost and Put returns a key over fewer leaves")
		}
		ast.Inspect(f.Decl.Body, func(nd ast.Node) bool {
			switch x := nd.(type) {
			case *ast.CompositeLit:
				if namedTypeID(info.TypeOf(x)) == "pkg/cafs.fsWriter" {
					for _, el := range x.Elts {
						if kv, ok := el.(*ast.KeyValueExpr); ok {
							if id, ok := kv.Key.(*ast.Ident); ok {
								check(id.Name, kv.Value, kv)
							}
						}
					}
				}
			case *ast.AssignStmt:
				for i, l := range x.Lhs {
					if sel, ok := ast.Unparen(l).(*ast.SelectorExpr); ok && i < len(x.Rhs) {
						if s := info.Selections[sel]; s != nil && namedTypeID(s.Recv()) == "pkg/cafs.fsWriter" {
							check(sel.Sel.Name, x.Rhs[i], x)
						}
					}
				}
			}
			return true
		})
	}
	if n < 2 {
		c.fail(rule, "pkg/cafs:writer-channels", "-", "expected the 2 channel creations of the writer (flushChan, errC), found "+itoa(n))
	}
}

// checkNoStreamInRetry (C01, C04): the source of a Put is a one-shot stream. It must not be consumed inside the operand
// of a retry loop: a second attempt copies only what the first left (usually nothing) and succeeds with a truncated or
// empty object.
func checkNoStreamInRetry(c *Ctx, rule string, pkgs ...string) int {
	p := c.P
	n := 0
	for _, pk := range pkgs {
		for _, f := range p.FuncsIn(pk) {
			if f.Decl.Body == nil {
				continue
			}
			info := f.Info()
			// io.Reader-typed parameters of f
			var streams []*types.Var
			sig := f.Obj.Type().(*types.Signature)
			for i := 0; i < sig.Params().Len(); i++ {
				pv := sig.Params().At(i)
				if id := namedTypeID(pv.Type()); id == "io.Reader" || id == "io.ReadCloser" {
					streams = append(streams, pv)
				}
			}
			if len(streams) == 0 {
				continue
			}
			ast.Inspect(f.Decl.Body, func(nd ast.Node) bool {
				call, ok := nd.(*ast.CallExpr)
				if !ok || !strings.HasSuffix(calleeID(info, call), "backoff/v4.Retry") || len(call.Args) < 1 {
					return true
				}
				n++
				var operand *ast.FuncLit
				switch a := ast.Unparen(call.Args[0]).(type) {
				case *ast.FuncLit:
					operand = a
				case *ast.Ident:
					if v, ok := info.Uses[a].(*types.Var); ok {
						for _, d := range defsOfVarWithIndex(f, v) {
							if l, ok := d.rhs.(*ast.FuncLit); ok && d.rhs != nil {
								operand = l
							}
						}
					}
				}
				bad := ""
				if operand != nil {
					for _, sv := range streams {
						if usesObj(info, operand.Body, sv) {
							bad = sv.Name()
						}
					}
				}
				c.check(bad == "", rule, callKey(f, call), p.Pos(call.Pos()),
					"the retried operand does not consume a stream parameter",
					"the operand retried by backoff.Retry consumes the stream parameter `"+bad+"` of "+f.ID+": a one-shot reader cannot be replayed, so a retry after a transient failure copies only the rest of the stream and reports success for a truncated object")
				return true
			})
		}
	}
	return n
}

// checkLabelVersionSplitGuarded (C08): the `{key}#{version}` convention is internal to versioned listings. getLabelAsync
// may split a key on '#' only when versions were requested: label names may hold '#'.
func checkLabelVersionSplitGuarded(c *Ctx, rule string) {
	p := c.P
	f := p.Func("pkg/core.getLabelAsync")
	info := f.Info()
	n := 0
	ast.Inspect(f.Decl.Body, func(nd ast.Node) bool {
		call, ok := nd.(*ast.CallExpr)
		if !ok {
			return true
		}
		id := calleeID(info, call)
		if !(id == "strings.Split" || id == "strings.SplitN" || id == "strings.Cut" || id == "strings.Index" || id == "strings.LastIndex") || len(call.Args) < 2 {
			return true
		}
		if s, ok := constString(info, call.Args[1]); !ok || s != "#" {
			return true
		}
		n++
		guarded := false
		for x := f.parentOf(call); x != nil; x = f.parentOf(x) {
			if ifs, ok := x.(*ast.IfStmt); ok && encloses(ifs.Body, call.Pos()) {
				for _, cj := range conjuncts(ifs.Cond) {
					if id, ok := ast.Unparen(cj).(*ast.Ident); ok {
						if v, ok := info.Uses[id].(*types.Var); ok && paramIndex(f, v) >= 0 {
							if b, ok := v.Type().Underlying().(*types.Basic); ok && b.Kind() == types.Bool {
								guarded = true
							}
						}
					}
				}
			}
		}
		c.check(guarded, rule, callKey(f, call), p.Pos(call.Pos()),
			"a key is split on '#' only when versions were requested",
			"getLabelAsync splits every key on '#', also for non-versioned listings: a label whose name holds '#' can be set and read by name but makes every listing that covers it fail (or lists it under a truncated name)")
		return true
	})
	if n == 0 {
		c.softUndecided("%s: getLabelAsync no longer splits versioned keys on '#'", rule)
	}
}

// checkDeleteRepoRemovesEveryLabel (C09): DeleteRepo deletes each label of the listing of all labels of the repository
// (a loop ranging directly over that listing calls DeleteLabel with the element's name): labels that point to no
// listed bundle must go too, or they reappear in a repository later created under the same name.
func checkDeleteRepoRemovesEveryLabel(c *Ctx, rule string) {
	p := c.P
	f := p.Func("pkg/core.DeleteRepo")
	info := f.Info()
	ok := false
	ast.Inspect(f.Decl.Body, func(nd ast.Node) bool {
		rs, isR := nd.(*ast.RangeStmt)
		if !isR {
			return true
		}
		d := describeExprAt(f, rs.X)
		if !strings.HasPrefix(d, "call:pkg/core.ListLabels(param#0,") {
			return true
		}
		vid, _ := rs.Value.(*ast.Ident)
		if vid == nil {
			return true
		}
		rv := info.Defs[vid]
		// DeleteLabel(repo, stores, <elem>.Name, …) directly in this loop's body (not in a nested loop over something else)
		for _, st := range rs.Body.List {
			ast.Inspect(st, func(m ast.Node) bool {
				if _, nested := m.(*ast.RangeStmt); nested {
					return false
				}
				if call, isC := m.(*ast.CallExpr); isC && calleeID(info, call) == "pkg/core.DeleteLabel" && len(call.Args) >= 3 {
					if sel, isS := ast.Unparen(call.Args[2]).(*ast.SelectorExpr); isS && sel.Sel.Name == "Name" {
						if id, isI := ast.Unparen(sel.X).(*ast.Ident); isI && info.Uses[id] == rv && describeExpr(f, call.Args[0], 0) == "param#0" {
							ok = true
						}
					}
				}
				return true
			})
		}
		return true
	})
	c.check(ok, rule, f.ID, p.Pos(f.Decl.Pos()),
		"every label of the repository's label listing is deleted",
		"DeleteRepo no longer calls DeleteLabel for each element of the listing of all labels of the repository (e.g. it deletes only the labels of listed bundles): a label pointing to no listed bundle survives and shows up in a repository later created under the same name")
}

// checkShortReadIsNotEOF (C01, C03): a Read that returns fewer bytes than asked is legal and does not mean the stream
// is exhausted. The leaf read loops of pkg/cafs may leave the loop on an error, on io.EOF or on a zero-byte read, never
// on a comparison of the count with the room that was offered.
func checkShortReadIsNotEOF(c *Ctx, rule string) {
	p := c.P
	n := 0
	for _, f := range p.FuncsIn("pkg/cafs") {
		if f.Decl.Body == nil {
			continue
		}
		info := f.Info()
		ast.Inspect(f.Decl.Body, func(nd ast.Node) bool {
			loop, ok := nd.(*ast.ForStmt)
			if !ok {
				return true
			}
			// count variables of Read calls made directly in this loop
			counts := map[types.Object]*ast.CallExpr{}
			ast.Inspect(loop.Body, func(m ast.Node) bool {
				as, ok := m.(*ast.AssignStmt)
				if !ok || len(as.Lhs) != 2 || len(as.Rhs) != 1 {
					return true
				}
				call, ok := ast.Unparen(as.Rhs[0]).(*ast.CallExpr)
				if !ok {
					return true
				}
				sel, ok := ast.Unparen(call.Fun).(*ast.SelectorExpr)
				if !ok || sel.Sel.Name != "Read" || len(call.Args) != 1 {
					return true
				}
				if id, ok := as.Lhs[0].(*ast.Ident); ok {
					if o := info.ObjectOf(id); o != nil {
						counts[o] = call
					}
				}
				return true
			})
			for o, call := range counts {
				n++
				bad := ""
				ast.Inspect(loop.Body, func(m ast.Node) bool {
					ifs, ok := m.(*ast.IfStmt)
					if !ok || len(ifs.Body.List) == 0 {
						return true
					}
					switch last := ifs.Body.List[len(ifs.Body.List)-1].(type) {
					case *ast.BranchStmt:
						if last.Tok != token.BREAK {
							return true
						}
					case *ast.ReturnStmt:
					default:
						return true
					}
					ast.Inspect(ifs.Cond, func(e ast.Node) bool {
						be, ok := e.(*ast.BinaryExpr)
						if !ok {
							return true
						}
						switch be.Op {
						case token.LSS, token.LEQ, token.NEQ, token.GTR, token.GEQ:
						default:
							return true
						}
						for i, side := range []ast.Expr{be.X, be.Y} {
							id, ok := ast.Unparen(side).(*ast.Ident)
							if !ok || info.Uses[id] != o {
								continue
							}
							other := []ast.Expr{be.Y, be.X}[i]
							if tv, ok := info.Types[other]; ok && tv.Value != nil && tv.Value.ExactString() == "0" {
								continue
							}
							// n < something (or something > n): a short-read test
							if (i == 0 && (be.Op == token.LSS || be.Op == token.LEQ || be.Op == token.NEQ)) || (i == 1 && (be.Op == token.GTR || be.Op == token.GEQ || be.Op == token.NEQ)) {
								bad = exprString(be)
							}
						}
						return true
					})
					return true
				})
				c.check(bad == "", rule, callKey(f, call), p.Pos(call.Pos()),
					"the read loop is left on an error, io.EOF or a zero-byte read only",
					"the read loop of "+f.ID+" stops when `"+bad+"`: a short read is legal io.Reader behaviour, so a leaf delivered in several reads is truncated (hash verification fails on an intact object, or too few bytes are served when verification is off)")
			}
			return true
		})
	}
	if n < 2 {
		c.fail(rule, "pkg/cafs:read-loops", "-", "expected the 2 leaf read loops of pkg/cafs (readLeaf, chunkReader.Read), found "+itoa(n))
	}
}

// checkCacheOnlyVerifiedLeaves (C03, C15): cache hits are served without verification, so a leaf enters the LRU cache
// only after readLeaf returned it with a nil error (readLeaf verifies before returning).
func checkCacheOnlyVerifiedLeaves(c *Ctx, rule string) {
	p := c.P
	n := 0
	// the two function-valued fields of chunkReader are told apart by their signatures (never by name):
	// the cache insertion takes (Key, LeafBuffer) and returns nothing, the leaf loader returns (LeafBuffer, bool, error)
	fieldCallSig := func(info *types.Info, call *ast.CallExpr) *types.Signature {
		sel, ok := ast.Unparen(call.Fun).(*ast.SelectorExpr)
		if !ok {
			return nil
		}
		s := info.Selections[sel]
		if s == nil || s.Kind() != types.FieldVal || namedTypeID(s.Recv()) != "pkg/cafs.chunkReader" {
			return nil
		}
		sig, _ := s.Type().Underlying().(*types.Signature)
		return sig
	}
	isAdd := func(info *types.Info) func(ast.Node) bool {
		return func(nd ast.Node) bool {
			call, ok := nd.(*ast.CallExpr)
			if !ok {
				return false
			}
			sig := fieldCallSig(info, call)
			return sig != nil && sig.Results().Len() == 0 && sig.Params().Len() == 2 &&
				namedTypeID(sig.Params().At(0).Type()) == "pkg/cafs.Key" && namedTypeID(sig.Params().At(1).Type()) == "pkg/cafs.LeafBuffer"
		}
	}
	isReadLeaf := func(b *Body, call *ast.CallExpr) bool {
		sig := fieldCallSig(b.Info(), call)
		return sig != nil && sig.Results().Len() == 3 && namedTypeID(sig.Results().At(0).Type()) == "pkg/cafs.LeafBuffer" && isErrorType(sig.Results().At(2).Type())
	}
	for _, f := range p.FuncsIn("pkg/cafs") {
		if f.Decl.Body == nil {
			continue
		}
		for _, b := range p.BodiesOf(f) {
			bad, nT, _ := b.guardedByNilErrOpt(isReadLeaf, isAdd(b.Info()), true)
			if nT == 0 {
				continue
			}
			n += nT
			c.check(len(bad) == 0, rule, b.Key(), p.Pos(b.Pos()),
				"a leaf is added to the cache only after readLeaf returned a nil error",
				"a leaf buffer is added to the LRU cache on a path where readLeaf failed or its error was not tested: cache hits are never verified, so a corrupt leaf is then served with a nil error by every later ReadAt")
		}
	}
	if n < 2 {
		c.fail(rule, "pkg/cafs:addToCache", "-", "expected the 2 cache insertions (ReadAt, seekAhead), found "+itoa(n))
	}
	// readLeaf itself: a verification failure returns no buffer
	f := p.Func("pkg/cafs.readLeafFunc")
	for _, b := range p.BodiesOf(f) {
		isVerify := func(bb *Body, call *ast.CallExpr) bool {
			return calleeID(bb.Info(), call) == "pkg/cafs.chunkReader.verifyHash"
		}
		if len(b.findCalls(isVerify, false)) == 0 {
			continue
		}
		ok := true
		ast.Inspect(b.Block, func(nd ast.Node) bool {
			ifs, isIf := nd.(*ast.IfStmt)
			if !isIf || ifs.Init == nil {
				return true
			}
			found := false
			for _, call := range callsIn(ifs.Init) {
				if isVerify(b, call) {
					found = true
				}
			}
			if !found {
				return true
			}
			for _, st := range ifs.Body.List {
				if r, isR := st.(*ast.ReturnStmt); isR && len(r.Results) > 0 {
					if id, isI := ast.Unparen(r.Results[0]).(*ast.Ident); !isI || id.Name != "nil" {
						ok = false
					}
				}
			}
			return true
		})
		c.check(ok, rule, f.ID+":verify-failure", p.Pos(f.Decl.Pos()),
			"a leaf that fails verification is not handed to the caller",
			"readLeaf returns the buffer of a leaf that failed hash verification: callers may cache or serve it")
	}
}

// checkNoTruncatingConsumer (C03): the sequential cafs reader verifies a leaf when it meets that leaf's io.EOF. A
// consumer that stops after a byte count (io.LimitReader, io.CopyN, io.ReadFull, io.ReadAtLeast, io.NewSectionReader)
// never reads the last leaf's EOF, so the last leaf goes unverified; a wrapper also hides WriteTo, the verify-then-write
// path. Readers obtained from cafs Fs.Get are not wrapped that way in the download and mount code.
func checkNoTruncatingConsumer(c *Ctx, rule string, pkgs ...string) {
	p := c.P
	n, nGet := 0, 0
	for _, pk := range pkgs {
		for _, f := range p.FuncsIn(pk) {
			if f.Decl.Body == nil {
				continue
			}
			info := f.Info()
			isGet := func(e ast.Expr) bool {
				call, ok := ast.Unparen(e).(*ast.CallExpr)
				if !ok {
					return false
				}
				id := calleeID(info, call)
				return id == "pkg/cafs.Fs.Get" || id == "pkg/cafs.Fs.GetAt"
			}
			var readers []*types.Var
			for _, v := range lhsVars(info, f.Decl.Body, isGet) {
				if v != nil {
					readers = append(readers, v)
				}
			}
			nGet += len(readers)
			if len(readers) == 0 {
				continue
			}
			ast.Inspect(f.Decl.Body, func(nd ast.Node) bool {
				call, ok := nd.(*ast.CallExpr)
				if !ok {
					return true
				}
				id := calleeID(info, call)
				switch id {
				case "io.LimitReader", "io.CopyN", "io.ReadFull", "io.ReadAtLeast", "io.NewSectionReader":
				default:
					return true
				}
				for _, a := range call.Args {
					for _, rv := range readers {
						if usesObj(info, a, rv) {
							n++
							c.fail(rule, callKey(f, call), p.Pos(call.Pos()),
								shortCallee(id)+" bounds the consumption of a cafs reader: the sequential reader verifies a leaf at that leaf's io.EOF, which a consumer stopping at a byte count never reads — the last leaf (the only one of a small file) is delivered unverified, and the wrapper hides the verify-then-write WriteTo path")
						}
					}
				}
				return true
			})
		}
	}
	if n == 0 {
		c.ok(rule, strings.Join(pkgs, ",")+":scan", "-", itoa(nGet)+" variables bound by cafs Fs.Get/GetAt calls; none of the readers is consumed through a byte-count-bounded wrapper")
	}
	if nGet == 0 {
		c.fail(rule, "cafs.Fs.Get:sites", "-", "expected at least one cafs Fs.Get/GetAt call site in "+strings.Join(pkgs, ","))
	}
}

// checkTrackerTxnCommitted (C22): once trackWrite opened a transaction on the marker tree, every way out of the
// function passes `t.tracker = txn.Commit()`: the deletions queued by the walk are otherwise lost and the merged
// ranges keep their inner markers.
func checkTrackerTxnCommitted(c *Ctx, rule string) {
	p := c.P
	f := p.Func("pkg/filetracker.TFile.trackWrite")
	b := p.BodyOf(f)
	info := f.Info()
	const closed, open = 1, 2
	bad := 0
	nOpen := 0
	b.run(flowSpec{
		entry: closed,
		node: func(n ast.Node, s uint64) uint64 {
			for _, call := range callsIn(n) {
				id := calleeID(info, call)
				if strings.HasSuffix(id, "go-immutable-radix.Tree.Txn") {
					nOpen++
					s = open
				}
				if strings.HasSuffix(id, "go-immutable-radix.Txn.Commit") {
					// must be stored back in the receiver's tree
					if as, ok := n.(*ast.AssignStmt); ok && len(as.Lhs) == 1 {
						if sel, ok := ast.Unparen(as.Lhs[0]).(*ast.SelectorExpr); ok && describeExpr(f, sel.X, 0) == "recv" && strings.HasSuffix(types.TypeString(info.TypeOf(sel), nil), "go-immutable-radix.Tree") {
							s = closed
						}
					}
				}
			}
			return s
		},
		exit: func(blk *cfg.Block, ret *ast.ReturnStmt, s uint64) {
			if s&open != 0 {
				bad++
			}
		},
	})
	c.check(bad == 0 && nOpen > 0, rule, f.ID, p.Pos(f.Decl.Pos()),
		"every exit after the transaction was opened passes t.tracker = txn.Commit()",
		"trackWrite can return after opening its transaction without committing it into t.tracker: the markers deleted by the walk stay in the tree, so a write that bridges two tracked ranges leaves the gap reported as base data")
}

// checkHasIsExistenceOnly (C16): localfs Has answers "is there a record under this key": the verdict depends on Stat
// (of the key itself) succeeding and on the entry not being a directory, never on the record's contents — an empty
// value is a value (Get, Keys and create-if-absent Put all see it).
func checkHasIsExistenceOnly(c *Ctx, rule string) {
	p := c.P
	f := p.Func("pkg/storage/localfs.localFS.Has")
	info := f.Info()
	b := p.BodyOf(f)
	bad := ""
	nStat := 0
	ast.Inspect(f.Decl.Body, func(nd ast.Node) bool {
		switch x := nd.(type) {
		case *ast.CallExpr:
			id := calleeID(info, x)
			if strings.HasSuffix(id, "afero.Fs.Stat") {
				nStat++
				if len(x.Args) != 1 || describeExpr(f, x.Args[0], 0) != "param#1" {
					bad = "Stat of something else than the key"
				}
			}
		case *ast.SelectorExpr:
			if s := info.Selections[x]; s != nil && s.Kind() == types.MethodVal && namedTypeID(s.Recv()) == "io/fs.FileInfo" {
				if x.Sel.Name != "IsDir" {
					bad = "FileInfo." + x.Sel.Name + "()"
				}
			}
		}
		return true
	})
	// every success return is a function of IsDir only: `true`, `false` after a not-exist test, or !fi.IsDir()
	nRet := 0
	ast.Inspect(f.Decl.Body, func(nd ast.Node) bool {
		r, ok := nd.(*ast.ReturnStmt)
		if !ok || len(r.Results) != 2 || b.classifyReturn(r) == retFailure {
			return true
		}
		nRet++
		d := describeExprAt(f, r.Results[0])
		switch {
		case d == "const:false", d == "const:true":
		case strings.HasSuffix(d, ".IsDir()") && strings.HasPrefix(d, "!"):
		default:
			if bad == "" {
				bad = "a verdict computed as " + exprString(r.Results[0])
			}
		}
		return true
	})
	c.check(bad == "" && nStat == 1 && nRet >= 2, rule, f.ID, p.Pos(f.Decl.Pos()),
		"the verdict of Has is: Stat(key) succeeded and the entry is not a directory",
		"localfs Has depends on "+bad+": a key whose record exists (Get, Keys and a create-if-absent Put all see it) can be reported absent — e.g. an empty value — so the store no longer behaves as a map")
}

// checkCollectSplitsAlwaysLists (C12): the set of splits merged by a commit is read from the store by that commit:
// every success return of collectSplits follows a ListSplitsApply over the diamond (no cached result of an earlier
// attempt: splits that completed in between would be left out of the bundle and of diamond-done).
func checkCollectSplitsAlwaysLists(c *Ctx, rule string) {
	p := c.P
	f := p.Func("pkg/core.Diamond.collectSplits")
	b := p.BodyOf(f)
	bad, nS := b.mustPassBeforeSuccess(callTo("pkg/core.ListSplitsApply"))
	c.check(len(bad) == 0 && nS > 0, rule, f.ID, p.Pos(f.Decl.Pos()),
		"every success return ("+itoa(nS)+") of collectSplits follows ListSplitsApply",
		"collectSplits can succeed without listing the splits from the store (e.g. from a copy kept by an earlier attempt): a split completed since then is missing from the committed bundle and from the splits recorded in diamond-done")
	// and the listing is over this diamond
	ok := false
	for _, call := range b.findCalls(callTo("pkg/core.ListSplitsApply"), false) {
		if len(call.Args) >= 3 && describeExpr(f, call.Args[0], 0) == "recv.RepoID" && describeExpr(f, call.Args[1], 0) == "recv.DiamondDescriptor.DiamondID" {
			ok = true
		}
	}
	c.check(ok, rule, f.ID+":own-diamond", p.Pos(f.Decl.Pos()), "the listing is over the receiver's repo and diamond", "collectSplits lists the splits of another repo/diamond than the receiver's")
}

// checkBlobPutsIdempotent (C01, C15): leaf and root blobs are content-addressed, and several writers may hold the same
// content at once (shared leaves between files, concurrent uploads). The existence test and the write are not atomic,
// so the writes themselves must be idempotent: every Put/PutCRC of pkg/cafs passes the constant OverWrite — with
// NoOverWrite the loser of the race fails its whole upload with "exists".
func checkBlobPutsIdempotent(c *Ctx, rule string) {
	p := c.P
	n := 0
	for _, s := range enumPutSites(p, "pkg/cafs") {
		n++
		c.check(s.Mode == "OverWrite", rule, s.Key, p.Pos(s.Call.Pos()),
			"blob written with the constant OverWrite",
			"a content-addressed blob is written with mode "+s.Mode+": the has-then-put of the writer is not atomic, so of two writers of the same content (shared leaf, concurrent uploads) one fails with 'exists' and its whole upload is reported failed")
	}
	if n < 3 {
		c.fail(rule, "pkg/cafs:put-sites", "-", "expected at least 3 blob put sites in pkg/cafs, found "+itoa(n))
	}
}

// checkLocalfsPutOpens (C16, shared with C15 for the staging clause): the two OpenFile operands of localfs Put.
//   - put.exclusive.every-open / put.exclusive.flag: on a create-if-absent write the file opened is the key itself, with
//     flags holding O_CREATE|O_WRONLY and O_EXCL (unconditionally, or added exactly under `if exclusive`);
//   - put.overwrite.staged: an overwrite never opens (and so truncates) the key in place: the name opened on the
//     non-exclusive path is a staging name, moved onto the key by one Rename(name, key);
//   - put.no-remove: Put removes or renames nothing but its own staging name, and only on the non-exclusive path
//     (an exclusive writer that lost the race must not unlink the winner's record).
func checkLocalfsPutOpens(c *Ctx, f *FuncInfo) {
	p := c.P
	info := f.Info()
	b := p.BodyOf(f)
	exclParam := "param#3"
	// is node n only executed when exclusive is false?
	var nonExclusiveOnly func(n ast.Node) bool
	nonExclusiveOnly = func(n ast.Node) bool {
		for child, par := n, f.parentOf(n); par != nil; child, par = par, f.parentOf(par) {
			switch x := par.(type) {
			case *ast.IfStmt:
				d := describeExpr(f, x.Cond, 0)
				if child == ast.Node(x.Body) && d == "!"+exclParam {
					return true
				}
				if x.Else != nil && child == x.Else && d == exclParam {
					return true
				}
			case *ast.BlockStmt:
				// an earlier `if exclusive { …; return }` in the same block
				for _, st := range x.List {
					if st == child || st.Pos() >= child.Pos() {
						break
					}
					if ifs, ok := st.(*ast.IfStmt); ok && ifs.Init == nil && describeExpr(f, ifs.Cond, 0) == exclParam && len(ifs.Body.List) > 0 {
						if _, isRet := ifs.Body.List[len(ifs.Body.List)-1].(*ast.ReturnStmt); isRet {
							return true
						}
					}
				}
			}
		}
		return false
	}
	var flagVar, nameVar *types.Var
	nOpen := 0
	ast.Inspect(f.Decl.Body, func(nd ast.Node) bool {
		call, ok := nd.(*ast.CallExpr)
		if !ok || !strings.HasSuffix(calleeID(info, call), "afero.Fs.OpenFile") || len(call.Args) < 2 {
			return true
		}
		nOpen++
		okArgs := true
		if id, isID := ast.Unparen(call.Args[1]).(*ast.Ident); isID {
			v, _ := info.Uses[id].(*types.Var)
			if flagVar == nil {
				flagVar = v
			}
			okArgs = okArgs && v == flagVar && v != nil
		} else {
			okArgs = false
		}
		if id, isID := ast.Unparen(call.Args[0]).(*ast.Ident); isID {
			v, _ := info.Uses[id].(*types.Var)
			if nameVar == nil {
				nameVar = v
			}
			okArgs = okArgs && v == nameVar && v != nil
		} else {
			okArgs = false
		}
		c.check(okArgs, "put.exclusive.every-open", callKey(f, call), p.Pos(call.Pos()), "OpenFile(name, flag, …) with the shared name and flag variables", "an OpenFile of Put does not use the shared (name, flag) variables: `"+exprString(call.Args[0])+", "+exprString(call.Args[1])+"` — a create-if-absent write through this operand is not arbitrated by O_EXCL on the key")
		return true
	})
	c.check(nOpen >= 1, "put.exclusive.every-open", f.ID+":sites", p.Pos(f.Decl.Pos()), itoa(nOpen)+" OpenFile site(s) (one per retried operand)", "Put no longer opens its target with OpenFile")
	if flagVar == nil || nameVar == nil {
		return
	}
	// flags
	{
		want := constInt(p, "os", "O_CREATE") | constInt(p, "os", "O_WRONLY")
		excl := constInt(p, "os", "O_EXCL")
		okBase, alwaysExcl, condExcl := false, false, false
		nDefs := 0
		ast.Inspect(f.Decl.Body, func(nd ast.Node) bool {
			as, ok := nd.(*ast.AssignStmt)
			if !ok || len(as.Lhs) != 1 || !isVar(info, as.Lhs[0], flagVar) {
				return true
			}
			nDefs++
			tv, isConst := info.Types[as.Rhs[0]]
			if !isConst || tv.Value == nil {
				return true
			}
			have := parseInt(tv.Value.String())
			switch as.Tok {
			case token.DEFINE, token.ASSIGN:
				okBase = have&want == want
				alwaysExcl = have&excl != 0
			case token.OR_ASSIGN:
				if have == excl {
					if ifs, ok := b.parent[b.parent[as]].(*ast.IfStmt); ok && describeExpr(f, ifs.Cond, 0) == exclParam {
						condExcl = true
					}
				}
			}
			return true
		})
		okFlags := okBase && ((alwaysExcl && nDefs == 1) || (!alwaysExcl && condExcl && nDefs == 2))
		c.check(okFlags, "put.exclusive.flag", f.ID, p.Pos(f.Decl.Pos()), "flags hold O_CREATE|O_WRONLY, and O_EXCL whenever the write is create-if-absent", "the open flags no longer hold O_CREATE|O_WRONLY with O_EXCL on every create-if-absent write (set once, or added exactly under `if exclusive`): create-if-absent is lost")
		// name: the key, except where reassigned on the non-exclusive path
		okName := false
		staged := false
		badDef := ""
		for _, d := range defsOfVarWithIndex(f, nameVar) {
			if d.rhs == nil {
				badDef = "a definition without value"
				continue
			}
			if describeExpr(f, d.rhs, 1) == "param#1" {
				okName = true
				continue
			}
			if nonExclusiveOnly(d.stmt) {
				staged = true
				continue
			}
			badDef = exprString(d.rhs)
		}
		c.check(okName && badDef == "", "put.exclusive.every-open", f.ID+":name", p.Pos(f.Decl.Pos()), "on a create-if-absent write the name opened is the key", "on a create-if-absent write Put opens something else than the key (`"+badDef+"`): O_EXCL no longer arbitrates between writers of the key")
		// overwrite staged
		nRename := 0
		ast.Inspect(f.Decl.Body, func(nd ast.Node) bool {
			if call, ok := nd.(*ast.CallExpr); ok && strings.HasSuffix(calleeID(info, call), "afero.Fs.Rename") && len(call.Args) == 2 {
				if isVar(info, call.Args[0], nameVar) && describeExpr(f, call.Args[1], 0) == "param#1" {
					nRename++
				}
			}
			return true
		})
		c.check((staged || alwaysExcl && false) && nRename == 1 && alwaysExcl, "put.overwrite.staged", f.ID, p.Pos(f.Decl.Pos()),
			"an overwrite is written to a staging name (opened with O_EXCL) and renamed onto the key",
			"an overwriting Put opens the key itself (O_TRUNC in place) or no longer renames its staging file onto the key: a concurrent reader — or a writer of the same content verifying what it just wrote — sees a truncated record")
	}
	// removals
	nRemove := 0
	ast.Inspect(f.Decl.Body, func(nd ast.Node) bool {
		call, ok := nd.(*ast.CallExpr)
		if !ok {
			return true
		}
		id := calleeID(info, call)
		if !(strings.HasSuffix(id, "afero.Fs.Remove") || strings.HasSuffix(id, "afero.Fs.RemoveAll") || strings.HasSuffix(id, "afero.Fs.Rename")) {
			return true
		}
		nRemove++
		okOperand := len(call.Args) >= 1 && isVar(info, call.Args[0], nameVar)
		c.check(okOperand && nonExclusiveOnly(call), "put.no-remove", callKey(f, call), p.Pos(call.Pos()),
			"only the staging name is removed/renamed, and only on the non-exclusive path",
			"Put removes or renames `"+exprString(call.Args[0])+"` on a path an exclusive write can take (or the key itself): when an exclusive write loses (file exists) this unlinks the winner's record")
		return true
	})
	if nRemove == 0 {
		c.ok("put.no-remove", f.ID, p.Pos(f.Decl.Pos()), "Put never removes or renames a key")
	}
}

// checkLeafSizeFromDescriptor (C04, C13, C14): the leaf size a root blob is decoded with is the one recorded in the
// bundle's descriptor: every cafs.LeafSize(x) option and cafs.LeavesForHash(_, _, x, _) argument of pkg/core and
// pkg/fuse is a `.LeafSize` selection (directly, or a parameter that every caller fills with one). With another size
// the root check fails — and the index builder, which tolerates a "corrupted root", silently leaves the leaves out.
func checkLeafSizeFromDescriptor(c *Ctx, rule string, pkgs ...string) {
	p := c.P
	n := 0
	var resolve func(f *FuncInfo, e ast.Expr, depth int) (bool, string)
	resolve = func(f *FuncInfo, e ast.Expr, depth int) (bool, string) {
		d := describeExprAt(f, e)
		if strings.HasSuffix(d, ".LeafSize") && !strings.HasPrefix(d, "global:") {
			return true, d
		}
		if strings.HasPrefix(d, "param#") && depth < 2 {
			var idx int
			if _, err := fmt.Sscanf(d, "param#%d", &idx); err != nil {
				return false, d
			}
			sites := callersOf(p, f.ID)
			if len(sites) == 0 {
				return false, d + " (no caller)"
			}
			for _, cs := range sites {
				if idx >= len(cs.Call.Args) {
					return false, d + " (variadic caller)"
				}
				if ok, dd := resolve(cs.Fn, cs.Call.Args[idx], depth+1); !ok {
					return false, "argument `" + dd + "` of the call in " + cs.Fn.ID
				}
			}
			return true, d
		}
		return false, d
	}
	for _, pk := range pkgs {
		for _, f := range p.FuncsIn(pk) {
			if f.Decl.Body == nil {
				continue
			}
			info := f.Info()
			ast.Inspect(f.Decl.Body, func(nd ast.Node) bool {
				call, ok := nd.(*ast.CallExpr)
				if !ok {
					return true
				}
				var arg ast.Expr
				switch calleeID(info, call) {
				case "pkg/cafs.LeafSize":
					if len(call.Args) == 1 {
						arg = call.Args[0]
					}
				case "pkg/cafs.LeavesForHash":
					if len(call.Args) == 4 {
						arg = call.Args[2]
					}
				}
				if arg == nil {
					return true
				}
				n++
				ok2, d := resolve(f, arg, 0)
				c.check(ok2, rule, callKey(f, call), p.Pos(call.Pos()),
					"leaf size taken from the bundle descriptor",
					"the leaf size given to "+shortCallee(calleeID(info, call))+" in "+f.ID+" is "+d+", not the LeafSize recorded in the bundle descriptor: root blobs of bundles written with another leaf size fail their check (the index builder then drops their leaf keys without error, and delete-unused removes referenced blobs)")
				return true
			})
		}
	}
	if n < 6 {
		c.fail(rule, "leaf-size:sites", "-", "expected at least 6 leaf-size consumers in "+strings.Join(pkgs, ",")+", found "+itoa(n))
	}
}

// checkChunkLimitCountsSentKeys (C13, C14): the index is uploaded in chunks of at most maxKeys keys; the uploader stops
// when a chunk adds no key. dbReader.iterateKV must therefore count against the limit only the keys it sends: keys
// already marked as uploaded (non-empty value) are skipped before the limit counter moves, or every chunk after the
// first is empty and the index ends after maxKeys keys.
func checkChunkLimitCountsSentKeys(c *Ctx, rule string) {
	p := c.P
	f := p.Func("pkg/core.dbReader.iterateKV")
	info := f.Info()
	var lit *ast.FuncLit
	for _, l := range f.Lits {
		if sig, ok := info.TypeOf(l).(*types.Signature); ok && sig.Params().Len() == 0 && sig.Results().Len() == 1 {
			lit = l
			break
		}
	}
	if lit == nil {
		c.softUndecided("%s: iterateKV no longer returns a func() error", rule)
		return
	}
	b := p.LitBody(f, lit)
	// the limit counter: the variable compared with recv.maxKeys
	var counter *types.Var
	ast.Inspect(lit.Body, func(nd ast.Node) bool {
		be, ok := nd.(*ast.BinaryExpr)
		if !ok {
			return true
		}
		for i, side := range []ast.Expr{be.X, be.Y} {
			// a local counter compared with a field of the reader (the per-chunk maximum)
			if sel, ok := ast.Unparen(side).(*ast.SelectorExpr); ok && describeExpr(f, sel.X, 0) == "recv" && info.Selections[sel] != nil {
				if id, ok := ast.Unparen([]ast.Expr{be.Y, be.X}[i]).(*ast.Ident); ok {
					if v, ok := info.Uses[id].(*types.Var); ok && !v.IsField() && paramIndex(f, v) < 0 {
						counter = v
					}
				}
			}
		}
		return true
	})
	if counter == nil {
		c.fail(rule, f.ID, p.Pos(f.Decl.Pos()), "no counter compared with r.maxKeys found in iterateKV: the per-chunk limit is gone")
		return
	}
	// the value variable of iterator.Item()
	var val *types.Var
	if vs := lhsVars(info, lit.Body, func(e ast.Expr) bool {
		call, ok := ast.Unparen(e).(*ast.CallExpr)
		return ok && strings.HasSuffix(calleeID(info, call), ".Item")
	}); len(vs) == 3 {
		val = vs[1]
	}
	if val == nil {
		c.softUndecided("%s: iterateKV no longer binds key, val, err := iterator.Item()", rule)
		return
	}
	isSkipTest := func(cond ast.Expr) int { // +1: true edge means "already uploaded"
		be, ok := ast.Unparen(cond).(*ast.BinaryExpr)
		if !ok {
			return 0
		}
		call, ok := ast.Unparen(be.X).(*ast.CallExpr)
		if !ok || calleeID(info, call) != "builtin.len" || len(call.Args) != 1 || !isVar(info, call.Args[0], val) {
			return 0
		}
		tv, ok := info.Types[be.Y]
		if !ok || tv.Value == nil || tv.Value.ExactString() != "0" {
			return 0
		}
		switch be.Op {
		case token.GTR, token.NEQ:
			return +1
		case token.EQL:
			return -1
		}
		return 0
	}
	const fresh, filtered = 1, 2
	bad, nInc := 0, 0
	b.run(flowSpec{entry: fresh,
		node: func(n ast.Node, s uint64) uint64 {
			// a new item resets the state
			for _, call := range callsIn(n) {
				if strings.HasSuffix(calleeID(info, call), ".Item") {
					s = fresh
				}
			}
			moves := false
			switch x := n.(type) {
			case *ast.IncDecStmt:
				moves = isVar(info, x.X, counter)
			case *ast.AssignStmt:
				for _, l := range x.Lhs {
					if isVar(info, l, counter) && x.Tok != token.DEFINE {
						moves = true
					}
				}
			}
			if moves {
				nInc++
				if s&fresh != 0 {
					bad++
				}
			}
			return s
		},
		edge: func(blk *cfg.Block, i int, s uint64) uint64 {
			cond := condOf(blk)
			if cond == nil {
				return s
			}
			r := isSkipTest(cond)
			if r == 0 {
				return s
			}
			uploadedEdge := 0
			if r < 0 {
				uploadedEdge = 1
			}
			if i == uploadedEdge {
				return s // stays fresh: this is the skipped item
			}
			return filtered
		}})
	c.check(bad == 0 && nInc > 0, rule, f.ID, p.Pos(f.Decl.Pos()),
		"the per-chunk limit counter moves only for keys not yet marked as uploaded",
		"iterateKV counts against the per-chunk limit keys that are skipped as already uploaded: every chunk after the first yields nothing, the uploader stops at the first empty chunk and the index holds only the first maxKeys keys — delete-unused then removes referenced blobs")
}

// checkMountDataSource (C17): a read-only mount serves bytes either streamed from the blob store or from a staging area
// that this very mount filled with core.Publish (which fails on an incomplete or pre-existing download). Every
// successful return of NewReadOnlyFS follows core.Publish, or core.PublishMetadata inside the `streamed` branch: a
// staging area found on disk (a descriptor written first by an interrupted download) is never trusted.
func checkMountDataSource(c *Ctx, rule string) {
	p := c.P
	f := p.Func("pkg/fuse.NewReadOnlyFS")
	b := p.BodyOf(f)
	info := f.Info()
	bad, nS := b.mustPassBeforeSuccess(callTo("pkg/core.Publish", "pkg/core.PublishMetadata"))
	c.check(len(bad) == 0 && nS > 0, rule, f.ID, p.Pos(f.Decl.Pos()),
		"every successful mount follows core.Publish (staged) or core.PublishMetadata (streamed)",
		"NewReadOnlyFS can succeed without having downloaded the bundle itself (core.Publish) nor set up streaming: it then serves whatever a previous, possibly interrupted, download left in the staging area — reads succeed with holes, short counts or missing tails")
	// the condition under which the streaming backend (cafs.New) is set up
	enclosingConds := func(call *ast.CallExpr) map[string]bool {
		out := map[string]bool{}
		for child, par := ast.Node(call), f.parentOf(call); par != nil; child, par = par, f.parentOf(par) {
			if ifs, ok := par.(*ast.IfStmt); ok && child == ast.Node(ifs.Body) {
				out[describeExpr(f, ifs.Cond, 0)] = true
			}
		}
		return out
	}
	streamConds := map[string]bool{}
	ast.Inspect(f.Decl.Body, func(nd ast.Node) bool {
		if call, ok := nd.(*ast.CallExpr); ok && calleeID(info, call) == "pkg/cafs.New" {
			for k := range enclosingConds(call) {
				streamConds[k] = true
			}
		}
		return true
	})
	okStream := len(streamConds) > 0
	ast.Inspect(f.Decl.Body, func(nd ast.Node) bool {
		call, ok := nd.(*ast.CallExpr)
		if !ok || calleeID(info, call) != "pkg/core.PublishMetadata" {
			return true
		}
		guarded := false
		for k := range enclosingConds(call) {
			if streamConds[k] {
				guarded = true
			}
		}
		if !guarded {
			okStream = false
		}
		return true
	})
	c.check(okStream, rule, f.ID+":metadata-only-when-streamed", p.Pos(f.Decl.Pos()),
		"metadata-only publication happens only for streamed mounts",
		"NewReadOnlyFS publishes only the metadata for a mount that is not streamed: its files are never downloaded")
}

// checkWriteKeepsFileSize (C18): a write inside a file does not shrink it. The size attribute set by WriteFile is the
// size of the backing file it just wrote (Stat().Size()), or is only ever raised (assignment under a comparison with
// the current attr.Size): never `offset + n` unconditionally.
func checkWriteKeepsFileSize(c *Ctx, rule string) {
	p := c.P
	f := p.Func("pkg/fuse.fsMutable.WriteFile")
	n := 0
	ast.Inspect(f.Decl.Body, func(nd ast.Node) bool {
		as, ok := nd.(*ast.AssignStmt)
		if !ok {
			return true
		}
		for i, l := range as.Lhs {
			if i >= len(as.Rhs) || !isInodeSize(f.Info(), l) {
				continue
			}
			n++
			d := describeExprAt(f, as.Rhs[i])
			fromStat := strings.Contains(d, "getPathToBackingFile(param#1.Inode)") && strings.HasSuffix(strings.TrimSuffix(d, ")"), ".Stat()#0.Size()")
			raisedOnly := false
			for child, par := ast.Node(as), f.parentOf(as); par != nil; child, par = par, f.parentOf(par) {
				if ifs, ok := par.(*ast.IfStmt); ok && child == ast.Node(ifs.Body) {
					if be, ok := ast.Unparen(ifs.Cond).(*ast.BinaryExpr); ok && (be.Op == token.GTR || be.Op == token.LSS) {
						x, y := describeExprAt(f, be.X), describeExprAt(f, be.Y)
						rhs := describeExprAt(f, as.Rhs[i])
						if (be.Op == token.GTR && isInodeSize(f.Info(), be.Y) && x == rhs) || (be.Op == token.LSS && isInodeSize(f.Info(), be.X) && y == rhs) {
							raisedOnly = true
						}
					}
				}
			}
			c.check(fromStat || raisedOnly, rule, f.ID+":attr.Size", p.Pos(as.Pos()),
				"the size attribute is the size of the backing file after the write",
				"WriteFile sets the size attribute from `"+exprString(as.Rhs[i])+"`: a write that ends before the end of the file shrinks the size the mount reports (reads and the commit then truncate the file)")
		}
		return true
	})
	if n == 0 {
		c.fail(rule, f.ID, p.Pos(f.Decl.Pos()), "WriteFile no longer updates the size attribute of the node: a file extended by a write keeps its old size")
	}
}

// checkWALCollectorDrains (C19): every parallel read of a listing sends exactly one message (entry or oops) on an
// unbuffered channel and releases its connection slot only afterwards. The collector therefore leaves its loop only
// when it has counted as many messages as reads were issued: each receive of an entry or an error moves the counter,
// and every return sits under `counter == total`. Leaving earlier strands the readers, and with them slots of the
// WAL-wide connection semaphore: later listings block forever.
func checkWALCollectorDrains(c *Ctx, rule string) {
	p := c.P
	f := p.Func("pkg/wal.WAL.collectParallelResponses")
	info := f.Info()
	var loop *ast.ForStmt
	for _, st := range f.Decl.Body.List {
		if l, ok := st.(*ast.ForStmt); ok {
			loop = l
		}
	}
	if loop == nil {
		c.softUndecided("%s: collectParallelResponses has no top-level for loop", rule)
		return
	}
	var sel *ast.SelectStmt
	for _, st := range loop.Body.List {
		if s, ok := st.(*ast.SelectStmt); ok {
			sel = s
		}
	}
	if sel == nil {
		c.softUndecided("%s: the collector loop has no select", rule)
		return
	}
	// total: the variable receiving from the count channel
	var total types.Object
	// the channels are told apart by what they carry (never by name): *model.Entry = one read's entry, error = one
	// read's failure, int = the number of reads issued
	chanField := func(e ast.Expr) string {
		u, ok := ast.Unparen(e).(*ast.UnaryExpr)
		if !ok || u.Op != token.ARROW {
			return ""
		}
		ch, ok := info.TypeOf(u.X).Underlying().(*types.Chan)
		if !ok {
			return ""
		}
		switch el := ch.Elem().(type) {
		case *types.Pointer:
			if namedTypeID(el.Elem()) == "pkg/model.Entry" {
				return "entry"
			}
		case *types.Basic:
			if el.Kind() == types.Int {
				return "count"
			}
		case *types.Named:
			if isErrorType(el) {
				return "oops"
			}
		}
		return types.TypeString(ch.Elem(), nil)
	}
	type clause struct {
		cc   *ast.CommClause
		from string
	}
	var clauses []clause
	for _, st := range sel.Body.List {
		cc := st.(*ast.CommClause)
		from := ""
		switch x := cc.Comm.(type) {
		case *ast.AssignStmt:
			from = chanField(x.Rhs[0])
			if from == "count" {
				if id, ok := x.Lhs[0].(*ast.Ident); ok {
					total = info.ObjectOf(id)
				}
			}
		case *ast.ExprStmt:
			from = chanField(x.X)
		}
		clauses = append(clauses, clause{cc, from})
	}
	if total == nil {
		c.softUndecided("%s: no clause receives the number of issued reads", rule)
		return
	}
	// counter: compared for equality with total
	var counter types.Object
	ast.Inspect(loop, func(nd ast.Node) bool {
		be, ok := nd.(*ast.BinaryExpr)
		if !ok || be.Op != token.EQL {
			return true
		}
		x, xo := ast.Unparen(be.X).(*ast.Ident)
		y, yo := ast.Unparen(be.Y).(*ast.Ident)
		if xo && yo {
			if info.Uses[y] == total {
				counter = info.Uses[x]
			} else if info.Uses[x] == total {
				counter = info.Uses[y]
			}
		}
		return true
	})
	if counter == nil {
		c.fail(rule, f.ID, p.Pos(loop.Pos()), "the collector no longer compares a message counter with the number of issued reads")
		return
	}
	isDone := func(cond ast.Expr) bool {
		be, ok := ast.Unparen(cond).(*ast.BinaryExpr)
		if !ok || be.Op != token.EQL {
			return false
		}
		x, xo := ast.Unparen(be.X).(*ast.Ident)
		y, yo := ast.Unparen(be.Y).(*ast.Ident)
		return xo && yo && ((info.Uses[x] == counter && info.Uses[y] == total) || (info.Uses[x] == total && info.Uses[y] == counter))
	}
	nMsg := 0
	for _, cl := range clauses {
		key := f.ID + ":recv-" + cl.from
		// every return of the clause is under `counter == total`
		okRet := true
		ast.Inspect(cl.cc, func(nd ast.Node) bool {
			if _, isLit := nd.(*ast.FuncLit); isLit {
				return false
			}
			r, ok := nd.(*ast.ReturnStmt)
			if !ok {
				return true
			}
			guarded := false
			for child, par := ast.Node(r), f.parentOf(r); par != nil && par != ast.Node(cl.cc); child, par = par, f.parentOf(par) {
				if ifs, ok := par.(*ast.IfStmt); ok && child == ast.Node(ifs.Body) && isDone(ifs.Cond) {
					guarded = true
				}
			}
			if !guarded {
				okRet = false
			}
			return true
		})
		c.check(okRet, rule, key+":return", p.Pos(cl.cc.Pos()),
			"the collector returns from this clause only when every issued read has reported",
			"the collector can return from its `"+cl.from+"` clause before it counted all issued reads: the reads still in flight block on their unbuffered send and never release their connection slot — after enough failed listings every later ListEntries hangs")
		if cl.from == "entry" || cl.from == "oops" {
			nMsg++
			moved := false
			for _, st := range cl.cc.Body {
				if inc, ok := st.(*ast.IncDecStmt); ok && inc.Tok == token.INC {
					if id, ok := ast.Unparen(inc.X).(*ast.Ident); ok && info.Uses[id] == counter {
						moved = true
					}
				}
			}
			c.check(moved, rule, key+":counted", p.Pos(cl.cc.Pos()),
				"each message of a reader moves the counter",
				"a message received from `"+cl.from+"` is not counted: the collector waits forever for a report that already came")
		}
	}
	if nMsg != 2 {
		c.fail(rule, f.ID+":clauses", p.Pos(sel.Pos()), "expected the collector to receive from the entry and oops channels, found "+itoa(nMsg)+" such clauses")
	}
}

// checkPutSourceFreshPerAttempt (C19 and the upload paths): the reader handed to a store Put is consumed by the
// attempt. A Put issued inside a loop (retries, batches) must build its reader inside that loop: a reader defined
// outside is empty on the second iteration, and the attempt "succeeds" with an empty or truncated object.
func checkPutSourceFreshPerAttempt(c *Ctx, rule string, pkgs ...string) {
	p := c.P
	n := 0
	for _, pk := range pkgs {
		for _, f := range p.FuncsIn(pk) {
			if f.Decl.Body == nil {
				continue
			}
			info := f.Info()
			ast.Inspect(f.Decl.Body, func(nd ast.Node) bool {
				call, ok := nd.(*ast.CallExpr)
				if !ok {
					return true
				}
				idx := -1
				switch calleeID(info, call) {
				case "pkg/storage.Store.Put", "pkg/storage.StoreCRC.PutCRC":
					idx = 2
				case "pkg/cafs.Fs.Put":
					idx = 1
				}
				if idx < 0 || idx >= len(call.Args) {
					return true
				}
				n++
				id, isID := ast.Unparen(call.Args[idx]).(*ast.Ident)
				if !isID {
					return true
				}
				v, _ := info.Uses[id].(*types.Var)
				if v == nil {
					return true
				}
				// innermost enclosing loop within the same function body (not crossing a go/func literal boundary)
				var loop ast.Node
				for par := f.parentOf(call); par != nil; par = f.parentOf(par) {
					if _, isLit := par.(*ast.FuncLit); isLit {
						break
					}
					switch par.(type) {
					case *ast.ForStmt, *ast.RangeStmt:
						loop = par
					}
					if loop != nil {
						break
					}
				}
				if loop == nil {
					return true
				}
				fresh := false
				for _, d := range defsOfVarWithIndex(f, v) {
					if encloses(loop, d.start) {
						fresh = true
					}
				}
				if paramIndex(f, v) >= 0 && !fresh {
					// a stream parameter put once per loop iteration
					fresh = false
				}
				c.check(fresh, rule, callKey(f, call), p.Pos(call.Pos()),
					"the reader of a Put issued in a loop is built inside that loop",
					"`"+id.Name+"`, the source of a Put issued inside a loop of "+f.ID+", is defined outside the loop: the first attempt consumes it, a later iteration (retry after a transient failure) stores an empty or truncated object and reports success")
				return true
			})
		}
	}
	if n < 5 {
		c.fail(rule, "put:sites", "-", "expected at least 5 Put call sites in "+strings.Join(pkgs, ",")+", found "+itoa(n))
	}
}

// checkStateToKeyTable (C12, C20): the key of a diamond (split) descriptor depends on its state. Only the initial state
// maps to the "-running" object; every other state — done and canceled alike — maps to the one final object, which is
// what lets the no-overwrite write arbitrate between a commit and a cancel. The table is computed per state constant
// by following the builder's tests on its state parameter.
func checkStateToKeyTable(c *Ctx, rule string) {
	p := c.P
	type spec struct {
		builder, initial, typ string
		stateIdx              int
		runningFile, doneFile string
	}
	for _, sp := range []spec{
		{"pkg/model.GetArchivePathToDiamond", "DiamondInitialized", "DiamondState", 2, "diamond-running.yaml", "diamond-done.yaml"},
		{"pkg/model.GetArchivePathToSplit", "SplitRunning", "SplitState", 3, "split-running.yaml", "split-done.yaml"},
	} {
		f := p.Func(sp.builder)
		pkg := f.Obj.Pkg()
		n := 0
		names := pkg.Scope().Names()
		for _, nm := range names {
			k, ok := pkg.Scope().Lookup(nm).(*types.Const)
			if !ok {
				continue
			}
			named, ok := k.Type().(*types.Named)
			if !ok || named.Obj().Name() != sp.typ {
				continue
			}
			n++
			ts, msg := evalBuilderForState(p, f, sp.stateIdx, k)
			if msg != "" {
				c.softUndecided("%s: %s(state=%s) cannot be evaluated: %s", rule, sp.builder, nm, msg)
				continue
			}
			want := sp.doneFile
			if nm == sp.initial {
				want = sp.runningFile
			}
			ok2 := len(ts) > 0
			got := []string{}
			for _, t := range ts {
				s := t.instantiate(map[int]string{0: "R", 1: "D", 2: "S"})
				got = append(got, s)
				if !strings.HasSuffix(s, "/"+want) {
					ok2 = false
				}
			}
			c.check(ok2, rule, sp.builder+":"+nm, p.Pos(f.Decl.Pos()),
				"state "+nm+" maps to …/"+want,
				sp.builder+" maps state "+nm+" to "+strings.Join(got, " | ")+", expected the object …/"+want+": terminal states must share the final key (the no-overwrite write arbitrates commit against cancel) and only the initial state uses the running key")
		}
		if n < 2 {
			c.fail(rule, sp.builder+":states", "-", "expected at least 2 constants of type "+sp.typ+", found "+itoa(n))
		}
	}
}

// isInodeSize: e selects the Size field of a fuseops.InodeAttributes value.
func isInodeSize(info *types.Info, e ast.Expr) bool {
	sel, ok := ast.Unparen(e).(*ast.SelectorExpr)
	if !ok || sel.Sel.Name != "Size" {
		return false
	}
	return strings.HasSuffix(namedTypeID(info.TypeOf(sel.X)), "fuseops.InodeAttributes")
}

// checkLeafBufferNotRetained (C01, C03, C15): leaf buffers belong to the free list and the LRU cache, which recycle
// them once unpinned. The reader code may hold one in a local variable while it is pinned, hand it to the cache
// (addToCache / lru Add) or back to the pool, and return it — nothing else keeps a reference: a buffer remembered in a
// struct field, composite literal or atomic value is read again after the cache evicted and recycled it, and then
// holds another leaf's bytes.
func checkLeafBufferNotRetained(c *Ctx, rule string) {
	p := c.P
	n := 0
	isLB := func(info *types.Info, e ast.Expr) bool {
		t := info.TypeOf(e)
		return t != nil && namedTypeID(t) == "pkg/cafs.LeafBuffer"
	}
	for _, f := range p.FuncsIn("pkg/cafs") {
		if f.Decl.Body == nil || strings.Contains(p.Pos(f.Decl.Pos()), "freelists.go") {
			continue
		}
		info := f.Info()
		report := func(at ast.Node, what string) {
			c.fail(rule, f.ID+":"+what, p.Pos(at.Pos()),
				"a leaf buffer is kept outside the pool and the LRU cache ("+what+" in "+f.ID+"): once unpinned it can be evicted and recycled, and a later read through the kept reference returns the bytes of another leaf")
		}
		ast.Inspect(f.Decl.Body, func(nd ast.Node) bool {
			switch x := nd.(type) {
			case *ast.CompositeLit:
				for _, el := range x.Elts {
					v := el
					if kv, ok := el.(*ast.KeyValueExpr); ok {
						v = kv.Value
					}
					if isLB(info, v) {
						n++
						report(x, "stored in a composite literal")
					}
				}
			case *ast.AssignStmt:
				for i, l := range x.Lhs {
					if i >= len(x.Rhs) || len(x.Lhs) != len(x.Rhs) {
						break
					}
					if _, isIdent := ast.Unparen(l).(*ast.Ident); isIdent {
						continue
					}
					if isLB(info, x.Rhs[i]) {
						n++
						report(x, "assigned to "+exprString(l))
					}
				}
			case *ast.CallExpr:
				id := calleeID(info, x)
				if id == "" || strings.HasPrefix(id, "pkg/cafs.") || strings.HasPrefix(id, "field:") || strings.HasPrefix(id, "var:") || strings.HasPrefix(id, "builtin.") {
					return true
				}
				if strings.HasSuffix(id, "golang-lru.Cache.Add") || strings.HasSuffix(id, "golang-lru.Cache.ContainsOrAdd") {
					return true
				}
				for _, a := range x.Args {
					if isLB(info, a) {
						n++
						report(x, "handed to "+shortCallee(id))
					}
				}
			}
			return true
		})
	}
	if n == 0 {
		c.ok(rule, "pkg/cafs.chunkReader.ReadAt:scan", "-", "no leaf buffer is stored in a field, literal or foreign container outside the pool and the LRU cache")
	}
}

// checkKeyDerivationStateless (C02, C01): a key is a function of (content, leaf size, position, last-leaf flag) only.
// The key derivation functions (pkg/cafs hasher.go, key.go) use no package-level variable that is ever assigned, or
// that has methods called on it (maps, sync.Map, caches): a memo shared across calls makes a key depend on what the
// process hashed before.
func checkKeyDerivationStateless(c *Ctx, rule string) {
	p := c.P
	// package-level variables of the repository that are mutated somewhere: assigned in a function body, indexed on the
	// left of an assignment, or the receiver of a method call
	mutated := map[*types.Var]string{}
	for _, f := range p.FuncsIn("pkg/cafs") {
		if f.Decl.Body == nil {
			continue
		}
		info := f.Info()
		pkgVar := func(e ast.Expr) *types.Var {
			for {
				switch x := ast.Unparen(e).(type) {
				case *ast.IndexExpr:
					e = x.X
					continue
				case *ast.Ident:
					if v, ok := info.Uses[x].(*types.Var); ok && v.Pkg() != nil && v.Parent() == v.Pkg().Scope() {
						return v
					}
				}
				return nil
			}
		}
		ast.Inspect(f.Decl.Body, func(nd ast.Node) bool {
			switch x := nd.(type) {
			case *ast.AssignStmt:
				for _, l := range x.Lhs {
					if v := pkgVar(l); v != nil {
						mutated[v] = "assigned in " + f.ID
					}
				}
			case *ast.CallExpr:
				if sel, ok := ast.Unparen(x.Fun).(*ast.SelectorExpr); ok {
					if v := pkgVar(sel.X); v != nil && info.Selections[sel] != nil && !isErrorType(v.Type()) {
						mutated[v] = "method " + sel.Sel.Name + " called in " + f.ID
					}
				}
			}
			return true
		})
	}
	n := 0
	for _, f := range p.FuncsIn("pkg/cafs") {
		if f.Decl.Body == nil {
			continue
		}
		pos := p.Pos(f.Decl.Pos())
		if !strings.Contains(pos, "/hasher.go") && !strings.Contains(pos, "/key.go") {
			continue
		}
		n++
		info := f.Info()
		bad := ""
		ast.Inspect(f.Decl.Body, func(nd ast.Node) bool {
			id, ok := nd.(*ast.Ident)
			if !ok {
				return true
			}
			if v, ok := info.Uses[id].(*types.Var); ok {
				if why, isMut := mutated[v]; isMut {
					bad = v.Name() + " (" + why + ")"
				}
			}
			return true
		})
		c.check(bad == "", rule, f.ID, pos,
			"uses no mutable package-level state",
			f.ID+" uses the package-level variable "+bad+": keys are no longer a function of the content and its position alone — what the process hashed earlier changes the key of a later leaf")
	}
	if n < 8 {
		c.fail(rule, "pkg/cafs:key-derivation", "-", "expected at least 8 key derivation functions in hasher.go/key.go, found "+itoa(n))
	}
}

// checkModelOptionSettersVerbatim (C08, C20): the functional options of pkg/model descriptors (`func X(v T) Option { return
// func(d *D) { d.F = v } }`) store a string argument unchanged. A setter that normalises its argument (trim, case fold…)
// makes the name under which an object is written differ from the name other operations compute from the caller's raw
// argument (DeleteLabel, path builders): two names alias one object, or an accepted name can never be found again.
func checkModelOptionSettersVerbatim(c *Ctx, rule string) int {
	p := c.P
	n := 0
	for _, f := range p.FuncsIn("pkg/model") {
		if f.Decl.Body == nil || len(f.Decl.Body.List) != 1 {
			continue
		}
		ret, ok := f.Decl.Body.List[0].(*ast.ReturnStmt)
		if !ok || len(ret.Results) != 1 {
			continue
		}
		lit, ok := ast.Unparen(ret.Results[0]).(*ast.FuncLit)
		if !ok {
			continue
		}
		info := f.Info()
		sig := f.Obj.Type().(*types.Signature)
		strParams := map[*types.Var]bool{}
		for i := 0; i < sig.Params().Len(); i++ {
			if b, ok := sig.Params().At(i).Type().Underlying().(*types.Basic); ok && b.Info()&types.IsString != 0 {
				strParams[sig.Params().At(i)] = true
			}
		}
		if len(strParams) == 0 {
			continue
		}
		ast.Inspect(lit.Body, func(nd ast.Node) bool {
			as, ok := nd.(*ast.AssignStmt)
			if !ok {
				return true
			}
			for i, l := range as.Lhs {
				if i >= len(as.Rhs) {
					break
				}
				if _, isSel := ast.Unparen(l).(*ast.SelectorExpr); !isSel {
					continue
				}
				uses := false
				for pv := range strParams {
					if usesObj(info, as.Rhs[i], pv) {
						uses = true
					}
				}
				if !uses {
					continue
				}
				n++
				rhs := ast.Unparen(as.Rhs[i])
				// the parameter itself, possibly through a type conversion
				if call, isCall := rhs.(*ast.CallExpr); isCall && len(call.Args) == 1 {
					if tv, ok := info.Types[call.Fun]; ok && tv.IsType() {
						rhs = ast.Unparen(call.Args[0])
					}
				}
				id, isID := rhs.(*ast.Ident)
				okVerbatim := false
				if isID {
					if v, ok := info.Uses[id].(*types.Var); ok && strParams[v] {
						okVerbatim = true
					}
				}
				c.check(okVerbatim, rule, f.ID+":"+exprString(l), p.Pos(as.Pos()),
					"the option stores its string argument unchanged",
					f.ID+" stores `"+exprString(as.Rhs[i])+"` instead of its argument: the descriptor carries a name that differs from the one the caller passes to the other operations (delete, path builders) — two raw names alias one object, or an accepted name cannot be found again")
			}
			return true
		})
	}
	return n
}

// checkUnmarshalIsPlain (C20): a descriptor reads back equal to what was written: the functions of pkg/model that decode
// a descriptor with yaml.Unmarshal do not assign to the decoded value's fields afterwards (defaults filled in at read
// time make the value differ from the stored one, and hide an incomplete descriptor from the validation that follows).
func checkUnmarshalIsPlain(c *Ctx, rule string) int {
	return checkUnmarshalIsPlainIn(c, rule, "pkg/model", "")
}

// checkFileListsDecodedPlain (C11, C04, pooled): the same for the file lists pkg/core decodes (index files of bundles
// and splits): every stored entry — also one for an empty file — is an entry of the bundle; filtering or rewriting the
// decoded list drops files from downloads and merges without an error.
func checkFileListsDecodedPlain(c *Ctx, rule string) {
	if checkUnmarshalIsPlainIn(c, rule, "pkg/core", "pkg/model.BundleEntries") < 2 && c.sharedReach == nil {
		c.shape3(rule, "pkg/core.fileIndex.getIndexFile", "fewer than 2 functions of pkg/core decoding a file list into a local found")
	}
}

func checkUnmarshalIsPlainIn(c *Ctx, rule, pkg, onlyType string) int {
	p := c.P
	n := 0
	for _, f := range p.FuncsIn(pkg) {
		if f.Decl.Body == nil {
			continue
		}
		info := f.Info()
		var target *types.Var
		var at token.Pos
		ast.Inspect(f.Decl.Body, func(nd ast.Node) bool {
			call, ok := nd.(*ast.CallExpr)
			if !ok || !strings.HasSuffix(calleeID(info, call), "yaml.v2.Unmarshal") || len(call.Args) != 2 {
				return true
			}
			arg := ast.Unparen(call.Args[1])
			if u, ok := arg.(*ast.UnaryExpr); ok && u.Op == token.AND {
				arg = ast.Unparen(u.X)
			}
			if id, ok := arg.(*ast.Ident); ok {
				if v, ok := info.Uses[id].(*types.Var); ok && (onlyType == "" || namedTypeID(v.Type()) == onlyType) {
					target, at = v, call.End()
				}
			}
			return true
		})
		if target == nil {
			continue
		}
		n++
		bad := ""
		ast.Inspect(f.Decl.Body, func(nd ast.Node) bool {
			as, ok := nd.(*ast.AssignStmt)
			if !ok || as.Pos() < at {
				return true
			}
			for _, l := range as.Lhs {
				if sel, ok := ast.Unparen(l).(*ast.SelectorExpr); ok && isVar(info, sel.X, target) {
					bad = exprString(l)
				}
			}
			return true
		})
		c.check(bad == "", rule, f.ID, p.Pos(f.Decl.Pos()),
			"the decoded descriptor is returned as decoded",
			f.ID+" assigns `"+bad+"` after decoding: the descriptor read back differs from the one that was written (and an incomplete stored descriptor is no longer seen as incomplete)")
	}
	return n
}

// checkWALListEntriesSinglePage (C19): ListTokens back-dates the token it is given by twice the expiration to catch
// late writers; it is therefore not a pagination primitive. ListEntries asks it once, with its own arguments: calling it
// again from the continuation key lists the same tokens twice, and the collector refuses a token seen twice (panic).
func checkWALListEntriesSinglePage(c *Ctx, rule string) {
	p := c.P
	f := p.Func("pkg/wal.WAL.ListEntries")
	info := f.Info()
	n, inLoop, okArgs := 0, false, false
	ast.Inspect(f.Decl.Body, func(nd ast.Node) bool {
		call, ok := nd.(*ast.CallExpr)
		if !ok || calleeID(info, call) != "pkg/wal.WAL.ListTokens" {
			return true
		}
		n++
		for par := f.parentOf(call); par != nil; par = f.parentOf(par) {
			switch par.(type) {
			case *ast.ForStmt, *ast.RangeStmt:
				inLoop = true
			}
		}
		if len(call.Args) == 3 && describeExprAt(f, call.Args[0]) == "param#0" && describeExprAt(f, call.Args[1]) == "param#1" {
			okArgs = strings.Contains(describeExprAt(f, call.Args[2]), "param#2")
		}
		return true
	})
	c.check(n == 1 && !inLoop && okArgs, rule, f.ID, p.Pos(f.Decl.Pos()),
		"ListEntries lists its tokens with one ListTokens(ctx, fromToken, max) call",
		"ListEntries calls ListTokens "+itoa(n)+" time(s) (in a loop: "+map[bool]string{true: "yes", false: "no"}[inLoop]+"): every call back-dates its start key by twice the expiration, so a continuation lists earlier tokens again and the collector panics on (or returns) a token twice")
}

// checkFreeINodeSingleStep (C18): freeing the highest inode lowers the high-water mark by exactly one; any other inode
// goes to the free list. Lowering the mark further (over inodes that sit in the free list) without removing them from
// the list hands those numbers out twice.
func checkFreeINodeSingleStep(c *Ctx, rule string) {
	p := c.P
	f := p.Func("pkg/fuse.iNodeGenerator.freeINode")
	info := f.Info()
	bad := false
	n := 0
	ast.Inspect(f.Decl.Body, func(nd ast.Node) bool {
		var target ast.Expr
		switch x := nd.(type) {
		case *ast.IncDecStmt:
			if x.Tok == token.DEC {
				target = x.X
			}
		case *ast.AssignStmt:
			if len(x.Lhs) == 1 && (x.Tok == token.SUB_ASSIGN || x.Tok == token.ASSIGN) {
				target = x.Lhs[0]
			}
		}
		if target == nil {
			return true
		}
		sel, ok := ast.Unparen(target).(*ast.SelectorExpr)
		if !ok || describeExpr(f, sel.X, 0) != "recv" {
			return true
		}
		if b, ok := info.TypeOf(sel).Underlying().(*types.Basic); !ok || b.Info()&types.IsInteger == 0 {
			return true
		}
		n++
		for par := f.parentOf(nd); par != nil; par = f.parentOf(par) {
			switch par.(type) {
			case *ast.ForStmt, *ast.RangeStmt:
				bad = true
			}
		}
		return true
	})
	c.check(n == 1 && !bad, rule, f.ID, p.Pos(f.Decl.Pos()),
		"the high-water mark moves down by one step, once",
		"freeINode lowers the high-water mark "+itoa(n)+" time(s) (inside a loop: "+map[bool]string{true: "yes", false: "no"}[bad]+"): a mark lowered over numbers that are still in the free list makes allocINode hand the same inode out twice (two names share one node and one backing file)")
}

// checkTruncateOwnWritableHandle (C18): SetInodeAttributes truncates the backing file through a handle it opened itself
// for writing. The backingFiles cache holds whatever handle the last ReadFile / WriteFile left (read-only after a read):
// truncating through it fails with EIO after a read, and the size stays untruncated.
func checkTruncateOwnWritableHandle(c *Ctx, rule string) {
	p := c.P
	f := p.Func("pkg/fuse.fsMutable.SetInodeAttributes")
	info := f.Info()
	n := 0
	ast.Inspect(f.Decl.Body, func(nd ast.Node) bool {
		call, ok := nd.(*ast.CallExpr)
		if !ok || !strings.HasSuffix(calleeID(info, call), "afero.File.Truncate") {
			return true
		}
		n++
		sel := ast.Unparen(call.Fun).(*ast.SelectorExpr)
		d := describeExprAt(f, sel.X)
		own := strings.HasPrefix(d, "recv.localCache.OpenFile(") && strings.HasSuffix(d, ")#0") && !strings.Contains(d, "|")
		writable := false
		if own {
			// flags: second argument of the OpenFile call
			ast.Inspect(f.Decl.Body, func(m ast.Node) bool {
				oc, ok := m.(*ast.CallExpr)
				if !ok || !strings.HasSuffix(calleeID(info, oc), "afero.Fs.OpenFile") || len(oc.Args) < 2 {
					return true
				}
				if tv, ok := info.Types[oc.Args[1]]; ok && tv.Value != nil {
					fl := parseInt(tv.Value.String())
					if fl&(constInt(p, "os", "O_WRONLY")|constInt(p, "os", "O_RDWR")) != 0 {
						writable = true
					}
				}
				return true
			})
		}
		c.check(own && writable, rule, callKey(f, call), p.Pos(call.Pos()),
			"the truncated handle is opened in this call, for writing",
			"SetInodeAttributes truncates through `"+d+"`: a handle it did not open itself for writing (the backing-file cache holds a read-only handle after a read) — truncation then fails with EIO and the visible and committed size stay as they were")
		return true
	})
	if n == 0 {
		c.fail(rule, f.ID, p.Pos(f.Decl.Pos()), "SetInodeAttributes no longer truncates the backing file when a size is given")
	}
}

// checkBundleIDNeverReset (C12): a commit retried on the same Diamond re-uses the bundle ID of its failed attempt, so
// that the no-overwrite writes of that bundle arbitrate between the attempts. checkBundleID may normalise the ID it
// finds, never replace it: every setBundleID in it derives its argument from the current ID.
func checkBundleIDNeverReset(c *Ctx, rule string) {
	p := c.P
	f := p.Func("pkg/core.Diamond.checkBundleID")
	info := f.Info()
	n := 0
	bad := ""
	ast.Inspect(f.Decl.Body, func(nd ast.Node) bool {
		switch x := nd.(type) {
		case *ast.CallExpr:
			if calleeID(info, x) == "pkg/core.Diamond.setBundleID" || calleeID(info, x) == "pkg/core.Bundle.setBundleID" {
				n++
				if len(x.Args) != 1 || !strings.Contains(describeExprAt(f, x.Args[0]), "recv.BundleID") {
					bad = exprString(x)
				}
			}
		case *ast.AssignStmt:
			for i, l := range x.Lhs {
				if strings.HasSuffix(describeExpr(f, l, 0), ".BundleID") && i < len(x.Rhs) && !strings.Contains(describeExprAt(f, x.Rhs[i]), "recv.BundleID") {
					bad = exprString(x.Lhs[i]) + " = " + exprString(x.Rhs[i])
				}
			}
		}
		return true
	})
	c.check(bad == "", rule, f.ID, p.Pos(f.Decl.Pos()),
		"checkBundleID only normalises the bundle ID it finds ("+itoa(n)+" setter call)",
		"checkBundleID replaces the bundle ID (`"+bad+"`): a commit retried on the same Diamond after a failed final write no longer re-uses the ID of its first attempt, uploads a second bundle and marks the diamond done")
}

// checkTryGoHandled (C13, C14): errgroup's TryGo does not run the function when the group is at its limit. A dispatcher
// that ignores a false result drops the batch it was about to hand over; the purge then reports success with work undone.
func checkTryGoHandled(c *Ctx, rule string, pkgs ...string) {
	p := c.P
	n := 0
	for _, pk := range pkgs {
		for _, f := range p.FuncsIn(pk) {
			if f.Decl.Body == nil {
				continue
			}
			info := f.Info()
			ast.Inspect(f.Decl.Body, func(nd ast.Node) bool {
				call, ok := nd.(*ast.CallExpr)
				if !ok || !strings.HasSuffix(calleeID(info, call), "errgroup.Group.TryGo") || len(call.Args) != 1 {
					return true
				}
				// only dispatches that carry per-iteration data: a function literal using a variable defined inside the
				// enclosing loop (a received batch, a range element). A refused start of a worker that pulls its own work
				// (e.g. the next index chunk, taken from the KV by whoever runs next) loses nothing.
				// the operand: a literal, or a call building the worker from its arguments (repoKeysScanner(ctx, …, repo, …))
				var lit ast.Node
				switch a := ast.Unparen(call.Args[0]).(type) {
				case *ast.FuncLit:
					lit = a
				case *ast.CallExpr:
					lit = a
				default:
					return true
				}
				var loop ast.Node
				for par := f.parentOf(call); par != nil; par = f.parentOf(par) {
					switch par.(type) {
					case *ast.ForStmt, *ast.RangeStmt:
						if loop == nil {
							loop = par
						}
					}
				}
				carries := false
				if loop != nil {
					ast.Inspect(lit, func(m ast.Node) bool {
						if id, ok := m.(*ast.Ident); ok {
							if v, ok := info.Uses[id].(*types.Var); ok && !v.IsField() && encloses(loop, v.Pos()) && !encloses(lit, v.Pos()) {
								carries = true
							}
						}
						return true
					})
				}
				if !carries {
					return true
				}
				n++
				handled := false
				par := f.parentOf(call)
				for {
					if pe, ok := par.(*ast.ParenExpr); ok {
						par = f.parentOf(pe)
						continue
					}
					break
				}
				switch x := par.(type) {
				case *ast.UnaryExpr: // if !g.TryGo(...) { fallback }
					if x.Op == token.NOT {
						if ifs, ok := f.parentOf(x).(*ast.IfStmt); ok && len(ifs.Body.List) > 0 {
							handled = true
						}
					}
				case *ast.ForStmt: // for !g.TryGo(...) {}
					handled = true
				case *ast.AssignStmt:
					if id, ok := ast.Unparen(x.Lhs[0]).(*ast.Ident); ok {
						v := info.ObjectOf(id)
						ast.Inspect(f.Decl.Body, func(m ast.Node) bool {
							ifs, ok := m.(*ast.IfStmt)
							if !ok {
								return true
							}
							if u, ok := ast.Unparen(ifs.Cond).(*ast.UnaryExpr); ok && u.Op == token.NOT {
								if cid, ok := ast.Unparen(u.X).(*ast.Ident); ok && info.Uses[cid] == v && len(ifs.Body.List) > 0 {
									handled = true
								}
							}
							if cid, ok := ast.Unparen(ifs.Cond).(*ast.Ident); ok && info.Uses[cid] == v && ifs.Else != nil {
								handled = true
							}
							return true
						})
					}
				}
				c.check(handled, rule, callKey(f, call), p.Pos(call.Pos()),
					"a refused TryGo has a fallback",
					"the result of TryGo is not acted upon in "+f.ID+": when the group is at its limit the function is not run and the batch it carried is dropped silently — the operation reports success with part of its work undone")
				return true
			})
		}
	}
	if n == 0 {
		c.ok(rule, "pkg/core.scanBlob:scan", "-", "no TryGo dispatch carrying per-iteration data in "+strings.Join(pkgs, ","))
	}
}

// checkChunkDeleteBeforePut (C13, C14): an index chunk is written create-if-absent after removing whatever a previous
// index (or a failed attempt) left under its name, inside the retried operand: every path to the Put of the chunk
// passes the Delete of the same key. Deleting only after a failed Put loses the keys the failed attempt consumed
// (they are marked uploaded as they are streamed).
func checkChunkDeleteBeforePut(c *Ctx, rule string) {
	p := c.P
	f := p.Func("pkg/core.chunkUploader")
	n := 0
	for _, b := range p.BodiesOf(f) {
		info := b.Info()
		var put *ast.CallExpr
		for _, call := range b.findCalls(callTo("pkg/storage.Store.Put"), false) {
			put = call
		}
		if put == nil {
			continue
		}
		n++
		keyDesc := describeExprAt(f, put.Args[1])
		const no, yes = 1, 2
		bad := false
		b.run(flowSpec{entry: no,
			node: func(nd ast.Node, s uint64) uint64 {
				for _, call := range callsIn(nd) {
					id := calleeID(info, call)
					if id == "pkg/storage.Store.Delete" && len(call.Args) == 2 && describeExprAt(f, call.Args[1]) == keyDesc {
						s = yes
					}
					if call == put && s&no != 0 {
						bad = true
					}
				}
				return s
			}})
		c.check(!bad, rule, b.Key(), p.Pos(put.Pos()),
			"the chunk's name is cleared before the create-if-absent Put, inside the retried operand",
			"chunkUploader can reach the Put of an index chunk without having deleted what a previous index or attempt left under that name: the Put fails (or, on stores that stream before refusing, consumes and marks the keys first) and the retry uploads a chunk without them — delete-unused then removes referenced blobs")
	}
	if n == 0 {
		c.fail(rule, f.ID, p.Pos(f.Decl.Pos()), "chunkUploader no longer writes the chunk with Store.Put")
	}
}

// checkReadAtExits (C01, C17): ReadAt returns fewer bytes than asked only at the end of the object. Its exits are: the
// offset lies beyond the last leaf (before the loop), a leaf could not be loaded, and the completion test (buffer full
// or keys exhausted). An extra early return — e.g. a ranged read of one leaf — comes back short across a leaf boundary
// without an error.
func checkReadAtExits(c *Ctx, rule string) {
	p := c.P
	f := p.Func("pkg/cafs.chunkReader.ReadAt")
	info := f.Info()
	n := 0
	ast.Inspect(f.Decl.Body, func(nd ast.Node) bool {
		if _, isLit := nd.(*ast.FuncLit); isLit {
			return false
		}
		r, ok := nd.(*ast.ReturnStmt)
		if !ok {
			return true
		}
		n++
		ifs, _ := f.parentOf(f.parentOf(r)).(*ast.IfStmt)
		okExit := false
		why := "unconditional"
		if ifs != nil && f.parentOf(r) == ast.Node(ifs.Body) {
			why = exprString(ifs.Cond)
			d := describeExprAt(f, ifs.Cond)
			switch {
			case strings.Contains(d, "call:builtin.len(recv.keys)"): // beyond the last leaf / keys exhausted
				okExit = true
			default:
				// a failure test: some error variable compared != nil (possibly with more conjuncts)
				for _, cj := range conjuncts(ifs.Cond) {
					if be, ok := ast.Unparen(cj).(*ast.BinaryExpr); ok && be.Op == token.NEQ && isErrorType(info.TypeOf(be.X)) {
						if id, ok := ast.Unparen(be.Y).(*ast.Ident); ok && id.Name == "nil" {
							okExit = true
						}
					}
				}
			}
		}
		c.check(okExit, rule, f.ID+":return#"+itoa(n), p.Pos(r.Pos()),
			"exit at end of object, on a load failure or on completion",
			"ReadAt has an exit under `"+why+"` that is neither the end-of-object test, a load failure nor the completion test: a read served that way stops at a leaf boundary and comes back short without an error")
		return true
	})
	if n < 3 {
		c.fail(rule, f.ID+":returns", p.Pos(f.Decl.Pos()), "expected at least the 3 exits of ReadAt, found "+itoa(n))
	}
}

// checkStagesForwardErrors (C07, pooled): the key stages between fetchKeys and the fetch workers (mergeKeys,
// versionedKeys) re-emit one event per event received. The error of the received event must flow into the emitted one:
// built from a fresh nil error, a failed key page disappears and the listing ends early while reporting success.
func checkStagesForwardErrors(c *Ctx, rule string) {
	p := c.P
	n := 0
	for _, fid := range []string{"pkg/core.mergeKeys", "pkg/core.versionedKeys"} {
		f := p.FuncOpt(fid)
		if f == nil || f.Decl.Body == nil {
			continue
		}
		info := f.Info()
		ast.Inspect(f.Decl.Body, func(nd ast.Node) bool {
			rs, ok := nd.(*ast.RangeStmt)
			if !ok {
				return true
			}
			ch, ok := info.TypeOf(rs.X).Underlying().(*types.Chan)
			if !ok || namedTypeID(ch.Elem()) != "pkg/core.keyBatchEvent" {
				return true
			}
			kid, _ := rs.Key.(*ast.Ident)
			if kid == nil {
				return true
			}
			ev := info.Defs[kid]
			// sends of a keyBatchEvent literal in this loop: its error field derives from the received event's error
			ast.Inspect(rs.Body, func(m ast.Node) bool {
				snd, ok := m.(*ast.SendStmt)
				if !ok {
					return true
				}
				cl, ok := ast.Unparen(snd.Value).(*ast.CompositeLit)
				if !ok || namedTypeID(info.TypeOf(cl)) != "pkg/core.keyBatchEvent" {
					return true
				}
				n++
				forwarded := false
				for _, el := range cl.Elts {
					kv, ok := el.(*ast.KeyValueExpr)
					if !ok || !isErrorType(info.TypeOf(kv.Value)) {
						continue
					}
					// the value is the event's error, or a variable one of whose definitions is the event's error
					var check func(e ast.Expr, depth int) bool
					check = func(e ast.Expr, depth int) bool {
						e = ast.Unparen(e)
						if sel, ok := e.(*ast.SelectorExpr); ok {
							if id, ok := ast.Unparen(sel.X).(*ast.Ident); ok && info.Uses[id] == ev && isErrorType(info.TypeOf(sel)) {
								return true
							}
						}
						if id, ok := e.(*ast.Ident); ok && depth < 3 {
							if v, ok := info.Uses[id].(*types.Var); ok {
								for _, d := range defsOfVarWithIndex(f, v) {
									if d.rhs != nil && check(d.rhs, depth+1) {
										return true
									}
								}
							}
						}
						return false
					}
					if check(kv.Value, 0) {
						forwarded = true
					}
				}
				c.check(forwarded, rule, f.ID+":emit#"+itoa(n), p.Pos(snd.Pos()),
					"the emitted event carries the received event's error",
					f.ID+" emits its event without the error of the event it received: a key page that failed upstream is dropped, and the listing (or the commit that lists its splits) ends early with a nil error")
				return true
			})
			return true
		})
	}
	if n < 2 {
		c.fail(rule, "pkg/core.mergeKeys:stages", "-", "expected the 2 re-emitting key stages (mergeKeys, versionedKeys), found "+itoa(n))
	}
}

// checkMountLeafSizeAfterDescriptor (C17): the streamed mount reads leaves with the leaf size recorded in the bundle
// descriptor, which the mount itself fetches (PublishMetadata): the cafs reader is built after that call on every path,
// not from the descriptor the caller's Bundle value happens to hold (the default size for a bundle built from an ID).
func checkMountLeafSizeAfterDescriptor(c *Ctx, rule string) {
	p := c.P
	f := p.Func("pkg/fuse.NewReadOnlyFS")
	b := p.BodyOf(f)
	info := f.Info()
	const before, after = 1, 2
	bad, n := false, 0
	b.run(flowSpec{entry: before,
		node: func(nd ast.Node, s uint64) uint64 {
			for _, call := range callsIn(nd) {
				switch calleeID(info, call) {
				case "pkg/core.PublishMetadata", "pkg/core.Publish", "pkg/core.DownloadMetadata":
					s = after
				case "pkg/cafs.New":
					n++
					if s&before != 0 {
						bad = true
					}
				}
			}
			return s
		}})
	c.check(n > 0 && !bad, rule, f.ID, p.Pos(f.Decl.Pos()),
		"the cafs reader of a streamed mount is built after the descriptor was fetched",
		"NewReadOnlyFS builds its cafs reader before (or without) fetching the bundle descriptor: the leaf size is the one the caller's Bundle value holds (the default), so every read of a bundle recorded with another leaf size fails its root-key check")
}

// checkLabelVersionSwitch (C08): a label is resolved to its current value unless a version was asked for: GetVersion(path,
// version) is called exactly where the label's version is set, Get(path) where it is not; both on the label's own path.
func checkLabelVersionSwitch(c *Ctx, rule string) {
	p := c.P
	f := p.Func("pkg/core.Label.DownloadDescriptor")
	info := f.Info()
	ok := false
	why := "no `if label.version != \"\" { GetVersion } else { Get }` found"
	ast.Inspect(f.Decl.Body, func(nd ast.Node) bool {
		ifs, isIf := nd.(*ast.IfStmt)
		if !isIf || ifs.Else == nil {
			return true
		}
		var gv, g *ast.CallExpr
		ast.Inspect(ifs.Body, func(m ast.Node) bool {
			if call, isC := m.(*ast.CallExpr); isC && calleeID(info, call) == "pkg/storage.VersionedStore.GetVersion" {
				gv = call
			}
			return true
		})
		ast.Inspect(ifs.Else, func(m ast.Node) bool {
			if call, isC := m.(*ast.CallExpr); isC && calleeID(info, call) == "pkg/storage.Store.Get" {
				g = call
			}
			return true
		})
		if gv == nil && g == nil {
			return true
		}
		cond := describeExprAt(f, ifs.Cond)
		switch {
		case cond != "(recv.version!=const:\"\")":
			why = "the version switch tests `" + exprString(ifs.Cond) + "`"
		case gv == nil || g == nil:
			why = "GetVersion is not on the version branch or Get not on the other"
		case len(gv.Args) != 3 || !strings.Contains(describeExprAt(f, gv.Args[1]), "pkg/model.GetArchivePathToLabel(") || describeExprAt(f, gv.Args[2]) != "recv.version":
			why = "GetVersion is called with (" + exprString(gv.Args[1]) + ", " + exprString(gv.Args[2]) + ")"
		case len(g.Args) != 2 || !strings.Contains(describeExprAt(f, g.Args[1]), "pkg/model.GetArchivePathToLabel("):
			why = "Get is not on the label's path"
		default:
			ok = true
		}
		return true
	})
	c.check(ok, rule, f.ID, p.Pos(f.Decl.Pos()),
		"GetVersion(path, version) iff a version is set, Get(path) otherwise",
		"Label.DownloadDescriptor: "+why+": a plain resolution no longer reads the label's current value (or a versioned one reads another object)")
}

// checkLeafReadLoopShape (C01, C03): the loop of readLeaf that fills a pooled buffer from the blob reader. With the
// roles n (count of the Read), e (its error), buf (the slice the read was appended after), the loop has exactly these
// three tests, by role: an error other than io.EOF fails the read (`e != nil && e != io.EOF` → failure return); the
// count is accounted as `Slice(0, len(buf)+n)`; the loop is left when `e == io.EOF || n == 0`. Any other polarity either
// serves a truncated leaf or swallows a backend error (silently when hash verification is off).
func checkLeafReadLoopShape(c *Ctx, rule string) {
	p := c.P
	f := p.Func("pkg/cafs.readLeafFunc")
	info := f.Info()
	found := false
	for _, b := range p.BodiesOf(f) {
		var loop *ast.ForStmt
		var readAs *ast.AssignStmt
		ast.Inspect(b.Block, func(nd ast.Node) bool {
			if l, ok := nd.(*ast.FuncLit); ok && l != b.Lit {
				return false
			}
			fs, ok := nd.(*ast.ForStmt)
			if !ok {
				return true
			}
			for _, st := range fs.Body.List {
				as, ok := st.(*ast.AssignStmt)
				if !ok || len(as.Lhs) != 2 || len(as.Rhs) != 1 {
					continue
				}
				if call, ok := ast.Unparen(as.Rhs[0]).(*ast.CallExpr); ok && calleeID(info, call) == "io.Reader.Read" {
					loop, readAs = fs, as
				}
			}
			return true
		})
		if loop == nil {
			continue
		}
		found = true
		roles := map[types.Object]string{}
		if id, ok := readAs.Lhs[0].(*ast.Ident); ok {
			roles[info.ObjectOf(id)] = "n"
		}
		if id, ok := readAs.Lhs[1].(*ast.Ident); ok {
			roles[info.ObjectOf(id)] = "e"
		}
		// buf: the variable sliced in the Read argument
		rc := ast.Unparen(readAs.Rhs[0]).(*ast.CallExpr)
		if se, ok := ast.Unparen(rc.Args[0]).(*ast.SliceExpr); ok {
			if id, ok := ast.Unparen(se.X).(*ast.Ident); ok {
				roles[info.ObjectOf(id)] = "buf"
			}
		}
		norm := func(e ast.Expr, split token.Token) string {
			var parts []string
			var walk func(x ast.Expr)
			walk = func(x ast.Expr) {
				x = ast.Unparen(x)
				if be, ok := x.(*ast.BinaryExpr); ok && be.Op == split {
					walk(be.X)
					walk(be.Y)
					return
				}
				parts = append(parts, roleString(info, x, roles))
			}
			walk(e)
			sort.Strings(parts)
			return strings.Join(parts, " "+split.String()+" ")
		}
		errTest, exitTest, account := "", "", ""
		readSeen := false
		for _, st := range loop.Body.List {
			if st == ast.Stmt(readAs) {
				readSeen = true
				continue
			}
			if !readSeen {
				continue
			}
			switch x := st.(type) {
			case *ast.IfStmt:
				if len(x.Body.List) == 0 {
					continue
				}
				switch last := x.Body.List[len(x.Body.List)-1].(type) {
				case *ast.ReturnStmt:
					if b.classifyReturn(last) == retFailure {
						errTest = norm(x.Cond, token.LAND)
					}
				case *ast.BranchStmt:
					if last.Tok == token.BREAK {
						exitTest = norm(x.Cond, token.LOR)
					}
				}
			case *ast.AssignStmt, *ast.ExprStmt:
				ast.Inspect(x, func(m ast.Node) bool {
					if call, ok := m.(*ast.CallExpr); ok && strings.HasSuffix(calleeID(info, call), "LeafBuffer.Slice") && len(call.Args) == 2 {
						account = roleString(info, call.Args[0], roles) + "," + roleString(info, call.Args[1], roles)
					}
					return true
				})
			}
		}
		got := "error: " + errTest + " | account: " + account + " | exit: " + exitTest
		want := "error: e!=io.EOF && e!=nil | account: 0,len(buf)+n | exit: e==io.EOF || n==0"
		c.check(got == want, rule, b.Key(), p.Pos(loop.Pos()), got,
			"the leaf read loop is ["+got+"], expected ["+want+"]: a backend error is taken for the end of the leaf, a count is dropped or mis-added, or the loop stops before the reader is exhausted — the leaf served is truncated or misplaced (an error only when hash verification is on)")
	}
	if !found {
		c.softUndecided("%s: readLeafFunc no longer fills its buffer with a Read loop", rule)
	}
}

// checkPrefetchHandoff (C01, C15): doPrefetch returns (buffer, done, err). readLeaf hands the buffer back as complete
// (`return lb, true, nil`) exactly where done is true, returns "nothing to do" (`nil, false, nil`) exactly where the
// buffer is nil, and otherwise goes on to fill the (empty) buffer itself. With the tests inverted a buffer that was not
// filled is served as a complete leaf, or a filled one is filled again after its end.
func checkPrefetchHandoff(c *Ctx, rule string) {
	p := c.P
	f := p.Func("pkg/cafs.readLeafFunc")
	info := f.Info()
	found := false
	for _, b := range p.BodiesOf(f) {
		var as *ast.AssignStmt
		ast.Inspect(b.Block, func(nd ast.Node) bool {
			if l, ok := nd.(*ast.FuncLit); ok && l != b.Lit {
				return false
			}
			if a, ok := nd.(*ast.AssignStmt); ok && len(a.Lhs) == 3 && len(a.Rhs) == 1 {
				if call, ok := ast.Unparen(a.Rhs[0]).(*ast.CallExpr); ok && calleeID(info, call) == "pkg/cafs.chunkReader.doPrefetch" {
					as = a
				}
			}
			return true
		})
		if as == nil {
			continue
		}
		found = true
		roles := map[types.Object]string{}
		for i, nm := range []string{"lb", "done", "err"} {
			if id, ok := as.Lhs[i].(*ast.Ident); ok {
				roles[info.ObjectOf(id)] = nm
			}
		}
		var rows []string
		blk, _ := f.parentOf(as).(*ast.BlockStmt)
		if blk == nil {
			continue
		}
		after := false
		for _, st := range blk.List {
			if st == ast.Stmt(as) {
				after = true
				continue
			}
			if !after {
				continue
			}
			ifs, ok := st.(*ast.IfStmt)
			if !ok || len(ifs.Body.List) == 0 {
				continue
			}
			if ret, ok := ifs.Body.List[len(ifs.Body.List)-1].(*ast.ReturnStmt); ok && len(ret.Results) == 3 {
				rows = append(rows, roleString(info, ifs.Cond, roles)+" => "+roleString(info, ret.Results[0], roles)+","+roleString(info, ret.Results[1], roles)+","+roleString(info, ret.Results[2], roles))
			}
		}
		got := strings.Join(rows, " | ")
		want := "err!=nil => nil,false,err | lb==nil => nil,false,nil | done => lb,true,nil"
		c.check(got == want, rule, b.Key(), p.Pos(as.Pos()), got,
			"after doPrefetch readLeaf returns ["+got+"], expected ["+want+"]: a buffer a prefetcher did not complete is handed back as a complete leaf, or a completed one is read into again")
	}
	if !found {
		c.softUndecided("%s: readLeafFunc no longer calls doPrefetch", rule)
	}
}

// checkReadAtLoopShape (C01, C17): the leaf loop of ReadAt, by role (data = the caller's buffer, off = the offset
// parameter, index/offset = calculateKeyAndOffset(off, leafSize), got = the named byte count, leaf = the bytes of the
// current leaf buffer). Each leaf is copied as `got += copy(data[got:], leaf[offset:])`; then the loop moves to the next
// leaf (`index++`, `offset = 0`) and ends when `got == len(data) || index >= len(keys)`. Any other form re-serves a
// leaf, starts the next leaf at the first leaf's offset, copies the wrong way round (into the cached leaf) or stops short.
func checkReadAtLoopShape(c *Ctx, rule string) {
	p := c.P
	f := p.Func("pkg/cafs.chunkReader.ReadAt")
	info := f.Info()
	sig := f.Obj.Type().(*types.Signature)
	roles := map[types.Object]string{sig.Params().At(0): "data", sig.Params().At(1): "off"}
	if sig.Recv() != nil {
		roles[sig.Recv()] = "r"
	}
	if sig.Results().Len() > 0 && sig.Results().At(0).Name() != "" {
		roles[sig.Results().At(0)] = "got"
	}
	if vs := lhsVars(info, f.Decl.Body, func(e ast.Expr) bool {
		call, ok := ast.Unparen(e).(*ast.CallExpr)
		return ok && calleeID(info, call) == "pkg/cafs.calculateKeyAndOffset"
	}); len(vs) == 2 && vs[0] != nil && vs[1] != nil {
		roles[vs[0]], roles[vs[1]] = "index", "offset"
	}
	// want: len(data) variable
	if vs := lhsVars(info, f.Decl.Body, func(e ast.Expr) bool {
		call, ok := ast.Unparen(e).(*ast.CallExpr)
		return ok && calleeID(info, call) == "builtin.len" && len(call.Args) == 1 && roleString(info, call.Args[0], roles) == "data"
	}); len(vs) == 1 && vs[0] != nil {
		roles[vs[0]] = "want"
	}
	var loop *ast.ForStmt
	for _, st := range f.Decl.Body.List {
		if l, ok := st.(*ast.ForStmt); ok && l.Cond == nil {
			loop = l
		}
	}
	if loop == nil {
		c.softUndecided("%s: ReadAt no longer has its leaf loop", rule)
		return
	}
	// leaf: a variable bound to <buffer>.Bytes() inside the loop
	ast.Inspect(loop, func(nd ast.Node) bool {
		as, ok := nd.(*ast.AssignStmt)
		if !ok || len(as.Lhs) != 1 || len(as.Rhs) != 1 {
			return true
		}
		if call, ok := ast.Unparen(as.Rhs[0]).(*ast.CallExpr); ok && strings.HasSuffix(calleeID(info, call), "LeafBuffer.Bytes") {
			if id, ok := as.Lhs[0].(*ast.Ident); ok {
				roles[info.ObjectOf(id)] = "leaf"
			}
		}
		return true
	})
	var copies, steps []string
	exit := ""
	ast.Inspect(loop.Body, func(nd ast.Node) bool {
		switch x := nd.(type) {
		case *ast.FuncLit:
			return false
		case *ast.AssignStmt:
			if len(x.Lhs) == 1 && len(x.Rhs) == 1 {
				if call, ok := ast.Unparen(x.Rhs[0]).(*ast.CallExpr); ok && calleeID(info, call) == "builtin.copy" {
					copies = append(copies, roleString(info, x.Lhs[0], roles)+x.Tok.String()+roleString(info, call, roles))
				}
				if r := roleString(info, x.Lhs[0], roles); (r == "offset" || r == "index") && f.parentOf(x) == ast.Node(loop.Body) {
					steps = append(steps, r+x.Tok.String()+roleString(info, x.Rhs[0], roles))
				}
			}
		case *ast.IncDecStmt:
			if r := roleString(info, x.X, roles); (r == "offset" || r == "index") && f.parentOf(x) == ast.Node(loop.Body) {
				steps = append(steps, r+x.Tok.String())
			}
		case *ast.IfStmt:
			if f.parentOf(x) == ast.Node(loop.Body) && len(x.Body.List) == 1 {
				if _, isRet := x.Body.List[0].(*ast.ReturnStmt); isRet {
					d := roleString(info, x.Cond, roles)
					if strings.Contains(d, "want") || strings.Contains(d, "len(") {
						exit = d
					}
				}
			}
		}
		return true
	})
	sort.Strings(steps)
	got := "copy: " + strings.Join(copies, ";") + " | step: " + strings.Join(steps, ";") + " | exit: " + exit
	want := "copy: got+=copy(data[got:],leaf[offset:]) | step: index++;offset=0 | exit: got==want||index>=len(r.keys)"
	c.check(got == want, rule, f.ID, p.Pos(loop.Pos()), got,
		"the leaf loop of ReadAt is ["+got+"], expected ["+want+"]: a read spanning several leaves re-serves a leaf, starts the next leaf at the wrong offset, copies into the cached leaf instead of the caller's buffer, or stops short without an error")
}

// checkWriterWriteShape (C01, C02): fsWriter.Write, by role (p = the caller's bytes, done = bytes consumed so far,
// c = bytes taken by one copy, buf/offset = the leaf being assembled). Each turn copies `c := copy(buf[offset:], p[done:])`,
// advances both cursors by c, returns (len(p), nil) when done == len(p), and hands the leaf over when offset == len(buf).
// A cursor that does not move, or moves by something else, overwrites the leaf in place: the stored content (and its
// key) silently differs from what was written.
func checkWriterWriteShape(c *Ctx, rule string) {
	p := c.P
	f := p.Func("pkg/cafs.fsWriter.Write")
	info := f.Info()
	sig := f.Obj.Type().(*types.Signature)
	roles := map[types.Object]string{sig.Params().At(0): "p", sig.Recv(): "w"}
	var copyAs *ast.AssignStmt
	ast.Inspect(f.Decl.Body, func(nd ast.Node) bool {
		if as, ok := nd.(*ast.AssignStmt); ok && len(as.Lhs) == 1 && len(as.Rhs) == 1 {
			if call, ok := ast.Unparen(as.Rhs[0]).(*ast.CallExpr); ok && calleeID(info, call) == "builtin.copy" {
				copyAs = as
			}
		}
		return true
	})
	if copyAs == nil {
		c.softUndecided("%s: fsWriter.Write no longer copies its argument into the leaf buffer", rule)
		return
	}
	if id, ok := copyAs.Lhs[0].(*ast.Ident); ok {
		roles[info.ObjectOf(id)] = "c"
	}
	call := ast.Unparen(copyAs.Rhs[0]).(*ast.CallExpr)
	// done: the low bound of the slice of p
	if se, ok := ast.Unparen(call.Args[1]).(*ast.SliceExpr); ok && se.Low != nil {
		if id, ok := ast.Unparen(se.Low).(*ast.Ident); ok {
			roles[info.ObjectOf(id)] = "done"
		}
	}
	var rows []string
	rows = append(rows, "c="+roleString(info, call, roles))
	blk, _ := f.parentOf(copyAs).(*ast.BlockStmt)
	if blk == nil {
		return
	}
	for _, st := range blk.List {
		switch x := st.(type) {
		case *ast.AssignStmt:
			if x != copyAs && len(x.Lhs) == 1 && len(x.Rhs) == 1 && (x.Tok == token.ADD_ASSIGN || x.Tok == token.ASSIGN) {
				rows = append(rows, roleString(info, x.Lhs[0], roles)+x.Tok.String()+roleString(info, x.Rhs[0], roles))
			}
		case *ast.IfStmt:
			if len(x.Body.List) > 0 {
				if ret, ok := x.Body.List[len(x.Body.List)-1].(*ast.ReturnStmt); ok && len(ret.Results) == 2 {
					rows = append(rows, "if "+roleString(info, x.Cond, roles)+" return "+roleString(info, ret.Results[0], roles)+","+roleString(info, ret.Results[1], roles))
				} else {
					rows = append(rows, "if "+roleString(info, x.Cond, roles)+" flush")
				}
			}
		}
	}
	got := strings.Join(rows, " ; ")
	want := "c=copy(w.buf[w.offset:],p[done:]) ; if done==len(p) return len(p),nil ; w.offset+=c ; done+=c ; if w.offset==len(w.buf) flush"
	c.check(got == want, rule, f.ID, p.Pos(copyAs.Pos()), got,
		"fsWriter.Write is ["+got+"], expected ["+want+"]: a cursor that does not advance by the bytes copied (or a wrong completion / hand-over test) overwrites or skips part of a leaf — the object stored under the returned key is not the content written")
}

// checkWriterFlushShape (C01, C02): Flush fails when a leaf flush failed (`len(w.errors) != 0` → failure return) before
// it computes anything from the leaf keys, and serialises the keys as `copy(out[i*KeySize:(i+1)*KeySize], key[:])` —
// destination the output buffer, source the key.
func checkWriterFlushShape(c *Ctx, rule string) {
	p := c.P
	f := p.Func("pkg/cafs.fsWriter.Flush")
	info := f.Info()
	b := p.BodyOf(f)
	// error test
	okErr := false
	errCond := ""
	for _, st := range f.Decl.Body.List {
		ifs, ok := st.(*ast.IfStmt)
		if !ok || len(ifs.Body.List) == 0 {
			continue
		}
		ret, ok := ifs.Body.List[len(ifs.Body.List)-1].(*ast.ReturnStmt)
		if !ok || b.classifyReturn(ret) != retFailure {
			continue
		}
		d := describeExpr(f, ifs.Cond, 0)
		if strings.Contains(d, "recv.errors") {
			errCond = d
			okErr = d == "(call:builtin.len(recv.errors)!=const:0)" || d == "(call:builtin.len(recv.errors)>const:0)"
		}
	}
	c.check(okErr, rule, f.ID+":errors-test", p.Pos(f.Decl.Pos()),
		"a collected flush error fails Flush",
		"Flush tests its collected errors with `"+errCond+"`: a failed leaf write no longer fails the Put, which returns a key over fewer (or other) leaves")
	// key serialisation: every copy whose source or destination is a Key
	nCopy := 0
	// Flush itself and the unexported helpers of the package it calls (the serialisation loop may live in one)
	scan := []*FuncInfo{f}
	ast.Inspect(f.Decl.Body, func(nd ast.Node) bool {
		if call, ok := nd.(*ast.CallExpr); ok {
			if h := p.FuncOpt(calleeID(info, call)); h != nil && h.Decl.Body != nil && h != f && !ast.IsExported(h.Decl.Name.Name) && strings.HasPrefix(h.ID, "pkg/cafs.") {
				scan = append(scan, h)
			}
		}
		return true
	})
	for _, g := range scan {
		g := g
		ginfo := g.Info()
		ast.Inspect(g.Decl.Body, func(nd ast.Node) bool {
			call, ok := nd.(*ast.CallExpr)
			if !ok || calleeID(ginfo, call) != "builtin.copy" {
				return true
			}
			isKeySlice := func(e ast.Expr) bool {
				if se, ok := ast.Unparen(e).(*ast.SliceExpr); ok {
					return namedTypeID(ginfo.TypeOf(se.X)) == "pkg/cafs.Key"
				}
				return false
			}
			if isKeySlice(call.Args[0]) || isKeySlice(call.Args[1]) {
				nCopy++
				c.check(isKeySlice(call.Args[1]) && !isKeySlice(call.Args[0]), rule, callKey(g, call), p.Pos(call.Pos()),
					"leaf keys are copied into the output buffer",
					"Flush copies `"+exprString(call.Args[1])+"` into `"+exprString(call.Args[0])+"`: the key list of the root blob is written the wrong way round (into a loop copy of the key): every root blob holds zeroes instead of its leaf keys")
			}
			return true
		})
	}
	if nCopy == 0 {
		c.fail(rule, f.ID+":keys-copied", p.Pos(f.Decl.Pos()), "Flush no longer serialises the leaf keys")
	}
}

// checkCopyIntoRangeCopy (generic, contradiction rule): `copy(x[..], …)` where x is the value variable of a range loop
// over arrays writes into the per-iteration copy and is lost. (A slice element shares its backing array; an array
// element does not.)
func checkCopyIntoRangeCopy(c *Ctx, rule string, pkgs ...string) int {
	p := c.P
	n := 0
	for _, pk := range pkgs {
		for _, f := range p.FuncsIn(pk) {
			if f.Decl.Body == nil {
				continue
			}
			info := f.Info()
			ast.Inspect(f.Decl.Body, func(nd ast.Node) bool {
				rs, ok := nd.(*ast.RangeStmt)
				if !ok || rs.Value == nil {
					return true
				}
				vid, ok := rs.Value.(*ast.Ident)
				if !ok {
					return true
				}
				v := info.ObjectOf(vid)
				if v == nil {
					return true
				}
				if _, isArr := v.Type().Underlying().(*types.Array); !isArr {
					return true
				}
				ast.Inspect(rs.Body, func(m ast.Node) bool {
					call, ok := m.(*ast.CallExpr)
					if !ok || calleeID(info, call) != "builtin.copy" {
						return true
					}
					n++
					if se, ok := ast.Unparen(call.Args[0]).(*ast.SliceExpr); ok {
						if id, ok := ast.Unparen(se.X).(*ast.Ident); ok && info.Uses[id] == v {
							c.fail(rule, callKey(f, call), p.Pos(call.Pos()), "copy writes into `"+id.Name+"`, the per-iteration copy of an array element: the bytes are lost and the intended destination keeps its zero value")
						}
					}
					return true
				})
				return true
			})
		}
	}
	return n
}

// roleStmts renders a statement list canonically with roles (see roleString): assignments, if/else, range loops,
// branch statements, returns, inc/dec, expression statements. Used by the table rules over small algorithmic cores.
func roleStmts(info *types.Info, list []ast.Stmt, roles map[types.Object]string) string {
	var out []string
	for _, st := range list {
		switch x := st.(type) {
		case *ast.AssignStmt:
			var l, r []string
			for _, e := range x.Lhs {
				l = append(l, roleString(info, e, roles))
			}
			for _, e := range x.Rhs {
				r = append(r, roleString(info, e, roles))
			}
			out = append(out, strings.Join(l, ",")+x.Tok.String()+strings.Join(r, ","))
		case *ast.IfStmt:
			s := "if " + roleString(info, x.Cond, roles) + " {" + roleStmts(info, x.Body.List, roles) + "}"
			if x.Init != nil {
				s = "if " + roleStmts(info, []ast.Stmt{x.Init}, roles) + "; " + roleString(info, x.Cond, roles) + " {" + roleStmts(info, x.Body.List, roles) + "}"
			}
			switch e := x.Else.(type) {
			case *ast.BlockStmt:
				s += " else {" + roleStmts(info, e.List, roles) + "}"
			case *ast.IfStmt:
				s += " else " + roleStmts(info, []ast.Stmt{e}, roles)
			}
			out = append(out, s)
		case *ast.RangeStmt:
			k, v := "_", "_"
			if x.Key != nil {
				k = roleString(info, x.Key, roles)
			}
			if x.Value != nil {
				v = roleString(info, x.Value, roles)
			}
			out = append(out, "for "+k+","+v+" range "+roleString(info, x.X, roles)+" {"+roleStmts(info, x.Body.List, roles)+"}")
		case *ast.BranchStmt:
			out = append(out, x.Tok.String())
		case *ast.ReturnStmt:
			var r []string
			for _, e := range x.Results {
				r = append(r, roleString(info, e, roles))
			}
			out = append(out, "return "+strings.Join(r, ","))
		case *ast.IncDecStmt:
			out = append(out, roleString(info, x.X, roles)+x.Tok.String())
		case *ast.ExprStmt:
			out = append(out, roleString(info, x.X, roles))
		case *ast.DeclStmt:
			out = append(out, "decl")
		default:
			out = append(out, "stmt")
		}
	}
	return strings.Join(out, "; ")
}

// checkKeysPrefixAlgorithm (C16): the three small algorithms inside localfs KeysPrefix, rendered by role (never by
// name): (1) the walk callback keeps a path iff it has the prefix, truncates it after the first delimiter found past the
// prefix when a delimiter is given, strips the leading '/' for relative prefixes and appends it; (2) truncated matches
// are de-duplicated when a delimiter is given; (3) the page starts at 0 for an empty token, at the position of the token
// otherwise, and an unknown token yields an empty page.
func checkKeysPrefixAlgorithm(c *Ctx, rule string) {
	p := c.P
	f := p.Func("pkg/storage/localfs.localFS.KeysPrefix")
	info := f.Info()
	sig := f.Obj.Type().(*types.Signature)
	roles := map[types.Object]string{sig.Recv(): "l", sig.Params().At(1): "token", sig.Params().At(2): "prefix", sig.Params().At(3): "delimiter", sig.Params().At(4): "count"}
	// walk callback
	var cb *ast.FuncLit
	for _, l := range f.Lits {
		if s, ok := info.TypeOf(l).(*types.Signature); ok && s.Params().Len() == 3 {
			cb = l
		}
	}
	if cb == nil {
		c.softUndecided("%s: KeysPrefix no longer walks with a callback", rule)
		return
	}
	var names []*ast.Ident
	for _, fl := range cb.Type.Params.List {
		names = append(names, fl.Names...)
	}
	for i, nm := range []string{"pth", "info", "werr"} {
		if i < len(names) {
			roles[info.Defs[names[i]]] = nm
		}
	}
	// noRoot: defined as !HasPrefix(prefix, "/")
	for _, v := range lhsVars(info, f.Decl.Body, func(e ast.Expr) bool {
		u, ok := ast.Unparen(e).(*ast.UnaryExpr)
		if !ok || u.Op != token.NOT {
			return false
		}
		call, ok := ast.Unparen(u.X).(*ast.CallExpr)
		return ok && calleeID(info, call) == "strings.HasPrefix"
	}) {
		if v != nil {
			roles[v] = "noRoot"
		}
	}
	// matches: appended with pth in the callback
	ast.Inspect(cb.Body, func(nd ast.Node) bool {
		if as, ok := nd.(*ast.AssignStmt); ok && len(as.Rhs) == 1 {
			if call, ok := ast.Unparen(as.Rhs[0]).(*ast.CallExpr); ok && calleeID(info, call) == "builtin.append" && len(call.Args) == 2 && roleString(info, call.Args[1], roles) == "pth" {
				if id, ok := as.Lhs[0].(*ast.Ident); ok {
					roles[info.ObjectOf(id)] = "matches"
				}
			}
			if call, ok := ast.Unparen(as.Rhs[0]).(*ast.CallExpr); ok && calleeID(info, call) == "strings.Index" {
				if id, ok := as.Lhs[0].(*ast.Ident); ok {
					roles[info.ObjectOf(id)] = "cut"
				}
			}
		}
		return true
	})
	// (1) the keep-branch of the callback
	keep := ""
	ast.Inspect(cb.Body, func(nd ast.Node) bool {
		if ifs, ok := nd.(*ast.IfStmt); ok && roleString(info, ifs.Cond, roles) == "strings.HasPrefix(pth,prefix)" {
			keep = roleStmts(info, ifs.Body.List, roles)
		}
		return true
	})
	wantKeep := "if delimiter!=\"\"&&len(pth)>len(prefix) {if cut:=strings.Index(pth[len(prefix):],delimiter); cut>-1 {pth=pth[0:len(prefix)+cut+1]}}; if noRoot {pth=strings.TrimPrefix(pth,\"/\")}; matches=append(matches,pth)"
	c.check(keep == wantKeep, rule, f.ID+":keep", p.Pos(cb.Pos()), keep,
		"a kept path is processed as ["+keep+"], expected ["+wantKeep+"]: with a delimiter a key must be cut just after the first delimiter past the prefix (immediate sub-prefix), a relative prefix yields relative keys, and the key is recorded")
	// (2) dedupe and (3) token lookup: locate by the role of their conditions
	var dedupe, lookup string
	var walkBlock *ast.BlockStmt
	ast.Inspect(f.Decl.Body, func(nd ast.Node) bool {
		ifs, ok := nd.(*ast.IfStmt)
		if !ok {
			return true
		}
		cond := roleString(info, ifs.Cond, roles)
		switch {
		case cond == "delimiter!=\"\"" && !encloses(cb, ifs.Pos()):
			// roles of the dedupe block: deduped = the slice assigned to matches; loops' variables by position
			local := map[types.Object]string{}
			for k, v := range roles {
				local[k] = v
			}
			for _, st := range ifs.Body.List {
				if as, ok := st.(*ast.AssignStmt); ok && len(as.Lhs) == 1 && len(as.Rhs) == 1 {
					if roleString(info, as.Lhs[0], local) == "matches" {
						if id, ok := ast.Unparen(as.Rhs[0]).(*ast.Ident); ok {
							local[info.ObjectOf(id)] = "deduped"
						}
					}
				}
			}
			depth := 0
			ast.Inspect(ifs.Body, func(m ast.Node) bool {
				if rs, ok := m.(*ast.RangeStmt); ok {
					depth++
					if id, ok := rs.Value.(*ast.Ident); ok {
						local[info.ObjectOf(id)] = "v" + itoa(depth)
					}
				}
				if as, ok := m.(*ast.AssignStmt); ok && as.Tok == token.DEFINE && len(as.Lhs) == 1 {
					if _, isBool := isBoolConst(info, as.Rhs[0]); isBool {
						if id, ok := as.Lhs[0].(*ast.Ident); ok {
							local[info.ObjectOf(id)] = "dupe"
						}
					}
				}
				return true
			})
			dedupe = roleStmts(info, ifs.Body.List, local)
			walkBlock, _ = f.parentOf(ifs).(*ast.BlockStmt)
		case cond == "token==\"\"":
			local := map[types.Object]string{}
			for k, v := range roles {
				local[k] = v
			}
			ast.Inspect(ifs, func(m ast.Node) bool {
				if rs, ok := m.(*ast.RangeStmt); ok {
					if id, ok := rs.Key.(*ast.Ident); ok {
						local[info.ObjectOf(id)] = "i"
					}
					if id, ok := rs.Value.(*ast.Ident); ok {
						local[info.ObjectOf(id)] = "v"
					}
					local[info.ObjectOf(ast.Unparen(rs.X).(*ast.Ident))] = "search"
				}
				if as, ok := m.(*ast.AssignStmt); ok && as.Tok == token.DEFINE && len(as.Lhs) == 1 {
					if _, isBool := isBoolConst(info, as.Rhs[0]); isBool {
						if id, ok := as.Lhs[0].(*ast.Ident); ok {
							local[info.ObjectOf(id)] = "found"
						}
					}
				}
				return true
			})
			// start: the variable assigned 0 in the then-branch
			for _, st := range ifs.Body.List {
				if as, ok := st.(*ast.AssignStmt); ok && len(as.Lhs) == 1 {
					if id, ok := as.Lhs[0].(*ast.Ident); ok {
						local[info.ObjectOf(id)] = "start"
					}
				}
			}
			lookup = roleStmts(info, []ast.Stmt{ifs}, local)
		}
		return true
	})
	_ = walkBlock
	wantDedupe := "deduped:=make([]string,0,len(matches)); for _,v1 range matches {dupe:=false; for _,v2 range deduped {if v1==v2 {dupe=true; break}}; if !dupe {deduped=append(deduped,v1)}}; matches=deduped"
	c.check(dedupe == wantDedupe, rule, f.ID+":dedupe", p.Pos(f.Decl.Pos()), dedupe,
		"truncated matches are de-duplicated as ["+dedupe+"], expected ["+wantDedupe+"]: with a delimiter each immediate sub-prefix must be listed once")
	wantLookup := "if token==\"\" {start=0} else {found:=false; for i,v range search {if token!=v {continue}; found=true; start=i; break}; if !found {delete(l.glob,prefix); return []string{},\"\",nil}}"
	c.check(lookup == wantLookup, rule, f.ID+":token", p.Pos(f.Decl.Pos()), lookup,
		"the page start is found as ["+lookup+"], expected ["+wantLookup+"]: a listing resumed with the continuation token must start exactly at that key, whatever the page size")
}

// checkProtocolChannelsUnbuffered (C04, C06, C11, C15 — pooled): the upload / download fan-outs hand results, errors and
// the done signal over the channels collected in the *Chans structs (uploadBundleChans, downloadBundleChans,
// downloadBundleFileListChans). Their protocol — a worker's slot is released only after its send was received, so the
// done signal cannot overtake a result — needs every channel wired into such a struct to be unbuffered, wherever it is
// created (uploadBundle, the split upload, the downloads).
func checkProtocolChannelsUnbuffered(c *Ctx, rule string) int {
	p := c.P
	n := 0
	for _, f := range p.FuncsIn("pkg/core") {
		if f.Decl.Body == nil {
			continue
		}
		info := f.Info()
		ast.Inspect(f.Decl.Body, func(nd ast.Node) bool {
			cl, ok := nd.(*ast.CompositeLit)
			if !ok {
				return true
			}
			tid := namedTypeID(info.TypeOf(cl))
			if !(strings.HasPrefix(tid, "pkg/core.") && strings.HasSuffix(tid, "Chans")) {
				return true
			}
			for _, el := range cl.Elts {
				kv, ok := el.(*ast.KeyValueExpr)
				if !ok {
					continue
				}
				id, ok := ast.Unparen(kv.Value).(*ast.Ident)
				if !ok {
					continue
				}
				v, ok := info.Uses[id].(*types.Var)
				if !ok {
					continue
				}
				if _, isChan := v.Type().Underlying().(*types.Chan); !isChan {
					continue
				}
				for _, d := range defsOfVarWithIndex(f, v) {
					call, ok := d.rhs.(*ast.CallExpr)
					if d.rhs == nil || !ok || calleeID(info, call) != "builtin.make" {
						continue
					}
					n++
					unb := len(call.Args) == 1
					if len(call.Args) == 2 {
						if tv, ok := info.Types[call.Args[1]]; ok && tv.Value != nil && tv.Value.ExactString() == "0" {
							unb = true
						}
					}
					c.check(unb, rule, f.ID+":chan "+types.TypeString(v.Type(), func(pk *types.Package) string { return pk.Name() })+"#"+itoa(n), p.Pos(call.Pos()),
						"a channel of the fan-out protocol is unbuffered",
						"a channel wired into "+shortCallee(tid)+" in "+f.ID+" is created buffered: a worker's result can sit in the buffer while its slot is released and the done signal is taken first — the split (or bundle) is recorded with an incomplete file list")
				}
			}
			return true
		})
	}
	return n
}

// checkVerifySettingOnlyFromOptions (C03): whether leaf hashes are verified is decided by the caller's options alone:
// the `withVerifyHash` setting of the reader, the writer and the Fs is assigned only inside option functors (function
// literals of an …Option type) and default constructors; nothing on the data path switches it off on its own judgement
// (e.g. because the backend keeps a CRC, which protects transfers, not the identity of the blob).
func checkVerifySettingOnlyFromOptions(c *Ctx, rule string) {
	p := c.P
	n := 0
	for _, f := range p.FuncsIn("pkg/cafs") {
		if f.Decl.Body == nil {
			continue
		}
		info := f.Info()
		ast.Inspect(f.Decl.Body, func(nd ast.Node) bool {
			as, ok := nd.(*ast.AssignStmt)
			if !ok {
				return true
			}
			for _, l := range as.Lhs {
				sel, ok := ast.Unparen(l).(*ast.SelectorExpr)
				if !ok {
					continue
				}
				s := info.Selections[sel]
				if s == nil || s.Kind() != types.FieldVal || !strings.Contains(strings.ToLower(sel.Sel.Name), "verifyhash") {
					continue
				}
				n++
				// inside a literal whose type is a named …Option functor?
				inOption := false
				if lit := innermostLitAt(f, as.Pos()); lit != nil {
					if tv := info.TypeOf(lit); tv != nil {
						// the literal is returned as / converted to an Option type by its enclosing function
						if sig, ok := f.Obj.Type().(*types.Signature); ok && sig.Results().Len() == 1 && strings.HasSuffix(namedTypeID(sig.Results().At(0).Type()), "Option") {
							inOption = true
						}
					}
				}
				c.check(inOption, rule, f.ID+":"+sel.Sel.Name, p.Pos(as.Pos()),
					"the verification setting is assigned inside an option functor",
					f.ID+" assigns `"+exprString(l)+"` outside an option functor: hash verification is switched by the data path itself, so a blob whose content was altered consistently with the store's own checksum (swapped, rewritten) is returned as valid although the caller asked for verification")
			}
			return true
		})
	}
	if n < 2 {
		c.fail(rule, "pkg/cafs:verify-settings", "-", "expected at least 2 option functors assigning the verification setting, found "+itoa(n))
	}
}

// checkEmptyExistingBlobRewritten (C04, C13): a blob object that exists but is empty is the trace of an interrupted
// upload: existsAndValidBlob must ask for its overwrite whatever the store says about checksums (localfs reports no
// CRC). The guarded action `overwrite = true` under (found, Size == 0) has no CRC condition in its guard.
func checkEmptyExistingBlobRewritten(c *Ctx, rule string) {
	p := c.P
	f := p.Func("pkg/cafs.existsAndValidBlob")
	ok := false
	for _, ga := range guardedActions(f, f.Decl.Body) {
		if !strings.HasSuffix(ga.Action, "= const:true") {
			continue
		}
		sizeZero, crc := false, false
		for _, lit := range ga.Guard {
			if strings.Contains(lit, ".Size") && (strings.Contains(lit, "const:0==") || strings.Contains(lit, "==const:0") || strings.HasPrefix(lit, "empty(")) {
				sizeZero = true
			}
			if strings.Contains(lit, "CRC32C") {
				crc = true
			}
		}
		if sizeZero && !crc {
			ok = true
		}
	}
	c.check(ok, rule, f.ID, p.Pos(f.Decl.Pos()),
		"an existing empty blob is overwritten whatever the store's checksum support",
		"existsAndValidBlob no longer requests the overwrite of an existing blob of size 0 independently of the CRC (localfs reports none): the empty object left by an interrupted upload is taken for a valid duplicate, the re-upload succeeds and the bundle cannot be downloaded")
}

// checkWriteToCountsWhatItCopied (C03, C04, C17): in the WriterAt branch of chunkReader.WriteTo every worker reports on
// the count channel the number of bytes io.Copy wrote through the positioned writer; a count reported without the copy
// (e.g. a leaf "skipped" because it is all zeros) leaves a hole — or a short file when the leaf is the last one — in
// the destination while the download succeeds.
func checkWriteToCountsWhatItCopied(c *Ctx, rule string) {
	p := c.P
	f := p.Func("pkg/cafs.chunkReader.WriteTo")
	info := f.Info()
	n := 0
	for _, b := range p.BodiesOf(f) {
		if b.Lit == nil {
			continue
		}
		ast.Inspect(b.Block, func(nd ast.Node) bool {
			if l, ok := nd.(*ast.FuncLit); ok && l != b.Lit {
				return false
			}
			snd, ok := nd.(*ast.SendStmt)
			if !ok {
				return true
			}
			ch, ok := info.TypeOf(snd.Chan).Underlying().(*types.Chan)
			if !ok {
				return true
			}
			if bt, ok := ch.Elem().Underlying().(*types.Basic); !ok || bt.Kind() != types.Int64 {
				return true
			}
			n++
			d := describeExprAt(f, snd.Value)
			c.check(strings.HasPrefix(d, "call:io.Copy(") && strings.HasSuffix(d, "#0"), rule, b.Key()+":count#"+itoa(n), p.Pos(snd.Pos()),
				"the count reported is the result of the copy into the positioned writer",
				"a WriteTo worker reports `"+exprString(snd.Value)+"` as written without it being the result of io.Copy into the destination: the bytes of that leaf never reach the file (a hole, or a file shorter than its size when it is the last leaf) and the download reports success")
			return true
		})
	}
	if n == 0 {
		c.softUndecided("%s: no count is reported by the WriteTo workers any more", rule)
	}
}

// checkGetBuildsItsReader (C01, C03, C17): Get and GetAt hand out a reader built by that very call for the hash they were
// given: every successful return follows a call to defaultFs.reader(hash). A reader remembered from an earlier call can
// belong to another object (e.g. when the memo key is updated before a failed build).
func checkGetBuildsItsReader(c *Ctx, rule string) {
	p := c.P
	for _, fid := range []string{"pkg/cafs.defaultFs.Get", "pkg/cafs.defaultFs.GetAt"} {
		f := p.Func(fid)
		b := p.BodyOf(f)
		isReader := func(bb *Body, call *ast.CallExpr) bool {
			return calleeID(bb.Info(), call) == "pkg/cafs.defaultFs.reader" && len(call.Args) == 1 && describeExpr(f, call.Args[0], 0) == "param#1"
		}
		bad, nS := b.mustPassBeforeSuccess(isReader)
		c.check(len(bad) == 0 && nS > 0, rule, fid, p.Pos(f.Decl.Pos()),
			"every successful return follows reader(hash)",
			fid+" can return a reader it did not build for this hash in this call (a remembered one): after a failed build for another object the previous object's bytes are served under the new name")
	}
}

// checkLocalMetadataScannersSkipData (C05, C04): the two scanners of a downloaded tree's keys (the one that resolves the
// local copy's bundle ID, the one that collects its metadata keys) agree: a key that is not a metadata path — a data
// file, which may sort before the metadata directory — is skipped (`continue` on ConsumableStorePathMetadataErr), never
// a reason to fail. Contradiction rule between siblings: one skipped, the other failed on the same input.
func checkLocalMetadataScannersSkipData(c *Ctx, rule string) {
	p := c.P
	for _, fid := range []string{"pkg/core.setBundleIDFromConsumableStore", "pkg/core.getConsumableStoreMetadataKeysInfo"} {
		f := p.Func(fid)
		info := f.Info()
		ok := false
		// the ok variable(s) of a type assertion to ConsumableStorePathMetadataErr
		okVars := map[types.Object]bool{}
		ast.Inspect(f.Decl.Body, func(nd ast.Node) bool {
			as, isAs := nd.(*ast.AssignStmt)
			if !isAs || len(as.Lhs) != 2 || len(as.Rhs) != 1 {
				return true
			}
			if ta, isTA := ast.Unparen(as.Rhs[0]).(*ast.TypeAssertExpr); isTA && ta.Type != nil && namedTypeID(info.TypeOf(ta.Type)) == "pkg/model.ConsumableStorePathMetadataErr" {
				if id, isID := as.Lhs[1].(*ast.Ident); isID {
					okVars[info.ObjectOf(id)] = true
				}
			}
			return true
		})
		ast.Inspect(f.Decl.Body, func(nd ast.Node) bool {
			ifs, isIf := nd.(*ast.IfStmt)
			if !isIf || len(ifs.Body.List) == 0 {
				return true
			}
			id, isID := ast.Unparen(ifs.Cond).(*ast.Ident)
			if !isID || !okVars[info.Uses[id]] {
				return true
			}
			if br, isBr := ifs.Body.List[len(ifs.Body.List)-1].(*ast.BranchStmt); isBr && br.Tok == token.CONTINUE {
				ok = true
			}
			return true
		})
		c.check(ok, rule, fid, p.Pos(f.Decl.Pos()),
			"a key that is not a metadata path is skipped",
			fid+" no longer skips the keys that are not metadata paths: a downloaded tree holding a top-level name that sorts before the metadata directory (\"-x\", \" a\", \".conflicts/…\") can be downloaded but neither diffed nor updated")
	}
}
