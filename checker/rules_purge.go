package main

import (
	"go/ast"
	"go/token"
	"go/types"
	"os"
	"path/filepath"
	"strconv"
	"strings"

	"golang.org/x/tools/go/cfg"
)

// C13, C14 — purge.

func init() {
	register(&propSpec{
		id: "C13",
		explanation: "Static structural clauses for purge safety: (1) in checkAndDeleteKey the blob delete is unreachable when the key is indexed, when the index lookup failed, when the attribute read failed (after retries), when the blob is newer than the index, and in dry-run; the retry operands return the error of the call they wrap; " +
			"(2) index completeness: bundleKeys emits the root and every leaf of LeavesForHash, its only skip is 'root already indexed', and every emitted key is inserted (SetIfNotExists) with errors propagated; " +
			"(3) the index time handed to the uploader and returned is taken before scanning and, on resume, assigned (not shadowed) from the first chunk of the original index; " +
			"(4) chunk numbering: the uploader increments the chunk index exactly once before every chunk upload and never decreases it, so no uploaded chunk is ever rewritten; resume continues after the last preloaded chunk; " +
			"(5) closures handed to errgroups/goroutines inside loops do not capture the loop variable (go.mod declares go 1.15 semantics); " +
			"(6) error discipline on every store/KV call of the purge code. Recorded findings (see known_findings.json): chunk keys are marked uploaded before the chunk write succeeded; re-used blobs are not touched; the 'root present => leaves present' skip is unsound after a resumed build. " +
			"Not decided: interleavings of uploads with the two purge phases, KV engine semantics.",
		run: runC13,
	})
	register(&propSpec{
		id: "C14",
		explanation: "Static structural clauses for purge exactness and the purge lock: (a) PurgeLock writes the lock key with NoOverWrite unless force (both values constants selected by options.force); the three purge commands take the lock before their job, run the job only if the lock was obtained, and release it on every path after the job; " +
			"(b) the final upload loop stops only when a chunk added no key; chunk numbers strictly increase (C13 clause 4); " +
			"(c) scanBlob hands every key of every page to checkAndDeleteKey (paging clause of C07 on its loop, no filter), the keep conditions are exactly 'indexed' and 'newer than the index'; dry-run reaches no delete; " +
			"(d) only checkAndDeleteKey, cafs Delete and cafs Clear may delete from the blob store. Not decided: set equality of index and referenced keys.",
		run: runC14,
	})
	addWitness(witness{Prop: "C13", Name: "retry-operand-returns-outer-err", File: "pkg/core/purge.go",
		Old: "\t\tattrs, e = blob.GetAttr(ctx, key)\n\t\tif !errors.Is(e, status.ErrNotExists) {\n\t\t\treturn e\n\t\t}", New: "\t\tattrs, e = blob.GetAttr(ctx, key)\n\t\tif !errors.Is(e, status.ErrNotExists) {\n\t\t\treturn err\n\t\t}",
		Expect: "retry-operand"})
	addWitness(witness{Prop: "C13", Name: "delete-after-failed-getattr", File: "pkg/core/purge.go",
		Old: "\t\tlogger.Error(\"retrieving blob attributes: keeping blob\", zap.Error(err))\n\n\t\treturn nil\n", New: "\t\tlogger.Error(\"retrieving blob attributes: keeping blob\", zap.Error(err))\n",
		Expect: "delete-guarded"})
	addWitness(witness{Prop: "C13", Name: "newer-check-inverted", File: "pkg/core/purge.go",
		Old: "\tif indexTime.Before(attrs.Updated) {", New: "\tif attrs.Updated.Before(indexTime) {",
		Expect: "delete-guarded"})
	addWitness(witness{Prop: "C13", Name: "resume-shadows-index-time", File: "pkg/core/purge.go",
		Old: "\t\tindexTime = *ts // keep the creation date of the original index", New: "\t\tindexTime := *ts // keep the creation date of the original index",
		Expect: "index-time"})
	addWitness(witness{Prop: "C13", Name: "chunk-index-post-increment", File: "pkg/core/purge.go",
		Old: "\t\tfor {\n\t\t\tchunkIndex++\n\t\t\tuploadedBefore := atomic.LoadUint64(uploadKeysPtr)", New: "\t\tfor ; ; chunkIndex++ {\n\t\t\tuploadedBefore := atomic.LoadUint64(uploadKeysPtr)",
		Expect: "chunk-numbering"})
	addWitness(witness{Prop: "C13", Name: "loopvar-captured", File: "pkg/core/purge.go",
		Old: "\t\tfor _, toPin := range ks {\n\t\t\tchunk := toPin\n", New: "\t\tfor _, chunk := range ks {\n",
		Expect: "loopvar"})
	addWitness(witness{Prop: "C13", Name: "leaves-not-indexed", File: "pkg/core/purge.go",
		Old: "\t\tfor _, leaf := range leaves {\n\t\t\tkeys = append(keys, leaf.String())\n\t\t}", New: "\t\t_ = leaves",
		Expect: "index-complete"})
	addWitness(witness{Prop: "C13", Name: "kv-insert-error-ignored", File: "pkg/core/purge.go",
		Old: "\t\t\t\tif eru := db.SetIfNotExists([]byte(key), []byte{}); eru != nil {\n\t\t\t\t\treturn eru\n\t\t\t\t}", New: "\t\t\t\t_ = db.SetIfNotExists([]byte(key), []byte{})",
		Expect: "errors"})
	addWitness(witness{Prop: "C14", Name: "lock-always-overwrites", File: "pkg/core/purge.go",
		Old: "\t} else {\n\t\toverwrite = storage.NoOverWrite\n\t}", New: "\t} else {\n\t\toverwrite = storage.OverWrite\n\t}",
		Expect: "lock"})
	addWitness(witness{Prop: "C14", Name: "job-runs-without-lock", File: "cmd/datamon/cmd/purge_delete_unused.go",
		Old: "\t\tif err != nil {\n\t\t\twrapFatalln(\"delete-unused: another purge job is running\", err)\n\n\t\t\treturn\n\t\t}", New: "\t\tif err != nil {\n\t\t\tlogger.Warn(\"delete-unused: another purge job is running\")\n\t\t}",
		Expect: "lock"})
	addWitness(witness{Prop: "C14", Name: "final-loop-stops-early", File: "pkg/core/purge.go",
		Old: "\t\t\tif uploaded <= uploadedBefore {\n\t\t\t\tbreak\n\t\t\t}", New: "\t\t\tif uploaded <= uploadedBefore+chunkSize {\n\t\t\t\tbreak\n\t\t\t}",
		Expect: "final-loop"})
	addWitness(witness{Prop: "C14", Name: "dry-run-deletes", File: "pkg/core/purge.go",
		Old: "\tif dryRun {\n\t\tcroak(\"key to be deleted (dry-run)\", zap.Int64(\"size\", attrs.Size))\n\n\t\treturn nil\n\t}", New: "\tif dryRun {\n\t\tcroak(\"key to be deleted (dry-run)\", zap.Int64(\"size\", attrs.Size))\n\t}",
		Expect: "scan"})
	addWitness(witness{Prop: "C14", Name: "new-blob-deleter", File: "pkg/core/delete.go",
		Old: "\t// 3. remove bundle descriptor\n", New: "\t_ = getBlobStore(stores).Delete(context.Background(), bundleID)\n\t// 3. remove bundle descriptor\n",
		Expect: "blob-deleters"})
}

// retryCallWith finds calls to backoff.Retry whose operand literal contains a call matching callee.
func retryCallWith(info *types.Info, callee string) eventPred {
	return func(b *Body, call *ast.CallExpr) bool {
		if !strings.HasSuffix(calleeID(info, call), "backoff/v4.Retry") || len(call.Args) == 0 {
			return false
		}
		lit, ok := ast.Unparen(call.Args[0]).(*ast.FuncLit)
		if !ok {
			return false
		}
		found := false
		ast.Inspect(lit.Body, func(n ast.Node) bool {
			if c, ok := n.(*ast.CallExpr); ok && calleeID(info, c) == callee {
				found = true
			}
			return true
		})
		return found
	}
}

// checkLoopVarCapture: closures passed to `go`, errgroup.Group.Go / TryGo inside a loop must not mention the
// loop's iteration variables (pre-1.22 semantics: one variable shared by all iterations).
func checkLoopVarCapture(c *Ctx, rule string, pkgs ...string) int {
	p := c.P
	n := 0
	// per-iteration loop variables exist from go 1.22 on (go directive of go.mod)
	if gm, err := os.ReadFile(filepath.Join(p.RepoDir, "go.mod")); err == nil {
		for _, line := range strings.Split(string(gm), "\n") {
			f := strings.Fields(line)
			if len(f) == 2 && f[0] == "go" {
				parts := strings.Split(f[1], ".")
				if len(parts) >= 2 {
					minor, _ := strconv.Atoi(parts[1])
					if parts[0] != "1" || minor >= 22 {
						c.ok(rule, "go.mod", "go.mod", "go "+f[1]+": loop variables are per-iteration, capture is harmless")
						return 100
					}
				}
			}
		}
	}
	for _, rel := range pkgs {
		for _, f := range p.FuncsIn(rel) {
			if f.Decl.Body == nil {
				continue
			}
			info := f.Info()
			b := p.BodyOf(f)
			check := func(lit *ast.FuncLit, at ast.Node) {
				// loop variables of every enclosing loop (within the same declared function)
				for x := b.parent[at]; x != nil; x = b.parent[x] {
					var vars []*types.Var
					switch l := x.(type) {
					case *ast.RangeStmt:
						if l.Tok == token.DEFINE {
							for _, e := range []ast.Expr{l.Key, l.Value} {
								if id, ok := e.(*ast.Ident); ok && id.Name != "_" {
									if v, ok := info.Defs[id].(*types.Var); ok {
										vars = append(vars, v)
									}
								}
							}
						}
					case *ast.ForStmt:
						if as, ok := l.Init.(*ast.AssignStmt); ok && as.Tok == token.DEFINE {
							for _, e := range as.Lhs {
								if id, ok := e.(*ast.Ident); ok {
									if v, ok := info.Defs[id].(*types.Var); ok {
										vars = append(vars, v)
									}
								}
							}
						}
					}
					for _, v := range vars {
						n++
						key := f.ID + ":closure@" + v.Name()
						if usesObj(info, lit.Body, v) {
							c.fail(rule, key, p.Pos(lit.Pos()), "a closure started asynchronously inside a loop captures the loop variable `"+v.Name()+"` (go.mod: go 1.15 — one variable shared by all iterations): by the time it runs the variable designates a later element, so some elements are processed twice and others never")
						} else {
							c.ok(rule, key, p.Pos(lit.Pos()), "asynchronous closure does not capture loop variable "+v.Name())
						}
					}
				}
			}
			ast.Inspect(f.Decl.Body, func(nd ast.Node) bool {
				switch s := nd.(type) {
				case *ast.GoStmt:
					if lit, ok := ast.Unparen(s.Call.Fun).(*ast.FuncLit); ok {
						check(lit, s)
					}
				case *ast.CallExpr:
					id := calleeID(info, s)
					if strings.HasSuffix(id, "errgroup.Group.Go") || strings.HasSuffix(id, "errgroup.Group.TryGo") {
						if len(s.Args) == 1 {
							if lit, ok := ast.Unparen(s.Args[0]).(*ast.FuncLit); ok {
								check(lit, s)
							}
						}
					}
				}
				return true
			})
		}
	}
	return n
}

func runC13(c *Ctx) {
	p := c.P
	c.assume("blob attributes report the last write time (Updated) of the blob; the local KV store is faithful")
	// (1) deletion guards
	{
		f := p.Func("pkg/core.checkAndDeleteKey")
		info := f.Info()
		b := p.BodyOf(f)
		isDel := retryCallWith(info, "pkg/storage.Store.Delete")
		isAttr := retryCallWith(info, "pkg/storage.Store.GetAttr")
		nDel := len(b.findCalls(isDel, false))
		nAttr := len(b.findCalls(isAttr, false))
		if nDel != 1 || nAttr != 1 {
			c.fail("delete-guarded", f.ID, p.Pos(f.Decl.Pos()), "expected one retried GetAttr and one retried Delete, found "+itoa(nAttr)+"/"+itoa(nDel))
		} else {
			// guard conditions: on their true edge the delete must be unreachable
			type guard struct {
				name string
				is   func(e ast.Expr) bool
			}
			guards := []guard{
				{"key indexed (found)", func(e ast.Expr) bool {
					d := describeExpr(f, e, 0)
					return strings.HasPrefix(d, "param#1.Exists(") && strings.HasSuffix(d, "#0")
				}},
				{"index lookup failed", func(e ast.Expr) bool {
					d := describeExpr(f, e, 0)
					return strings.HasPrefix(d, "({") && strings.Contains(d, "param#1.Exists(") && strings.HasSuffix(d, "!=nil)") || strings.HasPrefix(d, "(param#1.Exists(") && strings.HasSuffix(d, "#1!=nil)")
				}},
				{"blob newer than the index", func(e ast.Expr) bool {
					d := describeExpr(f, e, 0)
					return strings.HasPrefix(d, "param#2.Before(") && strings.HasSuffix(d, ".Updated)")
				}},
				{"dry-run", func(e ast.Expr) bool { return describeExpr(f, e, 0) == "param#6" }},
			}
			for gi, g := range guards {
				const free, guarded = 1, 2
				bad := false
				seen := false
				b.run(flowSpec{entry: free,
					node: func(n ast.Node, s uint64) uint64 {
						for _, call := range callsIn(n) {
							if isDel(b, call) && s&guarded != 0 {
								bad = true
							}
						}
						return s
					},
					edge: func(blk *cfg.Block, i int, s uint64) uint64 {
						if cond := condOf(blk); cond != nil && g.is(cond) {
							seen = true
							if i == 0 {
								return guarded
							}
							return s&^guarded | free
						}
						return s
					}})
				c.check(seen && !bad, "delete-guarded", f.ID+":guard#"+itoa(gi+1), p.Pos(f.Decl.Pos()), "no delete when: "+g.name,
					"the blob delete is reachable when: "+g.name+" (or that test disappeared): a blob that must be kept can be deleted")
			}
			// failed attribute read
			isDelNode := func(n ast.Node) bool {
				call, ok := n.(*ast.CallExpr)
				return ok && isDel(b, call)
			}
			bad, nT, nA := b.guardedByNilErr(isAttr, isDelNode)
			c.check(nT == 1 && nA == 1 && len(bad) == 0, "delete-guarded", f.ID+":attr-read-failed", p.Pos(f.Decl.Pos()), "no delete unless the (retried) attribute read returned nil",
				"the blob delete is reachable although reading the blob's attributes failed: the age test then runs on zero attributes and a blob newer than the index is deleted")
			// the attributes compared are those of this key
			okAttr := false
			ast.Inspect(f.Decl.Body, func(nd ast.Node) bool {
				if as, ok := nd.(*ast.AssignStmt); ok && len(as.Rhs) == 1 {
					if call, ok := as.Rhs[0].(*ast.CallExpr); ok && calleeID(info, call) == "pkg/storage.Store.GetAttr" {
						if describeExpr(f, call.Args[1], 0) == "param#3" && describeExpr(f, ast.Unparen(call.Fun).(*ast.SelectorExpr).X, 0) == "param#4" {
							okAttr = true
						}
					}
				}
				return true
			})
			c.check(okAttr, "delete-guarded", f.ID+":attrs-of-key", p.Pos(f.Decl.Pos()), "attributes are read for the scanned key on the blob store", "the attributes are no longer read for (blob, key)")
			okDelKey := false
			ast.Inspect(f.Decl.Body, func(nd ast.Node) bool {
				if call, ok := nd.(*ast.CallExpr); ok && calleeID(info, call) == "pkg/storage.Store.Delete" {
					if describeExpr(f, call.Args[1], 0) == "param#3" && describeExpr(f, ast.Unparen(call.Fun).(*ast.SelectorExpr).X, 0) == "param#4" {
						okDelKey = true
					}
				}
				return true
			})
			c.check(okDelKey, "delete-guarded", f.ID+":deletes-key", p.Pos(f.Decl.Pos()), "the deleted blob is the scanned key", "the delete no longer targets (blob, key)")
		}
		n := checkRetryOperands(c, "retry-operand", f)
		if n < 2 {
			c.fail("retry-operand", f.ID, p.Pos(f.Decl.Pos()), "expected two retry operands in checkAndDeleteKey, found "+itoa(n))
		}
		checkRetryOperands(c, "retry-operand", p.Func("pkg/core.bundleKeys"))
		checkRetryOperands(c, "retry-operand", p.Func("pkg/core.chunkUploader"))
	}
	// (2) index completeness
	{
		f := p.Func("pkg/core.bundleKeys")
		info := f.Info()
		// appends
		var appended []string
		ast.Inspect(f.Decl.Body, func(nd ast.Node) bool {
			if call, ok := nd.(*ast.CallExpr); ok {
				if id, ok := ast.Unparen(call.Fun).(*ast.Ident); ok && id.Name == "append" && len(call.Args) == 2 {
					appended = append(appended, describeExpr(f, call.Args[1], 0))
				}
			}
			return true
		})
		root := "call:pkg/cafs.KeyFromString(range(param#1.BundleEntries).Hash)#0"
		okRoot, okLeaves := false, false
		for _, a := range appended {
			if a == root+".String()" {
				okRoot = true
			}
			if a == "range(call:pkg/cafs.LeavesForHash(param#1.BlobStore(),"+root+",param#2,const:\"\")#0).String()" {
				okLeaves = true
			}
		}
		c.check(okRoot, "index-complete.root", f.ID, p.Pos(f.Decl.Pos()), "the root key of every entry is emitted", "bundleKeys no longer emits the root key of each bundle entry")
		c.check(okLeaves, "index-complete.leaves", f.ID, p.Pos(f.Decl.Pos()), "every leaf key of LeavesForHash(blob store, root, leaf size) is emitted", "bundleKeys no longer emits every leaf key of each root: leaves missing from the index are deleted by delete-unused although committed bundles need them")
		// skips: the only `continue`s are (found in db) and (corrupted root, documented)
		var conts []string
		b := p.BodyOf(f)
		ast.Inspect(f.Decl.Body, func(nd ast.Node) bool {
			if br, ok := nd.(*ast.BranchStmt); ok && br.Tok == token.CONTINUE {
				for x := b.parent[br]; x != nil; x = b.parent[x] {
					if ifs, ok := x.(*ast.IfStmt); ok {
						conts = append(conts, describeExpr(f, ifs.Cond, 0))
						break
					}
				}
			}
			return true
		})
		okSkips := len(conts) == 2
		for _, cd := range conts {
			isFound := strings.HasPrefix(cd, "param#3.Exists(") && strings.HasSuffix(cd, "#0")
			isCorrupt := strings.Contains(cd, "call:pkg/cafs.LeavesForHash(") && strings.HasSuffix(cd, "!=nil)")
			if !isFound && !isCorrupt {
				okSkips = false
			}
		}
		c.check(okSkips, "index-complete.skips", f.ID, p.Pos(f.Decl.Pos()), "the only skips are 'root already indexed' and 'root blob unreadable (root still indexed)'", "bundleKeys skips entries under ["+strings.Join(conts, "; ")+"]: only an already indexed root (and an unreadable root blob) may be skipped")
		_ = info
		// the caller inserts every key
		g := p.Func("pkg/core.repoKeysScanner")
		ginfo := g.Info()
		okIns := false
		ast.Inspect(g.Decl.Body, func(nd ast.Node) bool {
			rs, ok := nd.(*ast.RangeStmt)
			if !ok {
				return true
			}
			if !strings.HasPrefix(describeExpr(g, rs.X, 0), "call:pkg/core.bundleKeys(") {
				return true
			}
			ast.Inspect(rs.Body, func(m ast.Node) bool {
				if call, ok := m.(*ast.CallExpr); ok && calleeID(ginfo, call) == "pkg/core.kvStore.SetIfNotExists" {
					if strings.HasPrefix(describeExpr(g, call.Args[0], 0), "conv:[]byte(range(call:pkg/core.bundleKeys(") {
						okIns = true
					}
				}
				return true
			})
			return true
		})
		c.check(okIns, "index-complete.inserted", g.ID, p.Pos(g.Decl.Pos()), "every key returned by bundleKeys is inserted in the local KV", "repoKeysScanner no longer inserts every key returned by bundleKeys into the KV store")
	}
	// (3) index time
	checkIndexTime(c)
	// (4) chunk numbering
	checkChunkNumbering(c)
	// (7) clauses violated on today's tree (genuine defects, demonstrated in /verif/triage/c13_findings_test.go; see
	// known_findings.json) — the rules stay armed so that a repair is recognised and a new instance is reported.
	{
		// 7a. a key may be marked "uploaded" only once the chunk that carries it was written: the marking must not sit
		// inside the io.Reader that the chunk write consumes
		cu := p.Func("pkg/core.chunkUploader")
		var srcType string
		ast.Inspect(cu.Decl.Body, func(nd ast.Node) bool {
			if call, ok := nd.(*ast.CallExpr); ok && calleeID(cu.Info(), call) == "pkg/storage.Store.Put" {
				srcType = namedTypeID(cu.Info().TypeOf(call.Args[2]))
			}
			return true
		})
		nMark := 0
		for _, f := range p.FuncsIn("pkg/core") {
			if f.Decl.Body == nil {
				continue
			}
			ast.Inspect(f.Decl.Body, func(nd ast.Node) bool {
				call, ok := nd.(*ast.CallExpr)
				if !ok || calleeID(f.Info(), call) != "pkg/core.kvStore.Set" || len(call.Args) != 2 {
					return true
				}
				if describeExpr(f, call.Args[1], 0) != "conv:[]byte(const:\"X\")" {
					return true
				}
				nMark++
				inReader := srcType != "" && strings.HasPrefix(f.ID, srcType+".") && f.Decl.Name.Name == "Read"
				c.check(!inReader, "mark-after-write", f.ID+":mark-uploaded", p.Pos(call.Pos()),
					"keys are marked uploaded outside the reader streamed into the chunk write ("+f.ID+")",
					"keys are marked 'uploaded' inside "+f.ID+", the io.Reader that indexStore.Put consumes: the mark precedes the success of the chunk write, so a failed-and-retried write builds a new reader that skips them and they end up in no chunk")
				return true
			})
		}
		if nMark < 2 {
			c.fail("mark-after-write", "instances", "-", "expected the two marking sites (preload, upload), found "+itoa(nMark))
		}
		// 7b. the duplicate branch of the blob writer must refresh the blob's update time (Touch) or rewrite it
		for _, site := range []struct{ fn, key string }{{"pkg/cafs.fsWriter.writeBlob", "duplicate-leaf"}, {"pkg/cafs.defaultFs.Put", "duplicate-root"}} {
			f := p.Func(site.fn)
			b := p.BodyOf(f)
			const other, dup = 1, 2
			refreshed := false
			sawDup := false
			b.run(flowSpec{entry: other,
				node: func(n ast.Node, st uint64) uint64 {
					if st&dup != 0 {
						for _, call := range callsIn(n) {
							switch calleeID(f.Info(), call) {
							case "pkg/storage.Store.Touch", "pkg/storage.Store.Put", "pkg/storage.StoreCRC.PutCRC", "pkg/cafs.defaultFs.writeRootKey":
								refreshed = true
							}
						}
					}
					return st
				},
				edge: func(blk *cfg.Block, i int, st uint64) uint64 {
					cond := condOf(blk)
					if cond == nil {
						return st
					}
					if isFoundAndNotOverwrite(f, cond) {
						sawDup = true
						if i == 0 {
							return dup
						}
						return other
					}
					if isNotFoundOrOverwrite(f, cond) {
						sawDup = true
						if i == 1 {
							return dup
						}
						return other
					}
					return st
				}})
			if !sawDup {
				c.fail("reused-blob-refreshed", site.fn+":"+site.key, p.Pos(f.Decl.Pos()), "the duplicate branch (found && !overwrite) was not found")
				continue
			}
			c.check(refreshed, "reused-blob-refreshed", site.fn+":"+site.key, p.Pos(f.Decl.Pos()),
				"a re-used blob is touched or rewritten",
				"on the duplicate branch the existing blob is neither touched nor rewritten: its update time stays older than a purge index built in the meantime, so delete-unused removes a blob that a bundle uploaded after the index needs")
		}
		// 7c. "root present => leaves present" needs every writer of the KV to insert leaves with their root
		f := p.Func("pkg/core.bundleKeys")
		hasSkip := false
		ast.Inspect(f.Decl.Body, func(nd ast.Node) bool {
			if ifs, ok := nd.(*ast.IfStmt); ok {
				d := describeExpr(f, ifs.Cond, 0)
				if strings.HasPrefix(d, "param#3.Exists(") && strings.HasSuffix(d, "#0") && len(ifs.Body.List) > 0 {
					if br, ok := ifs.Body.List[len(ifs.Body.List)-1].(*ast.BranchStmt); ok && br.Tok == token.CONTINUE {
						hasSkip = true
					}
				}
			}
			return true
		})
		if hasSkip {
			for _, g := range p.FuncsIn("pkg/core") {
				if g.Decl.Body == nil || g.ID == "pkg/core.repoKeysScanner" || g.ID == "pkg/core.dbReader.Read" {
					continue
				}
				ast.Inspect(g.Decl.Body, func(nd ast.Node) bool {
					call, ok := nd.(*ast.CallExpr)
					if !ok {
						return true
					}
					id := calleeID(g.Info(), call)
					if id != "pkg/core.kvStore.Set" && id != "pkg/core.kvStore.SetIfNotExists" {
						return true
					}
					// is g reachable from the index build? (preloadIndexFiles -> copyIndexChunks -> loadChunk)
					reach := reachableFrom(p, "pkg/core.PurgeBuildReverseIndex", g.ID, 6)
					c.check(!reach, "skip-needs-complete-roots", "pkg/core.bundleKeys:skip-root-present~"+g.ID, p.Pos(call.Pos()),
						g.ID+" writes the KV but is not part of the index build",
						"bundleKeys skips the leaves of a root already in the KV, but "+g.ID+" (reached from the index build on resume) inserts keys from uploaded chunks, which are cut in KV key order: a root can be preloaded without its leaves, which are then never indexed and get deleted")
					return true
				})
			}
		} else {
			c.ok("skip-needs-complete-roots", "pkg/core.bundleKeys:no-skip", p.Pos(f.Decl.Pos()), "bundleKeys always unpacks roots")
		}
	}
	// (5) loop variables
	n := checkLoopVarCapture(c, "loopvar", "pkg/core", "pkg/cafs", "pkg/fuse", "pkg/wal", "pkg/storage/localfs")
	if n < 3 {
		c.fail("loopvar", "instances", "-", "expected at least 3 asynchronous closures inside loops, found "+itoa(n))
	}
	// (6) errors
	purgeIO := func(id string) bool {
		if strings.HasSuffix(id, ".Close") {
			return false // `_ = x.Close()` in defers is the repository's accepted idiom
		}
		return strings.HasPrefix(id, "pkg/storage.Store.") || strings.HasPrefix(id, "pkg/core.kvStore.") || strings.HasPrefix(id, "pkg/core.kvIterator.") ||
			id == "pkg/core.copyIndexChunks" || id == "pkg/core.preloadIndexFiles" || id == "pkg/core.loadChunk" || id == "pkg/core.scanBlob" || id == "pkg/core.scanContext" ||
			id == "pkg/core.openKV" || id == "pkg/core.bundleKeys" || id == "pkg/core.ListRepos" || id == "pkg/core.ListBundlesApply" || id == "pkg/core.checkAndDeleteKey" ||
			id == "pkg/model.ReverseIndexChunk" || id == "pkg/cafs.KeyFromString" || strings.HasSuffix(id, "errgroup.Group.Wait") || id == "time.Parse"
	}
	exceptions := map[string]string{
		"pkg/core.bundleKeys:cafs.LeavesForHash#1":         "documented: an unreadable root blob (objects of old datamon versions) is indexed by its root only; logged as a warning",
		"pkg/core.checkAndDeleteKey:core.kvStore.Exists#1": "the (found, err) pair is tested found-first: found==true implies the lookup succeeded, the error is tested on the not-found path before anything else happens",
		"pkg/core.scanBlob:errgroup.Group.Wait#2":          "monitor group: its only goroutine reports progress and always returns nil",
		"pkg/core.scanContext:errgroup.Group.Wait#2":       "monitor group: its only goroutine reports progress and always returns nil",
		"pkg/core.uploader:errgroup.Group.Wait#1":          "cancellation path: the caller's context error is returned instead",
		"pkg/core.uploader:errgroup.Group.Wait#2":          "a chunk loader failed: the group context's error (that failure) is returned instead",
	}
	total := 0
	for _, id := range []string{"pkg/core.PurgeBuildReverseIndex", "pkg/core.PurgeDeleteUnused", "pkg/core.scanBlob", "pkg/core.checkAndDeleteKey", "pkg/core.copyIndexChunks", "pkg/core.loadChunk",
		"pkg/core.preloadIndexFiles", "pkg/core.scanContext", "pkg/core.repoKeysScanner", "pkg/core.bundleKeys", "pkg/core.chunkUploader", "pkg/core.uploader", "pkg/core.PurgeDropReverseIndex", "pkg/core.dbReader.Read", "pkg/core.dbReader.iterateKV"} {
		total += checkErrDiscipline(c, "errors", p.Func(id), purgeIO, exceptions)
	}
	if total < 25 {
		c.fail("errors", "instances", "-", "expected at least 25 store/KV error sites in the purge code, found "+itoa(total))
	}
	for _, id := range []string{"pkg/core.PurgeBuildReverseIndex", "pkg/core.PurgeDeleteUnused", "pkg/core.scanBlob", "pkg/core.copyIndexChunks", "pkg/core.loadChunk", "pkg/core.scanContext", "pkg/core.repoKeysScanner", "pkg/core.chunkUploader"} {
		checkNoSwallow(c, "errors.no-success-on-failure", p.Func(id), purgeIO, []string{"ErrNotExists"})
	}
	checkGenericErrorDiscipline(c, "pkg/core")
	checkLeafSizeFromDescriptor(c, "index.leaf-size-from-descriptor", "pkg/core", "pkg/fuse")
	checkChunkLimitCountsSentKeys(c, "index.chunk-limit-counts-sent-keys")
	checkTryGoHandled(c, "delete.trygo-handled", "pkg/core")
	checkChunkDeleteBeforePut(c, "index.chunk-delete-before-put")
}

func runC14(c *Ctx) {
	p := c.P
	c.assume("NoOverWrite is an atomic create-if-absent on the metadata store")
	// (a) lock
	{
		f := p.Func("pkg/core.PurgeLock")
		info := f.Info()
		var site *putSite
		for _, s := range enumPutSites(p, "pkg/core") {
			if s.Fn.ID == f.ID {
				ss := s
				site = &ss
			}
		}
		if site == nil {
			c.fail("lock.create-if-absent", f.ID, p.Pos(f.Decl.Pos()), "PurgeLock no longer writes the lock")
		} else {
			okMode := false
			why := site.Mode
			if strings.HasPrefix(site.Mode, "var:") {
				id := ast.Unparen(site.ModeExpr).(*ast.Ident)
				v := info.Uses[id].(*types.Var)
				// assignments: under `if options.force` -> OverWrite, else -> NoOverWrite
				var thenVal, elseVal string
				ast.Inspect(f.Decl.Body, func(nd ast.Node) bool {
					ifs, ok := nd.(*ast.IfStmt)
					if !ok || !strings.HasSuffix(exprString(ifs.Cond), ".force") {
						return true
					}
					get := func(list []ast.Stmt) string {
						for _, st := range list {
							if as, ok := st.(*ast.AssignStmt); ok && len(as.Lhs) == 1 && isVar(info, as.Lhs[0], v) {
								if bv, ok := isBoolConst(info, as.Rhs[0]); ok {
									if bv {
										return "NoOverWrite"
									}
									return "OverWrite"
								}
							}
						}
						return "?"
					}
					thenVal = get(ifs.Body.List)
					if eb, ok := ifs.Else.(*ast.BlockStmt); ok {
						elseVal = get(eb.List)
					}
					return true
				})
				okMode = thenVal == "OverWrite" && elseVal == "NoOverWrite" && len(defsOfVar(f, v)) == 2
				why = "force->" + thenVal + ", else->" + elseVal
			}
			c.check(okMode && site.Kind == "purge-lock", "lock.create-if-absent", site.Key, p.Pos(site.Call.Pos()), "lock key written NoOverWrite unless options.force ("+why+")",
				"the purge lock ("+site.Kind+") is written with mode "+why+": without force it must be an atomic create-if-absent, otherwise two purge jobs both obtain the lock")
			checkErrDiscipline(c, "lock.errors", f, func(id string) bool { return id == "pkg/storage.Store.Put" }, nil)
			checkNoSwallow(c, "lock.errors", f, func(id string) bool { return id == "pkg/storage.Store.Put" }, nil)
		}
		u := p.Func("pkg/core.PurgeUnlock")
		okU := false
		for _, d := range enumStoreCalls(p, "Delete", 1, "pkg/core") {
			if d.Fn.ID == u.ID && d.Kind == "purge-lock" {
				okU = true
			}
		}
		c.check(okU, "lock.release", u.ID, p.Pos(u.Decl.Pos()), "PurgeUnlock deletes the lock key", "PurgeUnlock no longer deletes the lock key")
	}
	// commands
	{
		jobs := map[string]bool{"pkg/core.PurgeBuildReverseIndex": true, "pkg/core.PurgeDeleteUnused": true, "pkg/core.PurgeDropReverseIndex": true}
		n := 0
		for _, f := range p.FuncsIn("cmd/datamon/cmd") {
			if f.Decl.Body == nil {
				continue
			}
			info := f.Info()
			b := p.BodyOf(f)
			isJob := func(bd *Body, call *ast.CallExpr) bool { return jobs[calleeID(info, call)] }
			if len(b.findCalls(isJob, false)) == 0 {
				continue
			}
			n++
			isLock := callTo("pkg/core.PurgeLock")
			isUnlock := callTo("pkg/core.PurgeUnlock")
			isJobNode := func(nd ast.Node) bool {
				call, ok := nd.(*ast.CallExpr)
				return ok && jobs[calleeID(info, call)]
			}
			bad, nT, nA := b.guardedByNilErr(isLock, isJobNode)
			c.check(nT == 1 && nA == 1 && len(bad) == 0, "lock.commands.job-under-lock", f.ID, p.Pos(f.Decl.Pos()), "the purge job runs only where PurgeLock returned nil", "the purge job can run although the lock was not obtained (PurgeLock failed or was not called): two purge jobs can run at once")
			// release on every exit after the job
			const idle, locked = 1, 2
			badExit := false
			b.run(flowSpec{entry: idle,
				node: func(nd ast.Node, s uint64) uint64 {
					for _, call := range callsIn(nd) {
						if jobs[calleeID(info, call)] {
							s = locked
						}
						if isUnlock(b, call) {
							s = idle
						}
					}
					if _, ok := nd.(*ast.ReturnStmt); ok && s&locked != 0 {
						badExit = true
					}
					return s
				},
				exit: func(blk *cfg.Block, ret *ast.ReturnStmt, s uint64) {
					if s&locked != 0 {
						badExit = true
					}
				}})
			c.check(!badExit && len(b.findCalls(isUnlock, false)) >= 1, "lock.commands.released", f.ID, p.Pos(f.Decl.Pos()), "the lock is released on every path after the job", "the command can exit after the job without releasing the purge lock")
		}
		if n < 3 {
			c.fail("lock.commands.job-under-lock", "instances", "-", "expected the three purge commands, found "+itoa(n))
		}
	}
	// (b) final loop
	{
		f := p.Func("pkg/core.uploader")
		okStop := false
		var got string
		ast.Inspect(f.Decl.Body, func(nd ast.Node) bool {
			fs, ok := nd.(*ast.ForStmt)
			if !ok || fs.Cond != nil {
				return true
			}
			// the loop containing a direct chunkUploader(...)() invocation
			direct := false
			ast.Inspect(fs.Body, func(m ast.Node) bool {
				if call, ok := m.(*ast.CallExpr); ok {
					if inner, ok := ast.Unparen(call.Fun).(*ast.CallExpr); ok && calleeID(f.Info(), inner) == "pkg/core.chunkUploader" {
						direct = true
					}
				}
				return true
			})
			if !direct {
				return true
			}
			for _, st := range fs.Body.List {
				if ifs, ok := st.(*ast.IfStmt); ok && len(ifs.Body.List) == 1 {
					if br, ok := ifs.Body.List[0].(*ast.BranchStmt); ok && br.Tok == token.BREAK {
						got = describeExpr(f, ifs.Cond, 0)
						if got == "(call:sync/atomic.LoadUint64(param#4)<=call:sync/atomic.LoadUint64(param#4))" {
							// before/after reads of the same counter, taken on both sides of the upload
							okStop = true
						}
					}
				}
			}
			return true
		})
		c.check(okStop, "final-loop.until-empty-chunk", f.ID, p.Pos(f.Decl.Pos()), "the final loop uploads chunks until one adds no key", "the final upload loop stops under `"+got+"`: it must stop only when a chunk added no key (uploaded <= uploadedBefore), otherwise indexed keys are left out of the uploaded index")
	}
	// (c) scan
	{
		f := p.Func("pkg/core.scanBlob")
		info := f.Info()
		// every key of a batch is handed to checkAndDeleteKey
		okAll := false
		ast.Inspect(f.Decl.Body, func(nd ast.Node) bool {
			rs, ok := nd.(*ast.RangeStmt)
			if !ok || !strings.HasSuffix(exprString(rs.X), ".keys") {
				return true
			}
			ast.Inspect(rs.Body, func(m ast.Node) bool {
				if call, ok := m.(*ast.CallExpr); ok && calleeID(info, call) == "pkg/core.checkAndDeleteKey" {
					if id, ok := ast.Unparen(call.Args[3]).(*ast.Ident); ok && rs.Value != nil && id.Name == rs.Value.(*ast.Ident).Name {
						okAll = true
					}
				}
				return true
			})
			return true
		})
		c.check(okAll, "scan.every-key-checked", f.ID, p.Pos(f.Decl.Pos()), "every key of every received page goes through checkAndDeleteKey", "scanBlob no longer hands every key of a page to checkAndDeleteKey")
		// the scan iterates the whole blob store: prefix "", no delimiter
		du := p.Func("pkg/core.PurgeDeleteUnused")
		okIt := false
		ast.Inspect(du.Decl.Body, func(nd ast.Node) bool {
			if call, ok := nd.(*ast.CallExpr); ok && calleeID(du.Info(), call) == "pkg/storage.Store.KeysPrefix" {
				if describeExpr(du, call.Args[2], 0) == "const:\"\"" && describeExpr(du, call.Args[3], 0) == "const:\"\"" && strings.HasPrefix(describeExpr(du, ast.Unparen(call.Fun).(*ast.SelectorExpr).X, 0), "call:pkg/core.getBlobStore(") {
					okIt = true
				}
			}
			return true
		})
		c.check(okIt, "scan.whole-blob-store", du.ID, p.Pos(du.Decl.Pos()), "the scan lists the whole blob store (empty prefix, no delimiter)", "delete-unused no longer lists the whole blob store")
		// wiring to fetchKeys (paging clause: C07)
		okFetch := false
		ast.Inspect(f.Decl.Body, func(nd ast.Node) bool {
			if g, ok := nd.(*ast.GoStmt); ok && calleeID(info, g.Call) == "pkg/core.fetchKeys" && describeExpr(f, g.Call.Args[0], 0) == "param#2" {
				okFetch = true
			}
			return true
		})
		c.check(okFetch, "scan.paged-by-fetchKeys", f.ID, p.Pos(f.Decl.Pos()), "pages come from fetchKeys(iterator) (token-only termination: C07)", "scanBlob no longer pages through fetchKeys")
		checkPagingLoop(c, "scan.paging", p.Func("pkg/core.fetchKeys"), func(call *ast.CallExpr) bool {
			v, ok := calleeObj(p.Func("pkg/core.fetchKeys").Info(), call).(*types.Var)
			return ok && paramIndex(p.Func("pkg/core.fetchKeys"), v) == 0
		})
		// keep conditions and dry run: shared with C13 clause 1 (re-evaluated here on the dry-run and found guards)
		g := p.Func("pkg/core.checkAndDeleteKey")
		gb := p.BodyOf(g)
		ginfo := g.Info()
		isDel := retryCallWith(ginfo, "pkg/storage.Store.Delete")
		for gi, gd := range []struct {
			name string
			is   func(e ast.Expr) bool
		}{
			{"dry-run", func(e ast.Expr) bool { return describeExpr(g, e, 0) == "param#6" }},
			{"key indexed", func(e ast.Expr) bool {
				d := describeExpr(g, e, 0)
				return strings.HasPrefix(d, "param#1.Exists(") && strings.HasSuffix(d, "#0")
			}},
			{"blob newer than the index", func(e ast.Expr) bool {
				d := describeExpr(g, e, 0)
				return strings.HasPrefix(d, "param#2.Before(") && strings.HasSuffix(d, ".Updated)")
			}},
		} {
			const free, guarded = 1, 2
			bad, seen := false, false
			gb.run(flowSpec{entry: free,
				node: func(n ast.Node, s uint64) uint64 {
					for _, call := range callsIn(n) {
						if isDel(gb, call) && s&guarded != 0 {
							bad = true
						}
					}
					return s
				},
				edge: func(blk *cfg.Block, i int, s uint64) uint64 {
					if cond := condOf(blk); cond != nil && gd.is(cond) {
						seen = true
						if i == 0 {
							return guarded
						}
						return free
					}
					return s
				}})
			c.check(seen && !bad, "scan.keep-conditions", g.ID+":"+itoa(gi+1), p.Pos(g.Decl.Pos()), "no delete when: "+gd.name, "a blob is deleted although: "+gd.name)
		}
	}
	// (d) who may delete blobs
	{
		allowed := map[string]string{
			"pkg/core.checkAndDeleteKey": "the purge scan, guarded (C13)",
			"pkg/cafs.defaultFs.Delete":  "explicit cafs Delete of one object",
			"pkg/cafs.defaultFs.Clear":   "explicit cafs Clear",
		}
		n := 0
		for _, method := range []string{"Delete", "Clear"} {
			keyArg := 1
			if method == "Clear" {
				keyArg = 0
			}
			for _, d := range enumStoreCalls(p, method, keyArg, "pkg/core", "pkg/cafs", "pkg/fuse", "pkg/web", "cmd/datamon/cmd") {
				recv := describeExpr(d.Fn, ast.Unparen(d.Call.Fun).(*ast.SelectorExpr).X, 0)
				isBlob := strings.Contains(recv, "getBlobStore(") || strings.Contains(recv, ".BlobStore()") || strings.Contains(recv, ".Blob()") || strings.Contains(recv, ".store.backend") ||
					d.Fn.ID == "pkg/core.checkAndDeleteKey"
				if !isBlob {
					continue
				}
				n++
				why, ok := allowed[d.Fn.ID]
				c.check(ok, "blob-deleters", d.Key, p.Pos(d.Call.Pos()), "blob "+method+" in "+d.Fn.ID+": "+why, "new site deleting from the blob store (`"+recv+"."+method+"`) in "+d.Fn.ID+": blobs may only be removed by the guarded purge scan or the explicit cafs operations")
			}
		}
		if n < 4 {
			c.fail("blob-deleters", "instances", "-", "expected at least 4 blob delete sites, found "+itoa(n))
		}
		// positive control for a rule whose violation count is normally zero: the classifier recognises a blob-store receiver
		ctl := describeExpr(p.Func("pkg/core.PurgeDeleteUnused"), firstCallArgRecv(p.Func("pkg/core.PurgeDeleteUnused"), "pkg/storage.Store.KeysPrefix"), 0)
		c.check(strings.Contains(ctl, "getBlobStore("), "blob-deleters.positive-control", "pkg/core.PurgeDeleteUnused", "-", "the receiver classifier recognises the blob store ("+ctl+")", "the blob-store receiver classifier no longer recognises getBlobStore(...) receivers")
	}
	// exactness of the index: chunk numbering and asynchronous chunk copies (shared with C13)
	checkChunkNumbering(c)
	checkIndexTime(c)
	if n := checkLoopVarCapture(c, "loopvar", "pkg/core"); n < 1 {
		c.fail("loopvar", "instances", "-", "expected at least 1 asynchronous closure inside a loop in pkg/core, found "+itoa(n))
	}
	checkGenericErrorDiscipline(c, "pkg/core")
	checkLeafSizeFromDescriptor(c, "index.leaf-size-from-descriptor", "pkg/core", "pkg/fuse")
	checkChunkLimitCountsSentKeys(c, "index.chunk-limit-counts-sent-keys")
	checkTryGoHandled(c, "delete.trygo-handled", "pkg/core")
	checkChunkDeleteBeforePut(c, "index.chunk-delete-before-put")
}

func firstCallArgRecv(f *FuncInfo, callee string) ast.Expr {
	var out ast.Expr
	ast.Inspect(f.Decl.Body, func(n ast.Node) bool {
		if call, ok := n.(*ast.CallExpr); ok && out == nil && calleeID(f.Info(), call) == callee {
			out = ast.Unparen(call.Fun).(*ast.SelectorExpr).X
		}
		return true
	})
	if out == nil {
		return ast.NewIdent("none")
	}
	return out
}

// reachableFrom: is function `to` reachable from `from` through static calls (depth-bounded)?
func reachableFrom(p *Prog, from, to string, depth int) bool {
	seen := map[string]bool{}
	var walk func(id string, d int) bool
	walk = func(id string, d int) bool {
		if id == to {
			return true
		}
		if d == 0 || seen[id] {
			return false
		}
		seen[id] = true
		f := p.FuncOpt(id)
		if f == nil || f.Decl.Body == nil {
			return false
		}
		found := false
		ast.Inspect(f.Decl.Body, func(n ast.Node) bool {
			if found {
				return false
			}
			if call, ok := n.(*ast.CallExpr); ok {
				if fn, ok := calleeObj(f.Info(), call).(*types.Func); ok {
					if walk(funcID(fn), d-1) {
						found = true
					}
				}
			}
			return true
		})
		return found
	}
	return walk(from, depth)
}

// checkChunkNumbering is shared by several properties (the clause is necessary for each of them).
func checkChunkNumbering(c *Ctx) {
	p := c.P

	{
		f := p.Func("pkg/core.uploader")
		var lit *ast.FuncLit
		if len(f.Lits) > 0 {
			lit = f.Lits[0]
		}
		if lit == nil {
			undecided("uploader no longer returns a closure")
		}
		lb := p.LitBody(f, lit)
		info := f.Info()
		var idxVar *types.Var
		ast.Inspect(lit.Body, func(nd ast.Node) bool {
			if call, ok := nd.(*ast.CallExpr); ok && calleeID(info, call) == "pkg/core.chunkUploader" && idxVar == nil {
				if id, ok := ast.Unparen(call.Args[1]).(*ast.Ident); ok {
					idxVar, _ = info.Uses[id].(*types.Var)
				}
			}
			return true
		})
		if idxVar == nil {
			c.fail("chunk-numbering", f.ID, p.Pos(f.Decl.Pos()), "the chunk index handed to chunkUploader is not a variable")
		} else {
			const stale, fresh = 1, 2
			bad := false
			nUp := 0
			otherWrite := false
			lb.run(flowSpec{entry: stale,
				node: func(n ast.Node, s uint64) uint64 {
					if inc, ok := n.(*ast.IncDecStmt); ok && isVar(info, inc.X, idxVar) {
						if inc.Tok == token.INC {
							if s&fresh != 0 {
								bad = true // two increments without an upload skip a number (harmless) — but flag double use below only
							}
							return fresh
						}
						otherWrite = true
					}
					if as, ok := n.(*ast.AssignStmt); ok {
						for _, l := range as.Lhs {
							if isVar(info, l, idxVar) && as.Tok != token.DEFINE {
								otherWrite = true
							}
						}
					}
					for _, call := range callsIn(n) {
						if calleeID(info, call) == "pkg/core.chunkUploader" {
							nUp++
							if s&stale != 0 {
								bad = true
							}
							s = stale
						}
					}
					return s
				}})
			initOK := false
			for _, d := range defsOfVarWithIndex(f, idxVar) {
				if d.rhs != nil && describeExpr(f, d.rhs, 0) == "param#8.indexStart" {
					initOK = true
				}
			}
			c.check(nUp == 2 && !bad && !otherWrite && initOK, "chunk-numbering.increment-before-upload", f.ID, p.Pos(f.Decl.Pos()), "the chunk index starts at options.indexStart and is incremented exactly once before each of the "+itoa(nUp)+" upload sites; it is never decreased or reassigned",
				"a chunk upload can run with a chunk index that was not freshly incremented (or the index is decreased/reassigned): an already uploaded chunk file is deleted and rewritten, and since its keys are already marked uploaded they end up in no chunk — delete-unused then removes blobs that committed bundles need")
		}
		// resume: indexStart = lastIndex
		g := p.Func("pkg/core.PurgeBuildReverseIndex")
		okRes := false
		ast.Inspect(g.Decl.Body, func(nd ast.Node) bool {
			if as, ok := nd.(*ast.AssignStmt); ok && len(as.Lhs) == 1 && strings.HasSuffix(exprString(as.Lhs[0]), ".indexStart") {
				if strings.HasPrefix(describeExpr(g, as.Rhs[0], 0), "call:pkg/core.preloadIndexFiles(") && strings.HasSuffix(describeExpr(g, as.Rhs[0], 0), "#0") {
					okRes = true
				}
			}
			return true
		})
		c.check(okRes, "chunk-numbering.resume-after-last", g.ID, p.Pos(g.Decl.Pos()), "a resumed build continues after the last preloaded chunk", "a resumed build no longer starts numbering after the last preloaded chunk")
		// copyIndexChunks tracks the max chunk number
		h := p.Func("pkg/core.copyIndexChunks")
		okMax := false
		ast.Inspect(h.Decl.Body, func(nd ast.Node) bool {
			if ifs, ok := nd.(*ast.IfStmt); ok {
				if be, ok := ast.Unparen(ifs.Cond).(*ast.BinaryExpr); ok && be.Op == token.GTR && len(ifs.Body.List) == 1 {
					if as, ok := ifs.Body.List[0].(*ast.AssignStmt); ok && exprString(as.Lhs[0]) == exprString(be.Y) && exprString(as.Rhs[0]) == exprString(be.X) && strings.HasPrefix(describeExpr(h, be.X, 0), "call:pkg/model.ReverseIndexChunk(") {
						okMax = true
					}
				}
			}
			return true
		})
		c.check(okMax, "chunk-numbering.resume-after-last", h.ID, p.Pos(h.Decl.Pos()), "lastIndex is the maximum chunk number found", "copyIndexChunks no longer computes the maximum chunk number")
	}
	_ = p
}

// checkIndexTime is shared by C13 and C14 (the delete cut-off must be the time the scan started).
func checkIndexTime(c *Ctx) {
	p := c.P
	{
		f := p.Func("pkg/core.PurgeBuildReverseIndex")
		info := f.Info()
		var tv *types.Var
		for _, cs := range callersOf(p, "pkg/core.uploader") {
			if cs.Fn.ID == f.ID {
				if id, ok := ast.Unparen(cs.Call.Args[2]).(*ast.Ident); ok {
					tv, _ = info.Uses[id].(*types.Var)
				}
			}
		}
		if tv == nil {
			c.fail("index-time", f.ID, p.Pos(f.Decl.Pos()), "the index time handed to the uploader is not a variable")
		} else {
			// initial definition: time.Now().UTC() before any scan
			okInit, okResume, okRet := false, false, false
			for _, d := range defsOfVarWithIndex(f, tv) {
				if d.rhs != nil && describeExpr(f, d.rhs, 0) == "call:time.Now().UTC()" {
					okInit = true
				}
				if d.rhs != nil && strings.HasPrefix(describeExpr(f, d.rhs, 0), "*call:pkg/core.preloadIndexFiles(") && strings.HasSuffix(describeExpr(f, d.rhs, 0), "#2") {
					okResume = true
				}
			}
			for _, cl := range compositeLits(f, "pkg/core.PurgeIndex") {
				if v := fieldOfCompositeLit(cl, "IndexTime"); v != nil {
					if id, ok := ast.Unparen(v).(*ast.Ident); ok && info.Uses[id] == tv {
						okRet = true
					}
				}
			}
			b := p.BodyOf(f)
			bad, _ := b.dominatedBy(func(bd *Body, call *ast.CallExpr) bool { return describeExpr(f, call, 0) == "call:time.Now().UTC()" }, callTo("pkg/core.scanContext", "pkg/core.uploader", "pkg/core.openKV"))
			c.check(okInit && len(bad) == 0, "index-time.before-scan", f.ID, p.Pos(f.Decl.Pos()), "the index time is taken before anything is scanned", "the index time is no longer taken (time.Now) before the scan starts: blobs written during the scan are older than the index yet missing from it")
			c.check(okResume, "index-time.resume-keeps-original", f.ID, p.Pos(f.Decl.Pos()), "on resume the same variable is assigned the original index's time", "on resume the variable handed to the uploader is no longer assigned the original index time (e.g. a shadowing := in the resume block): the resumed index is stamped with the resume time and blobs written between start and resume lose their protection")
			c.check(okRet, "index-time.returned", f.ID, p.Pos(f.Decl.Pos()), "the returned descriptor carries that same time", "PurgeIndex.IndexTime is no longer the variable handed to the uploader")
		}
		// chunk header carries that time: dbReader.Read prints r.indexTime first, chunkUploader passes indexTime to newDBReader
		cu := p.Func("pkg/core.chunkUploader")
		okHdr := false
		for _, cs := range callersOf(p, "pkg/core.newDBReader") {
			if cs.Fn.ID == cu.ID && describeExpr(cu, cs.Call.Args[2], 0) == "param#4" {
				okHdr = true
			}
		}
		c.check(okHdr, "index-time.chunk-header", cu.ID, p.Pos(cu.Decl.Pos()), "every chunk is stamped with the index time given to the uploader", "chunkUploader no longer stamps chunks with the uploader's index time")
		// delete-unused compares with the time loaded from the chunks
		du := p.Func("pkg/core.PurgeDeleteUnused")
		okUse := false
		for _, cs := range callersOf(p, "pkg/core.scanBlob") {
			if cs.Fn.ID == du.ID && strings.HasPrefix(describeExpr(du, cs.Call.Args[4], 0), "*call:pkg/core.copyIndexChunks(") {
				okUse = true
			}
		}
		c.check(okUse, "index-time.used-by-delete", du.ID, p.Pos(du.Decl.Pos()), "delete-unused compares blob ages with the time recorded in the index chunks", "PurgeDeleteUnused no longer uses the index time loaded from the index chunks")
	}
	_ = p
}
