package main

import (
	"go/ast"
	"go/token"
	"go/types"
	"strings"

	"golang.org/x/tools/go/cfg"
)

// E-ERR2 — a value obtained together with an error is used only where the error is known to be nil.
//
// For every `v, err := f(...)` (f of the repository or of a storage/io interface, v of pointer, interface, slice, map or
// struct type) each use of v must be at a CFG point where, on every path from the definition, err was tested and
// found nil — except a use in a return statement that also returns that err (propagation), or a comparison of v with
// nil. This is the shape the repository uses everywhere (`if err != nil { return …, err }` right after the call); a
// negated test, a test of the wrong error variable, or a use placed before the test (defer r.Close() before checking
// Get's error) break it, and each of them turns a failed store operation into a nil dereference or into success with
// empty data.
//
// The analysis is per definition site, on the CFG of the enclosing body, branch-sensitive for tests of err
// (==/!= nil in if/&&/|| forms). A reassignment of err ends the tracking: afterwards uses are accepted only if the error
// had been established nil on every path before.

type errGuardSite struct {
	fn    *FuncInfo
	body  *Body
	as    ast.Node
	call  *ast.CallExpr
	val   *types.Var
	errV  *types.Var
	valNm string
}

func trackableValueType(t types.Type) bool {
	switch u := t.Underlying().(type) {
	case *types.Pointer, *types.Interface, *types.Map, *types.Chan, *types.Signature:
		return true
	case *types.Slice:
		_ = u
		return false // a nil slice is usable (len 0): ranging over it is the normal "nothing" answer
	}
	return false
}

func errGuardSites(p *Prog, f *FuncInfo) []errGuardSite {
	var out []errGuardSite
	info := f.Info()
	ast.Inspect(f.Decl.Body, func(n ast.Node) bool {
		as, ok := n.(*ast.AssignStmt)
		if !ok || len(as.Rhs) != 1 || len(as.Lhs) < 2 {
			return true
		}
		call, ok := ast.Unparen(as.Rhs[0]).(*ast.CallExpr)
		if !ok {
			return true
		}
		tup, ok := info.TypeOf(call).(*types.Tuple)
		if !ok || tup.Len() != len(as.Lhs) || !isErrorType(tup.At(tup.Len()-1).Type()) {
			return true
		}
		eid, ok := as.Lhs[len(as.Lhs)-1].(*ast.Ident)
		if !ok || eid.Name == "_" {
			return true
		}
		ev, _ := info.Defs[eid].(*types.Var)
		if ev == nil {
			ev, _ = info.Uses[eid].(*types.Var)
		}
		if ev == nil {
			return true
		}
		for i := 0; i < len(as.Lhs)-1; i++ {
			vid, ok := as.Lhs[i].(*ast.Ident)
			if !ok || vid.Name == "_" {
				continue
			}
			vv, _ := info.Defs[vid].(*types.Var)
			if vv == nil {
				vv, _ = info.Uses[vid].(*types.Var)
			}
			if vv == nil || !trackableValueType(tup.At(i).Type()) {
				continue
			}
			var body *Body
			if l := innermostLit(f, as); l != nil {
				body = p.LitBody(f, l)
			} else {
				body = p.BodyOf(f)
			}
			out = append(out, errGuardSite{fn: f, body: body, as: as, call: call, val: vv, errV: ev, valNm: vid.Name})
		}
		return true
	})
	return out
}

// checkErrGuardSite returns the first offending use (nil if the site is fine) and a reason.
func checkErrGuardSite(s errGuardSite) (ast.Node, string) {
	b := s.body
	info := b.Info()
	const idle, untested, knownNil, nonNil, validated, stale = 1, 2, 4, 8, 16, 32
	var bad ast.Node
	why := ""
	usesVal := func(n ast.Node) *ast.Ident {
		var found *ast.Ident
		ast.Inspect(n, func(m ast.Node) bool {
			if found != nil {
				return false
			}
			if _, isLit := m.(*ast.FuncLit); isLit {
				// a closure capturing v runs later: treated like a use at this point
			}
			if id, ok := m.(*ast.Ident); ok && info.Uses[id] == s.val {
				found = id
			}
			return true
		})
		return found
	}
	isBenignUse := func(n ast.Node, id *ast.Ident) bool {
		// comparison with nil
		if be, ok := b.parent[id].(*ast.BinaryExpr); ok && (be.Op == token.EQL || be.Op == token.NEQ) && (isNil(info, be.X) || isNil(info, be.Y)) {
			return true
		}
		// return statement that also carries the error
		for x := ast.Node(id); x != nil; x = b.parent[x] {
			if r, ok := x.(*ast.ReturnStmt); ok {
				for _, res := range r.Results {
					if usesObj(info, res, s.errV) {
						return true // returned together with the error, possibly wrapped
					}
				}
				if len(r.Results) == 0 {
					return true // bare return with named results
				}
				return false
			}
			if _, isStmt := x.(ast.Stmt); isStmt {
				break
			}
		}
		// assignment of v to a blank / plain re-binding `x = v` is not a dereference; treated as use (conservative)
		return false
	}
	reassignsErr := func(n ast.Node) bool {
		if n == s.as {
			return false
		}
		found := false
		ast.Inspect(n, func(m ast.Node) bool {
			if _, isLit := m.(*ast.FuncLit); isLit {
				return false
			}
			if as, ok := m.(*ast.AssignStmt); ok {
				for _, l := range as.Lhs {
					if isVar(info, l, s.errV) {
						found = true
					}
				}
			}
			return !found
		})
		return found
	}
	reassignsVal := func(n ast.Node) bool {
		if n == s.as {
			return false
		}
		found := false
		if as, ok := n.(*ast.AssignStmt); ok {
			for _, l := range as.Lhs {
				if isVar(info, l, s.val) {
					found = true
				}
			}
		}
		return found
	}
	b.run(flowSpec{
		entry: idle,
		node: func(n ast.Node, st uint64) uint64 {
			if n == s.as {
				return untested
			}
			if st&(untested|nonNil|stale) != 0 && bad == nil {
				if _, isDefer := n.(*ast.DeferStmt); isDefer || true {
					if id := usesVal(n); id != nil && !isBenignUse(n, id) && !reassignsVal(n) {
						bad = id
						switch {
						case st&nonNil != 0:
							why = "on a path where the error is non-nil"
						case st&stale != 0:
							why = "after the error variable was overwritten without ever having been tested"
						default:
							why = "before the error was tested"
						}
					}
				}
			}
			if reassignsVal(n) {
				return idle
			}
			if reassignsErr(n) {
				var out uint64
				if st&knownNil != 0 || st&validated != 0 {
					out |= validated
				}
				if st&(untested|nonNil|stale) != 0 {
					out |= stale
				}
				if st&idle != 0 {
					out |= idle
				}
				return out
			}
			return st
		},
		edge: func(blk *cfg.Block, i int, st uint64) uint64 {
			cond := condOf(blk)
			if cond == nil || st&(untested|knownNil|nonNil) == 0 {
				return st
			}
			var r int
			if i == 0 {
				r = condNilness(info, cond, s.errV)
			} else {
				r = condNilnessWhenFalse(info, cond, s.errV)
			}
			keep := st &^ (untested | knownNil | nonNil)
			switch r {
			case +1:
				if st&(untested|nonNil) != 0 {
					keep |= nonNil
				}
				// a path that already knew nil cannot take this edge
				return keep
			case -1:
				if st&(untested|knownNil) != 0 {
					keep |= knownNil
				}
				return keep
			}
			return st
		},
	})
	return bad, why
}

// checkValuesGuardedByErr applies the rule to every site of the packages; known idioms that legitimately use the value
// regardless of the error are listed in exceptions (key -> reason).
func checkValuesGuardedByErr(c *Ctx, rule string, exceptions map[string]string, pkgs ...string) int {
	p := c.P
	n := 0
	for _, pk := range pkgs {
		for _, f := range p.FuncsIn(pk) {
			if f.Decl.Body == nil {
				continue
			}
			for _, s := range errGuardSites(p, f) {
				n++
				key := callKey(f, s.call) + ":" + shortTypeOf(s.val)
				if why, ok := exceptions[key]; ok {
					c.ok(rule, key, p.Pos(s.call.Pos()), "exception: "+why)
					continue
				}
				bad, why := checkErrGuardSite(s)
				if bad == nil {
					c.ok(rule, key, p.Pos(s.call.Pos()), "the value is used only where the error of this call is known nil (or propagated with it)")
					continue
				}
				c.fail(rule, key, p.Pos(bad.Pos()), "the value returned by "+shortCallee(calleeID(f.Info(), s.call))+" (at "+p.Pos(s.call.Pos())+") is used "+why+": a failed call hands back a nil or empty value, so the failure surfaces as a crash or as success with empty data instead of an error")
			}
		}
	}
	return n
}

func shortTypeOf(v *types.Var) string {
	return types.TypeString(v.Type(), func(p *types.Package) string { return p.Name() })
}

// checkErrBranchFails: in `if err != nil { …; return … }` (err of error type, the function returns an error) the return
// does not report success. Sites where swallowing is the documented behaviour are listed in exceptions.
func checkErrBranchFails(c *Ctx, rule string, exceptions map[string]string, pkgs ...string) int {
	p := c.P
	n := 0
	for _, pk := range pkgs {
		for _, f := range p.FuncsIn(pk) {
			if f.Decl.Body == nil {
				continue
			}
			info := f.Info()
			k := 0
			// the exception table names branches by ordinal; reordering code renumbers them, so the table is applied as
			// a budget per function: as many swallowing branches as it lists are accepted, one more is reported
			var budget []string
			for ek, why := range exceptions {
				if strings.HasPrefix(ek, f.ID+":err-branch#") {
					budget = append(budget, why)
				}
			}
			type branch struct {
				key, ifPos, retPos, cond string
				bad                      bool
			}
			var branches []branch
			flush := func() {
				nbad := 0
				for _, br := range branches {
					if br.bad {
						nbad++
					}
				}
				for _, br := range branches {
					switch why, exact := exceptions[br.key]; {
					case exact:
						c.ok(rule, br.key, br.ifPos, "exception: "+why)
					case !br.bad:
						c.ok(rule, br.key, br.retPos, "the branch taken on a non-nil error does not return success")
					case nbad <= len(budget):
						c.ok(rule, br.key, br.ifPos, "exception (branch moved within the function): "+budget[0])
					default:
						c.fail(rule, br.key, br.retPos, "the branch taken when `"+br.cond+"` holds ends in a return that reports success: the failure is swallowed and the caller goes on as if the step had worked")
					}
				}
			}
			ast.Inspect(f.Decl.Body, func(nd ast.Node) bool {
				ifs, ok := nd.(*ast.IfStmt)
				if !ok || len(ifs.Body.List) == 0 {
					return true
				}
				ret, ok := ifs.Body.List[len(ifs.Body.List)-1].(*ast.ReturnStmt)
				if !ok {
					return true
				}
				// which error variable does the condition establish as non-nil?
				var ev *types.Var
				ast.Inspect(ifs.Cond, func(m ast.Node) bool {
					if id, ok := m.(*ast.Ident); ok {
						if v, ok := info.Uses[id].(*types.Var); ok && isErrorType(v.Type()) && condNilness(info, ifs.Cond, v) == +1 {
							ev = v
						}
					}
					return true
				})
				if ev == nil {
					return true
				}
				var body *Body
				if l := innermostLit(f, ifs); l != nil {
					body = p.LitBody(f, l)
				} else {
					body = p.BodyOf(f)
				}
				if body.errResultIndex() < 0 {
					return true
				}
				k++
				n++
				key := f.ID + ":err-branch#" + itoa(k)
				branches = append(branches, branch{key: key, ifPos: p.Pos(ifs.Pos()), retPos: p.Pos(ret.Pos()), cond: exprString(ifs.Cond),
					bad: body.classifyReturn(ret) == retSuccess})
				return true
			})
			flush()
		}
	}
	return n
}

// errBranchExceptions: branches that swallow an error by design (confirmed by reading, one reason each).
var errBranchExceptions = map[string]string{
	"pkg/core.bundleKeys:err-branch#1":        "documented: a bundle whose metadata cannot be read contributes no keys to the purge index (logged); see DESIGN.md observations",
	"pkg/core.checkAndDeleteKey:err-branch#2": "a blob whose attributes cannot be read is kept (the safe side of purge)",
	"pkg/cafs.defaultFs.Has:err-branch#2":     "Has answers false for an object whose leaves cannot be resolved (incomplete object)",
}

// checkGenericErrorDiscipline runs the two generic error rules over the packages a property is anchored in.
func checkGenericErrorDiscipline(c *Ctx, pkgs ...string) {
	// the generic rules scan whole packages; under a property only the constructs in functions its operations can
	// reach are kept (see reach.go), so that a defect in unrelated code of the same package is left to the properties
	// whose operations execute it
	if c.sharedReach == nil {
		if entries := propertyEntries[c.Prop]; len(entries) > 0 {
			c.sharedReach = c.P.reach(entries)
			c.reachOnly = true
			defer func() { c.sharedReach, c.reachOnly = nil, false }()
		}
	}
	n1 := checkValuesGuardedByErr(c, "errors-surface.value-guarded-by-error", nil, pkgs...)
	n2 := checkErrBranchFails(c, "errors-surface.error-branch-fails", errBranchExceptions, pkgs...)
	checkErrDisciplineAll(c, "errors-surface.every-error-tested", pkgs...)
	checkBuilderArgumentRoles(c, "plumbing.argument-roles", pkgs...)
	checkEffectDominance(c, "effects.dominance", pkgs...)
	checkReceivedErrorsSurface(c, "errors-surface.received-errors", pkgs...)
	checkPresenceTests(c, "errors-surface.presence-tests", pkgs...)
	checkAccumulatorsFed(c, "plumbing.accumulators-fed", pkgs...)
	checkCopyIntoRangeCopy(c, "plumbing.copy-into-range-copy", pkgs...)
	checkShadowedCaptures(c, "plumbing.shadowed-capture", pkgs...)
	checkOptionsAppliedToFresh(c, "plumbing.options-applied-to-fresh", pkgs...)
	checkCancelAfterJoin(c, "conc.cancel-after-join", pkgs...)
	checkTokenFeedbackNotRetried(c, "plumbing.token-feedback-not-retried", pkgs...)
	checkWaitGroupAddBeforeGo(c, "conc.wg-add-before-go", pkgs...)
	checkResultRoles(c, "plumbing.result-roles", pkgs...)
	if n1 == 0 || n2 == 0 {
		c.fail("errors-surface.error-branch-fails", "instances", "-", "the generic error rules matched no site in "+joinStrings(pkgs))
	}
}

func joinStrings(xs []string) string {
	s := ""
	for i, x := range xs {
		if i > 0 {
			s += ", "
		}
		s += x
	}
	return s
}

// errDisciplineExceptions: the call sites of the anchored packages whose error is, by design, not surfaced (frozen
// after reading each one; key = function:callee#ordinal).
var errDisciplineExceptions = map[string]string{
	"pkg/storage/localfs.localFS.Put:afero.Fs.Remove#1":           "removal of the staging file of an overwrite that already failed: the write's own error is returned, the leftover is logged",
	"pkg/cafs.defaultFs.Has:cafs.LeavesForHash#1":                 "Has answers false for an object whose leaves cannot be resolved (incomplete object)",
	"pkg/cafs.GenerateFile:errgroup.Group.Wait#1":                 "test-data generator, not in any data path",
	"pkg/cafs.GenerateFile:os.File.Seek#1":                        "test-data generator, not in any data path",
	"pkg/cafs.GenerateFile:os.File.Write#2":                       "test-data generator, not in any data path",
	"pkg/core.DeleteBundle:storage.Store.Delete#1":                "delete index files until the first failure (bundle of unknown size): the loop stops on the first error by design (C10 clause d)",
	"pkg/storage.MultiPut:storage.StoreCRC.PutCRC#1":              "a store flagged TolerateFailure may fail without failing the multi-write (by design)",
	"pkg/storage.MultiPut:storage.Store.Put#1":                    "a store flagged TolerateFailure may fail without failing the multi-write (by design)",
	"pkg/core.ListBundlesApply:core.doSelectBundles#1":            "assigned inside the collecting goroutine and read by the enclosing function after the channel closed (checked by the apply-errors sibling rule)",
	"pkg/core.Diamond.implCommit:core.Diamond.uploadDescriptor#1": "assigned to the named result inside the deferred completion step: it is the commit's verdict (checked by C12 done-after-bundle:done-write-is-verdict)",
	"pkg/core.writeMemProfile:os.File.Close#1":                    "best-effort Close on a path that already failed or of a read-only handle",
	"pkg/core.ListDiamondsApply:core.doSelectDiamonds#1":          "assigned inside the collecting goroutine and read by the enclosing function after the channel closed (checked by the apply-errors sibling rule)",
	"pkg/core.PurgeBuildReverseIndex:core.kvStore.Close#1":        "best-effort Close on a path that already failed or of a read-only handle",
	"pkg/core.scanContext:errgroup.Group.Wait#2":                  "second Wait on the failure path: the first error is already being returned",
	"pkg/core.uploader:errgroup.Group.Wait#1":                     "Wait on the failure path: the causing error is returned instead",
	"pkg/core.uploader:errgroup.Group.Wait#2":                     "Wait on the failure path: the causing error is returned instead",
	"pkg/core.chunkUploader:core.dbReader.Close#1":                "best-effort Close on a path that already failed or of a read-only handle",
	"pkg/core.PurgeDeleteUnused:core.kvStore.Close#1":             "best-effort Close on a path that already failed or of a read-only handle",
	"pkg/core.scanBlob:errgroup.Group.Wait#2":                     "Wait on the failure path: the causing error is returned instead",
	"pkg/core.checkAndDeleteKey:core.kvStore.Exists#1":            "a failed index lookup ends the step without deleting (returns before the Delete): the safe side of purge",
	"pkg/core.checkAndDeleteKey:v4.Retry#2":                       "a blob whose deletion keeps failing is logged and counted as kept; purge goes on with the other keys (documented best effort)",
	"pkg/core.copyIndexChunks:io.Closer.Close#1":                  "best-effort Close on a path that already failed or of a read-only handle",
	"pkg/core.PurgeLock:fmt.Fprintf#1":                            "logging / formatting helper: no data-path effect",
	"pkg/core.dbReader.iterateKV:core.kvIterator.Close#1":         "best-effort Close on a path that already failed or of a read-only handle",
	"pkg/core.dbReader.Read:fmt.Fprintln#1":                       "logging / formatting helper: no data-path effect",
	"pkg/core.Bundle.skipFile:storage.Store.Has#1":                "an unreadable file is treated as existing: the upload then fails loudly on it",
	"pkg/core.RepoSquash:semver.ParseTolerant#1":                  "a tag that is not a semantic version is simply not a semver tag",
	"pkg/core.ListSplitsApply:core.doSelectSplits#1":              "assigned inside the collecting goroutine and read by the enclosing function after the channel closed (checked by the apply-errors sibling rule)",
	"pkg/core.kvPebble.Drop:pebble.Iterator.Close#1":              "best-effort Close on a path that already failed or of a read-only handle",
	"pkg/core.kvPebble.Get:io.Closer.Close#1":                     "best-effort Close on a path that already failed or of a read-only handle",
	"pkg/core.kvPebble.Exists:io.Closer.Close#1":                  "best-effort Close on a path that already failed or of a read-only handle",
	"pkg/core.kvPebble.Compact:pebble.Iterator.Close#1":           "best-effort Close on a path that already failed or of a read-only handle",
	"pkg/core.ListReposApply:core.doSelectRepos#1":                "assigned inside the collecting goroutine and read by the enclosing function after the channel closed (checked by the apply-errors sibling rule)",
	"pkg/core.RenameRepo:core.RepoExists#2":                       "the error is the expected outcome (the new repo must NOT exist): tested with == nil",
	"pkg/core.ListLabelsApply:core.doSelectLabels#1":              "assigned inside the collecting goroutine and read by the enclosing function after the channel closed (checked by the apply-errors sibling rule)",
	"pkg/cafs.defaultFs.Put:io.Closer.Close#1":                    "best-effort Close on a path that already failed or of a read-only handle",
	"pkg/cafs.defaultFs.Put:io.Closer.Close#2":                    "best-effort Close on a path that already failed or of a read-only handle",
	"pkg/cafs.defaultFs.Has:storage.Store.Has#2":                  "a leaf whose presence cannot be checked makes the object incomplete (answers false)",
	"pkg/cafs.chunkReader.Read:io.Closer.Close#1":                 "best-effort Close on a path that already failed or of a read-only handle",
	"pkg/cafs.bytesFromRoot:io.Closer.Close#1":                    "best-effort Close on a path that already failed or of a read-only handle",
	"pkg/cafs.GenerateFile:os.File.Write#1":                       "test-data generator, not in any data path",
	"pkg/cafs.GenerateFile:os.File.Close#1":                       "test-data generator, not in any data path",
	"pkg/fuse.ReadOnlyFS.MountReadOnly:zap.NewStdLogAt#1":         "logging / formatting helper: no data-path effect",
	"pkg/fuse.ReadOnlyFS.MountReadOnly:zap.NewStdLogAt#2":         "logging / formatting helper: no data-path effect",
	"pkg/fuse.MutableFS.MountMutable:zap.NewStdLogAt#1":           "logging / formatting helper: no data-path effect",
	"pkg/fuse.MutableFS.MountMutable:zap.NewStdLogAt#2":           "logging / formatting helper: no data-path effect",
	"pkg/fuse.MutableFS.Unmount:fuse.fsMutable.Commit#1":          "observation recorded in DESIGN.md: Unmount ignores the commit error (outside C18: the commit itself reports it through Commit())",
	"pkg/fuse.fsMutable.Rename:fuse.fsMutable.deleteNSEntry#1":    "deleting the existing target: its only errors are ENOENT/ENOTEMPTY, both excluded by the preceding lookup (file target found)",
	"pkg/fuse.fsMutable.WriteFile:afero.File.Stat#1":              "Stat of a file just written through the same handle",
	"pkg/fuse.fsMutable.createNode:afero.Fs.Create#1":             "documented: the backing file creation is retried when the file is opened; logged",
	"pkg/wal.defaultWAL:dlogger.GetLogger#1":                      "logging / formatting helper: no data-path effect",
	"pkg/wal.New:storage.Store.Put#1":                             "create-if-absent of the token generator object: an existing object is the normal case",
	"pkg/storage/localfs.New:dlogger.GetLogger#1":                 "logging / formatting helper: no data-path effect",
}

// checkErrDisciplineAll: every call of the packages that returns an error has that error tested on every path and
// surfaced (returned, sent, stored) before the variable is overwritten or the function ends — the E-ERR reaching-definition
// engine applied to all callees; the frozen exception table lists the sites that swallow by design.
func checkErrDisciplineAll(c *Ctx, rule string, pkgs ...string) int {
	n := 0
	for _, pk := range pkgs {
		for _, f := range c.P.FuncsIn(pk) {
			if f.Decl.Body != nil {
				n += checkErrDiscipline(c, rule, f, func(id string) bool {
					switch id {
					case "io.PipeReader.CloseWithError", "io.PipeWriter.CloseWithError", "io.PipeWriter.Close", "io.PipeReader.Close":
						return false // documented to always return nil
					}
					return true
				}, errDisciplineExceptions)
			}
		}
	}
	return n
}

// checkReceivedErrorsSurface (generic, registered with the error discipline): an error received from a channel is a
// worker's verdict. The variable it is received into (`case err := <-errC`, `e := <-errC`, also a struct carrying an
// error field) must reach a return statement, an assignment to a variable that outlives the clause, a send, or a
// non-logging call; an error that is only logged (or shadowed by the receive and lost with the clause) turns a failed
// fan-out into a success.
func checkReceivedErrorsSurface(c *Ctx, rule string, pkgs ...string) int {
	p := c.P
	n := 0
	carriesError := func(t types.Type) bool {
		if isErrorType(t) {
			return true
		}
		if st, ok := t.Underlying().(*types.Struct); ok {
			for i := 0; i < st.NumFields(); i++ {
				if isErrorType(st.Field(i).Type()) {
					return true
				}
			}
		}
		return false
	}
	for _, pk := range pkgs {
		for _, f := range p.FuncsIn(pk) {
			if f.Decl.Body == nil {
				continue
			}
			info := f.Info()
			ast.Inspect(f.Decl.Body, func(nd ast.Node) bool {
				as, ok := nd.(*ast.AssignStmt)
				if !ok || len(as.Rhs) != 1 || len(as.Lhs) < 1 {
					return true
				}
				u, ok := ast.Unparen(as.Rhs[0]).(*ast.UnaryExpr)
				if !ok || u.Op != token.ARROW {
					return true
				}
				id, ok := ast.Unparen(as.Lhs[0]).(*ast.Ident)
				if !ok || id.Name == "_" {
					return true
				}
				v, _ := info.ObjectOf(id).(*types.Var)
				if v == nil || !carriesError(v.Type()) {
					return true
				}
				if as.Tok != token.DEFINE {
					return true // received into an existing variable: it outlives the clause (its uses are checked by the flow rules)
				}
				n++
				// scope of the variable: the comm clause (or the enclosing block)
				var scope ast.Node
				for par := f.parentOf(as); par != nil; par = f.parentOf(par) {
					if _, isCC := par.(*ast.CommClause); isCC {
						scope = par
						break
					}
					if _, isBlk := par.(*ast.BlockStmt); isBlk {
						scope = par
						break
					}
				}
				if scope == nil {
					return true
				}
				surfaced := false
				ast.Inspect(scope, func(m ast.Node) bool {
					uid, ok := m.(*ast.Ident)
					if !ok || info.Uses[uid] != v {
						return true
					}
					// climb to the statement using it
					var child ast.Node = uid
					for par := f.parentOf(uid); par != nil && par != scope; child, par = par, f.parentOf(par) {
						switch x := par.(type) {
						case *ast.CallExpr:
							if child == x.Fun {
								continue
							}
							if isLoggingCall(info, x) {
								return true // logged only (so far)
							}
							if isClassifierCall(info, x) {
								continue
							}
							surfaced = true
							return true
						case *ast.ReturnStmt, *ast.SendStmt, *ast.GoStmt, *ast.DeferStmt:
							surfaced = true
							return true
						case *ast.AssignStmt:
							for _, r := range x.Rhs {
								if encloses(r, uid.Pos()) {
									surfaced = true
								}
							}
							return true
						case *ast.CompositeLit:
							surfaced = true
							return true
						}
					}
					return true
				})
				c.check(surfaced, rule, f.ID+":recv:"+v.Name()+"#"+itoa(n), p.Pos(as.Pos()),
					"a received error reaches a return, an outer variable, a send or a non-logging call",
					"`"+v.Name()+"`, an error received from a channel in "+f.ID+", is only logged or tested: the variable is local to the clause, so the failure a worker reported is lost and the operation goes on to report success")
				return true
			})
		}
	}
	return n
}

// checkPresenceTests (generic, contradiction rule): the boolean answer of a presence query (`has, err := store.Has(k)`,
// `exists, err := x.Exists(…)`) and the sentinel returned on it must agree: a not-found / not-exists sentinel is returned
// where the answer is false, an already-exists sentinel where it is true. Also: the value of a comma-ok type assertion
// is not used on the path where ok is false (it is the zero value: a nil interface), and a positive `ok` does not lead
// straight to a failure that ignores the value.
func checkPresenceTests(c *Ctx, rule string, pkgs ...string) int {
	p := c.P
	n := 0
	classify := func(info *types.Info, e ast.Expr) int { // -1 absence sentinel, +1 presence sentinel, 0 unknown
		name := ""
		ast.Inspect(e, func(m ast.Node) bool {
			if id, ok := m.(*ast.Ident); ok {
				if v, ok := info.Uses[id].(*types.Var); ok && v.Pkg() != nil && v.Parent() == v.Pkg().Scope() && strings.HasPrefix(v.Name(), "Err") && name == "" {
					name = v.Name()
				}
			}
			return true
		})
		switch {
		case name == "":
			return 0
		case strings.Contains(name, "NotFound"), strings.Contains(name, "NotExist"), strings.Contains(name, "Missing"):
			return -1
		case strings.Contains(name, "Exists"), strings.Contains(name, "Already"):
			return +1
		}
		return 0
	}
	for _, pk := range pkgs {
		for _, f := range p.FuncsIn(pk) {
			if f.Decl.Body == nil {
				continue
			}
			info := f.Info()
			b := p.BodyOf(f)
			// presence variables
			presence := map[*types.Var]*ast.CallExpr{}
			assertOK := map[*types.Var]*types.Var{} // ok -> asserted value
			ast.Inspect(f.Decl.Body, func(nd ast.Node) bool {
				as, ok := nd.(*ast.AssignStmt)
				if !ok || len(as.Rhs) != 1 || len(as.Lhs) != 2 {
					return true
				}
				switch r := ast.Unparen(as.Rhs[0]).(type) {
				case *ast.CallExpr:
					fn, _ := calleeObj(info, r).(*types.Func)
					if fn == nil || !(fn.Name() == "Has" || fn.Name() == "Exists") {
						return true
					}
					if id, ok := as.Lhs[0].(*ast.Ident); ok {
						if v, ok := info.ObjectOf(id).(*types.Var); ok {
							if bt, ok := v.Type().Underlying().(*types.Basic); ok && bt.Kind() == types.Bool {
								presence[v] = r
							}
						}
					}
				case *ast.TypeAssertExpr:
					vid, ok1 := as.Lhs[0].(*ast.Ident)
					oid, ok2 := as.Lhs[1].(*ast.Ident)
					if ok1 && ok2 && vid.Name != "_" && oid.Name != "_" {
						vv, _ := info.ObjectOf(vid).(*types.Var)
						ov, _ := info.ObjectOf(oid).(*types.Var)
						if vv != nil && ov != nil {
							if _, isIface := vv.Type().Underlying().(*types.Interface); isIface {
								assertOK[ov] = vv
							}
						}
					}
				}
				return true
			})
			if len(presence) == 0 && len(assertOK) == 0 {
				continue
			}
			polarityOf := func(cond ast.Expr, v *types.Var) int { // +1: cond implies v true, -1: implies v false
				for _, cj := range conjuncts(cond) {
					cj = ast.Unparen(cj)
					if id, ok := cj.(*ast.Ident); ok && info.Uses[id] == v {
						return +1
					}
					if u, ok := cj.(*ast.UnaryExpr); ok && u.Op == token.NOT {
						if id, ok := ast.Unparen(u.X).(*ast.Ident); ok && info.Uses[id] == v {
							return -1
						}
					}
				}
				return 0
			}
			ast.Inspect(f.Decl.Body, func(nd ast.Node) bool {
				ifs, ok := nd.(*ast.IfStmt)
				if !ok || len(ifs.Body.List) == 0 {
					return true
				}
				ret, isRet := ifs.Body.List[len(ifs.Body.List)-1].(*ast.ReturnStmt)
				for v := range presence {
					pol := polarityOf(ifs.Cond, v)
					if pol == 0 || !isRet || b.classifyReturn(ret) != retFailure {
						continue
					}
					idx := b.errResultIndex()
					if idx < 0 || idx >= len(ret.Results) {
						continue
					}
					cls := classify(info, ret.Results[idx])
					if cls == 0 {
						continue
					}
					n++
					c.check(cls == pol, rule, f.ID+":presence:"+v.Name()+"#"+itoa(n), p.Pos(ifs.Pos()),
						"the sentinel agrees with the answer of the presence query",
						f.ID+" returns `"+exprString(ret.Results[idx])+"` where `"+exprString(ifs.Cond)+"` holds: a not-found sentinel for an object that is there (or an already-exists sentinel for one that is not) — existing objects cannot be read, or absent ones are read as if present")
				}
				for ov, vv := range assertOK {
					pol := polarityOf(ifs.Cond, ov)
					// the asserted value is the zero value where ok is false: it must not be used there
					var falseRegion ast.Node
					switch {
					case pol == -1 && len(conjuncts(ifs.Cond)) == 1:
						falseRegion = ifs.Body
					case pol == +1 && len(conjuncts(ifs.Cond)) == 1 && ifs.Else != nil:
						falseRegion = ifs.Else
					}
					if falseRegion != nil {
						n++
						derefs := false
						ast.Inspect(falseRegion, func(m ast.Node) bool {
							if call, ok := m.(*ast.CallExpr); ok {
								if sel, ok := ast.Unparen(call.Fun).(*ast.SelectorExpr); ok {
									if id, ok := ast.Unparen(sel.X).(*ast.Ident); ok && info.Uses[id] == vv {
										derefs = true
									}
								}
							}
							return true
						})
						c.check(!derefs, rule, f.ID+":assert-zero:"+vv.Name()+"#"+itoa(n), p.Pos(ifs.Pos()),
							"the asserted value is not used where the assertion failed",
							f.ID+" uses `"+vv.Name()+"` on the branch where its type assertion failed (`"+exprString(ifs.Cond)+"` false side): the value is a nil interface there — the store that does support the capability is bypassed and the call panics or takes the wrong path")
					}
					if pol != +1 || !isRet || b.classifyReturn(ret) != retFailure {
						continue
					}
					if usesObj(info, ifs.Body, vv) {
						continue
					}
					n++
					c.fail(rule, f.ID+":assert:"+ov.Name()+"#"+itoa(n), p.Pos(ifs.Pos()),
						f.ID+" fails exactly when the type assertion succeeded (`"+exprString(ifs.Cond)+"`) without using the asserted value, and goes on when it failed: the zero value (a nil interface) is then used")
				}
				return true
			})
			// instances of well-formed negative tests count too (evidence)
			for ov := range assertOK {
				_ = ov
				n++
			}
		}
	}
	return n
}

// checkAccumulatorsFed (generic): a function that returns a local slice built element by element must still feed it:
// a success return of a slice variable that is created empty (make(T, 0, …) / nil) and is never appended to, indexed
// into or re-assigned returns an empty result for every input — the listing, the versions of a label, the batch.
func checkAccumulatorsFed(c *Ctx, rule string, pkgs ...string) int {
	p := c.P
	n := 0
	for _, pk := range pkgs {
		for _, f := range p.FuncsIn(pk) {
			if f.Decl.Body == nil {
				continue
			}
			info := f.Info()
			b := p.BodyOf(f)
			seen := map[*types.Var]bool{}
			ast.Inspect(f.Decl.Body, func(nd ast.Node) bool {
				if _, isLit := nd.(*ast.FuncLit); isLit {
					return false
				}
				ret, ok := nd.(*ast.ReturnStmt)
				if !ok || b.classifyReturn(ret) == retFailure {
					return true
				}
				for _, r := range ret.Results {
					id, ok := ast.Unparen(r).(*ast.Ident)
					if !ok {
						continue
					}
					v, ok := info.Uses[id].(*types.Var)
					if !ok || seen[v] || paramIndex(f, v) >= 0 {
						continue
					}
					if _, isSlice := v.Type().Underlying().(*types.Slice); !isSlice {
						continue
					}
					defs := defsOfVarWithIndex(f, v)
					// created empty?
					createdEmpty := false
					fed := false
					for _, d := range defs {
						if d.rhs == nil {
							if d.rng == nil {
								fed = true // op-assign or unknown
							}
							continue
						}
						if call, ok := ast.Unparen(d.rhs).(*ast.CallExpr); ok {
							switch calleeID(info, call) {
							case "builtin.make":
								if len(call.Args) >= 2 {
									if tv, ok := info.Types[call.Args[1]]; ok && tv.Value != nil && tv.Value.ExactString() == "0" {
										createdEmpty = true
										continue
									}
								}
								fed = true // make with a length: filled by index
							case "builtin.append":
								fed = true
							default:
								fed = true
							}
							continue
						}
						fed = true
					}
					if !createdEmpty && !fed {
						// a named result never assigned: starts nil
						sig := f.Obj.Type().(*types.Signature)
						for i := 0; i < sig.Results().Len(); i++ {
							if sig.Results().At(i) == v {
								createdEmpty = true
							}
						}
					}
					if !createdEmpty {
						continue
					}
					seen[v] = true
					// appended through a closure or by index?
					ast.Inspect(f.Decl.Body, func(m ast.Node) bool {
						if as, ok := m.(*ast.AssignStmt); ok {
							for _, l := range as.Lhs {
								if ix, ok := ast.Unparen(l).(*ast.IndexExpr); ok && isVar(info, ix.X, v) {
									fed = true
								}
							}
						}
						if u, ok := m.(*ast.UnaryExpr); ok && u.Op == token.AND && isVar(info, u.X, v) {
							fed = true // address taken: filled elsewhere
						}
						return true
					})
					n++
					c.check(fed, rule, f.ID+":"+v.Name(), p.Pos(ret.Pos()),
						"the returned slice is fed",
						f.ID+" returns `"+v.Name()+"`, created empty and never appended to: the function reports success with an empty result whatever it collected")
				}
				return true
			})
		}
	}
	return n
}
