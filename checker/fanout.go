package main

import (
	"go/ast"
	"go/token"
	"go/types"

	"golang.org/x/tools/go/cfg"
)

// E-FANOUT: the repository's bounded fan-out idiom.
//
//	coordinator:  sem := make(chan struct{}, n)
//	              for ... { sem <- struct{}{}; go worker(...) }
//	              for i := 0; i < cap(sem); i++ { sem <- struct{}{} }     // all workers have exited
//	              done <- struct{}{}
//	worker:       defer func() { <-sem }()                                 // release AFTER every send
//	              ... results <- x / errors <- e ...
//	collector:    select { case x := <-results: ...; case e := <-errors: return e; case <-done: ... }
//
// The protocol is correct only if (w) every send of a worker happens before its release, (c1) a slot is taken
// before each `go`, (c2) the done signal is dominated by the cap-fold fill, (k) the channels the collector selects
// on together with done are unbuffered (otherwise a send can complete, the slot be released, and done be selected
// first: the result or the error is lost).

func isStructChan(t types.Type) bool {
	ch, ok := t.Underlying().(*types.Chan)
	if !ok {
		return false
	}
	st, ok := ch.Elem().Underlying().(*types.Struct)
	return ok && st.NumFields() == 0
}

// semReceive recognises `<-X` (as expression statement or value) where X is a chan of struct{}.
func semReceiveIn(info *types.Info, n ast.Node) (exprs []ast.Expr) {
	ast.Inspect(n, func(m ast.Node) bool {
		if u, ok := m.(*ast.UnaryExpr); ok && u.Op == token.ARROW {
			if t := info.TypeOf(u.X); t != nil && isStructChan(t) {
				exprs = append(exprs, u.X)
			}
		}
		return true
	})
	return
}

func containsSend(n ast.Node) bool {
	found := false
	ast.Inspect(n, func(m ast.Node) bool {
		if _, ok := m.(*ast.SendStmt); ok {
			found = true
		}
		return !found
	})
	return found
}

// lastSelName gives the trailing name of an expression: chans.concurrencyControl -> concurrencyControl
func lastSelName(e ast.Expr) string {
	switch x := ast.Unparen(e).(type) {
	case *ast.Ident:
		return x.Name
	case *ast.SelectorExpr:
		return x.Sel.Name
	}
	return ""
}

// isSemExpr: e denotes the concurrency semaphore — a struct field whose name is in semNames (field names are part of
// the type's definition), or a local variable of type chan struct{} defined by a buffered make (whatever its name).
func isSemExpr(b *Body, e ast.Expr, semNames map[string]bool) bool {
	info := b.Info()
	switch x := ast.Unparen(e).(type) {
	case *ast.SelectorExpr:
		return semNames[x.Sel.Name]
	case *ast.Ident:
		v, ok := info.Uses[x].(*types.Var)
		if !ok {
			v, ok = info.Defs[x].(*types.Var)
		}
		if !ok || !isStructChan(v.Type()) {
			return false
		}
		for _, d := range defsOfVarWithIndex(b.Fn, v) {
			if call, ok := d.rhs.(*ast.CallExpr); ok && d.rhs != nil {
				if id, ok := ast.Unparen(call.Fun).(*ast.Ident); ok && id.Name == "make" && len(call.Args) == 2 {
					return true
				}
			}
		}
		// a parameter carrying the semaphore keeps its API name
		return semNames[x.Name] && paramIndex(b.Fn, v) >= 0
	}
	return false
}

// checkFanoutWorker checks clause (w) on a worker body. semNames are the accepted names of the semaphore.
func checkFanoutWorker(c *Ctx, rule string, b *Body, semNames map[string]bool) {
	p := c.P
	info := b.Info()
	key := b.Key()
	// locate the deferred release
	relIdx := -1
	var relPos token.Pos
	for i, st := range b.Block.List {
		d, ok := st.(*ast.DeferStmt)
		if !ok {
			continue
		}
		lit, ok := ast.Unparen(d.Call.Fun).(*ast.FuncLit)
		if !ok {
			continue
		}
		for _, x := range semReceiveIn(info, lit.Body) {
			if isSemExpr(b, x, semNames) {
				if relIdx < 0 {
					relIdx, relPos = i, d.Pos()
				}
			}
		}
	}
	if relIdx < 0 {
		// is there a non-deferred release?
		pos := b.Block.Pos()
		detail := "worker has no deferred release of its concurrency slot (`defer func(){ <-sem }()` at the top level of the worker)"
		ast.Inspect(b.Block, func(n ast.Node) bool {
			if u, ok := n.(*ast.UnaryExpr); ok && u.Op == token.ARROW && isSemExpr(b, u.X, semNames) {
				pos = u.Pos()
				detail = "worker releases its concurrency slot outside a top-level defer: the release can precede a result/error send, so the coordinator's done signal can overtake that send and the collector loses it"
			}
			return true
		})
		c.fail(rule+".release-deferred", key, p.Pos(pos), detail)
		return
	}
	// nothing that sends may execute before the defer is registered, no earlier defer may send,
	// and no other (non-deferred) release may exist
	localSenders := map[types.Object]bool{}
	ast.Inspect(b.Block, func(n ast.Node) bool {
		as, ok := n.(*ast.AssignStmt)
		if !ok || len(as.Lhs) != 1 || len(as.Rhs) != 1 {
			return true
		}
		if lit, ok := as.Rhs[0].(*ast.FuncLit); ok && containsSend(lit.Body) {
			if id, ok := as.Lhs[0].(*ast.Ident); ok {
				if o := info.Defs[id]; o != nil {
					localSenders[o] = true
				} else if o := info.Uses[id]; o != nil {
					localSenders[o] = true
				}
			}
		}
		return true
	})
	bad := ""
	var badPos token.Pos
	for i := 0; i < relIdx; i++ {
		st := b.Block.List[i]
		if d, ok := st.(*ast.DeferStmt); ok {
			if containsSend(d) {
				bad, badPos = "a defer registered before the release defer sends on a channel: it runs after the slot was released", d.Pos()
			}
			continue
		}
		sends := false
		ast.Inspect(st, func(n ast.Node) bool {
			if _, ok := n.(*ast.FuncLit); ok {
				return false
			}
			if _, ok := n.(*ast.SendStmt); ok {
				sends = true
			}
			if call, ok := n.(*ast.CallExpr); ok {
				if id, ok := ast.Unparen(call.Fun).(*ast.Ident); ok && localSenders[info.Uses[id]] {
					sends = true
				}
			}
			return true
		})
		if sends {
			bad, badPos = "a channel send can execute before the release defer is registered", st.Pos()
		}
	}
	// early explicit release anywhere outside the release defer
	relDefer := b.Block.List[relIdx]
	ast.Inspect(b.Block, func(n ast.Node) bool {
		if n == relDefer {
			return false
		}
		if u, ok := n.(*ast.UnaryExpr); ok && u.Op == token.ARROW && isSemExpr(b, u.X, semNames) && isStructChan(info.TypeOf(u.X)) {
			bad, badPos = "the worker also releases its concurrency slot explicitly, outside the release defer: a later send is no longer covered by the slot", u.Pos()
		}
		return true
	})
	if bad != "" {
		c.fail(rule+".release-deferred", key, p.Pos(badPos), bad+": the coordinator's done signal can overtake a result/error send and the collector loses it")
		return
	}
	// (w2) results and errors are handed over with blocking sends: a send placed in a select with a default clause is
	// dropped whenever the collector is busy
	dropped := false
	var dropPos token.Pos
	ast.Inspect(b.Block, func(n ast.Node) bool {
		sel, ok := n.(*ast.SelectStmt)
		if !ok {
			return true
		}
		hasDefault, hasSend := false, false
		for _, st := range sel.Body.List {
			cc := st.(*ast.CommClause)
			if cc.Comm == nil {
				hasDefault = true
			}
			if snd, ok := cc.Comm.(*ast.SendStmt); ok && !isStructChan(info.TypeOf(snd.Chan)) {
				hasSend = true
			}
		}
		if hasDefault && hasSend {
			dropped, dropPos = true, sel.Pos()
		}
		return true
	})
	if dropped {
		c.fail(rule+".blocking-sends", key, p.Pos(dropPos), "a worker hands its result/error over with a non-blocking send (select with default): when the collector is busy (e.g. writing an index file) the value is dropped and the operation reports success without it")
	} else {
		c.ok(rule+".blocking-sends", key, p.Pos(relPos), "results and errors are handed over with blocking sends")
	}
	c.ok(rule+".release-deferred", key, p.Pos(relPos), "slot released only by a top-level defer registered before any send can execute: every send of the worker happens before the release")
}

// checkFanoutCoordinator checks clauses (c1) and (c2) on a coordinator body.
// isDone recognises the completion signal (send on a done channel, close(...), etc.).
func checkFanoutCoordinator(c *Ctx, rule string, b *Body, semNames map[string]bool, isDone func(n ast.Node) bool) {
	p := c.P
	info := b.Info()
	key := b.Key()
	isSemSend := func(n ast.Node) bool {
		s, ok := n.(*ast.SendStmt)
		return ok && isSemExpr(b, s.Chan, semNames) && isStructChan(info.TypeOf(s.Chan))
	}
	// the fill loop: for i := 0; i < cap(sem); i++ { sem <- struct{}{} }
	var fillSends = map[ast.Node]bool{}
	var fillConds = map[ast.Expr]bool{}
	ast.Inspect(b.Block, func(n ast.Node) bool {
		fs, ok := n.(*ast.ForStmt)
		if !ok || fs.Cond == nil {
			return true
		}
		be, ok := ast.Unparen(fs.Cond).(*ast.BinaryExpr)
		if !ok {
			return true
		}
		isCapOfSem := func(e ast.Expr) bool {
			call, ok := ast.Unparen(e).(*ast.CallExpr)
			if !ok || len(call.Args) != 1 {
				return false
			}
			if id, ok := ast.Unparen(call.Fun).(*ast.Ident); !ok || id.Name != "cap" {
				return false
			}
			return isSemExpr(b, call.Args[0], semNames)
		}
		isZero := func(e ast.Expr) bool {
			tv, ok := info.Types[e]
			return ok && tv.Value != nil && tv.Value.String() == "0"
		}
		as, okAs := fs.Init.(*ast.AssignStmt)
		inc, okPost := fs.Post.(*ast.IncDecStmt)
		if !okAs || len(as.Rhs) != 1 || !okPost {
			return true
		}
		// counting up: i := 0; i < cap(sem); i++   — or down: n := cap(sem); n > 0; n--
		up := be.Op == token.LSS && isCapOfSem(be.Y) && isZero(as.Rhs[0]) && inc.Tok == token.INC
		down := be.Op == token.GTR && isZero(be.Y) && isCapOfSem(as.Rhs[0]) && inc.Tok == token.DEC
		if !up && !down {
			return true
		}
		for _, st := range fs.Body.List {
			if isSemSend(st) {
				fillSends[st] = true
				fillConds[fs.Cond] = true
			}
		}
		return true
	})
	// the fill may live in a helper: `h(sem)` where h's body is exactly such a loop over its channel parameter
	fillCalls := map[ast.Node]bool{}
	ast.Inspect(b.Block, func(n ast.Node) bool {
		es, ok := n.(*ast.ExprStmt)
		if !ok {
			return true
		}
		call, ok := ast.Unparen(es.X).(*ast.CallExpr)
		if !ok {
			return true
		}
		fn, ok := calleeObj(info, call).(*types.Func)
		if !ok {
			return true
		}
		h := b.P.funcs[funcID(fn)]
		if h == nil || h.Decl.Body == nil {
			return true
		}
		for ai, a := range call.Args {
			if !isSemExpr(b, a, semNames) {
				continue
			}
			hsig := fn.Type().(*types.Signature)
			if ai >= hsig.Params().Len() {
				continue
			}
			pv := hsig.Params().At(ai)
			if isFillLoopOver(h, pv) {
				fillCalls[es] = true
				fillSends[es] = true
			}
		}
		return true
	})
	// (c1) token automaton: a slot is held at every go statement
	const notHeld, held = 1, 2
	var goBad []ast.Node
	var leakBad []ast.Node
	seenLeak := map[ast.Node]bool{}
	nGo := 0
	seenGo := map[ast.Node]bool{}
	// (c2) done dominated by fill
	const noFill, filled = 4, 8
	var doneBad []ast.Node
	nDone := 0
	seenDone := map[ast.Node]bool{}
	var goAfterDone []ast.Node
	const doneSent = 16
	b.run(flowSpec{
		entry: notHeld | noFill,
		node: func(n ast.Node, s uint64) uint64 {
			if isSemSend(n) || fillCalls[n] {
				// (c4) a slot still held here was neither handed to a worker nor given back: it is lost, and the fill
				// that waits for every slot never completes
				if s&held != 0 && !seenLeak[n] {
					seenLeak[n] = true
					leakBad = append(leakBad, n)
				}
				if isSemSend(n) && !fillSends[n] {
					s = (s &^ notHeld) | held
				}
			}
			if len(semReceiveIn(info, n)) > 0 {
				for _, e := range semReceiveIn(info, n) {
					if isSemExpr(b, e, semNames) {
						s = (s &^ held) | notHeld // the slot is given back
					}
				}
			}
			if fillCalls[n] {
				s = (s &^ noFill) | filled
			}
			if g, ok := n.(*ast.GoStmt); ok {
				if !seenGo[g] {
					seenGo[g] = true
					nGo++
				}
				if s&notHeld != 0 {
					goBad = append(goBad, g)
				}
				if s&doneSent != 0 {
					goAfterDone = append(goAfterDone, g)
				}
				s = (s &^ held) | notHeld
				s = (s &^ filled) | noFill // a worker started after a fill invalidates it
			}
			if isDone(n) {
				if !seenDone[n] {
					seenDone[n] = true
					nDone++
				}
				if s&noFill != 0 {
					doneBad = append(doneBad, n)
				}
				s |= doneSent
			}
			return s
		},
		edge: func(blk *cfg.Block, i int, s uint64) uint64 {
			// leaving the fill loop by its false edge means i reached cap(sem): cap(sem) sends were made, each of
			// which had to wait for a worker to release its slot (the loop shape was checked syntactically above)
			if cond := condOf(blk); cond != nil && fillConds[cond] && i == 1 {
				s = (s &^ noFill) | filled
			}
			return s
		},
	})
	// (c3) the dispatch loop is left early only after an error was handed to the collector: a silent break (cancelled
	// context, unreadable item…) falls through to the fill and the done signal, and the operation succeeds on a prefix
	{
		var loops []ast.Node
		ast.Inspect(b.Block, func(n ast.Node) bool {
			switch l := n.(type) {
			case *ast.RangeStmt, *ast.ForStmt:
				hasGo := false
				ast.Inspect(l, func(m ast.Node) bool {
					if _, ok := m.(*ast.GoStmt); ok {
						hasGo = true
					}
					return !hasGo
				})
				if hasGo {
					loops = append(loops, l)
				}
			}
			return true
		})
		// local closures that send on an error channel (reportError := func(err error) { errC <- err })
		errSenders := map[types.Object]bool{}
		isErrChanSend := func(m ast.Node) bool {
			snd, ok := m.(*ast.SendStmt)
			if !ok {
				return false
			}
			ch, ok := info.TypeOf(snd.Chan).Underlying().(*types.Chan)
			return ok && (isErrorType(ch.Elem()) || namedTypeID(ch.Elem()) == "pkg/core.errorHit")
		}
		ast.Inspect(b.Block, func(n ast.Node) bool {
			as, ok := n.(*ast.AssignStmt)
			if !ok || len(as.Lhs) != 1 || len(as.Rhs) != 1 {
				return true
			}
			lit, ok := as.Rhs[0].(*ast.FuncLit)
			if !ok {
				return true
			}
			sends := false
			ast.Inspect(lit.Body, func(m ast.Node) bool {
				if isErrChanSend(m) {
					sends = true
				}
				return !sends
			})
			if id, ok := as.Lhs[0].(*ast.Ident); ok && sends {
				if o := info.Defs[id]; o != nil {
					errSenders[o] = true
				} else if o := info.Uses[id]; o != nil {
					errSenders[o] = true
				}
			}
			return true
		})
		isErrSend := func(st ast.Stmt) bool {
			found := false
			ast.Inspect(st, func(m ast.Node) bool {
				if _, isLit := m.(*ast.FuncLit); isLit {
					return false
				}
				if call, ok := m.(*ast.CallExpr); ok {
					if id, ok := ast.Unparen(call.Fun).(*ast.Ident); ok && errSenders[info.Uses[id]] {
						found = true
					}
				}
				if snd, ok := m.(*ast.SendStmt); ok {
					if ch, ok := info.TypeOf(snd.Chan).Underlying().(*types.Chan); ok {
						if isErrorType(ch.Elem()) || namedTypeID(ch.Elem()) == "pkg/core.errorHit" {
							found = true
						}
					}
				}
				return !found
			})
			return found
		}
		silent := 0
		var silentPos token.Pos
		nBreaks := 0
		for _, l := range loops {
			ast.Inspect(l, func(n ast.Node) bool {
				if _, isLit := n.(*ast.FuncLit); isLit {
					return false
				}
				br, ok := n.(*ast.BranchStmt)
				if !ok || br.Tok != token.BREAK || br.Label != nil {
					return true
				}
				// the loop this break leaves must be l itself (not an inner loop / switch / select)
				target := ast.Node(nil)
				for x := b.parent[br]; x != nil; x = b.parent[x] {
					switch x.(type) {
					case *ast.RangeStmt, *ast.ForStmt, *ast.SwitchStmt, *ast.TypeSwitchStmt, *ast.SelectStmt:
						target = x
					}
					if target != nil {
						break
					}
				}
				if target != l {
					return true
				}
				nBreaks++
				reported := false
				// statements before the break in its own block and in the enclosing blocks up to the loop body
				for x := ast.Node(br); x != nil && x != l; x = b.parent[x] {
					var list []ast.Stmt
					switch blk := b.parent[x].(type) {
					case *ast.BlockStmt:
						list = blk.List
					case *ast.CaseClause:
						list = blk.Body
					case *ast.CommClause:
						list = blk.Body
					}
					for _, st := range list {
						if st.Pos() >= x.Pos() {
							break
						}
						if isErrSend(st) {
							reported = true
						}
					}
				}
				if !reported {
					silent++
					silentPos = br.Pos()
				}
				return true
			})
		}
		if silent > 0 {
			c.fail(rule+".abort-reports-error", key, p.Pos(silentPos), "the dispatch loop is left by a break that is not preceded by a send on the error channel: the coordinator then waits for the running workers and signals done, so the collector publishes a result built from a prefix of the items as if it were complete")
		} else {
			c.ok(rule+".abort-reports-error", key, p.Pos(b.Block.Pos()), "every early exit of the dispatch loop ("+itoa(nBreaks)+" break) follows an error send")
		}
	}
	if nGo == 0 {
		c.fail(rule+".slot-before-go", key, p.Pos(b.Block.Pos()), "coordinator starts no goroutine any more: the fan-out instance changed shape")
	} else if len(goBad) > 0 {
		c.fail(rule+".slot-before-go", key, p.Pos(goBad[0].Pos()), "a worker goroutine is started on a path where no concurrency slot was taken for it: the final cap-fold fill no longer waits for that worker, so done can be signalled while it still runs")
	} else {
		c.ok(rule+".slot-before-go", key, p.Pos(b.Block.Pos()), itoa(nGo)+" go statement(s), each preceded on every path by its own send into the semaphore")
	}
	if len(leakBad) > 0 {
		c.fail(rule+".slot-not-leaked", key, p.Pos(leakBad[0].Pos()), "a concurrency slot is taken on a path where the slot taken before was neither handed to a worker goroutine nor given back (e.g. an item skipped with `continue` after the slot was acquired): the slot is lost, the final fill that takes every slot never completes, and the operation hangs")
	} else if nGo > 0 {
		c.ok(rule+".slot-not-leaked", key, p.Pos(b.Block.Pos()), "every slot taken is handed to a worker or given back before the next one is taken")
	}
	if len(fillSends) == 0 {
		c.fail(rule+".done-after-fill", key, p.Pos(b.Block.Pos()), "no `for i := 0; i < cap(sem); i++ { sem <- struct{}{} }` fill loop found: nothing waits for the workers before completion is signalled")
	} else if nDone == 0 {
		c.fail(rule+".done-after-fill", key, p.Pos(b.Block.Pos()), "no completion signal found after the fill loop")
	} else if len(doneBad) > 0 {
		c.fail(rule+".done-after-fill", key, p.Pos(doneBad[0].Pos()), "the completion signal is reachable without filling the semaphore cap times first: it can be sent while workers are still running and their results are lost")
	} else if len(goAfterDone) > 0 {
		c.fail(rule+".done-after-fill", key, p.Pos(goAfterDone[0].Pos()), "a worker is started after the completion signal")
	} else {
		c.ok(rule+".done-after-fill", key, p.Pos(b.Block.Pos()), "completion signal ("+itoa(nDone)+" site(s)) dominated by the cap-fold fill of the semaphore")
	}
}

// makeChanCap finds `v := make(chan T[, cap])` for variable named name in body and reports whether it is
// unbuffered. found=false when no such definition exists.
func makeChanIsUnbuffered(b *Body, name string) (unbuffered bool, pos token.Pos, found bool) {
	info := b.Info()
	ast.Inspect(b.Block, func(n ast.Node) bool {
		as, ok := n.(*ast.AssignStmt)
		if !ok || len(as.Lhs) != len(as.Rhs) {
			return true
		}
		for i, l := range as.Lhs {
			id, ok := l.(*ast.Ident)
			if !ok || id.Name != name {
				continue
			}
			call, ok := ast.Unparen(as.Rhs[i]).(*ast.CallExpr)
			if !ok {
				continue
			}
			if fid, ok := ast.Unparen(call.Fun).(*ast.Ident); !ok || fid.Name != "make" {
				continue
			}
			if _, ok := info.TypeOf(call).Underlying().(*types.Chan); !ok {
				continue
			}
			found = true
			pos = call.Pos()
			if len(call.Args) == 1 {
				unbuffered = true
			} else if tv, ok := info.Types[call.Args[1]]; ok && tv.Value != nil && tv.Value.String() == "0" {
				unbuffered = true
			}
		}
		return true
	})
	return
}

// sendOn recognises a send statement on a channel whose trailing name is name.
func sendOn(name string) func(n ast.Node) bool {
	return func(n ast.Node) bool {
		s, ok := n.(*ast.SendStmt)
		return ok && lastSelName(s.Chan) == name
	}
}

// collectorChan is a channel the collector receives from in a select statement.
type collectorChan struct {
	v          *types.Var
	elem       string // element type, used as the role of the channel
	made       bool
	unbuffered bool
	pos        token.Pos
}

// collectorChannels lists the local channel variables the collector body receives from inside select statements
// (found by use, not by name), with the shape of the make that created them.
func collectorChannels(b *Body) []collectorChan {
	info := b.Info()
	seen := map[*types.Var]bool{}
	var out []collectorChan
	ast.Inspect(b.Block, func(n ast.Node) bool {
		cc, ok := n.(*ast.CommClause)
		if !ok || cc.Comm == nil {
			return true
		}
		ast.Inspect(cc.Comm, func(m ast.Node) bool {
			u, ok := m.(*ast.UnaryExpr)
			if !ok || u.Op != token.ARROW {
				return true
			}
			id, ok := ast.Unparen(u.X).(*ast.Ident)
			if !ok {
				return true
			}
			v, ok := info.Uses[id].(*types.Var)
			if !ok || seen[v] {
				return true
			}
			ch, ok := v.Type().Underlying().(*types.Chan)
			if !ok {
				return true
			}
			seen[v] = true
			cch := collectorChan{v: v, elem: types.TypeString(ch.Elem(), func(p *types.Package) string { return p.Name() }), pos: id.Pos()}
			for _, d := range defsOfVarWithIndex(b.Fn, v) {
				call, ok := d.rhs.(*ast.CallExpr)
				if d.rhs == nil || !ok {
					continue
				}
				if fid, ok := ast.Unparen(call.Fun).(*ast.Ident); !ok || fid.Name != "make" {
					continue
				}
				cch.made = true
				cch.pos = call.Pos()
				if len(call.Args) == 1 {
					cch.unbuffered = true
				} else if tv, ok := info.Types[call.Args[1]]; ok && tv.Value != nil && tv.Value.String() == "0" {
					cch.unbuffered = true
				}
			}
			out = append(out, cch)
			return true
		})
		return true
	})
	return out
}

// isFillLoopOver: the body of h contains `for i := 0; i < cap(p); i++ { p <- struct{}{} }` for its parameter p and no go
// statement.
func isFillLoopOver(h *FuncInfo, pv *types.Var) bool {
	info := h.Info()
	found, hasGo := false, false
	ast.Inspect(h.Decl.Body, func(n ast.Node) bool {
		switch x := n.(type) {
		case *ast.GoStmt:
			hasGo = true
		case *ast.ForStmt:
			if x.Cond == nil || x.Post == nil || x.Init == nil {
				return true
			}
			be, ok := ast.Unparen(x.Cond).(*ast.BinaryExpr)
			if !ok || be.Op != token.LSS {
				return true
			}
			call, ok := ast.Unparen(be.Y).(*ast.CallExpr)
			if !ok || calleeID(info, call) != "builtin.cap" || len(call.Args) != 1 || !isVar(info, call.Args[0], pv) {
				return true
			}
			as, ok := x.Init.(*ast.AssignStmt)
			if !ok || len(as.Rhs) != 1 {
				return true
			}
			if tv, ok := info.Types[as.Rhs[0]]; !ok || tv.Value == nil || tv.Value.String() != "0" {
				return true
			}
			if inc, ok := x.Post.(*ast.IncDecStmt); !ok || inc.Tok != token.INC {
				return true
			}
			for _, st := range x.Body.List {
				if snd, ok := st.(*ast.SendStmt); ok && isVar(info, snd.Chan, pv) {
					found = true
				}
			}
		}
		return true
	})
	return found && !hasGo
}
