package main

import (
	"go/ast"
	"go/token"
	"go/types"
	"sort"
	"strings"

	"golang.org/x/tools/go/cfg"
)

// C15 — concurrent uploads, downloads and commits do not interfere. Race freedom itself is not decided (no pointer
// analysis is available offline); what is decided are the structural conditions the repository's own concurrency
// idioms need on every schedule:
//   fanout:     the bounded fan-out protocol of upload / file-list download / data download / split-index download
//   writer:     the leaf buffer hand-off and the flush hand-shake of the cafs writer
//   lock:       pairing of every mutex operation in cafs, core, localfs, filetracker, wal; guarded-by table
//   join:       a variable written by a spawned goroutine is read by the spawner only after a synchronisation
//   lru-pin:    a buffer obtained from the shared LRU is pinned before the LRU latch is released
//   dedup:      re-uploading stored content never rewrites the stored blob on stores without CRC support (a rewrite
//               in place is observable by concurrent readers of the same content)

var concPkgs = []string{"pkg/cafs", "pkg/core", "pkg/storage/localfs", "pkg/filetracker", "pkg/wal"}

func init() {
	register(&propSpec{
		id: "C15",
		explanation: "Static structural clauses for schedule independence of concurrent operations (race freedom as a whole is NOT decided): " +
			"(fanout) for uploadBundleFiles/uploadBundleFile, downloadBundleFileList/…File, downloadBundleEntries/downloadBundleEntry*, fileIndex.downloadAll/downloadIndex: workers release their slot in a top-level defer registered before any send, a slot is taken before each go, the done signal follows the cap-fold refill, the channels the collector selects against done are unbuffered, an error beats done, every goroutine target is a checked worker; " +
			"(writer) the cafs writer hands its own staging buffer to the flush goroutine and re-binds it before the next store, and Flush waits for all flushers before reading their results; " +
			"(lock) typestate pairing of every sync.Mutex/RWMutex operation in pkg/cafs, pkg/core, pkg/storage/localfs, pkg/filetracker, pkg/wal; guarded-by table (free list, prefetch map, iterator state, dbReader counters, glob cache) with caller-holds functions checked at their call sites; " +
			"(join) every variable assigned inside a `go func(){…}` literal and read by the spawning function is read only after a WaitGroup.Wait or channel receive on the path from the go statement; " +
			"(lru-pin) every buffer taken from the LRU (lru.Get) is obtained and pinned while lruLatch is held; " +
			"(dedup) every comparison of a computed checksum with storage.Attributes.CRC32C is guarded by CRC32C > 0, and no localfs code sets CRC32C (stores that report no checksum must deduplicate, not rewrite in place). " +
			"Not decided: absence of data races in general, equivalence of results with sequential execution, goroutine leaks.",
		run: runC15,
	})
	addWitness(witness{Prop: "C15", Name: "buffered-result-channel", File: "pkg/core/bundle_pack.go",
		Old:    "\tfilePackedC := make(chan filePacked)\n",
		New:    "\tfilePackedC := make(chan filePacked, bundle.concurrentFileUploads)\n",
		Expect: "fanout.collector-channels-unbuffered"})
	addWitness(witness{Prop: "C15", Name: "crc-compared-when-unknown", File: "pkg/cafs/check_blob.go",
		Old:    "\tcase found && attr.Size > 0 && attr.CRC32C > 0:\n",
		New:    "\tcase found && attr.Size > 0:\n",
		Expect: "dedup.crc-optional"})
	addWitness(witness{Prop: "C15", Name: "freelist-read-without-lock", File: "pkg/cafs/freelists.go",
		Old:    "\tl.mu.Lock()\n\ts := len(l.list)\n\tl.mu.Unlock()\n\treturn s\n",
		New:    "\ts := len(l.list)\n\treturn s\n",
		Expect: "lock.guarded-by"})
	addWitness(witness{Prop: "C15", Name: "pin-after-latch-release", File: "pkg/cafs/reader.go",
		Old:    "\t\t\tbuffer.Pin()\n\t\t\tr.lruLatch.Unlock()\n\t\t} else {\n\t\t\tr.lruLatch.Unlock()\n\t\t\t// collects some metrics",
		New:    "\t\t\tr.lruLatch.Unlock()\n\t\t\tbuffer.Pin()\n\t\t} else {\n\t\t\tr.lruLatch.Unlock()\n\t\t\t// collects some metrics",
		Expect: "lru-pin"})
	addWitness(witness{Prop: "C15", Name: "prefetch-map-unlock-missing", File: "pkg/cafs/reader.go",
		Old:    "\t\tr.fetchingLatch.Lock()\n\t\tr.fetching[f.index] = f\n\t\tr.fetchingLatch.Unlock()\n",
		New:    "\t\tr.fetchingLatch.Lock()\n\t\tr.fetching[f.index] = f\n\t\tif f.err != nil {\n\t\t\tcontinue\n\t\t}\n\t\tr.fetchingLatch.Unlock()\n",
		Expect: "lock.pairing"})
}

func runC15(c *Ctx) {
	p := c.P
	c.assume("the Go memory model: channel operations, sync.WaitGroup and sync.Mutex give the usual happens-before edges")
	c.assume("storage back ends are themselves safe for concurrent use; localfs writes are not atomic (open-truncate-write)")

	// --- fan-outs -------------------------------------------------------------------------------------
	checkCoreFanouts(c)
	checkFanoutCoordinator(c, "fanout", p.BodyOf(p.Func("pkg/core.fileIndex.downloadAll")), semNamesCore, sendOn("doneOk"))
	checkFanoutWorker(c, "fanout", p.BodyOf(p.Func("pkg/core.fileIndex.downloadIndex")), semNamesCore)
	c.requireInstances("fanout.release-deferred", 6)
	c.requireInstances("fanout.slot-before-go", 4)
	// --- cafs writer ----------------------------------------------------------------------------------
	checkWriterHandoff(c, "writer.buffer-handoff")
	checkFlushOrder(c, "writer.flush-order")

	// --- lock pairing ---------------------------------------------------------------------------------
	for _, pk := range concPkgs {
		for _, f := range p.FuncsIn(pk) {
			if f.Decl.Body != nil {
				checkLockPairing(c, "lock.pairing", f)
			}
		}
	}
	c.requireInstances("lock.pairing", 20)

	// --- guarded-by -----------------------------------------------------------------------------------
	nNotes := len(c.Notes)
	for _, g := range concGuards {
		checkGuardedBy(c, "lock.guarded-by", g.pkg, g.spec)
	}
	if len(c.Notes) == nNotes { // every table entry could be applied (no renamed lock field)
		c.requireInstances("lock.guarded-by", 20)
	}

	// --- join before read -----------------------------------------------------------------------------
	nJoin := 0
	for _, pk := range concPkgs {
		for _, f := range p.FuncsIn(pk) {
			if f.Decl.Body != nil {
				nJoin += checkJoinBeforeRead(c, "join.read-after-sync", f)
			}
		}
	}
	c.requireInstances("join.read-after-sync", 3)

	// --- LRU pin under latch --------------------------------------------------------------------------
	checkLRUPin(c, "lru-pin")

	// --- dedup on stores without CRC ------------------------------------------------------------------
	checkCRCOptional(c, "dedup.crc-optional")
	checkWriterChannelsUnbuffered(c, "writer.channels-unbuffered")
	checkNoReuseAfterSend(c, "join.no-reuse-after-send", concPkgs...)
	checkBlobPutsIdempotent(c, "writer.blob-puts-idempotent")
	// the object store under test: an overwrite of a key (blobs shared by concurrent uploads) is never visible truncated
	checkLocalfsPutOpens(c, c.P.Func("pkg/storage/localfs.localFS.Put"))
	checkEffectDominance(c, "effects.dominance", concPkgs...)
}

type concGuard struct {
	pkg  string
	spec guardSpec
}

// concGuards: the guarded-by table. Instances were found from majority use, confirmed by reading, and are frozen
// here; every exemption carries its reason.
var concGuards = []concGuard{
	{"pkg/cafs", guardSpec{Field: "pkg/cafs.leafFreelist.list", Lock: "mu",
		Exempt: map[string]string{"pkg/cafs.newLeafFreelist": "constructor: the value is not shared yet"}}},
	{"pkg/cafs", guardSpec{Field: "pkg/cafs.leafFreelist.buffers", Lock: "mu",
		Exempt: map[string]string{"pkg/cafs.newLeafFreelist": "constructor"}}},
	{"pkg/cafs", guardSpec{Field: "pkg/cafs.chunkReader.fetching", Lock: "fetchingLatch",
		Exempt: map[string]string{
			"pkg/cafs.newReader": "constructor: the reader is not shared yet",
		}}},
	{"pkg/core", guardSpec{Field: "pkg/core.dbReader.count", Lock: "mx", ReadLockOK: true,
		Exempt: map[string]string{"pkg/core.newDBReader": "constructor"}}},
	{"pkg/storage/localfs", guardSpec{Field: "pkg/storage/localfs.localFS.glob", Lock: "exclusive",
		Exempt: map[string]string{"pkg/storage/localfs.New": "constructor"}}},
}

// checkJoinBeforeRead: variables of f assigned inside a `go func(){…}()` literal and read in f after the go
// statement: every such read must come after a synchronisation (WaitGroup.Wait, channel receive, select receive,
// range over channel) on every path from the go statement.
func checkJoinBeforeRead(c *Ctx, rule string, f *FuncInfo) int {
	p := c.P
	info := f.Info()
	n := 0
	ast.Inspect(f.Decl.Body, func(nd ast.Node) bool {
		g, ok := nd.(*ast.GoStmt)
		if !ok {
			return true
		}
		lit, ok := ast.Unparen(g.Call.Fun).(*ast.FuncLit)
		if !ok {
			return true
		}
		// variables declared outside the literal (but inside f) that the literal assigns
		written := map[*types.Var]ast.Node{}
		ast.Inspect(lit.Body, func(m ast.Node) bool {
			mark := func(e ast.Expr, at ast.Node) {
				id, ok := ast.Unparen(e).(*ast.Ident)
				if !ok {
					return
				}
				v, ok := info.Uses[id].(*types.Var)
				if !ok || v.IsField() || v.Pkg() == nil || v.Parent() == v.Pkg().Scope() {
					return
				}
				if v.Pos() >= lit.Pos() && v.Pos() <= lit.End() {
					return // local to the literal (including its parameters)
				}
				if !(v.Pos() >= f.Decl.Pos() && v.Pos() <= f.Decl.End()) {
					return
				}
				written[v] = at
			}
			switch s := m.(type) {
			case *ast.AssignStmt:
				for _, l := range s.Lhs {
					mark(l, s)
				}
			case *ast.IncDecStmt:
				mark(s.X, s)
			}
			return true
		})
		if len(written) == 0 {
			return true
		}
		// the body that contains the go statement
		var body *Body
		if l := innermostSeparateLit(p, f, g); l != nil && l != lit {
			body = p.LitBody(f, l)
		} else {
			body = p.BodyOf(f)
		}
		vars := make([]*types.Var, 0, len(written))
		for v := range written {
			vars = append(vars, v)
		}
		sort.Slice(vars, func(i, j int) bool { return vars[i].Pos() < vars[j].Pos() })
		for _, v := range vars {
			n++
			key := body.Key() + ":go#" + itoa(goOrdinal(f, g)) + ":" + v.Name()
			bad := readsBeforeSync(body, g, lit, v)
			if len(bad) == 0 {
				c.ok(rule, key, p.Pos(g.Pos()), "variable "+v.Name()+" written by the goroutine is read by the spawner only after a synchronisation (or not at all)")
				continue
			}
			c.fail(rule, key, p.Pos(bad[0].Pos()), "variable "+v.Name()+" is assigned by the goroutine started at "+p.Pos(g.Pos())+" and read here on a path without WaitGroup.Wait or channel receive in between: the spawner can observe the old value (data race, schedule-dependent result)")
		}
		return true
	})
	return n
}

func goOrdinal(f *FuncInfo, g *ast.GoStmt) int {
	k, found := 0, 0
	ast.Inspect(f.Decl.Body, func(n ast.Node) bool {
		if x, ok := n.(*ast.GoStmt); ok {
			k++
			if x == g {
				found = k
			}
		}
		return true
	})
	return found
}

// isSyncNode: the CFG node performs a blocking synchronisation that can order the goroutine's writes before it.
func isSyncNode(info *types.Info, n ast.Node) bool {
	found := false
	ast.Inspect(n, func(m ast.Node) bool {
		switch x := m.(type) {
		case *ast.FuncLit:
			return false
		case *ast.CallExpr:
			if id := calleeID(info, x); id == "sync.WaitGroup.Wait" {
				found = true
			}
		case *ast.UnaryExpr:
			if x.Op == token.ARROW {
				found = true
			}
		}
		return !found
	})
	return found
}

func readsBeforeSync(b *Body, g *ast.GoStmt, lit *ast.FuncLit, v *types.Var) []ast.Node {
	info := b.Info()
	const idle, racing = 1, 2
	var bad []ast.Node
	reads := func(n ast.Node) bool {
		if n == ast.Node(g) {
			return false
		}
		found := false
		ast.Inspect(n, func(m ast.Node) bool {
			if m == ast.Node(lit) {
				return false
			}
			if _, isLit := m.(*ast.FuncLit); isLit {
				return false // other closures run at unknown times; not counted as reads of the spawner
			}
			// skip pure assignment targets
			if as, ok := m.(*ast.AssignStmt); ok && as.Tok == token.ASSIGN {
				for _, r := range as.Rhs {
					ast.Inspect(r, func(q ast.Node) bool {
						if id, ok := q.(*ast.Ident); ok && info.Uses[id] == v {
							found = true
						}
						return !found
					})
				}
				for _, l := range as.Lhs {
					if _, isIdent := ast.Unparen(l).(*ast.Ident); !isIdent {
						ast.Inspect(l, func(q ast.Node) bool {
							if id, ok := q.(*ast.Ident); ok && info.Uses[id] == v {
								found = true
							}
							return !found
						})
					}
				}
				return false
			}
			if id, ok := m.(*ast.Ident); ok && info.Uses[id] == v {
				found = true
			}
			return !found
		})
		return found
	}
	b.run(flowSpec{
		entry: idle,
		node: func(n ast.Node, s uint64) uint64 {
			if n == ast.Node(g) {
				return racing
			}
			if s&racing != 0 {
				// a range over a channel synchronises at its head
				if isSyncNode(info, n) {
					return idle
				}
				if reads(n) {
					bad = append(bad, n)
				}
			}
			return s
		},
	})
	// range-over-channel heads appear as the range expression node in the CFG: handled by isSyncNode only when the
	// expression contains a receive; treat `for x := range ch` conservatively: if the body's RangeStmt over a channel
	// lies between, go/cfg emits the range expression X as a node, which has no arrow. Accept reads located inside or
	// after a range over a channel.
	var filtered []ast.Node
	for _, r := range bad {
		ok := false
		ast.Inspect(b.Block, func(m ast.Node) bool {
			rs, isRange := m.(*ast.RangeStmt)
			if !isRange || rs.Pos() < g.Pos() {
				return true
			}
			if _, isChan := info.TypeOf(rs.X).Underlying().(*types.Chan); isChan && rs.Pos() < r.Pos() {
				ok = true
			}
			return true
		})
		if !ok {
			filtered = append(filtered, r)
		}
	}
	return filtered
}

// checkLRUPin: every `lru.Get` of the cafs reader happens with lruLatch held, and the buffer obtained is pinned
// before the latch is released on that path.
func checkLRUPin(c *Ctx, rule string) {
	p := c.P
	n := 0
	for _, f := range p.FuncsIn("pkg/cafs") {
		if f.Decl.Body == nil {
			continue
		}
		info := f.Info()
		var gets []*ast.CallExpr
		ast.Inspect(f.Decl.Body, func(nd ast.Node) bool {
			if call, ok := nd.(*ast.CallExpr); ok && strings.HasSuffix(calleeID(info, call), "lru.Cache.Get") {
				if sel, ok := ast.Unparen(call.Fun).(*ast.SelectorExpr); ok && strings.HasSuffix(describeExpr(f, sel.X, 0), ".lru") {
					gets = append(gets, call)
				}
			}
			return true
		})
		for _, get := range gets {
			n++
			var body *Body
			if l := innermostSeparateLit(p, f, get); l != nil {
				body = p.LitBody(f, l)
			} else {
				body = p.BodyOf(f)
			}
			held := body.mustHold("lruLatch", false)
			key := callKey(f, get)
			if !held(get) {
				c.fail(rule, key, p.Pos(get.Pos()), "the shared LRU is read without holding lruLatch: an eviction can recycle the buffer between Get and Pin")
				continue
			}
			// typestate: got (unpinned) -> Pin ; Unlock while unpinned on the found path is a violation
			const none, unpinned, pinned = 1, 2, 4
			bad := false
			// the ok flag of the Get
			var okVar *types.Var
			if as, isAs := body.parent[get].(*ast.AssignStmt); isAs && len(as.Lhs) == 2 {
				if id, isID := as.Lhs[1].(*ast.Ident); isID {
					okVar, _ = info.Defs[id].(*types.Var)
					if okVar == nil {
						okVar, _ = info.Uses[id].(*types.Var)
					}
				}
			}
			body.run(flowSpec{
				entry: none,
				node: func(nd ast.Node, s uint64) uint64 {
					for _, call := range callsIn(nd) {
						if call == get {
							s = unpinned
							continue
						}
						id := calleeID(info, call)
						if strings.HasSuffix(id, "LeafBuffer.Pin") && s&unpinned != 0 {
							s = (s &^ unpinned) | pinned
						}
						if op, isOp := lockOpOf(f, call); isOp && op.kind == lkUnlock && strings.HasSuffix(op.key, ".lruLatch") {
							if s&unpinned != 0 {
								bad = true
							}
							s = none
						}
					}
					return s
				},
				edge: func(blk *cfg.Block, i int, s uint64) uint64 {
					// on the not-found edge there is no buffer to pin
					cond := condOf(blk)
					if cond == nil || okVar == nil {
						return s
					}
					if isVar(info, cond, okVar) && i == 1 {
						return (s &^ unpinned) | none
					}
					if u, isU := ast.Unparen(cond).(*ast.UnaryExpr); isU && u.Op == token.NOT && isVar(info, u.X, okVar) && i == 0 {
						return (s &^ unpinned) | none
					}
					return s
				},
			})
			c.check(!bad, rule, key, p.Pos(get.Pos()),
				"the buffer found in the LRU is pinned before lruLatch is released",
				"lruLatch is released on the found path before the buffer taken from the LRU is pinned: a concurrent reader's eviction can hand the buffer to the free list and another leaf overwrite it while this reader copies from it")
		}
	}
	if n < 2 {
		c.fail(rule, "pkg/cafs:lru.Get", "-", "expected at least the 2 LRU lookups of the cafs reader confirmed by hand, found "+itoa(n))
	}
}

// checkCRCOptional: comparisons of a checksum with storage.Attributes.CRC32C are guarded by CRC32C > 0.
func checkCRCOptional(c *Ctx, rule string) {
	p := c.P
	n := 0
	isCRCField := func(info *types.Info, e ast.Expr) bool {
		sel, ok := ast.Unparen(e).(*ast.SelectorExpr)
		if !ok || sel.Sel.Name != "CRC32C" {
			return false
		}
		s := info.Selections[sel]
		return s != nil && namedTypeID(s.Recv()) == "pkg/storage.Attributes"
	}
	isPositiveTest := func(info *types.Info, e ast.Expr) bool {
		be, ok := ast.Unparen(e).(*ast.BinaryExpr)
		if !ok {
			return false
		}
		zero := func(x ast.Expr) bool {
			tv, ok := info.Types[x]
			return ok && tv.Value != nil && tv.Value.ExactString() == "0"
		}
		return (isCRCField(info, be.X) && zero(be.Y) && (be.Op == token.GTR || be.Op == token.NEQ)) ||
			(isCRCField(info, be.Y) && zero(be.X) && (be.Op == token.LSS || be.Op == token.NEQ))
	}
	for _, pk := range []string{"pkg/cafs", "pkg/core"} {
		for _, f := range p.FuncsIn(pk) {
			if f.Decl.Body == nil {
				continue
			}
			info := f.Info()
			ast.Inspect(f.Decl.Body, func(nd ast.Node) bool {
				be, ok := nd.(*ast.BinaryExpr)
				if !ok || (be.Op != token.NEQ && be.Op != token.EQL) {
					return true
				}
				if !(isCRCField(info, be.X) || isCRCField(info, be.Y)) {
					return true
				}
				// a comparison with the constant 0 is the guard itself
				if isPositiveTest(info, be) {
					return true
				}
				n++
				// guarded: a sibling conjunct, or the condition of an enclosing if / case clause
				guarded := false
				for x := ast.Node(be); x != nil; x = f.parentOf(x) {
					var conds []ast.Expr
					switch s := f.parentOf(x).(type) {
					case *ast.BinaryExpr:
						if s.Op == token.LAND {
							conds = conjuncts(s)
						}
					case *ast.IfStmt:
						if encloses(s.Body, be.Pos()) || s.Cond == x {
							conds = conjuncts(s.Cond)
						}
					case *ast.CaseClause:
						for _, e := range s.List {
							conds = append(conds, conjuncts(e)...)
						}
					}
					for _, cj := range conds {
						if isPositiveTest(info, cj) {
							guarded = true
						}
					}
				}
				c.check(guarded, rule, f.ID+":crc-compare#"+itoa(n), p.Pos(be.Pos()),
					"the checksum comparison is guarded by CRC32C > 0 (0 = the store reports no checksum)",
					"a computed checksum is compared with Attributes.CRC32C without the guard CRC32C > 0: on stores that report no checksum (localfs) every stored blob looks corrupted, so re-uploading stored content rewrites the blob in place (open-truncate-write) and a concurrent reader of the same content sees an empty or partial blob")
				return true
			})
		}
	}
	if n < 2 {
		c.fail(rule, "pkg/cafs:crc-compare", "-", "expected the 2 checksum comparisons of pkg/cafs confirmed by hand, found "+itoa(n))
	}
	// sibling fact the rule relies on: localfs never reports a checksum
	sets := 0
	for _, f := range p.FuncsIn("pkg/storage/localfs") {
		if f.Decl.Body == nil {
			continue
		}
		ast.Inspect(f.Decl.Body, func(nd ast.Node) bool {
			if kv, ok := nd.(*ast.KeyValueExpr); ok {
				if id, ok := kv.Key.(*ast.Ident); ok && id.Name == "CRC32C" {
					sets++
				}
			}
			return true
		})
	}
	c.ok(rule, "pkg/storage/localfs:reports-no-crc", "-", "localfs sets Attributes.CRC32C at "+itoa(sets)+" sites (0 = it reports no checksum, which is why the guard is necessary)")
}
