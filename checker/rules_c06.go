package main

import (
	"go/ast"
	"go/token"
	"go/types"
	"strings"
)

// C06 — atomic visibility. Structural clauses:
//  1. descriptor-last: in every publisher, the bundle descriptor write is on every success path and no file-list
//     write can follow it.
//  2. create-if-absent: every write of an immutable metadata kind passes the constant NoOverWrite; the
//     writeMetadata wrapper forwards its flag unchanged.
//  3. readers require the descriptor: routines turning a key listing into a bundle consult the descriptor.
//  4. who may delete / overwrite bundle metadata.

var fileListWriters = []string{
	"pkg/core.uploadBundleEntriesFileList",
	"pkg/core.fileIndex.Upload",
	"pkg/core.fileIndex.pack",
	"pkg/core.fileIndex.uploadIndex",
}

const bundleDescWriter = "pkg/core.uploadBundleDescriptor"

func init() {
	register(&propSpec{
		id: "C06",
		explanation: "Static structural clauses for atomic bundle visibility, decided on the CFG of the real functions for all paths: " +
			"(1) in uploadBundle, Bundle.UploadBundleEntries and Diamond.implCommit the bundle descriptor write is on every path to a success return and no file-list write is reachable after it; " +
			"(2) every store write whose key is built by a model builder of an immutable kind (bundle descriptor, file list, repo, diamond, split, split file list, index chunk) passes the constant NoOverWrite, and metaObject.writeMetadata forwards its flag unchanged; " +
			"(3) getBundleAsync emits a bundle only on the nil-error branch of downloadBundleDescriptor and skips exactly ErrNotExists; downloadBundleDescriptor and GetLatestBundle consult the descriptor key before every success return; " +
			"(4) only the delete/squash/rename/delete-files operations delete or overwrite bundle descriptors and file lists. " +
			"Not decided: atomicity of a single store Put (assumed), behaviour of retried operations, label sets.",
		run: runC06,
	})
	addWitness(witness{Prop: "C06", Name: "descriptor-before-last-filelist", File: "pkg/core/bundle_pack.go",
		Old:    "\tif len(fileList) != 0 {\n\t\tbundle.l.Debug(\"Uploading filelist (final)\")",
		New:    "\tif err = uploadBundleDescriptor(ctx, bundle); err != nil {\n\t\treturn err\n\t}\n\tif len(fileList) != 0 {\n\t\tbundle.l.Debug(\"Uploading filelist (final)\")",
		Expect: "descriptor-last"})
	addWitness(witness{Prop: "C06", Name: "descriptor-overwrite", File: "pkg/core/bundle_pack.go",
		Old:    "\t\t\tmodel.GetArchivePathToBundle(bundle.RepoID, bundle.BundleID),\n\t\t\tbytes.NewReader(buffer), storage.NoOverWrite)\n",
		New:    "\t\t\tmodel.GetArchivePathToBundle(bundle.RepoID, bundle.BundleID),\n\t\t\tbytes.NewReader(buffer), storage.OverWrite)\n",
		Expect: "create-if-absent"})
	addWitness(witness{Prop: "C06", Name: "writeMetadata-ignores-flag", File: "pkg/core/meta_object.go",
		Old:    "return msCRC.Put(m.contexter(), pth, bytes.NewReader(buffer), noOverwrite)",
		New:    "return msCRC.Put(m.contexter(), pth, bytes.NewReader(buffer), !noOverwrite)",
		Expect: "create-if-absent"})
	addWitness(witness{Prop: "C06", Name: "list-skips-any-error", File: "pkg/core/bundle_list.go",
		Old:    "\t\t\tif errors.Is(err, storagestatus.ErrNotExists) {\n\t\t\t\tcontinue\n\t\t\t}\n\t\t\toutput <- bundleEvent{err: err}\n\t\t\tcontinue",
		New:    "\t\t\tif errors.Is(err, storagestatus.ErrNotExists) {\n\t\t\t\tcontinue\n\t\t\t}\n\t\t\toutput <- bundleEvent{err: err}",
		Expect: "reader-requires-descriptor"})
	addWitness(witness{Prop: "C06", Name: "latest-ignores-descriptor", File: "pkg/core/bundle_list.go",
		Old:    "\t\tif ks[i] == model.GetArchivePathToBundle(repo, apc.BundleID) {\n\t\t\treturn apc.BundleID, nil\n\t\t}",
		New:    "\t\tif apc.BundleID != \"\" {\n\t\t\treturn apc.BundleID, nil\n\t\t}",
		Expect: "reader-requires-descriptor"})
	addWitness(witness{Prop: "C06", Name: "commit-success-without-descriptor", File: "pkg/core/diamond_commit.go",
		Old:    "\terr = uploadBundleDescriptor(d.contexter(), d.Bundle)\n\tif err != nil {\n\t\treturn err\n\t}\n\n\td.l.Info(\"uploaded bundle id\"",
		New:    "\tif count > 0 {\n\t\terr = uploadBundleDescriptor(d.contexter(), d.Bundle)\n\t\tif err != nil {\n\t\t\treturn err\n\t\t}\n\t}\n\n\td.l.Info(\"uploaded bundle id\"",
		Expect: "descriptor-last"})
}

func runC06(c *Ctx) {
	p := c.P
	c.assume("a single storage.Store.Put is atomic (all-or-nothing) and NoOverWrite is create-if-absent on the backing store")
	c.assume("crashes are modelled as stopping at any program point; every prefix of a CFG path is a possible crash history")

	// --- clause 1: descriptor last ---------------------------------------------------------------
	isDesc := callTo(bundleDescWriter)
	isList := callTo(fileListWriters...)
	publishers := []string{"pkg/core.uploadBundle", "pkg/core.Bundle.UploadBundleEntries", "pkg/core.Diamond.implCommit"}
	for _, id := range publishers {
		f := p.Func(id)
		b := p.BodyOf(f)
		bad, nSucc := b.mustPassBeforeSuccess(isDesc)
		if nSucc == 0 {
			c.fail("descriptor-last.on-success-path", id, p.Pos(f.Decl.Pos()), "publisher has no success return: cannot establish the clause")
		} else if len(bad) > 0 {
			for _, n := range bad {
				c.fail("descriptor-last.on-success-path", id, p.Pos(n.Pos()),
					"a success return of "+id+" is reachable without writing the bundle descriptor: callers (and diamond state) take the bundle as published although it is not visible")
			}
		} else {
			c.ok("descriptor-last.on-success-path", id, p.Pos(f.Decl.Pos()), "every path to a success return ("+itoa(nSucc)+" candidate returns) passes through uploadBundleDescriptor")
		}
		badB, nA, nB := b.neverAfter(isDesc, isList)
		if nA == 0 || nB == 0 {
			c.fail("descriptor-last.no-list-after", id, p.Pos(f.Decl.Pos()), "publisher no longer contains both a descriptor write and a file-list write ("+itoa(nA)+"/"+itoa(nB)+"): clause cannot be established")
		} else if len(badB) > 0 {
			for _, call := range badB {
				c.fail("descriptor-last.no-list-after", callKey(f, call), p.Pos(call.Pos()),
					"a file-list write is reachable after the bundle descriptor write: a crash in between leaves a visible bundle with missing file lists")
			}
		} else {
			c.ok("descriptor-last.no-list-after", id, p.Pos(f.Decl.Pos()), "no file-list write ("+itoa(nB)+" sites) is reachable after the descriptor write ("+itoa(nA)+" sites)")
		}
	}
	// closed world: who calls the descriptor writer
	allowedDescCallers := map[string]string{
		"pkg/core.uploadBundle":               "publisher",
		"pkg/core.Bundle.UploadBundleEntries": "publisher",
		"pkg/core.Diamond.implCommit":         "publisher",
		"pkg/core.RenameRepo":                 "copies an already committed bundle into a new repository (C09); not an upload or commit",
	}
	for _, cs := range callersOf(p, bundleDescWriter) {
		why, ok := allowedDescCallers[cs.Fn.ID]
		c.check(ok, "descriptor-last.known-publishers", callKey(cs.Fn, cs.Call), p.Pos(cs.Call.Pos()),
			"caller of uploadBundleDescriptor is a checked publisher: "+why,
			"new caller of uploadBundleDescriptor outside the checked publishers: its ordering of file lists vs descriptor is not established")
	}
	c.requireInstances("descriptor-last.known-publishers", 4)

	// --- clause 2: create-if-absent ---------------------------------------------------------------
	checkImmutableKindsCreateIfAbsent(c)
	c.requireInstances("create-if-absent.wrapper-forwards", 2)

	// --- clause 3: readers require the descriptor -------------------------------------------------
	// getBundleAsync: bundle events only on the nil branch; only ErrNotExists is skipped silently
	{
		f := p.Func("pkg/core.getBundleAsync")
		b := p.BodyOf(f)
		info := f.Info()
		isDl := callTo("pkg/core.downloadBundleDescriptor")
		isBundleSend := func(n ast.Node) bool {
			s, ok := n.(*ast.SendStmt)
			if !ok {
				return false
			}
			cl, ok := ast.Unparen(s.Value).(*ast.CompositeLit)
			if !ok || namedTypeID(info.TypeOf(cl)) != "pkg/core.bundleEvent" {
				return false
			}
			return fieldOfCompositeLit(cl, "bundle") != nil
		}
		bad, nT, nA := b.guardedByNilErr(isDl, isBundleSend)
		if nT == 0 || nA == 0 {
			c.fail("reader-requires-descriptor.list", f.ID, p.Pos(f.Decl.Pos()), "getBundleAsync no longer sends a bundleEvent{bundle:} after downloadBundleDescriptor: clause cannot be established")
		} else {
			c.check(len(bad) == 0, "reader-requires-descriptor.list", f.ID+":send-bundle", p.Pos(f.Decl.Pos()),
				"a bundle is emitted only where the descriptor download error was tested nil",
				"a bundle event is sent on a path where the descriptor download failed or was not checked: a bundle without descriptor becomes visible in listings")
		}
		// the silent skip: every `continue`/fallthrough without send on the error branch must be guarded by errors.Is(err, ErrNotExists)
		checkSilentSkipOnlyNotExists(c, b, "reader-requires-descriptor.skip-only-not-exists")
	}
	checkDescriptorConsulted(c, "reader-requires-descriptor.download")
	// GetLatestBundle
	{
		f := p.Func("pkg/core.GetLatestBundle")
		b := p.BodyOf(f)
		consult := func(bd *Body, call *ast.CallExpr) bool {
			id := calleeID(bd.Info(), call)
			switch id {
			case "pkg/model.GetArchivePathToBundle":
				return true
			case "pkg/storage.Store.Get", "pkg/storage.Store.Has":
				return len(call.Args) > 1 && resolveKeyKind(bd.Fn, call.Args[1], 0) == "bundle-descriptor"
			case "pkg/core.downloadBundleDescriptor", "pkg/core.ListBundles":
				return true
			}
			return false
		}
		bad, nS := b.mustPassBeforeSuccess(consult)
		c.check(len(bad) == 0 && nS > 0, "reader-requires-descriptor.latest", f.ID, p.Pos(f.Decl.Pos()),
			"every success return ("+itoa(nS)+") is preceded by a comparison with / lookup of the bundle descriptor key",
			"GetLatestBundle can return a bundle ID taken from the key listing without looking at the descriptor: an interrupted upload becomes the latest bundle")
	}

	// --- clause 4: who may delete bundle metadata --------------------------------------------------
	allowedDeleters := map[string]bool{"pkg/core.DeleteBundle": true, "pkg/core.Bundle.Update": false}
	nDel := 0
	for _, d := range enumStoreCalls(p, "Delete", 1, "pkg/core", "pkg/fuse", "pkg/web", "cmd/datamon/cmd") {
		isBundleMeta := false
		for _, k := range strings.Split(d.Kind, "|") {
			if k == "bundle-descriptor" || k == "bundle-filelist" {
				isBundleMeta = true
			}
		}
		if !isBundleMeta {
			continue
		}
		nDel++
		c.check(allowedDeleters[d.Fn.ID], "immutable-after.deleters", d.Key, p.Pos(d.Call.Pos()),
			"delete of "+d.Kind+" inside the explicit delete operation "+d.Fn.ID,
			"a bundle descriptor / file list is deleted outside DeleteBundle: a visible bundle can change without an explicit delete/squash")
	}
	c.requireInstances("immutable-after.deleters", 3)
	_ = types.Universe
	// failures surface: the upload fan-out protocol guarantees that a worker's error is received before the done signal
	// (shared with C04/C15): otherwise uploadBundle goes on to write the descriptor of an incomplete bundle
	checkCoreFanouts(c)
	checkNoRelabelAsMissing(c, "reader-requires-descriptor.no-relabel")
	checkDeleteBundleCallers(c, "immutable-after.delete-bundle-callers")
	checkGenericErrorDiscipline(c, "pkg/core")
	checkUploadBatchProtocol(c, "descriptor-last.batch-protocol")
}

// checkSilentSkipOnlyNotExists: in a worker loop `for k := range input { v, err := f(k); if err != nil { ... continue } ; output <- ok }`
// every path from the non-nil branch back to the loop head that sends nothing must pass the true edge of an
// errors.Is(err, …ErrNotExists) test.
func checkSilentSkipOnlyNotExists(c *Ctx, b *Body, rule string, requireSkip ...bool) {
	info := b.Info()
	p := c.P
	f := b.Fn
	// Decided on the guards of the worker's error reports (sends of an event carrying an error), in negation normal
	// form: besides "the error is non-nil", the only condition under which an error is NOT reported is
	// errors.Is(err, ErrNotExists). The syntactic form (nested ifs with continue, a switch with an empty case, an early
	// continue) is immaterial.
	isNotExistsTest := func(e ast.Expr) bool {
		call, ok := ast.Unparen(e).(*ast.CallExpr)
		if !ok {
			return false
		}
		id := calleeID(info, call)
		if (id == "pkg/errors.Is" || id == "errors.Is") && len(call.Args) == 2 {
			if sel, ok := ast.Unparen(call.Args[1]).(*ast.SelectorExpr); ok && sel.Sel.Name == "ErrNotExists" {
				return true
			}
		}
		return false
	}
	isNilTest := func(e ast.Expr) bool {
		be, ok := ast.Unparen(e).(*ast.BinaryExpr)
		if !ok || (be.Op != token.NEQ && be.Op != token.EQL) {
			return false
		}
		t := info.TypeOf(be.X)
		return t != nil && (isErrorType(t) || strings.HasSuffix(t.String(), "errors.Error"))
	}
	var root ast.Node = b.Block
	nReports, nSkip := 0, 0
	bad := ""
	for _, ga := range guardedActions(f, root) {
		snd, ok := ga.Node.(*ast.SendStmt)
		if !ok {
			continue
		}
		cl, ok := ast.Unparen(snd.Value).(*ast.CompositeLit)
		if !ok {
			continue
		}
		carriesErr := false
		for _, el := range cl.Elts {
			if kv, ok := el.(*ast.KeyValueExpr); ok {
				if t := info.TypeOf(kv.Value); t != nil && (isErrorType(t) || strings.HasSuffix(t.String(), "errors.Error")) {
					carriesErr = true
				}
			}
		}
		if !carriesErr {
			continue
		}
		nReports++
		for lit, at := range ga.Atoms {
			switch {
			case isNotExistsTest(at.Expr):
				if at.Neg {
					nSkip++
				} else {
					bad = "an error report is sent exactly when the error IS ErrNotExists (`" + lit + "`)"
				}
			case isNilTest(at.Expr):
			default:
				// any other condition on the way to the report silently drops some errors
				if _, isCall := ast.Unparen(at.Expr).(*ast.CallExpr); isCall {
					bad = "errors are also skipped silently under `" + lit + "`"
				}
			}
		}
	}
	if nReports == 0 {
		c.fail(rule, b.Key()+":silent-skip", p.Pos(b.Block.Pos()), "every error of the descriptor download is skipped silently (no error event is sent any more): unreadable objects vanish from listings")
		return
	}
	if bad != "" {
		c.fail(rule, b.Key()+":silent-skip", p.Pos(b.Block.Pos()), bad+": only a missing descriptor (ErrNotExists) may be skipped without reporting")
		return
	}
	if nSkip == 0 && !(len(requireSkip) > 0 && !requireSkip[0]) {
		c.fail(rule, b.Key()+":silent-skip", p.Pos(b.Block.Pos()), "no ErrNotExists skip found: bundles whose descriptor is missing are not skipped by the listing (interrupted uploads make listings fail or appear)")
		return
	}
	c.ok(rule, b.Key()+":silent-skip", p.Pos(b.Block.Pos()), "errors are reported except ErrNotExists, the only silent skip")
}

func condNilnessAny(info *types.Info, cond ast.Expr) bool {
	be, ok := ast.Unparen(cond).(*ast.BinaryExpr)
	if !ok {
		return false
	}
	return (isNil(info, be.X) || isNil(info, be.Y)) && be.Op.String() == "!="
}

// checkDescriptorConsulted (C06, C07): downloadBundleDescriptor consults the descriptor object (Get or Has of its key)
// before any success return: a bundle whose descriptor is missing is never reported, also in "minimal" mode.
func checkDescriptorConsulted(c *Ctx, rule string) {
	p := c.P
	f := p.Func("pkg/core.downloadBundleDescriptor")
	b := p.BodyOf(f)
	consult := func(bd *Body, call *ast.CallExpr) bool {
		id := calleeID(bd.Info(), call)
		if id != "pkg/storage.Store.Get" && id != "pkg/storage.Store.Has" {
			return false
		}
		return len(call.Args) > 1 && resolveKeyKind(bd.Fn, call.Args[1], 0) == "bundle-descriptor"
	}
	bad, nS := b.mustPassBeforeSuccess(consult)
	c.check(len(bad) == 0 && nS > 0, rule, f.ID, p.Pos(f.Decl.Pos()),
		"every success return ("+itoa(nS)+") is preceded by a Get/Has of the bundle descriptor key",
		"downloadBundleDescriptor can return a bundle without consulting its descriptor: index files left by an interrupted upload are reported as a bundle")
}

// checkImmutableKindsCreateIfAbsent (C06, pooled): every write of an immutable metadata kind (descriptors, file lists,
// split and diamond objects) uses the constant NoOverWrite.
func checkImmutableKindsCreateIfAbsent(c *Ctx) {
	p := c.P
	sites := enumPutSites(p, "pkg/core", "pkg/context")
	explicitOverwrite := map[string]string{
		"pkg/core.DeleteEntriesFromRepo": "explicit delete-files operation rewrites a file list in place (allowed by the statement)",
	}
	nImm := 0
	for _, s := range sites {
		if s.Fn.ID == "pkg/core.metaObject.writeMetadata" {
			// wrapper: must forward both key and flag parameters unchanged
			wsig := s.Fn.Obj.Type().(*types.Signature)
			c.check(wsig.Params().Len() == 3 && s.Mode == "param:"+wsig.Params().At(1).Name() && s.Kind == "param:"+wsig.Params().At(0).Name(), "create-if-absent.wrapper-forwards", s.Key, p.Pos(s.Call.Pos()),
				"writeMetadata forwards its noOverwrite and pth parameters unchanged to "+shortCallee(s.Callee),
				"writeMetadata does not forward its parameters unchanged (mode="+s.Mode+", key="+s.Kind+"): callers' NoOverWrite is not what reaches the store")
			continue
		}
		kinds := strings.Split(s.Kind, "|")
		immutable := false
		for _, k := range kinds {
			if immutableKinds[k] {
				immutable = true
			}
		}
		// the key of uploadIndex/reset comes from an index iterator or a parameter fed by one
		if s.Fn.ID == "pkg/core.fileIndex.uploadIndex" || s.Fn.ID == "pkg/core.fileIndex.reset" {
			immutable = true
		}
		if !immutable {
			continue
		}
		nImm++
		if why, ok := explicitOverwrite[s.Fn.ID]; ok {
			c.ok("create-if-absent.immutable-kinds", s.Key, p.Pos(s.Call.Pos()), "kind "+s.Kind+" written with "+s.Mode+": "+why)
			continue
		}
		c.check(s.Mode == "NoOverWrite", "create-if-absent.immutable-kinds", s.Key, p.Pos(s.Call.Pos()),
			"kind "+s.Kind+" written with constant NoOverWrite",
			"immutable metadata kind "+s.Kind+" written with mode "+s.Mode+" instead of the constant NoOverWrite: an existing object can be replaced")
	}
	c.requireInstances("create-if-absent.immutable-kinds", 14)
}
