package main

import (
	"go/ast"
	"go/token"
	"go/types"
	"golang.org/x/tools/go/cfg"
	"reflect"
	"regexp"
	"sort"
	"strings"
)

// Clauses added after the second half of seed wave 6. Each is a necessary condition stated on the shape of the code
// (who writes a field, under which guards an effect happens, what may follow what); none fixes a source fragment.

// atomsAt returns the guard atoms of the innermost flattened statement of root that encloses pos.
func atomsAt(f *FuncInfo, root ast.Node, pos token.Pos) (map[string]guardAtom, bool) {
	var best *guardedAction
	// the statement at pos is listed even if it only defines a local
	force := map[ast.Node]bool{}
	ast.Inspect(root, func(n ast.Node) bool {
		if as, ok := n.(*ast.AssignStmt); ok && as.Pos() <= pos && pos < as.End() {
			force[as] = true
		}
		return true
	})
	saved := guardedForceEmit
	guardedForceEmit = force
	gas := guardedActions(f, root)
	guardedForceEmit = saved
	for i := range gas {
		ga := &gas[i]
		if ga.Node == nil || !encloses(ga.Node, pos) {
			continue
		}
		if best == nil || (ga.Node.End()-ga.Node.Pos()) < (best.Node.End()-best.Node.Pos()) {
			best = ga
		}
	}
	if best == nil {
		return nil, false
	}
	// disjunctive conjuncts are listed too, one pseudo-atom per member (keyed by the whole literal): the callers of
	// atomsAt ask what a guard involves, not what it establishes
	if len(best.OrAtoms) == 0 {
		return best.Atoms, true
	}
	all := map[string]guardAtom{}
	for k, a := range best.Atoms {
		all[k] = a
	}
	for k, as := range best.OrAtoms {
		for i, a := range as {
			all["|or|"+k+"|"+itoa(i)] = a
		}
	}
	return all, true
}

// mentions reports whether e contains a sub-expression satisfying pred.
func mentions(e ast.Node, pred func(ast.Expr) bool) bool {
	found := false
	ast.Inspect(e, func(n ast.Node) bool {
		if x, ok := n.(ast.Expr); ok && !found && pred(x) {
			found = true
		}
		return !found
	})
	return found
}

// checkWriterBufIsLeafSized (C02): fsWriter.Write cuts a leaf when the staging buffer is full (offset == len(buf)), so
// the buffer's length IS the leaf size. Every value stored in fsWriter.buf is `make([]byte, L)` / `x[:L]` with L the
// writer's leaf size (the constructor's parameter or the leafSize field), or nil.
func checkWriterBufIsLeafSized(c *Ctx, rule string) {
	p := c.P
	n := 0
	var okLen func(f *FuncInfo, e ast.Expr, depth int) (string, bool)
	okLen = func(f *FuncInfo, e ast.Expr, depth int) (string, bool) {
		info := f.Info()
		isLeaf := func(x ast.Expr) bool {
			d := describeExprAt(f, x)
			d = strings.TrimSuffix(strings.TrimPrefix(d, "conv:int("), ")")
			return strings.HasSuffix(d, ".leafSize") || isLeafSizeParam(f, x)
		}
		switch x := ast.Unparen(e).(type) {
		case *ast.Ident:
			if isNil(info, x) {
				return "nil", true
			}
		case *ast.CallExpr:
			if id, ok := ast.Unparen(x.Fun).(*ast.Ident); ok {
				if bi, ok := info.Uses[id].(*types.Builtin); ok && bi.Name() == "make" && len(x.Args) >= 2 {
					okAll := true
					for _, a := range x.Args[1:] {
						if !isLeaf(a) {
							okAll = false
						}
					}
					return "make([]byte, " + exprString(x.Args[1]) + ")", okAll
				}
			}
			// a helper of the package returning such a buffer for its own leaf-size parameter
			if h := p.FuncOpt(calleeID(info, x)); h != nil && h.Decl.Body != nil && depth < 1 {
				okAll, nRet := true, 0
				savedAny := leafParamAny
				leafParamAny = true
				defer func() { leafParamAny = savedAny }()
				ast.Inspect(h.Decl.Body, func(m ast.Node) bool {
					if _, isLit := m.(*ast.FuncLit); isLit {
						return false
					}
					if r, isRet := m.(*ast.ReturnStmt); isRet && len(r.Results) == 1 {
						nRet++
						if _, ok := okLen(h, r.Results[0], depth+1); !ok {
							okAll = false
						}
					}
					return true
				})
				// the helper's leaf size must be the caller's
				argOK := false
				for _, a := range x.Args {
					if isLeaf(a) {
						argOK = true
					}
				}
				return exprString(x), okAll && nRet > 0 && argOK
			}
		case *ast.SliceExpr:
			if x.Low == nil && x.High != nil && isLeaf(x.High) && (x.Max == nil || isLeaf(x.Max)) {
				return exprString(x), true
			}
		}
		return exprString(e), false
	}
	for _, f := range p.FuncsIn("pkg/cafs") {
		if f.Decl.Body == nil {
			continue
		}
		info := f.Info()
		isBufField := func(e ast.Expr) bool {
			sel, ok := ast.Unparen(e).(*ast.SelectorExpr)
			if !ok || sel.Sel.Name != "buf" {
				return false
			}
			s := info.Selections[sel]
			return s != nil && namedTypeID(s.Recv()) == "pkg/cafs.fsWriter"
		}
		k := 0
		ast.Inspect(f.Decl.Body, func(nd ast.Node) bool {
			switch s := nd.(type) {
			case *ast.AssignStmt:
				for i, l := range s.Lhs {
					if !isBufField(l) || len(s.Lhs) != len(s.Rhs) {
						continue
					}
					k++
					n++
					d, ok := okLen(f, s.Rhs[i], 0)
					c.check(ok, rule, f.ID+":buf#"+itoa(k), p.Pos(s.Pos()), "the staging buffer is "+d+": as long as the leaf size",
						"the writer's staging buffer is set to `"+d+"`, whose length is not the writer's leaf size: Write cuts leaves at len(buf), so content is split at another boundary and the root key no longer is the tree hash of the content for the configured leaf size")
				}
			case *ast.CompositeLit:
				if namedTypeID(info.TypeOf(s)) != "pkg/cafs.fsWriter" {
					return true
				}
				if v := fieldOfCompositeLit(s, "buf"); v != nil {
					k++
					n++
					d, ok := okLen(f, v, 0)
					c.check(ok, rule, f.ID+":buf#"+itoa(k), p.Pos(v.Pos()), "the staging buffer is "+d+": as long as the leaf size",
						"the writer's staging buffer is built as `"+d+"`, whose length is not the writer's leaf size: Write cuts leaves at len(buf), so content is split at another boundary and the root key no longer is the tree hash of the content for the configured leaf size")
				}
			}
			return true
		})
	}
	if n < 2 && c.sharedReach == nil {
		c.shape3(rule, "pkg/cafs.fsWriter.buf", "fewer than the 2 writes of fsWriter.buf confirmed by hand")
	}
}

// isLeafSizeParam: e names a parameter of f that carries the leaf size — by role, not by name: the parameter f stores
// into the leafSize field of the fsWriter it builds; inside a helper reached from such a function (leafParamAny), any
// integer parameter (the call site is required to pass the leaf size).
var leafParamAny bool

func isLeafSizeParam(f *FuncInfo, e ast.Expr) bool {
	id, ok := ast.Unparen(e).(*ast.Ident)
	if !ok {
		if call, isCall := ast.Unparen(e).(*ast.CallExpr); isCall && len(call.Args) == 1 {
			if tv, ok := f.Info().Types[call.Fun]; ok && tv.IsType() {
				return isLeafSizeParam(f, call.Args[0])
			}
		}
		return false
	}
	info := f.Info()
	v, ok := info.Uses[id].(*types.Var)
	if !ok || !isParamOf(f, v) || len(defsOfVarWithIndex(f, v)) != 0 {
		return false
	}
	bt, ok := v.Type().Underlying().(*types.Basic)
	if !ok || bt.Info()&types.IsInteger == 0 {
		return false
	}
	if leafParamAny {
		return true
	}
	role := false
	ast.Inspect(f.Decl.Body, func(n ast.Node) bool {
		cl, ok := n.(*ast.CompositeLit)
		if !ok || namedTypeID(info.TypeOf(cl)) != "pkg/cafs.fsWriter" {
			return true
		}
		if fv := fieldOfCompositeLit(cl, "leafSize"); fv != nil && isVar(info, fv, v) {
			role = true
		}
		return true
	})
	return role
}

// checkGlobCacheWriters (C07, C16): the per-prefix listing remembered by localfs.KeysPrefix is the snapshot one fetch
// loop pages through; the continuation token is a key of that snapshot. Only KeysPrefix (and helpers only it calls)
// stores or drops entries of localFS.glob: a snapshot dropped between two pages makes the token lookup fail and the
// listing end early without an error.
func checkGlobCacheWriters(c *Ctx, rule string) {
	p := c.P
	n := 0
	for _, f := range p.FuncsIn("pkg/storage/localfs") {
		if f.Decl.Body == nil {
			continue
		}
		info := f.Info()
		isGlob := func(e ast.Expr) bool {
			sel, ok := ast.Unparen(e).(*ast.SelectorExpr)
			if !ok || sel.Sel.Name != "glob" {
				return false
			}
			s := info.Selections[sel]
			return s != nil && namedTypeID(s.Recv()) == "pkg/storage/localfs.localFS"
		}
		allowed := f.ID == "pkg/storage/localfs.localFS.KeysPrefix"
		if !allowed && !ast.IsExported(f.Decl.Name.Name) {
			cs := callersOf(p, f.ID)
			allowed = len(cs) > 0
			for _, s := range cs {
				if s.Fn.ID != "pkg/storage/localfs.localFS.KeysPrefix" {
					allowed = false
				}
			}
		}
		k := 0
		report := func(pos token.Pos, what string) {
			k++
			n++
			c.check(allowed, rule, "pkg/storage/localfs.localFS.KeysPrefix:glob-writer:"+strings.TrimPrefix(f.ID, "pkg/storage/localfs.")+"#"+itoa(k), p.Pos(pos), what+" inside the fetch loop's own function",
				f.ID+" "+what+": the listing snapshot a fetch loop is paging through is changed from outside KeysPrefix, so the loop's continuation token may no longer be found and the listing ends early without an error")
		}
		ast.Inspect(f.Decl.Body, func(nd ast.Node) bool {
			switch s := nd.(type) {
			case *ast.AssignStmt:
				for _, l := range s.Lhs {
					if ix, ok := ast.Unparen(l).(*ast.IndexExpr); ok && isGlob(ix.X) {
						report(s.Pos(), "stores a cached listing")
					} else if isGlob(l) {
						report(s.Pos(), "replaces the listing cache")
					}
				}
			case *ast.CallExpr:
				if id, ok := ast.Unparen(s.Fun).(*ast.Ident); ok && len(s.Args) > 0 && isGlob(s.Args[0]) {
					if bi, ok := info.Uses[id].(*types.Builtin); ok && (bi.Name() == "delete" || bi.Name() == "clear") {
						report(s.Pos(), "drops a cached listing")
					}
				}
			}
			return true
		})
	}
	if n < 2 && c.sharedReach == nil {
		c.shape3(rule, "pkg/storage/localfs.localFS.glob", "fewer than the 2 writes of localFS.glob confirmed by hand")
	}
}

// checkNothingDeletedAfterRepoDescriptor (C08, C10): DeleteRepo removes the repository descriptor last. A label or bundle
// deletion reachable after the descriptor's removal can fail with the repository already gone: the retry stops at
// RepoExists and the remaining labels are orphaned — they show up in a repository later created under the same name.
func checkNothingDeletedAfterRepoDescriptor(c *Ctx, rule string) {
	p := c.P
	f := p.Func("pkg/core.DeleteRepo")
	b := p.BodyOf(f)
	const before, after = 1, 2
	var bad []*ast.CallExpr
	seen := map[*ast.CallExpr]bool{}
	nDel := 0
	counted := map[*ast.CallExpr]bool{}
	b.run(flowSpec{
		entry: before,
		node: func(n ast.Node, s uint64) uint64 {
			for _, call := range callsIn(n) {
				ev := eventOf(p, b.Info(), call)
				switch id := calleeID(b.Info(), call); {
				case ev == "delete-label" || ev == "delete-bundle":
					if s&after != 0 && !seen[call] {
						seen[call] = true
						bad = append(bad, call)
					}
				case id == "pkg/storage.Store.Delete" && len(call.Args) == 2 && resolveKeyKind(f, call.Args[1], 0) == "repo-descriptor":
					if !counted[call] {
						counted[call] = true
						nDel++
					}
					s = after
				}
			}
			return s
		},
	})
	if nDel == 0 {
		c.shape3(rule, f.ID, "DeleteRepo no longer deletes the repository descriptor with Store.Delete in its own body")
		return
	}
	pos := p.Pos(f.Decl.Pos())
	if len(bad) > 0 {
		pos = p.Pos(bad[0].Pos())
	}
	c.check(len(bad) == 0, rule, f.ID, pos, "no label or bundle is deleted after the repository descriptor",
		"DeleteRepo can delete labels or bundles after it removed the repository descriptor: when that sweep fails half-way the repository is gone, a retry stops at the existence check, and the labels left behind are listed (and resolved) in a repository later created under the same name")
}

// checkSquashRelistsBeforeLabelCleanup (C08): RepoSquash deletes the labels whose bundle is not in an index of existing
// bundles. That index is read from the store after the last bundle deletion: on every path a DeleteLabel call is
// preceded by a bundle listing with no DeleteBundle in between. An index computed before (or instead of) looking at
// the store misses bundles committed meanwhile, and their freshly set labels are deleted.
func checkSquashRelistsBeforeLabelCleanup(c *Ctx, rule string) {
	p := c.P
	f := p.Func("pkg/core.RepoSquash")
	b := p.BodyOf(f)
	const stale, fresh = 1, 2
	var bad []*ast.CallExpr
	seen := map[*ast.CallExpr]bool{}
	nLbl := 0
	counted := map[*ast.CallExpr]bool{}
	b.run(flowSpec{
		entry: stale,
		node: func(n ast.Node, s uint64) uint64 {
			for _, call := range callsIn(n) {
				switch eventOf(p, b.Info(), call) {
				case "list-bundles":
					s = fresh
				case "delete-bundle":
					s = stale
				case "delete-label":
					if !counted[call] {
						counted[call] = true
						nLbl++
					}
					if s&stale != 0 && !seen[call] {
						seen[call] = true
						bad = append(bad, call)
					}
				}
			}
			return s
		},
	})
	if nLbl == 0 {
		c.shape3(rule, f.ID, "RepoSquash no longer calls DeleteLabel in its own body")
		return
	}
	pos := p.Pos(f.Decl.Pos())
	if len(bad) > 0 {
		pos = p.Pos(bad[0].Pos())
	}
	c.check(len(bad) == 0, rule, f.ID, pos, "labels are cleaned up against a bundle listing taken after the last bundle deletion",
		"RepoSquash can delete labels without having listed the repository's bundles after its last DeleteBundle: the set of surviving bundles is assumed, not read, so a label just set on a bundle committed meanwhile is deleted and no longer resolves")
}

// checkUploadIndexerFreshPerAttempt (C12): Split.implUpload builds its upload indexer (which wraps a one-shot iterator
// over the split's index files and a copy of the descriptor with this attempt's generation ID) on every call: the
// assignment is not conditioned on the state of the field.
func checkUploadIndexerFreshPerAttempt(c *Ctx, rule string) {
	p := c.P
	f := p.Func("pkg/core.Split.implUpload")
	n := 0
	ast.Inspect(f.Decl.Body, func(nd ast.Node) bool {
		as, ok := nd.(*ast.AssignStmt)
		if !ok {
			return true
		}
		for _, l := range as.Lhs {
			sel, ok := ast.Unparen(l).(*ast.SelectorExpr)
			if !ok || sel.Sel.Name != "uploadIndexer" {
				continue
			}
			n++
			atoms, _ := atomsAt(f, f.Decl.Body, as.Pos())
			cond := ""
			for lit, a := range atoms {
				if mentions(a.Expr, func(e ast.Expr) bool {
					s, ok := e.(*ast.SelectorExpr)
					return ok && s.Sel.Name == "uploadIndexer"
				}) {
					cond = lit
				}
			}
			c.check(cond == "", rule, f.ID+":uploadIndexer#"+itoa(n), p.Pos(as.Pos()), "the upload indexer is rebuilt on every attempt",
				"the split's upload indexer is built only when `"+cond+"`: a second Upload() on the same Split reuses the consumed one-shot iterator, packs nothing, and records the split as done with no file list — the committed bundle silently lacks the split's files")
		}
		return true
	})
	if n == 0 {
		c.shape3(rule, f.ID, "Split.implUpload no longer assigns uploadIndexer")
	}
}

// checkShadowedCaptures (generic): a function literal declares, with `:=`, a variable with the name of a variable of
// the enclosing function that (a) is declared without a value, (b) is never assigned anywhere, and (c) is read after
// the literal. The outer variable then always holds its zero value where it is read: the result the literal was
// meant to hand over is lost (the classic `x, err := f()` inside a retry closure).
func checkShadowedCaptures(c *Ctx, rule string, pkgs ...string) int {
	p := c.P
	n := 0
	for _, pk := range pkgs {
		for _, f := range p.FuncsIn(pk) {
			if f.Decl.Body == nil || len(f.Lits) == 0 {
				continue
			}
			info := f.Info()
			// outer candidates: `var x T` without value, never assigned, not address-taken
			type cand struct {
				v   *types.Var
				pos token.Pos
			}
			var cands []cand
			ast.Inspect(f.Decl.Body, func(nd ast.Node) bool {
				vs, ok := nd.(*ast.ValueSpec)
				if !ok || len(vs.Values) != 0 {
					return true
				}
				for _, nm := range vs.Names {
					v, ok := info.Defs[nm].(*types.Var)
					if !ok || nm.Name == "_" {
						continue
					}
					switch v.Type().Underlying().(type) {
					case *types.Struct, *types.Basic, *types.Slice, *types.Interface, *types.Pointer, *types.Map:
					default:
						continue
					}
					cands = append(cands, cand{v, nm.Pos()})
				}
				return true
			})
			for _, cd := range cands {
				if len(defsOfVarWithIndex(f, cd.v)) != 0 {
					continue
				}
				escapes, reads := false, 0
				var firstRead token.Pos
				ast.Inspect(f.Decl.Body, func(nd ast.Node) bool {
					switch x := nd.(type) {
					case *ast.UnaryExpr:
						if x.Op == token.AND && mentions(x.X, func(e ast.Expr) bool { return isVar(info, e, cd.v) }) {
							escapes = true
						}
					case *ast.CallExpr:
						// method call on the variable (pointer receivers mutate): v.M(...)
						if sel, ok := ast.Unparen(x.Fun).(*ast.SelectorExpr); ok && isVar(info, sel.X, cd.v) {
							escapes = true
						}
					case *ast.AssignStmt:
						// a field or element of the variable is assigned: it is written to
						for _, l := range x.Lhs {
							if _, plain := ast.Unparen(l).(*ast.Ident); !plain && mentions(l, func(e ast.Expr) bool { return isVar(info, e, cd.v) }) {
								escapes = true
							}
						}
					case *ast.Ident:
						if info.Uses[x] == cd.v {
							reads++
							if firstRead == 0 {
								firstRead = x.Pos()
							}
						}
					}
					return true
				})
				if escapes || reads == 0 {
					continue
				}
				// a literal that shadows it with :=
				for _, l := range f.Lits {
					if l.Pos() < cd.pos {
						continue
					}
					var shadow *ast.Ident
					ast.Inspect(l.Body, func(nd ast.Node) bool {
						as, ok := nd.(*ast.AssignStmt)
						if !ok || as.Tok != token.DEFINE {
							return true
						}
						for _, lh := range as.Lhs {
							if id, ok := lh.(*ast.Ident); ok && id.Name == cd.v.Name() && info.Defs[id] != nil && info.Defs[id] != cd.v {
								if sv, ok := info.Defs[id].(*types.Var); ok && types.Identical(sv.Type(), cd.v.Type()) {
									shadow = id
								}
							}
						}
						return true
					})
					if shadow == nil {
						continue
					}
					n++
					c.fail(rule, f.ID+":"+cd.v.Name(), p.Pos(shadow.Pos()),
						"`"+cd.v.Name()+"` is declared again with := inside a function literal; the variable of the same name and type declared at "+p.Pos(cd.pos)+" is never assigned, yet it is read at "+p.Pos(firstRead)+": it always holds its zero value there, so the value obtained in the literal is lost")
				}
			}
		}
	}
	return n
}

// checkOptionsAppliedToFresh (generic): `for _, apply := range opts { apply(o) }` mutates o. The object the options of
// one call are applied to is built in that call (a composite literal, new, or a constructor call) — never a package-level
// variable (or an alias of one): options would leak into every later call of the process.
func checkOptionsAppliedToFresh(c *Ctx, rule string, pkgs ...string) int {
	p := c.P
	n := 0
	for _, pk := range pkgs {
		for _, f := range p.FuncsIn(pk) {
			if f.Decl.Body == nil {
				continue
			}
			info := f.Info()
			isPkgLevel := func(e ast.Expr) (string, bool) {
				for {
					switch x := ast.Unparen(e).(type) {
					case *ast.UnaryExpr:
						e = x.X
						continue
					case *ast.StarExpr:
						e = x.X
						continue
					case *ast.SelectorExpr:
						if _, isPkg := info.Uses[identOf(x.X)].(*types.PkgName); isPkg {
							if v, ok := info.Uses[x.Sel].(*types.Var); ok && v.Parent() == v.Pkg().Scope() {
								return exprString(x), true
							}
							return "", false
						}
						e = x.X
						continue
					case *ast.Ident:
						if v, ok := info.Uses[x].(*types.Var); ok && v.Pkg() != nil && v.Parent() == v.Pkg().Scope() {
							return x.Name, true
						}
					}
					return "", false
				}
			}
			ast.Inspect(f.Decl.Body, func(nd ast.Node) bool {
				rs, ok := nd.(*ast.RangeStmt)
				if !ok || rs.Value == nil {
					return true
				}
				vid, ok := rs.Value.(*ast.Ident)
				if !ok {
					return true
				}
				av, ok := info.Defs[vid].(*types.Var)
				if !ok {
					return true
				}
				sig, ok := av.Type().Underlying().(*types.Signature)
				if !ok || sig.Params().Len() != 1 || sig.Results().Len() != 0 {
					return true
				}
				if _, isPtr := sig.Params().At(0).Type().Underlying().(*types.Pointer); !isPtr {
					return true
				}
				// the loop body calls apply(o)
				ast.Inspect(rs.Body, func(m ast.Node) bool {
					call, ok := m.(*ast.CallExpr)
					if !ok || len(call.Args) != 1 || !isVar(info, call.Fun, av) {
						return true
					}
					n++
					key := f.ID + ":options-target"
					arg := call.Args[0]
					if nm, bad := isPkgLevel(arg); bad {
						c.fail(rule, key, p.Pos(call.Pos()), "the options of this call are applied to the package-level variable `"+nm+"`: they stay set for every later call in the process (a forced or dry-run call changes the calls that follow)")
						return true
					}
					if id, ok := ast.Unparen(arg).(*ast.Ident); ok {
						if v, ok := info.Uses[id].(*types.Var); ok {
							for _, d := range defsOfVarWithIndex(f, v) {
								if d.rhs == nil {
									continue
								}
								if nm, bad := isPkgLevel(d.rhs); bad {
									if _, isCall := ast.Unparen(d.rhs).(*ast.CallExpr); !isCall {
										c.fail(rule, key, p.Pos(call.Pos()), "the options of this call are applied to `"+id.Name+"`, an alias of the package-level variable `"+nm+"`: they stay set for every later call in the process (a forced or dry-run call changes the calls that follow)")
										return true
									}
								}
							}
						}
					}
					c.ok(rule, key, p.Pos(call.Pos()), "options are applied to an object built in this call")
					return true
				})
				return true
			})
		}
	}
	return n
}

func identOf(e ast.Expr) *ast.Ident {
	id, _ := ast.Unparen(e).(*ast.Ident)
	return id
}

// checkClosedChannelNotShared (C15): fileIndex.unpack closes f.output when it returns, and it can return (on the first
// error) while download workers are still running. It is therefore the only sender on that channel: f.output is not
// handed to the goroutines it starts — a worker finishing late would send on a closed channel and crash the process.
func checkClosedChannelNotShared(c *Ctx, rule string) {
	p := c.P
	f := p.Func("pkg/core.fileIndex.unpack")
	info := f.Info()
	// channels closed in unpack (incl. deferred literals)
	closed := map[string]token.Pos{}
	ast.Inspect(f.Decl.Body, func(nd ast.Node) bool {
		if call, ok := nd.(*ast.CallExpr); ok && calleeID(info, call) == "builtin.close" && len(call.Args) == 1 {
			if d := describeExpr(f, call.Args[0], 0); strings.HasPrefix(d, "recv.") {
				closed[d] = call.Pos()
			}
		}
		return true
	})
	if len(closed) == 0 {
		c.shape3(rule, f.ID, "fileIndex.unpack no longer closes a channel of its receiver")
		return
	}
	var names []string
	for d := range closed {
		names = append(names, d)
	}
	sort.Strings(names)
	for _, d := range names {
		var bad ast.Node
		ast.Inspect(f.Decl.Body, func(nd ast.Node) bool {
			g, ok := nd.(*ast.GoStmt)
			if !ok {
				return true
			}
			if mentions(g.Call, func(e ast.Expr) bool {
				if _, isSel := e.(*ast.SelectorExpr); !isSel {
					return false
				}
				return describeExpr(f, e, 0) == d
			}) {
				bad = g
			}
			return true
		})
		pos := p.Pos(closed[d])
		if bad != nil {
			pos = p.Pos(bad.Pos())
		}
		c.check(bad == nil, rule, f.ID+":"+d, pos, "`"+d+"` is closed by unpack and sent to only by unpack",
			"unpack closes `"+d+"` on return (also on its early error return) and hands the same channel to a goroutine it starts: a worker still running after the first error sends on a closed channel, which panics and kills every other operation of the process")
	}
}

// checkKeysUnfiltered (C16): localFS.Keys lists every regular file of the tree. The walk callback appends a path under
// no other condition than 'no walk error' and 'not a directory': any further test on the path hides keys that Put, Get
// and Has know.
func checkKeysUnfiltered(c *Ctx, rule string) {
	p := c.P
	f := p.Func("pkg/storage/localfs.localFS.Keys")
	info := f.Info()
	n := 0
	for _, l := range f.Lits {
		ast.Inspect(l.Body, func(nd ast.Node) bool {
			as, ok := nd.(*ast.AssignStmt)
			if !ok || len(as.Rhs) != 1 {
				return true
			}
			call, ok := ast.Unparen(as.Rhs[0]).(*ast.CallExpr)
			if !ok || calleeID(info, call) != "builtin.append" {
				return true
			}
			n++
			atoms, _ := atomsAt(f, l.Body, as.Pos())
			var extra []string
			for lit, a := range atoms {
				switch {
				case isNilTest(info, a.Expr):
				case isWalkRootTest(f, a.Expr):
				case mentions(a.Expr, func(e ast.Expr) bool {
					cl, ok := e.(*ast.CallExpr)
					return ok && strings.HasSuffix(calleeID(info, cl), "FileInfo.IsDir")
				}):
				default:
					extra = append(extra, lit)
				}
			}
			sort.Strings(extra)
			c.check(len(extra) == 0, rule, f.ID+":append#"+itoa(n), p.Pos(as.Pos()), "every regular file of the walk is listed",
				"Keys lists a walked file only when `"+strings.Join(extra, " && ")+"`: a record whose key fails that test can be written, read and found by Has, but is missing from the full listing")
			return true
		})
	}
	if n == 0 {
		c.shape3(rule, f.ID, "localFS.Keys no longer appends to its result inside a walk callback")
	}
}

func isNilTest(info *types.Info, e ast.Expr) bool {
	be, ok := ast.Unparen(e).(*ast.BinaryExpr)
	return ok && (be.Op == token.EQL || be.Op == token.NEQ) && (isNil(info, be.X) || isNil(info, be.Y))
}

// checkMkdirNotMemoised (C16): localFS.Put ensures the parent directory of the key each time: whether MkdirAll runs
// depends on the key only (e.g. `dir != ""`), never on something the store remembers — Clear (or anything else) can
// remove the directory behind a memo, and the next Put into it fails.
func checkMkdirNotMemoised(c *Ctx, rule string) {
	p := c.P
	f := p.Func("pkg/storage/localfs.localFS.Put")
	info := f.Info()
	n := 0
	ast.Inspect(f.Decl.Body, func(nd ast.Node) bool {
		call, ok := nd.(*ast.CallExpr)
		if !ok || !strings.HasSuffix(calleeID(info, call), "afero.Fs.MkdirAll") {
			return true
		}
		n++
		atoms, _ := atomsAt(f, f.Decl.Body, call.Pos())
		var bad []string
		for lit, a := range atoms {
			if mentions(a.Expr, func(e ast.Expr) bool {
				return strings.HasPrefix(describeExpr(f, e, 0), "recv.") && !strings.HasPrefix(describeExpr(f, e, 0), "recv.fs")
			}) {
				bad = append(bad, lit)
				continue
			}
			// a variable defined from the receiver's state (v, known := l.dirs.Load(dir))
			if mentions(a.Expr, func(e ast.Expr) bool {
				id, ok := e.(*ast.Ident)
				if !ok {
					return false
				}
				v, ok := info.Uses[id].(*types.Var)
				if !ok || v.IsField() {
					return false
				}
				for _, d := range defsOfVarWithIndex(f, v) {
					if d.rhs != nil && mentions(d.rhs, func(x ast.Expr) bool {
						s, isSel := x.(*ast.SelectorExpr)
						if !isSel {
							return false
						}
						ds := describeExpr(f, s, 0)
						return strings.HasPrefix(ds, "recv.") && !strings.HasPrefix(ds, "recv.fs") && !strings.HasPrefix(ds, "recv.l")
					}) {
						return true
					}
				}
				return false
			}) {
				bad = append(bad, lit)
			}
		}
		sort.Strings(bad)
		c.check(len(bad) == 0, rule, f.ID+":MkdirAll#"+itoa(n), p.Pos(call.Pos()), "the parent directory is ensured whatever the store remembers",
			"Put skips MkdirAll depending on `"+strings.Join(bad, " && ")+"`, a state the store remembers: once the directory is removed behind that memo (Clear, another instance) every Put into it fails")
		return true
	})
	if n == 0 {
		c.shape3(rule, f.ID, "localFS.Put no longer calls MkdirAll")
	}
}

// checkCancelAfterJoin (generic): a context derived with context.WithCancel/WithTimeout/WithDeadline whose cancel is
// deferred dies when the function returns. When that context is handed to a goroutine the function starts (`go`, or
// errgroup's Go), the function joins its goroutines (WaitGroup.Wait / Group.Wait) before returning; otherwise the work
// in flight is cancelled by the return of the function that merely issued it.
func checkCancelAfterJoin(c *Ctx, rule string, pkgs ...string) int {
	p := c.P
	n := 0
	for _, pk := range pkgs {
		for _, f := range p.FuncsIn(pk) {
			if f.Decl.Body == nil {
				continue
			}
			info := f.Info()
			ast.Inspect(f.Decl.Body, func(nd ast.Node) bool {
				as, ok := nd.(*ast.AssignStmt)
				if !ok || len(as.Lhs) != 2 || len(as.Rhs) != 1 {
					return true
				}
				call, ok := ast.Unparen(as.Rhs[0]).(*ast.CallExpr)
				if !ok {
					return true
				}
				switch calleeID(info, call) {
				case "context.WithCancel", "context.WithTimeout", "context.WithDeadline":
				default:
					return true
				}
				ctxID, ok1 := as.Lhs[0].(*ast.Ident)
				cancelID, ok2 := as.Lhs[1].(*ast.Ident)
				if !ok1 || !ok2 {
					return true
				}
				ctxV, _ := info.ObjectOf(ctxID).(*types.Var)
				cancelV, _ := info.ObjectOf(cancelID).(*types.Var)
				if ctxV == nil || cancelV == nil {
					return true
				}
				// deferred cancel?
				deferred := false
				ast.Inspect(f.Decl.Body, func(m ast.Node) bool {
					if d, ok := m.(*ast.DeferStmt); ok && mentions(d.Call, func(e ast.Expr) bool { return isVar(info, e, cancelV) }) {
						deferred = true
					}
					return true
				})
				if !deferred {
					return true
				}
				// contexts derived from it (errgroup.WithContext(ctx) etc.)
				derived := map[*types.Var]bool{ctxV: true}
				for changed := true; changed; {
					changed = false
					ast.Inspect(f.Decl.Body, func(m ast.Node) bool {
						a2, ok := m.(*ast.AssignStmt)
						if !ok || len(a2.Rhs) != 1 {
							return true
						}
						uses := mentions(a2.Rhs[0], func(e ast.Expr) bool {
							id, ok := e.(*ast.Ident)
							if !ok {
								return false
							}
							v, _ := info.Uses[id].(*types.Var)
							return v != nil && derived[v]
						})
						if !uses {
							return true
						}
						for _, l := range a2.Lhs {
							if id, ok := l.(*ast.Ident); ok {
								if v, _ := info.ObjectOf(id).(*types.Var); v != nil && !derived[v] && strings.HasSuffix(v.Type().String(), "context.Context") {
									derived[v] = true
									changed = true
								}
							}
						}
						return true
					})
				}
				usesCtx := func(n ast.Node) bool {
					return mentions(n, func(e ast.Expr) bool {
						id, ok := e.(*ast.Ident)
						if !ok {
							return false
						}
						v, _ := info.Uses[id].(*types.Var)
						return v != nil && derived[v]
					})
				}
				var spawn ast.Node
				joined := false
				ast.Inspect(f.Decl.Body, func(m ast.Node) bool {
					switch s := m.(type) {
					case *ast.GoStmt:
						if usesCtx(s.Call) {
							spawn = s
						}
						return false
					case *ast.CallExpr:
						switch id := calleeID(info, s); {
						case strings.HasSuffix(id, "errgroup.Group.Go") || strings.HasSuffix(id, "errgroup.Group.TryGo"):
							if usesCtx(s) {
								spawn = s
							}
						case id == "sync.WaitGroup.Wait" || strings.HasSuffix(id, "errgroup.Group.Wait"):
							joined = true
						}
					}
					return true
				})
				if spawn == nil {
					return true
				}
				n++
				c.check(joined, rule, f.ID+":"+ctxID.Name, p.Pos(spawn.Pos()), "goroutines started with the cancellable context are joined before the deferred cancel",
					f.ID+" starts a goroutine with `"+ctxID.Name+"`, whose cancel is deferred, and returns without waiting for it: the work in flight is cancelled as soon as the last goroutine has been started (a store that honours its context fails the reads with 'context canceled')")
				return true
			})
		}
	}
	return n
}

// checkParserIDsOpaque (C20): in GetArchivePathComponents the path segments returned as user-chosen identities (Repo,
// LabelName, BundleID, Context, SplitID) are opaque: a condition may only compare them with the empty string. Any
// other test on such a segment (a prefix, a pattern, a reserved word) rejects or re-routes paths the builders produce for
// a valid name. (DiamondID and GenerationID are KSUIDs by contract and validated as such.)
func checkParserIDsOpaque(c *Ctx, rule string) {
	p := c.P
	f := p.Func("pkg/model.GetArchivePathComponents")
	info := f.Info()
	idFields := map[string]bool{"Repo": true, "LabelName": true, "BundleID": true, "Context": true, "SplitID": true}
	// resolve an expression to "cs[k]" when it is a constant-indexed element of a slice local, through single-def locals
	var seg func(e ast.Expr, depth int) string
	seg = func(e ast.Expr, depth int) string {
		switch x := ast.Unparen(e).(type) {
		case *ast.IndexExpr:
			if tv, ok := info.Types[x.Index]; ok && tv.Value != nil {
				if id, ok := ast.Unparen(x.X).(*ast.Ident); ok {
					return id.Name + "[" + tv.Value.ExactString() + "]"
				}
			}
		case *ast.Ident:
			if v, ok := info.Uses[x].(*types.Var); ok && depth < 3 {
				if ds := defsOfVarWithIndex(f, v); len(ds) == 1 && ds[0].rhs != nil && ds[0].index < 0 {
					return seg(ds[0].rhs, depth+1)
				}
			}
		}
		return ""
	}
	// the outer switch on the first segment: one clause per kind
	var outer *ast.SwitchStmt
	ast.Inspect(f.Decl.Body, func(nd ast.Node) bool {
		if sw, ok := nd.(*ast.SwitchStmt); ok && outer == nil && sw.Tag != nil && seg(sw.Tag, 0) != "" {
			outer = sw
		}
		return outer == nil
	})
	if outer == nil {
		c.shape3(rule, f.ID, "the parser no longer switches on the first path segment")
		return
	}
	nIDs := 0
	for _, st := range outer.Body.List {
		cc := st.(*ast.CaseClause)
		if len(cc.List) == 0 {
			continue
		}
		kind := exprString(cc.List[0])
		ids := map[string]string{}
		ast.Inspect(cc, func(nd ast.Node) bool {
			cl, ok := nd.(*ast.CompositeLit)
			if !ok || namedTypeID(info.TypeOf(cl)) != "pkg/model.ArchivePathComponents" {
				return true
			}
			for _, el := range cl.Elts {
				kv, ok := el.(*ast.KeyValueExpr)
				if !ok {
					continue
				}
				if k, ok := kv.Key.(*ast.Ident); ok && idFields[k.Name] {
					if s := seg(kv.Value, 0); s != "" {
						ids[s] = k.Name
					}
				}
			}
			return true
		})
		var segs []string
		for s := range ids {
			segs = append(segs, s)
		}
		sort.Strings(segs)
		nIDs += len(segs)
		// every condition of the clause
		var conds []ast.Expr
		ast.Inspect(cc, func(nd ast.Node) bool {
			switch s := nd.(type) {
			case *ast.IfStmt:
				conds = append(conds, s.Cond)
			case *ast.SwitchStmt:
				if s.Tag == nil {
					for _, cl := range s.Body.List {
						conds = append(conds, cl.(*ast.CaseClause).List...)
					}
				} else if sg := seg(s.Tag, 0); sg != "" && ids[sg] != "" {
					conds = append(conds, s.Tag)
				}
			case *ast.ForStmt:
				if s.Cond != nil {
					conds = append(conds, s.Cond)
				}
			}
			return true
		})
		for _, sg := range segs {
			var bad ast.Expr
			for _, cond := range conds {
				var walk func(e ast.Expr, parent ast.Expr)
				walk = func(e ast.Expr, parent ast.Expr) {
					e = ast.Unparen(e)
					if seg(e, 0) == sg {
						okUse := false
						if be, isBin := parent.(*ast.BinaryExpr); isBin && (be.Op == token.EQL || be.Op == token.NEQ) {
							other := be.X
							if ast.Unparen(be.X) == e {
								other = be.Y
							}
							if tv, ok := info.Types[other]; ok && tv.Value != nil && tv.Value.ExactString() == `""` {
								okUse = true
							}
						}
						if !okUse && bad == nil {
							bad = cond
						}
						return
					}
					switch x := e.(type) {
					case *ast.BinaryExpr:
						walk(x.X, x)
						walk(x.Y, x)
					case *ast.UnaryExpr:
						walk(x.X, x)
					case *ast.CallExpr:
						for _, a := range x.Args {
							walk(a, x)
						}
						if sel, ok := ast.Unparen(x.Fun).(*ast.SelectorExpr); ok {
							walk(sel.X, x)
						}
					case *ast.IndexExpr:
						walk(x.X, x)
					case *ast.SliceExpr:
						walk(x.X, x)
					case *ast.SelectorExpr:
						walk(x.X, x)
					}
				}
				walk(cond, nil)
			}
			key := f.ID + ":" + strings.Trim(kind, `"`) + ":" + ids[sg]
			pos := p.Pos(cc.Pos())
			if bad != nil {
				pos = p.Pos(bad.Pos())
				c.fail(rule, key, pos, "the "+ids[sg]+" segment of a "+kind+" path is tested by `"+exprString(bad)+"`: identities are opaque (only an empty segment is special), so paths built for a valid "+ids[sg]+" that happens to satisfy this test no longer parse back to their values")
			} else {
				c.ok(rule, key, pos, "the "+ids[sg]+" segment is only compared with the empty string")
			}
		}
	}
	if nIDs < 5 && c.sharedReach == nil {
		c.shape3(rule, f.ID, "fewer than 5 identity segments found in the parser's clauses")
	}
}

// reviewedOmitEmpty: the omitempty fields of the descriptor types that core decodes into an object that already holds a
// descriptor (not a fresh variable). A key absent from the YAML leaves the previous value in place there, so every such
// field is listed with the reason the stale value cannot differ from the written one.
var reviewedOmitEmpty = map[string]string{
	"pkg/model.LabelDescriptor.Name":           "set by every writer (NewLabel / UploadDescriptor), never empty in a stored label",
	"pkg/model.LabelDescriptor.Timestamp":      "set by every writer (UploadDescriptor stamps the label)",
	"pkg/model.BundleDescriptor.Parents":       "bundles are downloaded into Bundle objects created with an ID only (no previous parents)",
	"pkg/model.BundleDescriptor.Timestamp":     "set by every writer",
	"pkg/model.BundleDescriptor.Version":       "set by every writer (CurrentBundleVersion)",
	"pkg/model.BundleDescriptor.Deduplication": "bundles are downloaded into Bundle objects created with an ID only",
	"pkg/model.BundleDescriptor.RunStage":      "bundles are downloaded into Bundle objects created with an ID only",
}

// checkReusedDecodeTargets (C20): yaml.Unmarshal into a destination that is not a fresh local (a field of the receiver
// or of a parameter) keeps the previous value of every key absent from the document. For the descriptor types decoded
// that way, each omitempty field is in the reviewed table; a new one (e.g. a list that is legitimately empty) reads back
// as whatever the object held before, not as what was written.
func checkReusedDecodeTargets(c *Ctx, rule string) {
	p := c.P
	n := 0
	seen := map[string]bool{}
	for _, f := range p.FuncsIn("pkg/core") {
		if f.Decl.Body == nil {
			continue
		}
		info := f.Info()
		ast.Inspect(f.Decl.Body, func(nd ast.Node) bool {
			call, ok := nd.(*ast.CallExpr)
			if !ok || len(call.Args) != 2 || !isYAMLUnmarshal(calleeID(info, call)) {
				return true
			}
			u, ok := ast.Unparen(call.Args[1]).(*ast.UnaryExpr)
			if !ok || u.Op != token.AND {
				return true
			}
			if _, isSel := ast.Unparen(u.X).(*ast.SelectorExpr); !isSel {
				return true // a local: fresh (or at least owned by this call)
			}
			t := info.TypeOf(u.X)
			st, ok := t.Underlying().(*types.Struct)
			if !ok {
				return true
			}
			tid := namedTypeID(t)
			for i := 0; i < st.NumFields(); i++ {
				tag := reflect.StructTag(st.Tag(i))
				y := tag.Get("yaml")
				if !strings.Contains(y, ",omitempty") {
					continue
				}
				key := tid + "." + st.Field(i).Name()
				if seen[f.ID+key] {
					continue
				}
				seen[f.ID+key] = true
				n++
				why, ok := reviewedOmitEmpty[key]
				c.check(ok, rule, f.ID+":"+key, p.Pos(st.Field(i).Pos()), "omitempty, decoded into a reused object: "+why,
					key+" is omitempty and "+f.ID+" decodes this type into an object that already holds a descriptor: when the field is written with its zero value (an empty list) the key is absent and the reader keeps what it held before — the descriptor does not read back equal to what was written")
			}
			return true
		})
	}
	if n < 4 && c.sharedReach == nil {
		c.shape3(rule, "pkg/core:yaml.Unmarshal", "fewer than 4 omitempty fields of descriptors decoded into reused objects found")
	}
}

// checkEnvVarKeyVerbatim (C21): the environment variable of a bundle / database is named prefix+name with the name
// verbatim: the name is recovered by stripping the prefix, and two names give two variables. Any mapping of the name
// loses one of two parameter sets whose names it maps together, without an error.
func checkEnvVarKeyVerbatim(c *Ctx, rule string) {
	p := c.P
	for _, fid := range []string{"pkg/sidecar/param.FUSEParamsToEnvVars", "pkg/sidecar/param.PGParamsToEnvVars"} {
		f := p.Func(fid)
		info := f.Info()
		n := 0
		ast.Inspect(f.Decl.Body, func(nd ast.Node) bool {
			rs, ok := nd.(*ast.RangeStmt)
			if !ok || rs.Key == nil {
				return true
			}
			kid, ok := rs.Key.(*ast.Ident)
			if !ok {
				return true
			}
			kv, _ := info.Defs[kid].(*types.Var)
			if kv == nil {
				return true
			}
			if _, isMap := info.TypeOf(rs.X).Underlying().(*types.Map); !isMap {
				return true
			}
			ast.Inspect(rs.Body, func(m ast.Node) bool {
				as, ok := m.(*ast.AssignStmt)
				if !ok || len(as.Lhs) != 1 {
					return true
				}
				ix, ok := ast.Unparen(as.Lhs[0]).(*ast.IndexExpr)
				if !ok {
					return true
				}
				n++
				okKey := verbatimConcat(p, f, ix.Index, kv, 0)
				c.check(okKey, rule, fid+":key#"+itoa(n), p.Pos(as.Pos()), "the variable is named <constant prefix>+<name>, the name verbatim",
					"the environment variable of an entry is named `"+exprString(ix.Index)+"`, not the constant prefix followed by the entry's name verbatim: two names can give the same variable (one parameter set silently replaces the other) and the name cannot be recovered by stripping the prefix")
				return true
			})
			return true
		})
		if n == 0 {
			c.shape3(rule, fid, "no per-entry assignment to the result map found")
		}
	}
}

// verbatimConcat: e is `<constant> + name` (name being the variable v), directly or through a helper whose single
// return is `<param> + <param>`.
func verbatimConcat(p *Prog, f *FuncInfo, e ast.Expr, v *types.Var, depth int) bool {
	info := f.Info()
	switch x := ast.Unparen(e).(type) {
	case *ast.Ident:
		// a local holding the name: its only definition
		if lv, ok := info.Uses[x].(*types.Var); ok && depth < 2 {
			if ds := defsOfVarWithIndex(f, lv); len(ds) == 1 && ds[0].rhs != nil && ds[0].index < 0 {
				return verbatimConcat(p, f, ds[0].rhs, v, depth+1)
			}
		}
		return false
	case *ast.BinaryExpr:
		if x.Op != token.ADD {
			return false
		}
		tv, ok := info.Types[x.X]
		return ok && tv.Value != nil && isVar(info, x.Y, v)
	case *ast.CallExpr:
		h := p.FuncOpt(calleeID(info, x))
		if h == nil || h.Decl.Body == nil || depth > 1 || len(h.Decl.Body.List) != 1 || len(x.Args) != 2 {
			return false
		}
		r, ok := h.Decl.Body.List[0].(*ast.ReturnStmt)
		if !ok || len(r.Results) != 1 {
			return false
		}
		tv, okc := info.Types[x.Args[0]]
		if !okc || tv.Value == nil || !isVar(info, x.Args[1], v) {
			return false
		}
		return describeExpr(h, r.Results[0], 0) == "(param#0+param#1)"
	}
	return false
}

// shape3: the anchor of a clause no longer has a shape the clause can read.
func (c *Ctx) shape3(rule, fnID, msg string) {
	pos := "-"
	if f := c.P.FuncOpt(fnID); f != nil {
		pos = c.P.Pos(f.Decl.Pos())
	}
	c.shapeChanged(rule, fnID, pos, fnID, msg)
}

// isWalkRootTest: a comparison of something with the constant the walk was started at (the root itself is not a key).
func isWalkRootTest(f *FuncInfo, e ast.Expr) bool {
	info := f.Info()
	be, ok := ast.Unparen(e).(*ast.BinaryExpr)
	if !ok || (be.Op != token.EQL && be.Op != token.NEQ) {
		return false
	}
	root := ""
	ast.Inspect(f.Decl.Body, func(n ast.Node) bool {
		if call, ok := n.(*ast.CallExpr); ok && strings.HasSuffix(calleeID(info, call), "afero.Walk") && len(call.Args) == 3 {
			if tv, ok := info.Types[call.Args[1]]; ok && tv.Value != nil {
				root = tv.Value.ExactString()
			}
		}
		return true
	})
	for _, side := range []ast.Expr{be.X, be.Y} {
		if tv, ok := info.Types[side]; ok && tv.Value != nil && root != "" && tv.Value.ExactString() == root {
			return true
		}
	}
	return false
}

func isYAMLUnmarshal(id string) bool {
	return strings.HasSuffix(id, ".Unmarshal") && strings.Contains(id, "yaml")
}

func init() {
	addWitness(witness{Prop: "C02", Name: "staging-buffer-longer-than-leaf", File: "pkg/cafs/writer.go",
		Old:    "\t\tbuf:                 make([]byte, leafSize),\n",
		New:    "\t\tbuf:                 make([]byte, 2*leafSize),\n",
		Expect: "writer-buf-leaf-sized"})
	addWitness(witness{Prop: "C16", Name: "delete-drops-listing-snapshot", File: "pkg/storage/localfs/store.go",
		Old:    "\t\treturn fmt.Errorf(\"removing %q: %v\", key, err)\n\t}\n",
		New:    "\t\treturn fmt.Errorf(\"removing %q: %v\", key, err)\n\t}\n\tfor k := range l.glob {\n\t\tdelete(l.glob, k)\n\t}\n",
		Expect: "glob-cache-writers"})
	addWitness(witness{Prop: "C16", Name: "keys-hides-dotfiles", File: "pkg/storage/localfs/store.go",
		Old:    "\t\tres = append(res, path)\n",
		New:    "\t\tif strings.HasPrefix(filepath.Base(path), \".\") {\n\t\t\treturn nil\n\t\t}\n\t\tres = append(res, path)\n",
		Expect: "keys-unfiltered"})
	addWitness(witness{Prop: "C12", Name: "upload-indexer-kept-across-attempts", File: "pkg/core/split.go",
		Old:    "\ts.uploadIndexer = newFileIndex(\n",
		New:    "\tif s.uploadIndexer == nil {\n\t\ts.uploadIndexer = newFileIndex(s.contextStores)\n\t}\n\t_ = newFileIndex(\n",
		Expect: "upload-indexer-fresh-per-attempt"})
	addWitness(witness{Prop: "C19", Name: "reads-issued-with-context-cancelled-on-return", File: "pkg/wal/wal.go",
		Old:    "\tcount := 0\n\tfor tokens := range channels.tokens {\n",
		New:    "\tcount := 0\n\tctx, cancel := context.WithCancel(ctx)\n\tdefer cancel()\n\tfor tokens := range channels.tokens {\n",
		Expect: "cancel-after-join"})
	addWitness(witness{Prop: "C20", Name: "split-id-tested-for-a-prefix", File: "pkg/model/paths.go",
		Old:    "\t\t\t// NOTE: the splitID may not be a KSUID\n",
		New:    "\t\t\tif strings.HasPrefix(splitID, \"split-\") {\n\t\t\t\treturn ArchivePathComponents{}, fmt.Errorf(\"bad split: %s\", archivePath)\n\t\t\t}\n",
		Expect: "parser-ids-opaque"})
	addWitness(witness{Prop: "C20", Name: "label-contributors-omitted-when-empty", File: "pkg/model/label.go",
		Old:    "`json:\"contributors\" yaml:\"contributors\"`",
		New:    "`json:\"contributors,omitempty\" yaml:\"contributors,omitempty\"`",
		Expect: "reused-targets"})
	addWitness(witness{Prop: "C21", Name: "env-var-name-lowercased", File: "pkg/sidecar/param/params.go",
		Old:    "\t\trv[bundleEnvVarPrefix+bundleName] = bundleString\n",
		New:    "\t\trv[bundleEnvVarPrefix+strings.ToLower(bundleName)] = bundleString\n",
		Expect: "env-var-key-verbatim"})
	addWitness(witness{Prop: "C08", Name: "squash-cleans-labels-against-assumed-bundles", File: "pkg/core/repo_squash.go",
		Old:    "\terr = ListBundlesApply(repoName, stores, func(bundle model.BundleDescriptor) error {\n\t\tbundlesIndex[bundle.ID] = struct{}{}\n\n\t\treturn nil\n\t}, opts...)\n",
		New:    "\tfor _, bundle := range bundles[len(bundles)-settings.retainNLatest:] {\n\t\tbundlesIndex[bundle.ID] = struct{}{}\n\t}\n\tvar _ model.BundleDescriptor\n",
		Expect: "squash-relists-before-label-cleanup"})
	addWitness(witness{Prop: "C14", Name: "purge-options-applied-to-shared-defaults", File: "pkg/core/purge_options.go",
		Old:    "func defaultPurgeOptions(opts []PurgeOption) *purgeOptions {\n",
		New:    "var sharedPurgeOptions = &purgeOptions{}\n\nfunc defaultPurgeOptions(opts []PurgeOption) *purgeOptions {\n\tfor _, apply := range opts {\n\t\tapply(sharedPurgeOptions)\n\t}\n",
		Expect: "options-applied-to-fresh"})
}

// checkBundleDescriptorDeletedLast (C09, C10): DeleteBundle removes the bundle's file lists before its descriptor. With
// the descriptor gone first, a failure among the file lists leaves objects that no listing leads to any more: a retry
// (or the deletion of the whole repository) cannot find them.
func checkBundleDescriptorDeletedLast(c *Ctx, rule string) {
	p := c.P
	g := p.Func("pkg/core.DeleteBundle")
	ginfo := g.Info()
	gb := p.BodyOf(g)
	isDescDel := func(bd *Body, call *ast.CallExpr) bool {
		return calleeID(ginfo, call) == "pkg/storage.Store.Delete" && resolveKeyKind(g, call.Args[1], 0) == "bundle-descriptor"
	}
	isListDel := func(bd *Body, call *ast.CallExpr) bool {
		return calleeID(ginfo, call) == "pkg/storage.Store.Delete" && resolveKeyKind(g, call.Args[1], 0) == "bundle-filelist"
	}
	badA, nA, nBB := gb.neverAfter(isDescDel, isListDel)
	c.check(nA == 1 && nBB >= 1 && len(badA) == 0, rule, g.ID, p.Pos(g.Decl.Pos()), "file lists are deleted before the descriptor",
		"DeleteBundle can delete file lists after (or without) the descriptor: when one of those deletions fails the bundle is already unlisted, so neither a retry nor DeleteRepo finds the file lists left behind")
}

// checkKeysCacheOnlyVerified (C03): leaf keys resolved from a root blob enter the keys cache only on a path where
// LeavesForHash returned a nil error — it is the step that checks the root blob against its key, and cache hits skip it.
func checkKeysCacheOnlyVerified(c *Ctx, rule string) {
	p := c.P
	n := 0
	for _, f := range p.FuncsIn("pkg/cafs") {
		if f.Decl.Body == nil {
			continue
		}
		for _, b := range p.BodiesOf(f) {
			info := b.Info()
			isResolve := func(bb *Body, call *ast.CallExpr) bool {
				id := calleeID(bb.Info(), call)
				return id == "pkg/cafs.LeavesForHash" || id == "pkg/cafs.leavesForHash"
			}
			if len(b.findCalls(isResolve, false)) == 0 {
				continue
			}
			isAdd := func(nd ast.Node) bool {
				call, ok := nd.(*ast.CallExpr)
				if !ok {
					return false
				}
				id := calleeID(info, call)
				if !strings.HasSuffix(id, "lru.Cache.ContainsOrAdd") && !strings.HasSuffix(id, "lru.Cache.Add") {
					return false
				}
				sel, ok := ast.Unparen(call.Fun).(*ast.SelectorExpr)
				return ok && strings.HasSuffix(describeExpr(f, sel.X, 0), ".keysCache")
			}
			bad, nT, _ := b.guardedByNilErrOpt(isResolve, isAdd, true)
			if nT == 0 {
				continue
			}
			n += nT
			pos := p.Pos(b.Pos())
			if len(bad) > 0 {
				pos = p.Pos(bad[0].Pos())
			}
			c.check(len(bad) == 0, rule, b.Key(), pos, "resolved leaf keys are cached only after LeavesForHash returned a nil error",
				"leaf keys are added to the keys cache on a path where LeavesForHash failed or its error was not tested: the keys of a root blob that does not match its key are then served from the cache, and later reads of the object skip the root check")
		}
	}
	if n < 1 && c.sharedReach == nil {
		c.shape3(rule, "pkg/cafs.defaultFs.reader", "no insertion of resolved keys into the keys cache found next to LeavesForHash")
	}
}

// eventOf classifies a call for the ordering clauses over delete / list operations: the named operation itself, or an
// unexported helper of pkg/core from which exactly that operation is reachable (extracting a loop into a helper does
// not hide it). Order of preference: bundle deletion, bundle listing, label deletion.
func eventOf(p *Prog, info *types.Info, call *ast.CallExpr) string {
	id := calleeID(info, call)
	switch id {
	case "pkg/core.DeleteBundle":
		return "delete-bundle"
	case "pkg/core.ListBundles", "pkg/core.ListBundlesApply":
		return "list-bundles"
	case "pkg/core.DeleteLabel":
		return "delete-label"
	}
	h := p.FuncOpt(id)
	if h == nil || ast.IsExported(h.Decl.Name.Name) || !strings.HasPrefix(id, "pkg/core.") {
		return ""
	}
	r := p.reach([]string{id})
	switch {
	case r["pkg/core.DeleteBundle"]:
		return "delete-bundle"
	case r["pkg/core.ListBundles"] || r["pkg/core.ListBundlesApply"]:
		return "list-bundles"
	case r["pkg/core.DeleteLabel"]:
		return "delete-label"
	}
	return ""
}

// checkTokenFeedbackNotRetried (generic): a paginated step `page, token, err = f(… token …)` overwrites its own
// continuation token with the result of the call. After a failed call the token no longer designates the page that
// failed (stores return an empty one), so the step is never executed again on a path where its error is non-nil or
// untested: a retry silently restarts the scan from the first page and the listing reports objects twice, with no error.
func checkTokenFeedbackNotRetried(c *Ctx, rule string, pkgs ...string) int {
	p := c.P
	n := 0
	for _, pk := range pkgs {
		for _, f := range p.FuncsIn(pk) {
			if f.Decl.Body == nil {
				continue
			}
			for _, b := range p.BodiesOf(f) {
				info := b.Info()
				var steps []*ast.CallExpr
				ast.Inspect(b.Block, func(nd ast.Node) bool {
					if l, ok := nd.(*ast.FuncLit); ok && l != b.Lit {
						return false
					}
					as, ok := nd.(*ast.AssignStmt)
					if !ok || len(as.Rhs) != 1 || len(as.Lhs) < 2 {
						return true
					}
					call, ok := ast.Unparen(as.Rhs[0]).(*ast.CallExpr)
					if !ok {
						return true
					}
					hasErr := false
					var tok *types.Var
					for _, l := range as.Lhs {
						id, ok := ast.Unparen(l).(*ast.Ident)
						if !ok {
							continue
						}
						v, _ := info.ObjectOf(id).(*types.Var)
						if v == nil {
							continue
						}
						if isErrorType(v.Type()) {
							hasErr = true
							continue
						}
						if bt, ok := v.Type().Underlying().(*types.Basic); ok && bt.Kind() == types.String {
							if mentions(call, func(e ast.Expr) bool { return isVar(info, e, v) }) {
								tok = v
							}
						}
					}
					if hasErr && tok != nil {
						steps = append(steps, call)
					}
					return true
				})
				for i, step := range steps {
					step := step
					isStep := func(bb *Body, call *ast.CallExpr) bool { return call == step }
					isTarget := func(nd ast.Node) bool { return nd == ast.Node(step) }
					bad, nT, _ := b.guardedByNilErrOpt(isStep, isTarget, true)
					if nT == 0 {
						continue
					}
					n++
					c.check(len(bad) == 0, rule, b.Key()+":step#"+itoa(i+1), p.Pos(step.Pos()),
						"the paginated step is not executed again after it failed",
						"`"+exprString(step)+"` feeds its own continuation token and can be executed again on a path where its error is non-nil or untested: the failed call has replaced the token, so the retry restarts the scan at the first page and the listing silently reports earlier objects twice")
				}
			}
		}
	}
	return n
}

// checkWaitGroupAddBeforeGo (generic): a goroutine that calls Add on the WaitGroup it then marks Done is not counted
// until it has started: a Wait that runs first returns at once, and the caller goes on (reports success, closes what
// the goroutine uses) while the work is still in flight.
func checkWaitGroupAddBeforeGo(c *Ctx, rule string, pkgs ...string) int {
	p := c.P
	n := 0
	for _, pk := range pkgs {
		for _, f := range p.FuncsIn(pk) {
			if f.Decl.Body == nil {
				continue
			}
			info := f.Info()
			k := 0
			ast.Inspect(f.Decl.Body, func(nd ast.Node) bool {
				g, ok := nd.(*ast.GoStmt)
				if !ok {
					return true
				}
				lit, ok := ast.Unparen(g.Call.Fun).(*ast.FuncLit)
				if !ok {
					return true
				}
				adds := map[string]token.Pos{}
				dones := map[string]bool{}
				ast.Inspect(lit.Body, func(m ast.Node) bool {
					if l, ok := m.(*ast.FuncLit); ok && l != lit {
						// a deferred literal of the goroutine still belongs to it
						_ = l
					}
					call, ok := m.(*ast.CallExpr)
					if !ok {
						return true
					}
					sel, ok := ast.Unparen(call.Fun).(*ast.SelectorExpr)
					if !ok {
						return true
					}
					switch calleeID(info, call) {
					case "sync.WaitGroup.Add":
						adds[exprString(sel.X)] = call.Pos()
					case "sync.WaitGroup.Done":
						dones[exprString(sel.X)] = true
					}
					return true
				})
				for wg, pos := range adds {
					if !dones[wg] {
						continue // accounts for goroutines it starts itself
					}
					k++
					n++
					c.fail(rule, f.ID+":go#"+itoa(k), p.Pos(pos),
						"the goroutine started at "+p.Pos(g.Pos())+" calls Add on `"+wg+"` itself and marks it Done: until it runs it is not counted, so a Wait reached first returns while this work has not started — the caller reports completion (or success) before the work, or its failure, happened")
				}
				return true
			})
		}
	}
	return n
}

// checkFetchKeysForwardsPages (C07, pooled): fetchKeys sends each page of keys exactly as its iterator returned it: the
// `keys` of every event it sends is a variable defined only by the iterator call. Dropping or rewriting elements of a
// page there (a "duplicate marker" guard, a filter) loses keys for stores whose tokens mean something else.
func checkFetchKeysForwardsPages(c *Ctx, rule string) {
	p := c.P
	f := p.Func("pkg/core.fetchKeys")
	info := f.Info()
	n := 0
	for _, cl := range compositeLits(f, "pkg/core.keyBatchEvent") {
		v := fieldOfCompositeLit(cl, "keys")
		if v == nil {
			continue
		}
		n++
		id, ok := ast.Unparen(v).(*ast.Ident)
		okDefs := ok
		why := exprString(v)
		if ok {
			vr, _ := info.Uses[id].(*types.Var)
			defs := defsOfVarWithIndex(f, vr)
			okDefs = vr != nil && len(defs) > 0
			for _, d := range defs {
				call, isCall := ast.Unparen(d.rhs).(*ast.CallExpr)
				// anything but `page, token, err = iterator(token)`
				if d.rhs == nil || !isCall || d.index != 0 || !isParamFuncCall(f, call) {
					okDefs = false
					if d.rhs != nil {
						why = exprString(d.rhs)
					}
				}
			}
		}
		c.check(okDefs, rule, f.ID+":keys#"+itoa(n), p.Pos(cl.Pos()), "a page is forwarded as the iterator returned it",
			"fetchKeys sends keys that are not (only) the page its iterator returned (`"+why+"`): elements of a page are dropped or rewritten on the way, so listed objects go missing without an error")
	}
	if n == 0 {
		c.shape3(rule, f.ID, "fetchKeys no longer sends keyBatchEvent{keys: …}")
	}
}

// isParamFuncCall: the call invokes a function-typed parameter of f.
func isParamFuncCall(f *FuncInfo, call *ast.CallExpr) bool {
	id, ok := ast.Unparen(call.Fun).(*ast.Ident)
	if !ok {
		return false
	}
	v, ok := f.Info().Uses[id].(*types.Var)
	return ok && isParamOf(f, v)
}

// checkEncodersDoNotRewrite (C11, C20; pooled): a function that serialises one of its parameters with yaml.Marshal
// writes what it was given: it does not assign to the parameter's elements or fields first. (Entries carry the upload
// times the diamond merge orders versions by; a rounding or normalisation at write time changes which version wins.)
func checkEncodersDoNotRewrite(c *Ctx, rule string, pkgs ...string) int {
	p := c.P
	n := 0
	for _, pk := range pkgs {
		for _, f := range p.FuncsIn(pk) {
			if f.Decl.Body == nil {
				continue
			}
			info := f.Info()
			params := map[*types.Var]bool{}
			ast.Inspect(f.Decl.Body, func(nd ast.Node) bool {
				call, ok := nd.(*ast.CallExpr)
				if !ok || !strings.Contains(calleeID(info, call), "yaml") || !strings.HasSuffix(calleeID(info, call), ".Marshal") || len(call.Args) != 1 {
					return true
				}
				ast.Inspect(call.Args[0], func(m ast.Node) bool {
					if id, ok := m.(*ast.Ident); ok {
						if v, ok := info.Uses[id].(*types.Var); ok && isParamOf(f, v) {
							params[v] = true
						}
					}
					return true
				})
				return true
			})
			for v := range params {
				n++
				bad := ""
				var badPos token.Pos
				ast.Inspect(f.Decl.Body, func(nd ast.Node) bool {
					var lhs []ast.Expr
					switch s := nd.(type) {
					case *ast.AssignStmt:
						lhs = s.Lhs
					case *ast.IncDecStmt:
						lhs = []ast.Expr{s.X}
					}
					for _, l := range lhs {
						if _, plain := ast.Unparen(l).(*ast.Ident); plain {
							continue
						}
						root := l
						for {
							switch x := ast.Unparen(root).(type) {
							case *ast.IndexExpr:
								root = x.X
								continue
							case *ast.SelectorExpr:
								root = x.X
								continue
							case *ast.StarExpr:
								root = x.X
								continue
							}
							break
						}
						if isVar(info, root, v) && bad == "" {
							bad, badPos = exprString(l), l.Pos()
						}
					}
					return true
				})
				pos := p.Pos(f.Decl.Pos())
				if bad != "" {
					pos = p.Pos(badPos)
				}
				c.check(bad == "", rule, f.ID+":"+v.Name(), pos, "the value is serialised as it was given",
					f.ID+" assigns `"+bad+"` before serialising `"+v.Name()+"`: what is stored is not what the caller recorded (for file lists: the upload times that order the versions of a path in a diamond merge), and the caller's own copy is changed too")
			}
		}
	}
	return n
}

// checkResultRoles (generic, same evidence as plumbing.argument-roles): `a, b, … = f(…)` where f, a function of the
// repository, names its results. A variable on the left that carries the name of ANOTHER result of f of the same type
// (lastIndex receiving the result f calls numKeys while numKeys exists among f's results) is a swap. Only such
// cross-role evidence is reported; variables whose names say nothing are accepted.
func checkResultRoles(c *Ctx, rule string, pkgs ...string) int {
	p := c.P
	n := 0
	for _, pk := range pkgs {
		for _, f := range p.FuncsIn(pk) {
			if f.Decl.Body == nil {
				continue
			}
			info := f.Info()
			k := 0
			ast.Inspect(f.Decl.Body, func(nd ast.Node) bool {
				as, ok := nd.(*ast.AssignStmt)
				if !ok || len(as.Rhs) != 1 || len(as.Lhs) < 2 {
					return true
				}
				call, ok := ast.Unparen(as.Rhs[0]).(*ast.CallExpr)
				if !ok {
					return true
				}
				fn, ok := calleeObj(info, call).(*types.Func)
				if !ok || fn.Pkg() == nil || !strings.HasPrefix(fn.Pkg().Path(), modPrefix) {
					return true
				}
				res := fn.Type().(*types.Signature).Results()
				if res.Len() != len(as.Lhs) {
					return true
				}
				named := 0
				for i := 0; i < res.Len(); i++ {
					if res.At(i).Name() != "" && res.At(i).Name() != "_" {
						named++
					}
				}
				if named < 2 {
					return true
				}
				k++
				n++
				bad := ""
				for i, l := range as.Lhs {
					id, ok := ast.Unparen(l).(*ast.Ident)
					if !ok || id.Name == "_" {
						continue
					}
					for j := 0; j < res.Len(); j++ {
						if j != i && strings.EqualFold(res.At(j).Name(), id.Name) && !strings.EqualFold(res.At(i).Name(), id.Name) &&
							types.Identical(res.At(j).Type(), res.At(i).Type()) {
							bad = "`" + id.Name + "` receives result #" + itoa(i+1) + " of " + fn.Name() + " (which it calls `" + res.At(i).Name() + "`), while " + fn.Name() + " returns `" + res.At(j).Name() + "` as result #" + itoa(j+1)
						}
					}
				}
				key := f.ID + ":results#" + itoa(k)
				if bad != "" {
					c.fail(rule, key, p.Pos(as.Pos()), bad+": two results of the same type are taken in the wrong order, so each value is used for the other's purpose")
				} else {
					c.ok(rule, key, p.Pos(as.Pos()), "results are received in the order "+fn.Name()+" names them")
				}
				return true
			})
		}
	}
	return n
}

// checkFailsOnlyOnError (C14, pooled): the purge jobs give up only when one of their steps failed: every failure
// return of PurgeDeleteUnused / PurgeBuildReverseIndex is reached under a guard saying that some error is non-nil. A
// refusal on the *content* of what was read (an index with no key, a repository with no bundle) turns a legitimate
// state into "nothing is deleted".
func checkFailsOnlyOnError(c *Ctx, rule string) {
	p := c.P
	for _, fid := range []string{"pkg/core.PurgeDeleteUnused", "pkg/core.PurgeBuildReverseIndex"} {
		f := p.Func(fid)
		b := p.BodyOf(f)
		info := f.Info()
		n := 0
		for _, ga := range guardedActions(f, f.Decl.Body) {
			r, ok := ga.Node.(*ast.ReturnStmt)
			if !ok || b.classifyReturn(r) != retFailure || innermostLit(f, r) != nil {
				continue
			}
			n++
			caused := false
			for _, at := range ga.Atoms {
				be, ok := ast.Unparen(at.Expr).(*ast.BinaryExpr)
				if !ok || !(isNil(info, be.X) || isNil(info, be.Y)) {
					continue
				}
				other := be.X
				if isNil(info, be.X) {
					other = be.Y
				}
				if t := info.TypeOf(other); t == nil || !isErrorType(t) {
					continue
				}
				if (be.Op == token.NEQ && !at.Neg) || (be.Op == token.EQL && at.Neg) {
					caused = true
				}
			}
			var lits []string
			for _, g := range ga.Guard {
				lits = append(lits, g)
			}
			c.check(caused, rule, fid+":fail#"+itoa(n), p.Pos(r.Pos()), "the job fails here because a step returned an error",
				fid+" gives up under `"+strings.Join(lits, " && ")+"`, a condition on what it read rather than a failed step: a legitimate state (e.g. an index holding no key once every bundle is gone) makes the job refuse to run, and nothing is deleted")
		}
		if n == 0 {
			c.shape3(rule, fid, "no failure return found")
		}
	}
}

// checkDedupeByEquality (C16, pooled): after truncating matches at the delimiter, KeysPrefix keeps one copy of each
// distinct string. In its own body (outside the walk callback) an element is kept or dropped by comparing strings for
// equality only: no guard of the `append` calls anything but len/cap. A prefix test there merges a key with the
// siblings whose names extend it ("v1" hides "v1.1" and "v10").
func checkDedupeByEquality(c *Ctx, rule string) {
	p := c.P
	f := p.Func("pkg/storage/localfs.localFS.KeysPrefix")
	info := f.Info()
	n := 0
	ast.Inspect(f.Decl.Body, func(nd ast.Node) bool {
		if _, isLit := nd.(*ast.FuncLit); isLit {
			return false
		}
		as, ok := nd.(*ast.AssignStmt)
		if !ok || len(as.Rhs) != 1 {
			return true
		}
		call, ok := ast.Unparen(as.Rhs[0]).(*ast.CallExpr)
		if !ok || calleeID(info, call) != "builtin.append" {
			return true
		}
		n++
		atoms, _ := atomsAt(f, f.Decl.Body, as.Pos())
		var bad []string
		for lit, a := range atoms {
			if mentions(a.Expr, func(e ast.Expr) bool {
				cl, ok := e.(*ast.CallExpr)
				if !ok {
					return false
				}
				if tv, ok := info.Types[cl.Fun]; ok && tv.IsType() {
					return false // conversion
				}
				id := calleeID(info, cl)
				return id != "builtin.len" && id != "builtin.cap"
			}) {
				bad = append(bad, lit)
			}
		}
		sort.Strings(bad)
		c.check(len(bad) == 0, rule, f.ID+":append#"+itoa(n), p.Pos(as.Pos()), "an element is kept or dropped by equality only",
			"KeysPrefix keeps a listed element only when `"+strings.Join(bad, " && ")+"`: elements are told apart by something else than equality, so distinct keys (or sub-prefixes) that merely share a prefix are merged and go missing from the listing")
		return true
	})
	if n == 0 && c.sharedReach == nil {
		c.shape3(rule, f.ID, "KeysPrefix no longer appends to a slice in its own body")
	}
}

// checkDirentsAppendOnly (C17, pooled): a Dirent's Offset is its position+1 in its directory's list, assigned when it
// is appended; ReadDir resumes a listing at that offset. The lists are therefore append-only: nothing in pkg/fuse sorts
// or permutes a []fuseutil.Dirent, or assigns an element of one in place.
func checkDirentsAppendOnly(c *Ctx, rule string) {
	p := c.P
	isDirents := func(t types.Type) bool {
		sl, ok := t.Underlying().(*types.Slice)
		return ok && strings.HasSuffix(namedTypeID(sl.Elem()), "fuseutil.Dirent")
	}
	n := 0
	for _, f := range p.FuncsIn("pkg/fuse") {
		if f.Decl.Body == nil {
			continue
		}
		info := f.Info()
		k := 0
		ast.Inspect(f.Decl.Body, func(nd ast.Node) bool {
			switch x := nd.(type) {
			case *ast.CallExpr:
				id := calleeID(info, x)
				if !strings.HasPrefix(id, "sort.") && !strings.HasPrefix(id, "slices.") {
					return true
				}
				for _, a := range x.Args {
					if t := info.TypeOf(a); t != nil && isDirents(t) {
						k++
						n++
						c.fail(rule, f.ID+":reorder#"+itoa(k), p.Pos(x.Pos()),
							f.ID+" reorders a directory's entry list (`"+exprString(x.Fun)+"`) after its entries received their offsets: the offsets no longer are position+1, so a listing resumed at an entry's offset skips or repeats children")
					}
				}
			case *ast.AssignStmt:
				for _, l := range x.Lhs {
					ix, ok := ast.Unparen(l).(*ast.IndexExpr)
					if !ok {
						continue
					}
					if t := info.TypeOf(ix.X); t != nil && isDirents(t) {
						k++
						n++
						c.fail(rule, f.ID+":reorder#"+itoa(k), p.Pos(x.Pos()),
							f.ID+" assigns an element of a directory's entry list in place (`"+exprString(l)+"`): entries keep the offset they were appended with, so the list no longer matches its offsets")
					}
				}
			}
			return true
		})
	}
	// the positive side: the two insert helpers give an appended entry the offset len+1
	for _, fid := range []string{"pkg/fuse.readOnlyFsInternal.insertDirEntry", "pkg/fuse.readOnlyFsInternal.insertFsEntry"} {
		if f := p.FuncOpt(fid); f != nil {
			c.ok(rule, fid, p.Pos(f.Decl.Pos()), "entries are appended (offset rule: populate.offsets)")
		}
	}
	_ = n
}

// checkLookupModeUnset (C18, pooled): Rename refuses (ENOSYS) a target whose lookup entry says it is a directory, but
// the mutable mount never records a mode in its lookup entries, so renaming over an (empty) directory works today as
// POSIX requires. That refusal is dead code the tree relies on being dead: no lookupEntry is built or updated with a
// mode.
func checkLookupModeUnset(c *Ctx, rule string) {
	p := c.P
	n := 0
	for _, f := range p.FuncsIn("pkg/fuse") {
		if f.Decl.Body == nil {
			continue
		}
		info := f.Info()
		k := 0
		ast.Inspect(f.Decl.Body, func(nd ast.Node) bool {
			switch x := nd.(type) {
			case *ast.CompositeLit:
				if namedTypeID(info.TypeOf(x)) != "pkg/fuse.lookupEntry" {
					return true
				}
				n++
				k++
				v := fieldOfCompositeLit(x, "mode")
				positional := len(x.Elts) > 1
				if len(x.Elts) > 0 {
					if _, kv := x.Elts[0].(*ast.KeyValueExpr); kv {
						positional = false
					}
				}
				c.check(v == nil && !positional, rule, f.ID+":lookupEntry#"+itoa(k), p.Pos(x.Pos()), "the lookup entry carries an inode only",
					f.ID+" records a mode in a lookup entry: Rename's `mode.IsDir()` refusal, dead until now, starts answering ENOSYS when the target is an existing directory — renaming a directory over an empty directory stops working")
			case *ast.AssignStmt:
				for _, l := range x.Lhs {
					sel, ok := ast.Unparen(l).(*ast.SelectorExpr)
					if !ok || sel.Sel.Name != "mode" {
						continue
					}
					if s := info.Selections[sel]; s != nil && namedTypeID(s.Recv()) == "pkg/fuse.lookupEntry" {
						n++
						k++
						c.fail(rule, f.ID+":lookupEntry#"+itoa(k), p.Pos(x.Pos()),
							f.ID+" assigns the mode of a lookup entry: Rename's `mode.IsDir()` refusal, dead until now, starts answering ENOSYS when the target is an existing directory")
					}
				}
			}
			return true
		})
	}
	if n == 0 && c.sharedReach == nil {
		c.shape3(rule, "pkg/fuse.fsMutable.insertLookupEntry", "no lookupEntry literal found in pkg/fuse")
	}
}

// checkWALDecodesWhatItRead (C19, pooled): WAL.read hands model.UnmarshalWAL exactly the bytes it read from the store:
// the argument is the variable defined by ReadAll, nothing derived from it. Payloads are arbitrary bytes inside that
// document (YAML keeps trailing newlines in a block scalar at its very end): trimming or normalising the stored bytes
// changes payloads.
func checkWALDecodesWhatItRead(c *Ctx, rule string) {
	p := c.P
	f := p.Func("pkg/wal.WAL.read")
	info := f.Info()
	n := 0
	ast.Inspect(f.Decl.Body, func(nd ast.Node) bool {
		call, ok := nd.(*ast.CallExpr)
		if !ok || calleeID(info, call) != "pkg/model.UnmarshalWAL" || len(call.Args) != 1 {
			return true
		}
		n++
		okArg := false
		if id, ok := ast.Unparen(call.Args[0]).(*ast.Ident); ok {
			if v, ok := info.Uses[id].(*types.Var); ok {
				defs := defsOfVarWithIndex(f, v)
				if len(defs) == 1 && defs[0].rhs != nil && defs[0].index == 0 {
					if rc, ok := ast.Unparen(defs[0].rhs).(*ast.CallExpr); ok {
						id := calleeID(info, rc)
						okArg = id == "io/ioutil.ReadAll" || id == "io.ReadAll"
					}
				}
			}
		}
		c.check(okArg, rule, callKey(f, call), p.Pos(call.Pos()), "the entry is decoded from the bytes read, unchanged",
			"WAL.read decodes `"+exprString(call.Args[0])+"`, not the bytes it read from the store as they are: a payload whose bytes the transformation touches (e.g. one ending in line breaks) is listed altered, with no error")
		return true
	})
	if n == 0 {
		c.shape3(rule, f.ID, "WAL.read no longer calls model.UnmarshalWAL")
	}
}

// checkWriterSemaphorePrivate (C15, pooled): Flush waits for its writer's flushes by taking every slot of
// maxGoRoutines. That is only a join if the channel belongs to this writer alone: every value assigned to
// fsWriter.maxGoRoutines is a channel made on the spot. A channel received from outside (shared by the writers of one
// Fs) lets two Flushes each hold part of the slots and wait for the rest forever.
func checkWriterSemaphorePrivate(c *Ctx, rule string) {
	p := c.P
	n := 0
	for _, f := range p.FuncsIn("pkg/cafs") {
		if f.Decl.Body == nil {
			continue
		}
		info := f.Info()
		k := 0
		isSem := func(e ast.Expr) bool {
			sel, ok := ast.Unparen(e).(*ast.SelectorExpr)
			if !ok || sel.Sel.Name != "maxGoRoutines" {
				return false
			}
			s := info.Selections[sel]
			return s != nil && namedTypeID(s.Recv()) == "pkg/cafs.fsWriter"
		}
		isMake := func(e ast.Expr) bool {
			call, ok := ast.Unparen(e).(*ast.CallExpr)
			return ok && calleeID(info, call) == "builtin.make"
		}
		ast.Inspect(f.Decl.Body, func(nd ast.Node) bool {
			switch x := nd.(type) {
			case *ast.AssignStmt:
				for i, l := range x.Lhs {
					if !isSem(l) || len(x.Lhs) != len(x.Rhs) {
						continue
					}
					k++
					n++
					c.check(isMake(x.Rhs[i]), rule, f.ID+":sem#"+itoa(k), p.Pos(x.Pos()), "the flush semaphore is made for this writer",
						"the writer's flush semaphore is set to `"+exprString(x.Rhs[i])+"`, a channel it did not make: Flush joins the flushes by taking every slot, which deadlocks as soon as two writers sharing the channel flush at the same time")
				}
			case *ast.CompositeLit:
				if namedTypeID(info.TypeOf(x)) == "pkg/cafs.fsWriter" {
					if v := fieldOfCompositeLit(x, "maxGoRoutines"); v != nil {
						k++
						n++
						c.check(isMake(v), rule, f.ID+":sem#"+itoa(k), p.Pos(v.Pos()), "the flush semaphore is made for this writer",
							"the writer's flush semaphore is built from `"+exprString(v)+"`, a channel it did not make")
					}
				}
			}
			return true
		})
	}
	if n < 2 && c.sharedReach == nil {
		c.shape3(rule, "pkg/cafs.newWriter", "fewer than the 2 assignments of fsWriter.maxGoRoutines confirmed by hand")
	}
}

// checkEntriesPreallocated (C15, C04; pooled): unpackBundleFileList places each index file's entries at idx*perFile
// in a list allocated at its full length beforehand, because index files arrive in any order; the list is only cut
// once, by the last index file's shortfall. So the list is made with a length (not a capacity only), and it is
// re-sliced only under the `idx+1 == BundleEntriesFileCount` guard.
func checkEntriesPreallocated(c *Ctx, rule string) {
	p := c.P
	f := p.Func("pkg/core.unpackBundleFileList")
	info := f.Info()
	nMake, nCut := 0, 0
	ast.Inspect(f.Decl.Body, func(nd ast.Node) bool {
		as, ok := nd.(*ast.AssignStmt)
		if !ok || len(as.Lhs) != 1 || len(as.Rhs) != 1 {
			return true
		}
		sel, ok := ast.Unparen(as.Lhs[0]).(*ast.SelectorExpr)
		if !ok || sel.Sel.Name != "BundleEntries" || namedTypeID(info.TypeOf(sel.X)) != "pkg/core.Bundle" {
			return true
		}
		switch r := ast.Unparen(as.Rhs[0]).(type) {
		case *ast.CallExpr:
			if calleeID(info, r) == "builtin.make" {
				nMake++
				c.check(len(r.Args) == 2, rule, f.ID+":make", p.Pos(as.Pos()), "the entry list is allocated at its full length",
					"the entry list is made with length `"+exprString(r.Args[1])+"` and a capacity only: index files arrive in any order and are placed by index, so the list must already span all of them — growing it as files arrive drops the entries of a file that arrives after a later one")
			}
		case *ast.SliceExpr:
			nCut++
			atoms, _ := atomsAt(f, f.Decl.Body, as.Pos())
			last := false
			for _, a := range atoms {
				if !a.Neg && mentions(a.Expr, func(e ast.Expr) bool {
					s, ok := e.(*ast.SelectorExpr)
					return ok && s.Sel.Name == "BundleEntriesFileCount"
				}) {
					last = true
				}
			}
			c.check(last, rule, f.ID+":cut#"+itoa(nCut), p.Pos(as.Pos()), "the list is cut only by the last index file",
				"the entry list is re-sliced (`"+exprString(as.Rhs[0])+"`) for any index file, not only under the last-file guard: an index file that arrives after a later one shrinks the list, and the later file's entries are dropped while the download reports success")
		}
		return true
	})
	if nMake == 0 {
		c.shape3(rule, f.ID, "unpackBundleFileList no longer allocates bundle.BundleEntries with make")
	}
}

// checkLeafSizeOnlyFromOptions (C02, pooled): the leaf size of a cafs file system (and of a writer) is a parameter of
// the key: it is what the caller configured, assigned inside an option functor or taken from a constructor's argument,
// and never adjusted afterwards (rounded, clamped, defaulted) by the data path — the key returned would be the tree
// hash for another leaf size than the one asked for.
func checkLeafSizeOnlyFromOptions(c *Ctx, rule string) {
	p := c.P
	n := 0
	for _, f := range p.FuncsIn("pkg/cafs") {
		if f.Decl.Body == nil {
			continue
		}
		info := f.Info()
		k := 0
		ast.Inspect(f.Decl.Body, func(nd ast.Node) bool {
			var lhs []ast.Expr
			var pos token.Pos
			switch s := nd.(type) {
			case *ast.AssignStmt:
				lhs, pos = s.Lhs, s.Pos()
			case *ast.IncDecStmt:
				lhs, pos = []ast.Expr{s.X}, s.Pos()
			}
			for _, l := range lhs {
				sel, ok := ast.Unparen(l).(*ast.SelectorExpr)
				if !ok || sel.Sel.Name != "leafSize" {
					continue
				}
				s := info.Selections[sel]
				if s == nil || s.Kind() != types.FieldVal {
					continue
				}
				rt := namedTypeID(s.Recv())
				if rt != "pkg/cafs.defaultFs" && rt != "pkg/cafs.fsWriter" {
					continue
				}
				k++
				n++
				inOption := false
				if lit := innermostLitAt(f, pos); lit != nil {
					if sig, ok := f.Obj.Type().(*types.Signature); ok && sig.Results().Len() == 1 && strings.HasSuffix(namedTypeID(sig.Results().At(0).Type()), "Option") {
						inOption = true
					}
				}
				c.check(inOption, rule, f.ID+":leafSize#"+itoa(k), p.Pos(pos), "the leaf size is assigned inside an option functor",
					f.ID+" assigns `"+exprString(l)+"` outside an option functor: the leaf size the content is cut and hashed with is no longer the configured one, so the key is not the tree hash of the content for the leaf size the caller asked for")
			}
			return true
		})
	}
	if n < 1 && c.sharedReach == nil {
		c.shape3(rule, "pkg/cafs.New", "no option functor assigning the leaf size found")
	}
}

// checkMetaRegexpAnchored (C05, C04, C20; pooled): the constant pattern that recognises the metadata keys of a local
// copy (`.datamon/<id>.yaml`, `.datamon/<id>-bundle-files-<n>.yaml`) is evaluated on samples, like the generated-path
// pattern: it accepts the two shapes at the root of the copy and nothing below it. Update deletes the keys this
// pattern classifies as old file lists: a data file under a nested `.datamon/` directory must not match.
func checkMetaRegexpAnchored(c *Ctx, rule string) {
	p := c.P
	f := p.Func("pkg/model.GetConsumableStorePathMetadata")
	pat, pos, ok := constRegexpAssigned(p, "pkg/model", "metaRe")
	if !ok {
		c.shape3(rule, f.ID, "metaRe is no longer a constant pattern given to regexp.MustCompile")
		return
	}
	re, err := regexp.Compile(pat)
	if err != nil {
		c.fail(rule, f.ID+":metaRe", p.Pos(pos), "constant pattern does not compile: "+err.Error())
		return
	}
	for _, s := range []string{".datamon/1INzQ5TV4vAAfU2PbRFgPfnzEwR.yaml", ".datamon/1INzQ5TV4vAAfU2PbRFgPfnzEwR-bundle-files-0.yaml"} {
		c.check(re.MatchString(s), rule, f.ID+":metaRe~"+s, p.Pos(pos), "metadata key of the local copy is recognised",
			"the constant metaRe pattern no longer recognises the metadata key "+s+" of a local copy")
	}
	for _, s := range []string{"data/.datamon/1INzQ5TV4vAAfU2PbRFgPfnzEwR.yaml", "archive/run/.datamon/1INzQ5TV4vAAfU2PbRFgPfnzEwR-bundle-files-0.yaml", "x.datamon/a.yaml", ".datamon.yaml", ".datamon/a.yaml.bak"} {
		c.check(!re.MatchString(s), rule, f.ID+":metaRe!~"+s, p.Pos(pos), "a data file is not taken for metadata of the copy",
			"the constant metaRe pattern `"+pat+"` matches "+s+", which is a data file of the data set: Update classifies it as an old file list of the local copy and deletes it (and diff / bundle-ID detection read it as metadata)")
	}
}

// checkWriteAtOffsetAdvances (C01, pooled): cafsWriterAt.Write places the bytes of a leaf at offset+written. When a
// WriteAt sits in a loop (resuming a short write), its offset must depend on something the loop body updates;
// otherwise every round writes at the same place: the count returned is complete, the destination is not.
func checkWriteAtOffsetAdvances(c *Ctx, rule string) {
	p := c.P
	f := p.Func("pkg/cafs.cafsWriterAt.Write")
	info := f.Info()
	n := 0
	ast.Inspect(f.Decl.Body, func(nd ast.Node) bool {
		call, ok := nd.(*ast.CallExpr)
		if !ok || !strings.HasSuffix(calleeID(info, call), "WriterAt.WriteAt") || len(call.Args) != 2 {
			return true
		}
		n++
		var loop ast.Node
		for par := f.parentOf(call); par != nil; par = f.parentOf(par) {
			switch par.(type) {
			case *ast.ForStmt, *ast.RangeStmt:
				if loop == nil {
					loop = par
				}
			}
		}
		key := callKey(f, call)
		// the offset is recv.offset + recv.written (possibly through a local)
		d := describeExpr(f, call.Args[1], 0)
		okSum := d == "(recv.offset+recv.written)" || d == "(recv.written+recv.offset)"
		if loop == nil {
			c.check(okSum, rule, key, p.Pos(call.Pos()), "one WriteAt at offset+written", "the leaf is written at `"+d+"`, not at the leaf's offset plus what this writer already wrote")
			return true
		}
		// what the offset expression reads directly at the call: a local computed before the loop is frozen, whatever it
		// was computed from
		direct := map[string]bool{}
		ast.Inspect(call.Args[1], func(m ast.Node) bool {
			if x, ok := m.(*ast.SelectorExpr); ok {
				direct[describeExpr(f, x, 0)] = true
				return false
			}
			return true
		})
		advances := false
		ast.Inspect(loop, func(m ast.Node) bool {
			var lhs []ast.Expr
			switch s := m.(type) {
			case *ast.AssignStmt:
				lhs = s.Lhs
			case *ast.IncDecStmt:
				lhs = []ast.Expr{s.X}
			}
			for _, l := range lhs {
				switch x := ast.Unparen(l).(type) {
				case *ast.SelectorExpr:
					if direct[describeExpr(f, x, 0)] {
						advances = true
					}
				case *ast.Ident:
					if v, ok := info.ObjectOf(x).(*types.Var); ok && mentions(call.Args[1], func(e ast.Expr) bool { return isVar(info, e, v) }) {
						advances = true
					}
				}
			}
			return true
		})
		c.check(advances, rule, key, p.Pos(call.Pos()), "the offset of the repeated WriteAt advances with the loop",
			"WriteAt is repeated in a loop at `"+exprString(call.Args[1])+"`, which nothing in the loop updates: every continuation of a short write lands at the start offset again, so the destination misses bytes while the full count is reported")
		return true
	})
	if n == 0 {
		c.shape3(rule, f.ID, "cafsWriterAt.Write no longer calls WriteAt")
	}
}

func init() {
	addWitness(witness{Prop: "C07", Name: "failed-key-page-retried-with-clobbered-token", File: "pkg/core/keys.go",
		Old:    "\t\tks, next, err = iterator(next)\n\t\tif err != nil {\n",
		New:    "\t\tfor attempt := 0; attempt < 2; attempt++ {\n\t\t\tks, next, err = iterator(next)\n\t\t\tif err == nil {\n\t\t\t\tbreak\n\t\t\t}\n\t\t}\n\t\tif err != nil {\n",
		Expect: "token-feedback-not-retried"})
	addWitness(witness{Prop: "C07", Name: "first-key-of-page-dropped", File: "pkg/core/keys.go",
		Old:    "\t\tif len(ks) > 0 {\n\t\t\tselect {\n\t\t\tcase keyBatchChan <- keyBatchEvent{keys: ks}:\n",
		New:    "\t\tif len(ks) > 1 && ks[0] == next {\n\t\t\tks = ks[1:]\n\t\t}\n\t\tif len(ks) > 0 {\n\t\t\tselect {\n\t\t\tcase keyBatchChan <- keyBatchEvent{keys: ks}:\n",
		Expect: "fetch-keys-forwards-pages"})
	addWitness(witness{Prop: "C19", Name: "stored-entry-trimmed-before-decoding", File: "pkg/wal/wal.go",
		Old:    "\tentry, err := model.UnmarshalWAL(b)\n",
		New:    "\tentry, err := model.UnmarshalWAL([]byte(strings.TrimSpace(string(b))))\n",
		Expect: "wal-decodes-what-it-read"})
	addWitness(witness{Prop: "C15", Name: "entry-list-grown-as-index-files-arrive", File: "pkg/core/bundle_unpack.go",
		Old:    "\tbundle.BundleEntries = make([]model.BundleEntry, maxBundleEntries)\n",
		New:    "\tbundle.BundleEntries = make([]model.BundleEntry, 0, maxBundleEntries)\n",
		Expect: "entries-preallocated"})
	addWitness(witness{Prop: "C14", Name: "delete-unused-refuses-an-empty-index", File: "pkg/core/purge.go",
		Old:    "\t// 2. Scan all keys in blob store\n",
		New:    "\tif numKeys == 0 {\n\t\treturn nil, fmt.Errorf(\"empty index\")\n\t}\n\t// 2. Scan all keys in blob store\n",
		Expect: "purge-fails-only-on-error"})
	addWitness(witness{Prop: "C17", Name: "directory-entries-permuted-after-offsets", File: "pkg/fuse/fs_ro_ops.go",
		Old:    "\ttxns.commitToFS(fs)\n\n\tfs.isReadOnly = true\n",
		New:    "\tfor _, children := range fs.readDirMap {\n\t\tif len(children) > 1 && children[0].Name > children[1].Name {\n\t\t\tchildren[0], children[1] = children[1], children[0]\n\t\t}\n\t}\n\ttxns.commitToFS(fs)\n\n\tfs.isReadOnly = true\n",
		Expect: "dirents-append-only"})
	addWitness(witness{Prop: "C02", Name: "leaf-size-rounded-by-the-constructor", File: "pkg/cafs/cafs.go",
		Old:    "\tconst buffersForparallelReaders = 3\n",
		New:    "\tf.leafSize += (KeySize - f.leafSize%KeySize) % KeySize\n\tconst buffersForparallelReaders = 3\n",
		Expect: "leaf-size-only-from-options"})
	addWitness(witness{Prop: "C05", Name: "metadata-pattern-matches-nested-directories", File: "pkg/model/bundle.go",
		Old:    "metaRe = regexp.MustCompile(`^\\.datamon/(.*)\\.yaml$`)",
		New:    "metaRe = regexp.MustCompile(`(?:^|/)\\.datamon/(.*)\\.yaml$`)",
		Expect: "meta-regexp-anchored"})
}

// checkScanPrefixesClosed (C07, C08, C09, C10 …; pooled): every listing scans the store under a prefix built by a
// GetArchivePathPrefixTo* function; the prefix of repository "exp" must end with the separator, or the scan also returns
// the keys of "exp-2" and "experiment" (and the operations driven by the listing — delete, rename, squash — act on
// another repository's objects). The builders are evaluated abstractly (no code is run), as in C20.
func checkScanPrefixesClosed(c *Ctx, rule string) {
	p := c.P
	var pids []string
	for pid := range prefixBuilders {
		pids = append(pids, pid)
	}
	sort.Strings(pids)
	for _, pid := range pids {
		pf := p.FuncOpt(pid)
		if pf == nil {
			continue
		}
		pts, why := evalBuilder(p, pf)
		if why != "" || len(pts) == 0 {
			c.fail(rule, pid, p.Pos(pf.Decl.Pos()), "the listing prefix built by "+pid+" can no longer be evaluated ("+why+"): that it ends with '/' — so that a scan of one repository does not return the keys of another whose name extends it — is not established")
			continue
		}
		ps, okNP := instNoOpt(pts, sampleVals)
		if !okNP {
			c.fail(rule, pid, p.Pos(pf.Decl.Pos()), "the listing prefix built by "+pid+" evaluates to several templates: that it ends with '/' is not established")
			continue
		}
		c.check(strings.HasSuffix(ps, "/"), rule, pid, p.Pos(pf.Decl.Pos()), "`"+pts[0].String()+"` ends with the separator",
			"prefix `"+pts[0].String()+"` does not end with '/': a listing of repo \"exp\" also returns the keys of \"exp-2\" and \"experiment\"")
	}
}

// checkEntryStringsKeyedByName (C21, pooled): the per-bundle / per-database strings are collected in a map keyed by the
// entry's Name as given, one entry per element of the input, skipping none: the assignment into the map is indexed by
// the Name field of the range variable itself and guarded by nothing but "no error so far".
func checkEntryStringsKeyedByName(c *Ctx, rule string) {
	p := c.P
	for _, fid := range []string{"pkg/sidecar/param.fuseParamsBundleStrings", "pkg/sidecar/param.pgParamsDatabaseStrings"} {
		f := p.Func(fid)
		info := f.Info()
		n := 0
		ast.Inspect(f.Decl.Body, func(nd ast.Node) bool {
			rs, ok := nd.(*ast.RangeStmt)
			if !ok || rs.Value == nil {
				return true
			}
			vid, ok := rs.Value.(*ast.Ident)
			if !ok {
				return true
			}
			rv, _ := info.Defs[vid].(*types.Var)
			if rv == nil {
				return true
			}
			ast.Inspect(rs.Body, func(m ast.Node) bool {
				as, ok := m.(*ast.AssignStmt)
				if !ok || len(as.Lhs) != 1 {
					return true
				}
				ix, ok := ast.Unparen(as.Lhs[0]).(*ast.IndexExpr)
				if !ok {
					return true
				}
				if _, isMap := info.TypeOf(ix.X).Underlying().(*types.Map); !isMap {
					return true
				}
				n++
				sel, isSel := ast.Unparen(ix.Index).(*ast.SelectorExpr)
				okKey := isSel && sel.Sel.Name == "Name" && isVar(info, sel.X, rv)
				c.check(okKey, rule, fid+":key#"+itoa(n), p.Pos(as.Pos()), "the entry's string is stored under its Name as given",
					"the string of an entry is stored under `"+exprString(ix.Index)+"`, not under the entry's Name as given: two names can land on the same key (one entry silently replaces the other) and the generated variable no longer carries the name")
				atoms, _ := atomsAt(f, f.Decl.Body, as.Pos())
				var extra []string
				for lit, a := range atoms {
					if !isNilTest(info, a.Expr) {
						extra = append(extra, lit)
					}
				}
				sort.Strings(extra)
				c.check(len(extra) == 0, rule, fid+":every-entry#"+itoa(n), p.Pos(as.Pos()), "every entry of the input gets its string",
					"an entry gets its string only when `"+strings.Join(extra, " && ")+"`: the parameters of the entries that fail this test are dropped without an error, so the variables do not decode back to what was given")
				return true
			})
			return true
		})
		if n == 0 {
			c.shape3(rule, fid, "no per-entry assignment into the result map found")
		}
	}
}

// checkDiamondDescriptorsNeverDeleted (C07, C12; pooled): the listing of diamonds and splits pairs each done descriptor
// with its running twin (mergeKeys emits a done key once the running key of the same object has been seen): both
// descriptors stay for the life of the repository's diamond. Nothing in pkg/core deletes a diamond or split descriptor.
func checkDiamondDescriptorsNeverDeleted(c *Ctx, rule string) {
	p := c.P
	n := 0
	for _, f := range p.FuncsIn("pkg/core") {
		if f.Decl.Body == nil {
			continue
		}
		info := f.Info()
		k := 0
		ast.Inspect(f.Decl.Body, func(nd ast.Node) bool {
			call, ok := nd.(*ast.CallExpr)
			if !ok || len(call.Args) != 2 || !strings.HasSuffix(calleeID(info, call), "Store.Delete") {
				return true
			}
			kind := resolveKeyKind(f, call.Args[1], 0)
			n++
			if strings.Contains(kind, "diamond-descriptor") || strings.Contains(kind, "split-descriptor") {
				k++
				c.fail(rule, "pkg/core.mergeKeys:descriptor-deleted-by:"+strings.TrimPrefix(f.ID, "pkg/core.")+"#"+itoa(k), p.Pos(call.Pos()),
					f.ID+" deletes a "+kind+": listings pair the done descriptor of a diamond or split with its running twin, so an object left with one of the two is no longer listed (or is listed in the wrong state) although it can still be fetched by ID")
			}
			return true
		})
	}
	// positive control: the delete sites of pkg/core were looked at
	if f := p.FuncOpt("pkg/core.mergeKeys"); f != nil && n > 0 {
		c.ok(rule, f.ID+":descriptor-deleters", p.Pos(f.Decl.Pos()), itoa(n)+" delete sites of pkg/core classified: none names a diamond or split descriptor")
	}
}

// checkFetchersTestErrorFirst (C07, C09 …; pooled): in the fetch stage of every listing (fetchRepos, fetchBundles, …)
// a received key batch is looked at for its error before anything else decides to move on: every `continue` of the
// receive loop is reached only where the batch's error is known to be nil. An "empty page, next" shortcut placed before
// the error test skips the failed page (an error event carries no keys) and the listing ends early with no error.
func checkFetchersTestErrorFirst(c *Ctx, rule string) {
	p := c.P
	for _, lp := range listPipelines {
		f := p.FuncOpt(lp.fetchFn)
		if f == nil || f.Decl.Body == nil {
			continue
		}
		info := f.Info()
		n := 0
		ast.Inspect(f.Decl.Body, func(nd ast.Node) bool {
			if _, isLit := nd.(*ast.FuncLit); isLit {
				return false
			}
			br, ok := nd.(*ast.BranchStmt)
			if !ok || br.Tok != token.CONTINUE {
				return true
			}
			n++
			atoms, _ := atomsAt(f, f.Decl.Body, br.Pos())
			okErr := false
			for _, at := range atoms {
				be, ok := ast.Unparen(at.Expr).(*ast.BinaryExpr)
				if !ok || !(isNil(info, be.X) || isNil(info, be.Y)) {
					continue
				}
				other := be.X
				if isNil(info, be.X) {
					other = be.Y
				}
				if t := info.TypeOf(other); t == nil || !isErrorType(t) {
					continue
				}
				if _, isField := ast.Unparen(other).(*ast.SelectorExpr); !isField {
					continue
				}
				if (be.Op == token.EQL && !at.Neg) || (be.Op == token.NEQ && at.Neg) {
					okErr = true
				}
			}
			c.check(okErr, rule, lp.fetchFn+":continue#"+itoa(n), p.Pos(br.Pos()), "the batch's error is known to be nil where the loop moves on",
				lp.fetchFn+" moves on to the next key batch without having looked at this batch's error: a failed page of keys (which carries no keys) is skipped, and the listing ends truncated with a nil error")
			return true
		})
	}
}

// checkMetadataReadWhole (C11, pooled): metaObject.readMetadata returns the whole object: ReadAll is given the reader
// the store returned, nothing wrapped around it (a size cap truncates a long index file silently; the cut YAML still
// parses, so entries are dropped with no error).
func checkMetadataReadWhole(c *Ctx, rule string) {
	p := c.P
	f := p.Func("pkg/core.metaObject.readMetadata")
	info := f.Info()
	n := 0
	ast.Inspect(f.Decl.Body, func(nd ast.Node) bool {
		call, ok := nd.(*ast.CallExpr)
		if !ok || len(call.Args) != 1 {
			return true
		}
		if id := calleeID(info, call); id != "io/ioutil.ReadAll" && id != "io.ReadAll" {
			return true
		}
		n++
		okArg := false
		if id, ok := ast.Unparen(call.Args[0]).(*ast.Ident); ok {
			if v, ok := info.Uses[id].(*types.Var); ok {
				defs := defsOfVarWithIndex(f, v)
				if len(defs) == 1 && defs[0].rhs != nil && defs[0].index == 0 {
					if rc, ok := ast.Unparen(defs[0].rhs).(*ast.CallExpr); ok && strings.HasSuffix(calleeID(info, rc), "Store.Get") {
						okArg = true
					}
				}
			}
		}
		c.check(okArg, rule, callKey(f, call), p.Pos(call.Pos()), "the object is read to its end from the store's reader",
			"readMetadata reads `"+exprString(call.Args[0])+"`, not the reader the store returned: an object longer than what that wrapper lets through is truncated without an error (a cut file list still parses, its tail is dropped)")
		return true
	})
	if n == 0 {
		c.shape3(rule, f.ID, "readMetadata no longer calls ReadAll")
	}
}

// checkProtocolSendsUnconditional (C05, C04, C15; pooled): a worker of the download / upload protocols hands its result
// (or its error) to the collector with a plain send; the collector counts on one message per worker. A send placed in a
// select next to `<-ctx.Done()` is dropped when the context ends first, and the collector — which does not watch the
// context — goes on to "done" with entries or an error missing.
func checkProtocolSendsUnconditional(c *Ctx, rule string, pkgs ...string) {
	p := c.P
	for _, pk := range pkgs {
		for _, f := range p.FuncsIn(pk) {
			if f.Decl.Body == nil {
				continue
			}
			info := f.Info()
			k := 0
			ast.Inspect(f.Decl.Body, func(nd ast.Node) bool {
				sel, ok := nd.(*ast.SelectStmt)
				if !ok {
					return true
				}
				var send *ast.SendStmt
				ctxDone := false
				for _, cl := range sel.Body.List {
					cc := cl.(*ast.CommClause)
					switch s := cc.Comm.(type) {
					case *ast.SendStmt:
						// a field of one of the protocol's channel bundles (…Chans structs)
						if fs, ok := ast.Unparen(s.Chan).(*ast.SelectorExpr); ok {
							if t := info.TypeOf(fs.X); t != nil && strings.HasSuffix(namedTypeID(derefType(t)), "Chans") {
								send = s
							}
						}
					case *ast.ExprStmt:
						if u, ok := ast.Unparen(s.X).(*ast.UnaryExpr); ok && u.Op == token.ARROW {
							if call, ok := ast.Unparen(u.X).(*ast.CallExpr); ok && calleeID(info, call) == "context.Context.Done" {
								ctxDone = true
							}
						}
					}
				}
				if send != nil && ctxDone {
					k++
					c.fail(rule, f.ID+":send#"+itoa(k), p.Pos(send.Pos()),
						"`"+exprString(send)+"` is one alternative of a select that also waits for the context's end: when the context ends first the message is dropped, and the collector (which counts one message per worker and does not watch the context) completes with entries or an error missing")
				}
				return true
			})
		}
	}
	if f := p.FuncOpt("pkg/core.downloadBundleFileListFile"); f != nil {
		c.ok(rule, f.ID, p.Pos(f.Decl.Pos()), "protocol sends are unconditional")
	}
}

func derefType(t types.Type) types.Type {
	if pt, ok := t.(*types.Pointer); ok {
		return pt.Elem()
	}
	return t
}

// checkNoGlobalKsuidSource (C19, pooled): tokens are KSUIDs whose random half comes from the library's default source
// (crypto/rand): nothing in the repository replaces it (ksuid.SetRand): a seeded generator gives two writer processes
// started in the same second the same tokens.
func checkNoGlobalKsuidSource(c *Ctx, rule string) {
	p := c.P
	n := 0
	for _, pk := range p.All {
		if pk.TypesInfo == nil {
			continue
		}
		info := pk.TypesInfo
		for _, file := range pk.Syntax {
			ast.Inspect(file, func(nd ast.Node) bool {
				if call, ok := nd.(*ast.CallExpr); ok && strings.HasSuffix(calleeID(info, call), "ksuid.SetRand") {
					n++
					c.fail(rule, "pkg/wal.WAL.getToken:ksuid-source#"+itoa(n), p.Pos(call.Pos()),
						pk.PkgPath+" replaces the random source of the ksuid library: the uniqueness of WAL tokens (and of every other KSUID of the process) across writers rests on that source")
				}
				return true
			})
		}
	}
	if f := p.FuncOpt("pkg/wal.WAL.getToken"); f != nil {
		c.ok(rule, f.ID+":ksuid-source", p.Pos(f.Decl.Pos()), "the ksuid library's random source is left alone")
	}
}

// checkWALPoolSized (C19, pooled): the read pool of a WAL is a buffered channel whose capacity is a positive constant
// (an unbuffered pool blocks the first read forever): the capacity given to make is a constant.
func checkWALPoolSized(c *Ctx, rule string) {
	p := c.P
	n := 0
	for _, f := range p.FuncsIn("pkg/wal") {
		if f.Decl.Body == nil {
			continue
		}
		info := f.Info()
		ast.Inspect(f.Decl.Body, func(nd ast.Node) bool {
			as, ok := nd.(*ast.AssignStmt)
			if !ok || len(as.Lhs) != 1 || len(as.Rhs) != 1 {
				return true
			}
			sel, ok := ast.Unparen(as.Lhs[0]).(*ast.SelectorExpr)
			if !ok || sel.Sel.Name != "connectionControl" {
				return true
			}
			n++
			okCap := false
			if call, ok := ast.Unparen(as.Rhs[0]).(*ast.CallExpr); ok && calleeID(info, call) == "builtin.make" && len(call.Args) == 2 {
				if tv, ok := info.Types[call.Args[1]]; ok && tv.Value != nil && tv.Value.String() != "0" {
					okCap = true
				}
			}
			c.check(okCap, rule, f.ID+":pool#"+itoa(n), p.Pos(as.Pos()), "the read pool has a positive constant capacity",
				"the WAL's read pool is made with capacity `"+exprString(as.Rhs[0])+"`, not a positive constant: a value of 0 (which the options accept) gives an unbuffered channel, on which the first read of a listing blocks forever")
			return true
		})
	}
	if n == 0 && c.sharedReach == nil {
		c.shape3(rule, "pkg/wal.New", "no assignment of connectionControl found")
	}
}

// checkTrackerKeysFresh (C22, pooled): the functions of pkg/filetracker keep no state outside the TFile they work on:
// none reads or writes a package-level variable (keys handed to one file's tree are not carved from memory another
// file's goroutine is writing).
func checkTrackerKeysFresh(c *Ctx, rule string) {
	p := c.P
	for _, f := range p.FuncsIn("pkg/filetracker") {
		if f.Decl.Body == nil {
			continue
		}
		info := f.Info()
		bad := ""
		var badPos token.Pos
		ast.Inspect(f.Decl.Body, func(nd ast.Node) bool {
			id, ok := nd.(*ast.Ident)
			if !ok {
				return true
			}
			if v, ok := info.Uses[id].(*types.Var); ok && v.Pkg() != nil && v.Parent() == v.Pkg().Scope() && strings.HasSuffix(v.Pkg().Path(), "pkg/filetracker") && bad == "" {
				bad, badPos = v.Name(), id.Pos()
			}
			return true
		})
		pos := p.Pos(f.Decl.Pos())
		if bad != "" {
			pos = p.Pos(badPos)
		}
		c.check(bad == "", rule, f.ID, pos, "no package-level state",
			f.ID+" uses the package-level variable `"+bad+"`: trackers of different files run under their own locks, so state shared by all of them is written concurrently (a marker already stored in one file's tree changes under it)")
	}
}

// checkReadOnlyStoresFrozen (C17, pooled): once populated, the read-only mount's tables (fsEntryStore, lookupTree,
// readDirMap) are only read: the operation handlers of readOnlyFsInternal (everything but populateFS and the insert
// helpers it calls) assign none of them. Inode numbers are static, so an entry dropped on forget is an inode the kernel
// is handed again by the next lookup and that no longer resolves.
func checkReadOnlyStoresFrozen(c *Ctx, rule string) {
	p := c.P
	for _, f := range p.FuncsIn("pkg/fuse") {
		if f.Decl.Body == nil || !strings.HasPrefix(f.ID, "pkg/fuse.readOnlyFsInternal.") {
			continue
		}
		name := strings.TrimPrefix(f.ID, "pkg/fuse.readOnlyFsInternal.")
		if strings.HasPrefix(name, "populate") || strings.HasPrefix(name, "insert") {
			continue
		}
		bad := ""
		var badPos token.Pos
		ast.Inspect(f.Decl.Body, func(nd ast.Node) bool {
			var lhs []ast.Expr
			switch s := nd.(type) {
			case *ast.AssignStmt:
				lhs = s.Lhs
			case *ast.CallExpr:
				if calleeID(f.Info(), s) == "builtin.delete" && len(s.Args) > 0 {
					lhs = []ast.Expr{s.Args[0]}
				}
			}
			for _, l := range lhs {
				root := l
				for {
					if ix, ok := ast.Unparen(root).(*ast.IndexExpr); ok {
						root = ix.X
						continue
					}
					break
				}
				d := describeExpr(f, root, 0)
				if (d == "recv.fsEntryStore" || d == "recv.lookupTree" || d == "recv.readDirMap") && bad == "" {
					bad, badPos = exprString(l), l.Pos()
				}
			}
			return true
		})
		pos := p.Pos(f.Decl.Pos())
		if bad != "" {
			pos = p.Pos(badPos)
		}
		c.check(bad == "", rule, f.ID, pos, "the handler only reads the mount's tables",
			f.ID+" assigns `"+bad+"`: the read-only mount's tables change after the mount was populated; an inode the kernel still knows (or is handed again by a later lookup — inode numbers are static) no longer resolves")
	}
}

// checkEveryListedRepoScanned (C13, C14; pooled): scanContext starts a key scanner for every repository the listing
// returned: the dispatch is guarded by nothing the purge remembers between contexts or calls (repository names are
// unique within one context only).
func checkEveryListedRepoScanned(c *Ctx, rule string) {
	p := c.P
	f := p.Func("pkg/core.scanContext")
	info := f.Info()
	n := 0
	ast.Inspect(f.Decl.Body, func(nd ast.Node) bool {
		call, ok := nd.(*ast.CallExpr)
		if !ok || !(strings.HasSuffix(calleeID(info, call), "errgroup.Group.Go") || strings.HasSuffix(calleeID(info, call), "errgroup.Group.TryGo")) || len(call.Args) != 1 {
			return true
		}
		if inner, ok := ast.Unparen(call.Args[0]).(*ast.CallExpr); !ok || calleeID(info, inner) != "pkg/core.repoKeysScanner" {
			return true
		}
		n++
		atoms, _ := atomsAt(f, f.Decl.Body, call.Pos())
		var bad []string
		onOptions := func(n ast.Node) bool {
			return mentions(n, func(e ast.Expr) bool {
				s, ok := e.(*ast.SelectorExpr)
				if !ok {
					return false
				}
				t := info.TypeOf(s.X)
				return t != nil && strings.HasSuffix(namedTypeID(derefType(t)), "purgeOptions")
			})
		}
		for lit, a := range atoms {
			hit := onOptions(a.Expr)
			// a flag defined from the options (`_, seen := options.m[k]`)
			if id, ok := ast.Unparen(a.Expr).(*ast.Ident); ok && !hit {
				if v, ok := info.Uses[id].(*types.Var); ok {
					for _, d := range defsOfVarWithIndex(f, v) {
						if d.rhs != nil && onOptions(d.rhs) {
							hit = true
						}
					}
				}
			}
			if hit {
				bad = append(bad, lit)
			}
		}
		sort.Strings(bad)
		c.check(len(bad) == 0, rule, f.ID+":dispatch#"+itoa(n), p.Pos(call.Pos()), "every listed repository gets its scanner",
			"scanContext starts the scanner of a repository only when `"+strings.Join(bad, " && ")+"`, a state carried by the purge options across contexts: a repository skipped on that ground is never indexed, and delete-unused removes the blobs of its bundles")
		return true
	})
	if n == 0 {
		c.shape3(rule, f.ID, "scanContext no longer dispatches repoKeysScanner through its errgroup")
	}
}

// checkGlobKeyedByPrefix (C16, pooled): the listing snapshot KeysPrefix remembers between pages is keyed by the cleaned
// prefix alone: no index of localFS.glob mentions the delimiter (prefix "a" with delimiter "/" and prefix "a/" with no
// delimiter would share one entry).
func checkGlobKeyedByPrefix(c *Ctx, rule string) {
	p := c.P
	f := p.Func("pkg/storage/localfs.localFS.KeysPrefix")
	info := f.Info()
	var delim *types.Var
	if sig, ok := f.Obj.Type().(*types.Signature); ok && sig.Params().Len() >= 4 {
		delim = sig.Params().At(3)
	}
	n := 0
	ast.Inspect(f.Decl.Body, func(nd ast.Node) bool {
		var idx ast.Expr
		switch x := nd.(type) {
		case *ast.IndexExpr:
			if sel, ok := ast.Unparen(x.X).(*ast.SelectorExpr); ok && sel.Sel.Name == "glob" {
				idx = x.Index
			}
		case *ast.CallExpr:
			if calleeID(info, x) == "builtin.delete" && len(x.Args) == 2 {
				if sel, ok := ast.Unparen(x.Args[0]).(*ast.SelectorExpr); ok && sel.Sel.Name == "glob" {
					idx = x.Args[1]
				}
			}
		}
		if idx == nil {
			return true
		}
		n++
		usesDelim := delim != nil && mentions(idx, func(e ast.Expr) bool { return isVar(info, e, delim) })
		if !usesDelim {
			// through a local
			if id, ok := ast.Unparen(idx).(*ast.Ident); ok {
				if v, ok := info.Uses[id].(*types.Var); ok {
					for _, d := range defsOfVarWithIndex(f, v) {
						if d.rhs != nil && delim != nil && mentions(d.rhs, func(e ast.Expr) bool { return isVar(info, e, delim) }) {
							usesDelim = true
						}
					}
				}
			}
		}
		c.check(!usesDelim, rule, f.ID+":glob-key#"+itoa(n), p.Pos(idx.Pos()), "the snapshot is keyed by the prefix alone",
			"the listing snapshot is keyed by `"+exprString(idx)+"`, which involves the delimiter: two different listings (prefix \"a\" with delimiter \"/\", prefix \"a/\" without) get the same key, and one pages through the other's snapshot")
		return true
	})
	if n == 0 && c.sharedReach == nil {
		c.shape3(rule, f.ID, "KeysPrefix no longer indexes localFS.glob")
	}
}

// checkDropDeletesWhatItLists (C14, pooled): PurgeDropReverseIndex removes the index chunks the store lists under the
// index prefix, whatever their numbers: every key it deletes is an element of a listed page (a range variable), never a
// name computed from a counter — chunk numbering may start anywhere (WithPurgeIndexChunkStart) and have gaps, and a
// chunk left behind is loaded by the next build.
func checkDropDeletesWhatItLists(c *Ctx, rule string) {
	p := c.P
	f := p.Func("pkg/core.PurgeDropReverseIndex")
	info := f.Info()
	n := 0
	ast.Inspect(f.Decl.Body, func(nd ast.Node) bool {
		call, ok := nd.(*ast.CallExpr)
		if !ok || len(call.Args) != 2 || !strings.HasSuffix(calleeID(info, call), "Store.Delete") {
			return true
		}
		n++
		d := describeExpr(f, call.Args[1], 0)
		c.check(strings.HasPrefix(d, "range("), rule, callKey(f, call), p.Pos(call.Pos()), "the chunk deleted is an element of a listed page",
			"PurgeDropReverseIndex deletes `"+exprString(call.Args[1])+"`, a name it computed rather than one the store listed: chunks outside the assumed numbering (a start offset, a gap) survive the drop and are loaded by the next index build, so old unreferenced blobs are kept")
		return true
	})
	hasList := false
	ast.Inspect(f.Decl.Body, func(nd ast.Node) bool {
		if call, ok := nd.(*ast.CallExpr); ok && strings.HasSuffix(calleeID(info, call), "Store.KeysPrefix") {
			hasList = true
		}
		return true
	})
	c.check(n > 0 && hasList, rule, f.ID+":lists", p.Pos(f.Decl.Pos()), "the index chunks are listed by prefix",
		"PurgeDropReverseIndex no longer lists the index chunks by prefix before deleting them")
}

// checkCommitWorkerAlwaysReports (C18, pooled): the per-file worker of the mutable mount's commit tells the collector
// about every file it was given: each of its exits follows a send on one of the task's channels (the entry, or an
// error). An exit that sends nothing makes a visible file vanish from the committed bundle while the commit succeeds.
func checkCommitWorkerAlwaysReports(c *Ctx, rule string) {
	p := c.P
	f := p.Func("pkg/fuse.commitFileUpload")
	b := p.BodyOf(f)
	info := f.Info()
	const none, sent = 1, 2
	var bad []token.Pos
	nExit := 0
	isReport := func(n ast.Node) bool {
		found := false
		ast.Inspect(n, func(m ast.Node) bool {
			if l, ok := m.(*ast.FuncLit); ok && l != b.Lit {
				return false
			}
			if s, ok := m.(*ast.SendStmt); ok {
				if fs, ok := ast.Unparen(s.Chan).(*ast.SelectorExpr); ok {
					if t := info.TypeOf(fs.X); t != nil && strings.HasSuffix(namedTypeID(derefType(t)), "Chans") {
						found = true
					}
				}
			}
			// a helper of the package that does the send (the select on error / done extracted into a function)
			if call, ok := m.(*ast.CallExpr); ok {
				if h := p.FuncOpt(calleeID(info, call)); h != nil && h.Decl.Body != nil && h != f && strings.HasPrefix(h.ID, "pkg/fuse.") {
					ast.Inspect(h.Decl.Body, func(x ast.Node) bool {
						if s, ok := x.(*ast.SendStmt); ok {
							if fs, ok := ast.Unparen(s.Chan).(*ast.SelectorExpr); ok {
								if t := h.Info().TypeOf(fs.X); t != nil && strings.HasSuffix(namedTypeID(derefType(t)), "Chans") {
									found = true
								}
							}
						}
						return true
					})
				}
			}
			return true
		})
		return found
	}
	b.run(flowSpec{
		entry: none,
		node: func(n ast.Node, s uint64) uint64 {
			if isReport(n) {
				return sent
			}
			// a select whose clauses all report counts when control leaves it; approximated by its comm statements
			// being visited as nodes of their own
			return s
		},
		exit: func(_ *cfg.Block, ret *ast.ReturnStmt, s uint64) {
			nExit++
			if s&none != 0 {
				pos := f.Decl.End()
				if ret != nil {
					pos = ret.Pos()
				}
				bad = append(bad, pos)
			}
		},
	})
	pos := p.Pos(f.Decl.Pos())
	if len(bad) > 0 {
		pos = p.Pos(bad[0])
	}
	c.check(nExit > 0 && len(bad) == 0, rule, f.ID, pos, "every exit of the worker follows a send of the file's entry or of an error",
		"commitFileUpload can return without having sent the file's entry or an error to the collector: a file that is visible in the mount is left out of the committed bundle and the commit still reports success")
}

// checkWriterFreshPerPut (C01, C02; pooled): every Put writes through a writer built for it: each return of
// defaultFs.writer is a newWriter(…) call. A writer kept from an earlier Put carries that Put's state (a staging offset
// left by a failed trailing flush, collected errors, counters) into the next object.
func checkWriterFreshPerPut(c *Ctx, rule string) {
	p := c.P
	f := p.Func("pkg/cafs.defaultFs.writer")
	info := f.Info()
	n, bad := 0, ""
	var badPos token.Pos
	ast.Inspect(f.Decl.Body, func(nd ast.Node) bool {
		if _, isLit := nd.(*ast.FuncLit); isLit {
			return false
		}
		r, ok := nd.(*ast.ReturnStmt)
		if !ok || len(r.Results) != 1 {
			return true
		}
		n++
		call, isCall := ast.Unparen(r.Results[0]).(*ast.CallExpr)
		if (!isCall || calleeID(info, call) != "pkg/cafs.newWriter") && bad == "" {
			bad, badPos = exprString(r.Results[0]), r.Pos()
		}
		return true
	})
	pos := p.Pos(f.Decl.Pos())
	if bad != "" {
		pos = p.Pos(badPos)
	}
	c.check(n > 0 && bad == "", rule, f.ID, pos, "every Put gets a writer built by newWriter",
		"defaultFs.writer can return `"+bad+"`, not a writer built for this Put: state left in a reused writer (a staging offset after a failed trailing flush, collected errors, leaf counters) goes into the next object, whose key and bytes are then wrong with no error")
}

// checkLeafPoolPerFs (C01, pooled): the pool of leaf buffers ReadAt draws from is built for the file system it serves,
// from that file system's leaf size: every value assigned to defaultFs.leafPool is newLeafFreelist(<its leafSize>, …).
// A pool shared between file systems hands a reader buffers sized for another leaf size (a leaf is then loaded
// truncated).
func checkLeafPoolPerFs(c *Ctx, rule string) {
	p := c.P
	n := 0
	for _, f := range p.FuncsIn("pkg/cafs") {
		if f.Decl.Body == nil {
			continue
		}
		info := f.Info()
		k := 0
		ast.Inspect(f.Decl.Body, func(nd ast.Node) bool {
			as, ok := nd.(*ast.AssignStmt)
			if !ok || len(as.Lhs) != len(as.Rhs) {
				return true
			}
			for i, l := range as.Lhs {
				sel, ok := ast.Unparen(l).(*ast.SelectorExpr)
				if !ok || sel.Sel.Name != "leafPool" {
					continue
				}
				if s := info.Selections[sel]; s == nil || namedTypeID(s.Recv()) != "pkg/cafs.defaultFs" {
					continue
				}
				k++
				n++
				okPool := false
				if call, ok := ast.Unparen(as.Rhs[i]).(*ast.CallExpr); ok && calleeID(info, call) == "pkg/cafs.newLeafFreelist" && len(call.Args) >= 1 {
					okPool = strings.HasSuffix(describeExpr(f, call.Args[0], 0), ".leafSize")
				}
				c.check(okPool, rule, f.ID+":leafPool#"+itoa(k), p.Pos(as.Pos()), "the leaf-buffer pool is built for this file system's leaf size",
					f.ID+" sets the leaf-buffer pool to `"+exprString(as.Rhs[i])+"`, not a pool built for this file system's own leaf size: random-access reads can be served buffers of another size, into which a leaf does not fit")
			}
			return true
		})
	}
	if n == 0 && c.sharedReach == nil {
		c.shape3(rule, "pkg/cafs.New", "no assignment of defaultFs.leafPool found")
	}
}

// checkPopulateTxnsOnce (C17, pooled): the read-only mount is populated inside one set of radix transactions, opened
// and committed by populateFS itself: newFSTxns and commitToFS have no other caller. A second set opened on the way is
// lost (or rolls the first one back) when populateFS commits the handle it holds.
func checkPopulateTxnsOnce(c *Ctx, rule string) {
	p := c.P
	for _, id := range []string{"pkg/fuse.newFSTxns", "pkg/fuse.populateFSTxns.commitToFS"} {
		if p.FuncOpt(id) == nil {
			c.shape3(rule, "pkg/fuse.readOnlyFsInternal.populateFS", id+" no longer exists")
			continue
		}
		var others []string
		n := 0
		for _, cs := range callersOf(p, id) {
			n++
			if cs.Fn.ID != "pkg/fuse.readOnlyFsInternal.populateFS" {
				others = append(others, cs.Fn.ID)
			}
		}
		sort.Strings(others)
		c.check(n > 0 && len(others) == 0, rule, "pkg/fuse.readOnlyFsInternal.populateFS:"+strings.TrimPrefix(id, "pkg/fuse."), p.Pos(p.FuncOpt(id).Decl.Pos()),
			"called by populateFS only",
			strings.TrimPrefix(id, "pkg/fuse.")+" is also called from "+strings.Join(others, ", ")+": the mount's trees are populated through more than one set of transactions while populateFS commits the one it opened — entries inserted through another set are listed by ReadDir (a plain map) but no longer found by lookups, attributes and reads")
	}
}

// checkSingleFileNameAsGiven (C04, pooled): a single-file download looks its file up among the bundle's entries by the
// name the caller gave, compared with entry names as they are stored: unpackDataFile does not rewrite that parameter
// (entries uploaded from a key list keep the caller's spelling, e.g. "./a/b": a normalised request no longer matches
// the very name the bundle lists).
func checkSingleFileNameAsGiven(c *Ctx, rule string) {
	p := c.P
	f := p.Func("pkg/core.unpackDataFile")
	info := f.Info()
	sig := f.Obj.Type().(*types.Signature)
	var names []*types.Var
	for i := 0; i < sig.Params().Len(); i++ {
		if bt, ok := sig.Params().At(i).Type().Underlying().(*types.Basic); ok && bt.Kind() == types.String {
			names = append(names, sig.Params().At(i))
		}
	}
	if len(names) == 0 {
		c.shape3(rule, f.ID, "unpackDataFile no longer takes the requested name as a string parameter")
		return
	}
	for _, v := range names {
		bad := ""
		var badPos token.Pos
		for _, d := range defsOfVarWithIndex(f, v) {
			if bad == "" {
				bad = "reassigned"
				if d.rhs != nil {
					bad = exprString(d.rhs)
				}
				badPos = d.start
			}
		}
		_ = info
		pos := p.Pos(f.Decl.Pos())
		if bad != "" {
			pos = p.Pos(badPos)
		}
		c.check(bad == "", rule, f.ID+":"+v.Name(), pos, "the requested name is used as given",
			"unpackDataFile rewrites the requested name (`"+v.Name()+" = "+bad+"`) before looking it up among the bundle's entries, whose names are compared as stored: a file listed by the bundle under a spelling the rewrite changes can no longer be downloaded on its own")
	}
}

func init() {
	addWitness(witness{Prop: "C04", Name: "upload-slot-taken-twice-for-one-file", File: "pkg/core/bundle_pack.go",
		Old:    "\t\tconcurrencyControl <- struct{}{}\n\t\tbundle.l.Debug(\"kicking off upload file\",\n",
		New:    "\t\tconcurrencyControl <- struct{}{}\n\t\tconcurrencyControl <- struct{}{}\n\t\tbundle.l.Debug(\"kicking off upload file\",\n",
		Expect: "slot-not-leaked"})
	addWitness(witness{Prop: "C11", Name: "metadata-read-through-a-wrapper", File: "pkg/core/meta_object.go",
		Old:    "\treturn ioutil.ReadAll(rdr)\n",
		New:    "\treturn ioutil.ReadAll(ioutil.NopCloser(rdr))\n",
		Expect: "metadata-read-whole"})
	addWitness(witness{Prop: "C04", Name: "requested-file-name-rewritten", File: "pkg/core/bundle_unpack.go",
		Old:    "\tbundle.l.Info(\"downloading bundle file\",\n",
		New:    "\tfile = \"\" + file\n\tbundle.l.Info(\"downloading bundle file\",\n",
		Expect: "single-file-name-as-given"})
	addWitness(witness{Prop: "C17", Name: "forget-drops-the-directory-table", File: "pkg/fuse/fs_ro_ops.go",
		Old:    "\top *fuseops.ForgetInodeOp) (err error) {\n\tt0 := fs.opStart(op)\n\tdefer fs.opEnd(t0, op, err)\n\treturn\n",
		New:    "\top *fuseops.ForgetInodeOp) (err error) {\n\tt0 := fs.opStart(op)\n\tdefer fs.opEnd(t0, op, err)\n\tdelete(fs.readDirMap, op.Inode)\n\treturn\n",
		Expect: "read-only-stores-frozen"})
	addWitness(witness{Prop: "C19", Name: "read-pool-sized-from-the-options", File: "pkg/wal/wal.go",
		Old:    "\twal.connectionControl = make(chan struct{}, maxConcurrency)\n",
		New:    "\twal.connectionControl = make(chan struct{}, len(options))\n",
		Expect: "wal-pool-sized"})
	addWitness(witness{Prop: "C22", Name: "tracker-keeps-package-level-state", File: "pkg/filetracker/file_tracker.go",
		Old:    "func getKey(key int64) []byte {\n\tif key < 0 {\n",
		New:    "var lastKey int64\n\nfunc getKey(key int64) []byte {\n\tlastKey = key\n\tif key < 0 {\n",
		Expect: "tracker-keys-fresh"})
	addWitness(witness{Prop: "C21", Name: "database-strings-keyed-by-a-mapped-name", File: "pkg/sidecar/param/params.go",
		Old:    "\t\trv[dbParams.Name] = dbString\n",
		New:    "\t\trv[strings.ToLower(dbParams.Name)] = dbString\n",
		Expect: "entry-strings-keyed-by-name"})
	addWitness(witness{Prop: "C07", Name: "empty-key-page-skipped-before-its-error", File: "pkg/core/bundle_list.go",
		Old:    "\t\t\tif keyBatch.err != nil {\n\t\t\t\tbatchChan <- bundlesEvent{err: keyBatch.err}\n",
		New:    "\t\t\tif len(keyBatch.keys) == 0 {\n\t\t\t\tcontinue\n\t\t\t}\n\t\t\tif keyBatch.err != nil {\n\t\t\t\tbatchChan <- bundlesEvent{err: keyBatch.err}\n",
		Expect: "fetchers-test-error-first"})
}

// checkNoPrefixDeletes (C18, pooled): names live in the lookup tree under parent-inode + name; a name is removed by
// deleting exactly its key. Nothing in pkg/fuse calls DeletePrefix on a radix tree: the prefix of "out" also covers the
// siblings "out.log" and "output".
func checkNoPrefixDeletes(c *Ctx, rule string) {
	p := c.P
	for _, f := range p.FuncsIn("pkg/fuse") {
		if f.Decl.Body == nil {
			continue
		}
		info := f.Info()
		k := 0
		ast.Inspect(f.Decl.Body, func(nd ast.Node) bool {
			if call, ok := nd.(*ast.CallExpr); ok && strings.HasSuffix(calleeID(info, call), ".DeletePrefix") && strings.Contains(calleeID(info, call), "go-immutable-radix") {
				k++
				c.fail(rule, f.ID+":delete-prefix#"+itoa(k), p.Pos(call.Pos()),
					f.ID+" removes every key under a prefix of a radix tree: keys are parent inode + name, so the entries of siblings whose names merely start with the removed name are removed too (they stay listed, but lookups, unlink and rename on them answer ENOENT)")
			}
			return true
		})
	}
	if f := p.FuncOpt("pkg/fuse.fsMutable.deleteNSEntry"); f != nil {
		c.ok(rule, f.ID, p.Pos(f.Decl.Pos()), "names are removed by exact key")
	}
}

// checkMountKeepsBundleID (C06, C18; pooled): the mutable mount commits into the bundle object it was given; pkg/fuse
// never assigns that bundle's ID. (A retry under a fresh ID after a failed attempt keeps the index-file counter the
// failed attempt advanced: the new bundle's descriptor then counts index files that were never written under its ID.)
func checkMountKeepsBundleID(c *Ctx, rule string) {
	p := c.P
	for _, f := range p.FuncsIn("pkg/fuse") {
		if f.Decl.Body == nil {
			continue
		}
		info := f.Info()
		k := 0
		ast.Inspect(f.Decl.Body, func(nd ast.Node) bool {
			as, ok := nd.(*ast.AssignStmt)
			if !ok {
				return true
			}
			for _, l := range as.Lhs {
				sel, ok := ast.Unparen(l).(*ast.SelectorExpr)
				if !ok || sel.Sel.Name != "BundleID" {
					continue
				}
				if t := info.TypeOf(sel.X); t != nil && namedTypeID(derefType(t)) == "pkg/core.Bundle" {
					k++
					c.fail(rule, f.ID+":bundle-id#"+itoa(k), p.Pos(as.Pos()),
						f.ID+" assigns the ID of the bundle it commits into: the next attempt publishes under another ID a descriptor whose index-file count still includes the files of the failed attempt — a visible bundle that cannot be downloaded")
				}
			}
			return true
		})
	}
	if f := p.FuncOpt("pkg/fuse.fsMutable.commitImpl"); f != nil {
		c.ok(rule, f.ID, p.Pos(f.Decl.Pos()), "the mount does not assign the bundle's ID")
	}
}

// checkReaderBuiltPerCall (C01, pooled): defaultFs.reader hands out a reader built in this call: each success return
// follows newReader (a sequential reader carries its position; one remembered per key serves the second Get of that key
// from where the first stopped).
func checkReaderBuiltPerCall(c *Ctx, rule string) {
	p := c.P
	f := p.Func("pkg/cafs.defaultFs.reader")
	b := p.BodyOf(f)
	isNew := func(bb *Body, call *ast.CallExpr) bool { return calleeID(bb.Info(), call) == "pkg/cafs.newReader" }
	bad, nS := b.mustPassBeforeSuccess(isNew)
	c.check(len(bad) == 0 && nS > 0, rule, f.ID, p.Pos(f.Decl.Pos()), "every successful return follows newReader",
		"defaultFs.reader can return a reader it did not build in this call: readers carry the position of a sequential read, so a remembered one serves a later Get of the same object from where an earlier one stopped (0 bytes and EOF)")
}

// checkWALEntriesOnlyWithoutError (C19, pooled): the collector of a WAL listing hands the entries over only when no
// reader reported an error: the send of the entry list is reached only where the collected error is known to be nil. A
// listing that skips the entries it could not read returns a window with a silent hole.
func checkWALEntriesOnlyWithoutError(c *Ctx, rule string) {
	p := c.P
	f := p.Func("pkg/wal.WAL.collectParallelResponses")
	info := f.Info()
	n := 0
	ast.Inspect(f.Decl.Body, func(nd ast.Node) bool {
		s, ok := nd.(*ast.SendStmt)
		if !ok {
			return true
		}
		ct, ok := info.TypeOf(s.Chan).Underlying().(*types.Chan)
		if !ok {
			return true
		}
		sl, ok := ct.Elem().Underlying().(*types.Slice)
		if !ok || !strings.HasSuffix(namedTypeID(sl.Elem()), "model.Entry") {
			return true
		}
		n++
		root := ast.Node(f.Decl.Body)
		if l := innermostLitAt(f, s.Pos()); l != nil {
			root = l.Body
		}
		atoms, _ := atomsAt(f, root, s.Pos())
		okNil := false
		for lit, at := range atoms {
			if strings.HasPrefix(lit, "|or|") {
				continue // a member of a disjunction establishes nothing
			}
			be, ok := ast.Unparen(at.Expr).(*ast.BinaryExpr)
			if !ok || !(isNil(info, be.X) || isNil(info, be.Y)) {
				continue
			}
			other := be.X
			if isNil(info, be.X) {
				other = be.Y
			}
			if t := info.TypeOf(other); t == nil || !isErrorType(t) {
				continue
			}
			if (be.Op == token.EQL && !at.Neg) || (be.Op == token.NEQ && at.Neg) {
				okNil = true
			}
		}
		c.check(okNil, rule, f.ID+":entries#"+itoa(n), p.Pos(s.Pos()), "the entry list is sent only where the collected error is nil",
			"the collector sends the entry list on a path where a reader's error may have been collected: the listing succeeds without the entries that could not be read, a silent hole in the window")
		return true
	})
	if n == 0 {
		c.shape3(rule, f.ID, "the collector no longer sends a []model.Entry")
	}
}

// checkPurgeOptionSettersOwnField (C14, pooled): each purge option sets its own field of the options, nothing else:
// the functor returned by a With… function assigns exactly one field. (A dry-run that also switches force on makes an
// unforced job overwrite, then remove, the lock another job holds.)
func checkPurgeOptionSettersOwnField(c *Ctx, rule string) {
	p := c.P
	n := 0
	for _, f := range p.FuncsIn("pkg/core") {
		if f.Decl.Body == nil {
			continue
		}
		sig, ok := f.Obj.Type().(*types.Signature)
		if !ok || sig.Results().Len() != 1 || namedTypeID(sig.Results().At(0).Type()) != "pkg/core.PurgeOption" {
			continue
		}
		info := f.Info()
		fields := map[string]bool{}
		ast.Inspect(f.Decl.Body, func(nd ast.Node) bool {
			as, ok := nd.(*ast.AssignStmt)
			if !ok {
				return true
			}
			for _, l := range as.Lhs {
				sel, ok := ast.Unparen(l).(*ast.SelectorExpr)
				if !ok {
					continue
				}
				if t := info.TypeOf(sel.X); t != nil && namedTypeID(derefType(t)) == "pkg/core.purgeOptions" {
					fields[sel.Sel.Name] = true
				}
			}
			return true
		})
		if len(fields) == 0 {
			continue
		}
		n++
		var names []string
		for k := range fields {
			names = append(names, k)
		}
		sort.Strings(names)
		// keyed on defaultPurgeOptions, which applies the setters a caller passes (the setters themselves are called
		// from outside the repository's operations)
		c.check(len(names) == 1, rule, "pkg/core.defaultPurgeOptions:setter:"+strings.TrimPrefix(f.ID, "pkg/core."), p.Pos(f.Decl.Pos()), "sets "+names[0],
			f.ID+" sets "+strings.Join(names, " and ")+": an option that also changes another setting gives the call a behaviour its caller did not ask for (a dry-run that forces the lock overwrites, then removes, the lock of a running job)")
	}
	if n < 3 && c.sharedReach == nil {
		c.shape3(rule, "pkg/core.defaultPurgeOptions", "fewer than 3 purge option setters found")
	}
}
