package main

// Reachability of repository functions from a property's entry points, and the pool of function-scoped rules that is
// run under every property restricted to the functions its operations can reach.
//
// A clause written for one property ("no metadata-layer function relabels an error as not-found") is a necessary
// condition of every property whose operations execute the function it constrains: the rename of a repository lists
// its bundles through the same fetch functions as ListBundles does. Registering such clauses by hand under each
// property leaves gaps; the pool closes them mechanically: each pooled rule runs under every property, and only the
// obligations whose construct lies in a function reachable from that property's entry points are kept.
//
// Reachability is over-approximated: static callees, the methods of repository values handed to functions outside the
// repository (io.Copy calls Write), function values mentioned anywhere in a body (callbacks, go
// statements, method values), function literals (part of their enclosing function) and, for calls through an interface
// declared in the repository, every repository type implementing it (class-hierarchy resolution).

import (
	"go/ast"
	"go/types"
	"sort"
	"strings"
)

type callGraph struct {
	edges map[string]map[string]bool
}

func (p *Prog) callGraph() *callGraph {
	if p.cg != nil {
		return p.cg
	}
	g := &callGraph{edges: map[string]map[string]bool{}}
	// named types of the repository, for interface resolution
	var named []*types.Named
	for _, pk := range p.All {
		if pk.Types == nil {
			continue
		}
		sc := pk.Types.Scope()
		for _, nm := range sc.Names() {
			if tn, ok := sc.Lookup(nm).(*types.TypeName); ok && !tn.IsAlias() {
				if nt, ok := tn.Type().(*types.Named); ok {
					if _, isIface := nt.Underlying().(*types.Interface); !isIface {
						named = append(named, nt)
					}
				}
			}
		}
	}
	implCache := map[*types.Interface][]*types.Named{}
	implementers := func(it *types.Interface) []*types.Named {
		if r, ok := implCache[it]; ok {
			return r
		}
		var out []*types.Named
		for _, nt := range named {
			if types.Implements(nt, it) || types.Implements(types.NewPointer(nt), it) {
				out = append(out, nt)
			}
		}
		implCache[it] = out
		return out
	}
	addEdge := func(from, to string) {
		if g.edges[from] == nil {
			g.edges[from] = map[string]bool{}
		}
		g.edges[from][to] = true
	}
	for _, f := range p.funcs {
		if f.Decl.Body == nil {
			continue
		}
		info := f.Info()
		ast.Inspect(f.Decl.Body, func(n ast.Node) bool {
			switch x := n.(type) {
			case *ast.CallExpr:
				// a value of a repository type handed to a function outside the repository (io.Copy(w, src),
				// sort.Sort(x), errgroup's Go): that function calls back into the value's methods
				if fn, ok := calleeObj(info, x).(*types.Func); !ok || fn.Pkg() == nil || strings.HasPrefix(fn.Pkg().Path(), modPrefix) {
					break
				}
				for _, a := range x.Args {
					t := info.TypeOf(a)
					if t == nil {
						continue
					}
					if pt, ok := t.(*types.Pointer); ok {
						t = pt.Elem()
					}
					nt, ok := t.(*types.Named)
					if !ok || nt.Obj().Pkg() == nil || !strings.HasPrefix(nt.Obj().Pkg().Path(), modPrefix) {
						continue
					}
					var concrete []*types.Named
					var only map[string]bool
					if it, isIface := nt.Underlying().(*types.Interface); isIface {
						concrete = implementers(it)
						only = map[string]bool{}
						for i := 0; i < it.NumMethods(); i++ {
							only[it.Method(i).Name()] = true
						}
					} else {
						concrete = []*types.Named{nt}
					}
					for _, ct := range concrete {
						ms := types.NewMethodSet(types.NewPointer(ct))
						for i := 0; i < ms.Len(); i++ {
							m := ms.At(i).Obj().Name()
							if only != nil && !only[m] {
								continue
							}
							if id := typeIDOf(ct) + "." + m; p.funcs[id] != nil {
								addEdge(f.ID, id)
							}
						}
					}
				}
			case *ast.Ident:
				if fn, ok := info.Uses[x].(*types.Func); ok {
					if id := funcID(fn); p.funcs[id] != nil {
						addEdge(f.ID, id)
					}
				}
			case *ast.SelectorExpr:
				sel := info.Selections[x]
				if sel == nil {
					return true
				}
				fn, ok := sel.Obj().(*types.Func)
				if !ok {
					return true
				}
				if id := funcID(fn); p.funcs[id] != nil {
					addEdge(f.ID, id)
					return true
				}
				// interface method: resolve over the repository's implementers
				recv := sel.Recv()
				if pt, ok := recv.(*types.Pointer); ok {
					recv = pt.Elem()
				}
				it, ok := recv.Underlying().(*types.Interface)
				if !ok {
					return true
				}
				for _, nt := range implementers(it) {
					id := typeIDOf(nt) + "." + fn.Name()
					if p.funcs[id] != nil {
						addEdge(f.ID, id)
					}
				}
			}
			return true
		})
	}
	p.cg = g
	return g
}

func typeIDOf(nt *types.Named) string {
	pk := ""
	if nt.Obj().Pkg() != nil {
		pk = strings.TrimPrefix(nt.Obj().Pkg().Path(), modPrefix)
	}
	return pk + "." + nt.Obj().Name()
}

// reach returns the functions reachable from the roots; a root ending with "." or "*" is a prefix.
func (p *Prog) reach(roots []string) map[string]bool {
	g := p.callGraph()
	seen := map[string]bool{}
	var work []string
	var ids []string
	for id := range p.funcs {
		ids = append(ids, id)
	}
	sort.Strings(ids)
	for _, r := range roots {
		if strings.HasSuffix(r, "*") || strings.HasSuffix(r, ".") {
			pre := strings.TrimSuffix(r, "*")
			for _, id := range ids {
				if strings.HasPrefix(id, pre) && !seen[id] {
					seen[id] = true
					work = append(work, id)
				}
			}
			continue
		}
		if p.funcs[r] != nil && !seen[r] {
			seen[r] = true
			work = append(work, r)
		}
	}
	for len(work) > 0 {
		x := work[len(work)-1]
		work = work[:len(work)-1]
		for y := range g.edges[x] {
			if !seen[y] {
				seen[y] = true
				work = append(work, y)
			}
		}
	}
	return seen
}

// propertyEntries: the operations each property observes (its statement and observe_at), as function IDs or prefixes.
var propertyEntries = map[string][]string{
	"C01": {"pkg/cafs.defaultFs.", "pkg/cafs.chunkReader.", "pkg/cafs.fsWriter.", "pkg/cafs.New"},
	"C02": {"pkg/cafs.defaultFs.Put", "pkg/cafs.New", "pkg/cafs.fsWriter.", "pkg/cafs.KeyFromBytes", "pkg/cafs.RootHash", "pkg/cafs.LeavesForHash", "pkg/cafs.LeafKeys"},
	"C03": {"pkg/cafs.defaultFs.Get", "pkg/cafs.defaultFs.GetAt", "pkg/cafs.chunkReader.", "pkg/core.Publish", "pkg/core.PublishFile", "pkg/core.PublishSelectBundleEntries", "pkg/core.Update"},
	"C04": {"pkg/core.Upload", "pkg/core.UploadSpecificKeys", "pkg/core.Publish", "pkg/core.PublishSelectBundleEntries", "pkg/core.PublishFile", "pkg/core.PublishMetadata", "pkg/core.DownloadMetadata"},
	"C05": {"pkg/core.Diff", "pkg/core.Update", "pkg/core.Publish", "pkg/core.Upload"},
	"C06": {"pkg/core.Upload", "pkg/core.UploadSpecificKeys", "pkg/core.ListBundles", "pkg/core.ListBundlesApply", "pkg/core.GetLatestBundle", "pkg/core.Publish", "pkg/core.Diamond.Commit", "pkg/core.GetBundleTimeStamp", "pkg/core.Bundle.UploadBundleEntries", "pkg/fuse.fsMutable.commitImpl", "pkg/fuse.fsMutable.Commit"},
	"C07": {"pkg/core.ListRepos", "pkg/core.ListReposApply", "pkg/core.ListBundles", "pkg/core.ListBundlesApply", "pkg/core.ListLabels", "pkg/core.ListLabelsApply", "pkg/core.ListDiamonds", "pkg/core.ListDiamondsApply", "pkg/core.ListSplits", "pkg/core.ListSplitsApply"},
	"C08": {"pkg/core.Label.", "pkg/core.ListLabels", "pkg/core.ListLabelsApply", "pkg/core.DeleteLabel", "pkg/core.DeleteRepo", "pkg/core.RepoSquash", "pkg/core.GetLabelStore", "pkg/model.NewLabelDescriptor", "pkg/model.LabelName", "pkg/core.NewLabel"},
	"C09": {"pkg/core.CreateRepo", "pkg/core.DeleteRepo", "pkg/core.RenameRepo", "pkg/core.DeleteEntriesFromRepo", "pkg/core.GetRepo", "pkg/core.ListRepos", "pkg/core.RepoExists"},
	"C10": {"pkg/core.RepoSquash", "pkg/core.ListBundles", "pkg/core.ListLabels", "pkg/core.Publish"},
	"C11": {"pkg/core.Diamond.Commit", "pkg/core.Split.Upload", "pkg/core.Split.implUpload", "pkg/core.DownloadMetadata", "pkg/core.CreateSplit", "pkg/core.CreateDiamond"},
	"C12": {"pkg/core.Diamond.Commit", "pkg/core.Diamond.Cancel", "pkg/core.CreateDiamond", "pkg/core.CreateSplit", "pkg/core.Split.Upload", "pkg/core.Split.implUpload", "pkg/core.GetDiamond", "pkg/core.GetSplit", "pkg/core.ListSplits", "pkg/core.ListDiamonds", "pkg/core.ListBundles"},
	"C13": {"pkg/core.PurgeBuildReverseIndex", "pkg/core.PurgeDeleteUnused", "pkg/core.PurgeDropReverseIndex", "pkg/core.PurgeLock", "pkg/core.PurgeUnlock", "pkg/core.Upload", "pkg/core.Publish"},
	"C14": {"pkg/core.PurgeBuildReverseIndex", "pkg/core.PurgeDeleteUnused", "pkg/core.PurgeDropReverseIndex", "pkg/core.PurgeLock", "pkg/core.PurgeUnlock"},
	"C15": {"pkg/core.Upload", "pkg/core.UploadSpecificKeys", "pkg/core.Publish", "pkg/core.Diamond.Commit", "pkg/core.Split.Upload", "pkg/core.Split.implUpload", "pkg/core.Label.UploadDescriptor", "pkg/core.Update"},
	"C16": {"pkg/storage/localfs.localFS.", "pkg/storage/localfs.New"},
	"C17": {"pkg/fuse.readOnlyFsInternal.", "pkg/fuse.NewReadOnlyFS", "pkg/fuse.ReadOnlyFS."},
	"C18": {"pkg/fuse.fsMutable.", "pkg/fuse.NewMutableFS", "pkg/fuse.MutableFS."},
	"C19": {"pkg/wal.WAL.", "pkg/wal.New"},
	"C20": {"pkg/model."},
	"C21": {"pkg/sidecar/param."},
	"C22": {"pkg/filetracker.TFile."},
}

// funcOfKey extracts the function a construct key belongs to ("pkg/x.F[#litN][:rest]"), or "".
func (p *Prog) funcOfKey(key string) string {
	k := key
	if i := strings.IndexByte(k, ':'); i >= 0 {
		k = k[:i]
	}
	if i := strings.Index(k, "#lit"); i >= 0 {
		k = k[:i]
	}
	if i := strings.IndexByte(k, '#'); i >= 0 {
		k = k[:i]
	}
	if i := strings.IndexByte(k, '@'); i >= 0 {
		k = k[:i]
	}
	if p.funcs[k] != nil {
		return k
	}
	return ""
}

type sharedRule struct {
	name string
	run  func(c *Ctx, rule string)
}

// sharedPool: function-scoped clauses, each a necessary condition for every operation that executes the function it
// constrains. Rules that produce known findings, instance floors and package-wide inventories stay with their owner.
var sharedPool = []sharedRule{
	{"no-relabel", func(c *Ctx, r string) { checkNoRelabelAsMissing(c, r) }},
	{"merge-keys-state", func(c *Ctx, r string) { checkMergeKeysState(c) }},
	{"descriptor-consulted", func(c *Ctx, r string) { checkDescriptorConsulted(c, r) }},
	{"blob-puts-idempotent", func(c *Ctx, r string) { checkBlobPutsIdempotent(c, r) }},
	{"writer-channels-unbuffered", func(c *Ctx, r string) { checkWriterChannelsUnbuffered(c, r) }},
	{"no-stream-in-retry", func(c *Ctx, r string) { checkNoStreamInRetry(c, r, "pkg/cafs", "pkg/core", "pkg/wal") }},
	{"source-fresh-per-attempt", func(c *Ctx, r string) { checkPutSourceFreshPerAttempt(c, r, "pkg/wal", "pkg/core", "pkg/cafs") }},
	{"no-reuse-after-send", func(c *Ctx, r string) { checkNoReuseAfterSend(c, r, "pkg/core", "pkg/cafs", "pkg/wal") }},
	{"short-read-not-eof", func(c *Ctx, r string) { checkShortReadIsNotEOF(c, r) }},
	{"cache-only-verified", func(c *Ctx, r string) { checkCacheOnlyVerifiedLeaves(c, r) }},
	{"no-truncating-consumer", func(c *Ctx, r string) { checkNoTruncatingConsumer(c, r, "pkg/core", "pkg/fuse") }},
	{"empty-object-readable", func(c *Ctx, r string) { checkEmptyObjectReadable(c, r) }},
	{"leaf-size-from-descriptor", func(c *Ctx, r string) { checkLeafSizeFromDescriptor(c, r, "pkg/core", "pkg/fuse") }},
	{"state-to-key", func(c *Ctx, r string) { checkStateToKeyTable(c, r) }},
	{"collect-splits-lists", func(c *Ctx, r string) { checkCollectSplitsAlwaysLists(c, r) }},
	{"localfs-put", func(c *Ctx, r string) { checkLocalfsPutOpens(c, c.P.Func("pkg/storage/localfs.localFS.Put")) }},
	{"localfs-has", func(c *Ctx, r string) { checkHasIsExistenceOnly(c, r) }},
	{"localfs-delete", func(c *Ctx, r string) { checkLocalfsDeleteOnlyKey(c, r) }},
	{"label-version-split", func(c *Ctx, r string) { checkLabelVersionSplitGuarded(c, r) }},
	{"delete-repo-labels", func(c *Ctx, r string) { checkDeleteRepoRemovesEveryLabel(c, r) }},
	{"verify-always-hashes", func(c *Ctx, r string) { checkVerifyAlwaysHashes(c, r) }},
	{"eof-by-identity", func(c *Ctx, r string) { checkEOFByIdentity(c, r) }},
	{"download-writes", func(c *Ctx, r string) { checkDownloadWrites(c, r) }},
	{"leaf-buffer-not-retained", func(c *Ctx, r string) { checkLeafBufferNotRetained(c, r) }},
	{"key-derivation-stateless", func(c *Ctx, r string) { checkKeyDerivationStateless(c, r) }},
	{"immutable-kinds", func(c *Ctx, r string) { checkImmutableKindsCreateIfAbsent(c) }},
	{"listing-pipelines", func(c *Ctx, r string) { checkListingPipelines(c) }},
	{"option-setters-verbatim", func(c *Ctx, r string) { checkModelOptionSettersVerbatim(c, r) }},
	{"unmarshal-is-plain", func(c *Ctx, r string) { checkUnmarshalIsPlain(c, r) }},
	{"readat-exits", func(c *Ctx, r string) { checkReadAtExits(c, r) }},
	{"bundle-id-never-reset", func(c *Ctx, r string) { checkBundleIDNeverReset(c, r) }},
	{"trygo-handled", func(c *Ctx, r string) { checkTryGoHandled(c, r, "pkg/core", "pkg/cafs") }},
	{"stages-forward-errors", func(c *Ctx, r string) { checkStagesForwardErrors(c, r) }},
	{"writer-flush-shape", func(c *Ctx, r string) { checkWriterFlushShape(c, r) }},
	{"guarded-core", func(c *Ctx, r string) { checkGuardedTable(c, r) }},
	{"protocol-channels-unbuffered", func(c *Ctx, r string) { checkProtocolChannelsUnbuffered(c, r) }},
	{"verify-setting-only-from-options", func(c *Ctx, r string) { checkVerifySettingOnlyFromOptions(c, r) }},
	{"empty-existing-blob-rewritten", func(c *Ctx, r string) { checkEmptyExistingBlobRewritten(c, r) }},
	{"label-list-resolves-name", func(c *Ctx, r string) { checkLabelListResolvesName(c) }},
	{"get-builds-its-reader", func(c *Ctx, r string) { checkGetBuildsItsReader(c, r) }},
	{"writeto-counts-what-it-copied", func(c *Ctx, r string) { checkWriteToCountsWhatItCopied(c, r) }},
	{"local-metadata-scanners-skip-data", func(c *Ctx, r string) { checkLocalMetadataScannersSkipData(c, r) }},
	{"bundle-descriptor-deleted-last", func(c *Ctx, r string) { checkBundleDescriptorDeletedLast(c, r) }},
	{"keys-cache-only-verified", func(c *Ctx, r string) { checkKeysCacheOnlyVerified(c, r) }},
	{"fetch-keys-forwards-pages", func(c *Ctx, r string) { checkFetchKeysForwardsPages(c, r) }},
	{"file-lists-decoded-plain", func(c *Ctx, r string) { checkFileListsDecodedPlain(c, r) }},
	{"encoders-do-not-rewrite", func(c *Ctx, r string) { checkEncodersDoNotRewrite(c, r, "pkg/core", "pkg/model", "pkg/wal") }},
	{"purge-fails-only-on-error", func(c *Ctx, r string) { checkFailsOnlyOnError(c, r) }},
	{"dedupe-by-equality", func(c *Ctx, r string) { checkDedupeByEquality(c, r) }},
	{"dirents-append-only", func(c *Ctx, r string) { checkDirentsAppendOnly(c, r) }},
	{"lookup-mode-unset", func(c *Ctx, r string) { checkLookupModeUnset(c, r) }},
	{"wal-decodes-what-it-read", func(c *Ctx, r string) { checkWALDecodesWhatItRead(c, r) }},
	{"writer-semaphore-private", func(c *Ctx, r string) { checkWriterSemaphorePrivate(c, r) }},
	{"entries-preallocated", func(c *Ctx, r string) { checkEntriesPreallocated(c, r) }},
	{"leaf-size-only-from-options", func(c *Ctx, r string) { checkLeafSizeOnlyFromOptions(c, r) }},
	{"writer-handoff", func(c *Ctx, r string) { checkWriterHandoff(c, r) }},
	{"meta-regexp-anchored", func(c *Ctx, r string) { checkMetaRegexpAnchored(c, r) }},
	{"writeat-offset-advances", func(c *Ctx, r string) { checkWriteAtOffsetAdvances(c, r) }},
	{"list-apply-errors", func(c *Ctx, r string) { checkListApplySiblings(c, r) }},
	{"scan-prefixes-closed", func(c *Ctx, r string) { checkScanPrefixesClosed(c, r) }},
	{"entry-strings-keyed-by-name", func(c *Ctx, r string) { checkEntryStringsKeyedByName(c, r) }},
	{"diamond-descriptors-never-deleted", func(c *Ctx, r string) { checkDiamondDescriptorsNeverDeleted(c, r) }},
	{"fetchers-test-error-first", func(c *Ctx, r string) { checkFetchersTestErrorFirst(c, r) }},
	{"metadata-read-whole", func(c *Ctx, r string) { checkMetadataReadWhole(c, r) }},
	{"protocol-sends-unconditional", func(c *Ctx, r string) { checkProtocolSendsUnconditional(c, r, "pkg/core", "pkg/cafs") }},
	{"no-global-ksuid-source", func(c *Ctx, r string) { checkNoGlobalKsuidSource(c, r) }},
	{"wal-pool-sized", func(c *Ctx, r string) { checkWALPoolSized(c, r) }},
	{"tracker-keys-fresh", func(c *Ctx, r string) { checkTrackerKeysFresh(c, r) }},
	{"read-only-stores-frozen", func(c *Ctx, r string) { checkReadOnlyStoresFrozen(c, r) }},
	{"every-listed-repo-scanned", func(c *Ctx, r string) { checkEveryListedRepoScanned(c, r) }},
	{"glob-keyed-by-prefix", func(c *Ctx, r string) { checkGlobKeyedByPrefix(c, r) }},
	{"drop-deletes-what-it-lists", func(c *Ctx, r string) { checkDropDeletesWhatItLists(c, r) }},
	{"commit-worker-always-reports", func(c *Ctx, r string) { checkCommitWorkerAlwaysReports(c, r) }},
	{"writer-fresh-per-put", func(c *Ctx, r string) { checkWriterFreshPerPut(c, r) }},
	{"leaf-pool-per-fs", func(c *Ctx, r string) { checkLeafPoolPerFs(c, r) }},
	{"populate-txns-once", func(c *Ctx, r string) { checkPopulateTxnsOnce(c, r) }},
	{"single-file-name-as-given", func(c *Ctx, r string) { checkSingleFileNameAsGiven(c, r) }},
	{"no-prefix-deletes", func(c *Ctx, r string) { checkNoPrefixDeletes(c, r) }},
	{"mount-keeps-bundle-id", func(c *Ctx, r string) { checkMountKeepsBundleID(c, r) }},
	{"reader-built-per-call", func(c *Ctx, r string) { checkReaderBuiltPerCall(c, r) }},
	{"wal-entries-only-without-error", func(c *Ctx, r string) { checkWALEntriesOnlyWithoutError(c, r) }},
	{"purge-option-setters-own-field", func(c *Ctx, r string) { checkPurgeOptionSettersOwnField(c, r) }},
	{"writer-buf-leaf-sized", func(c *Ctx, r string) { checkWriterBufIsLeafSized(c, r) }},
	{"glob-cache-writers", func(c *Ctx, r string) { checkGlobCacheWriters(c, r) }},
	{"nothing-deleted-after-repo-descriptor", func(c *Ctx, r string) { checkNothingDeletedAfterRepoDescriptor(c, r) }},
	{"squash-relists-before-label-cleanup", func(c *Ctx, r string) { checkSquashRelistsBeforeLabelCleanup(c, r) }},
	{"upload-indexer-fresh-per-attempt", func(c *Ctx, r string) { checkUploadIndexerFreshPerAttempt(c, r) }},
	{"closed-channel-not-shared", func(c *Ctx, r string) { checkClosedChannelNotShared(c, r) }},
	{"keys-unfiltered", func(c *Ctx, r string) { checkKeysUnfiltered(c, r) }},
	{"mkdir-not-memoised", func(c *Ctx, r string) { checkMkdirNotMemoised(c, r) }},
	{"parser-ids-opaque", func(c *Ctx, r string) { checkParserIDsOpaque(c, r) }},
	{"reused-decode-targets", func(c *Ctx, r string) { checkReusedDecodeTargets(c, r) }},
	{"env-var-key-verbatim", func(c *Ctx, r string) { checkEnvVarKeyVerbatim(c, r) }},
	{"effects", func(c *Ctx, r string) {
		checkEffectDominance(c, r, "pkg/cafs", "pkg/core", "pkg/fuse", "pkg/storage/localfs", "pkg/wal", "pkg/filetracker")
	}},
}

// runSharedPool runs the pooled rules under property c.Prop, keeping only obligations located in functions reachable
// from the property's entry points.
func runSharedPool(c *Ctx) {
	entries := propertyEntries[c.Prop]
	if len(entries) == 0 {
		return
	}
	p := c.P
	reach := p.reach(entries)
	saveTouched := p.touched
	p.touched = nil
	defer func() { p.touched = saveTouched }()
	nUndec := len(c.Undec)
	c.sharedReach = reach
	defer func() { c.sharedReach = nil }()
	for _, sr := range sharedPool {
		func() {
			defer func() {
				if r := recover(); r != nil {
					if _, ok := r.(undecidedErr); ok {
						return // the owner of the rule reports the anchor that changed shape
					}
					panic(r)
				}
			}()
			sr.run(c, "shared."+sr.name)
		}()
	}
	c.Undec = c.Undec[:nUndec] // soft undecided verdicts of pooled rules belong to their owners
	c.note("shared pool: %d rules run over the %d functions reachable from %s", len(sharedPool), len(reach), strings.Join(entries, ", "))
}

// runAll runs the property's own rules, then the shared pool restricted to what the property's operations reach.
func (s *propSpec) runAll(c *Ctx) {
	s.run(c)
	runSharedPool(c)
}

// runAllCross is runAll followed by the cross pool: the function-scoped obligations recorded by every OTHER property's
// own rules, kept when their construct lies in a function this property's operations reach. A clause is written once,
// under the property it was found for; it is a necessary condition of every property that executes the function it
// constrains (ListLabelsApply is executed by the label operations as well as by the listings). Registering such
// clauses by hand under each property leaves gaps; the shared pool closed them for the clauses listed there, the cross
// pool closes them for all. Known findings, instance floors and UNDECIDED verdicts stay with the owning property.
func (s *propSpec) runAllCross(c *Ctx, verifDir string) {
	s.runAll(c)
	entries := propertyEntries[c.Prop]
	if len(entries) == 0 {
		return
	}
	p := c.P
	reach := p.reach(entries)
	if p.crossObs == nil {
		p.crossObs = map[string][]Obligation{}
		saveTouched := p.touched
		p.touched = nil
		var ids []string
		for id := range registry {
			ids = append(ids, id)
		}
		sort.Strings(ids)
		for _, id := range ids {
			cq := newCtx(id, c.Tier, p)
			func() {
				defer func() {
					if r := recover(); r != nil {
						if _, ok := r.(undecidedErr); ok {
							return // the owner reports it
						}
						panic(r)
					}
				}()
				registry[id].run(cq)
			}()
			p.crossObs[id] = cq.Obs
		}
		p.touched = saveTouched
	}
	known := loadKnown(verifDir)
	have := map[string]bool{}
	for _, o := range c.Obs {
		have[o.Key+"|"+o.Detail] = true
		if i := strings.Index(o.Rule, "."); i >= 0 {
			have[o.Key+"|rule:"+lastRuleWord(o.Rule)] = true
		}
	}
	n := 0
	var qs []string
	for q := range p.crossObs {
		qs = append(qs, q)
	}
	sort.Strings(qs)
	for _, q := range qs {
		if q == c.Prop {
			continue
		}
		for _, o := range p.crossObs[q] {
			fn := p.funcOfKey(o.Key)
			if fn == "" || !reach[fn] {
				continue
			}
			if have[o.Key+"|"+o.Detail] || have[o.Key+"|rule:"+lastRuleWord(o.Rule)] {
				continue
			}
			isKnown := false
			for _, k := range known {
				if k.Property == q && k.Rule == o.Rule && k.Key == o.Key {
					isKnown = true
				}
			}
			if isKnown {
				continue
			}
			have[o.Key+"|"+o.Detail] = true
			o.Rule = c.Prop + ".x" + q + "." + strings.TrimPrefix(o.Rule, q+".")
			c.Obs = append(c.Obs, o)
			n++
		}
	}
	c.note("cross pool: %d obligations recorded by other properties' rules lie in functions reachable from this property's operations", n)
}

// lastRuleWord: the last component of a rule id ("C07.siblings.apply-errors" -> "apply-errors"): the same check is
// registered under different group names by different properties.
func lastRuleWord(rule string) string {
	if i := strings.LastIndex(rule, "."); i >= 0 {
		return rule[i+1:]
	}
	return rule
}
