package main

import (
	"fmt"
	"go/ast"
	"os"
)

func init() {
	if os.Getenv("DMVERIF_DUMPCFG") != "" {
		register(&propSpec{id: "DBG", run: func(c *Ctx) {
			f := c.P.Func(os.Getenv("DMVERIF_DUMPCFG"))
			b := c.P.BodyOf(f)
			fmt.Println(b.G.Format(c.P.Fset))
		}})
	}
	if os.Getenv("DMVERIF_DUMPDESC") != "" {
		// prints the rename-robust description of every call and assignment of a function
		register(&propSpec{id: "DBG", run: func(c *Ctx) {
			f := c.P.Func(os.Getenv("DMVERIF_DUMPDESC"))
			ast.Inspect(f.Decl.Body, func(n ast.Node) bool {
				switch x := n.(type) {
				case *ast.CallExpr:
					fmt.Printf("%s CALL %s\n     = %s\n", c.P.Pos(x.Pos()), calleeID(f.Info(), x), describeExprAt(f, x))
				case *ast.AssignStmt:
					for i, l := range x.Lhs {
						if i < len(x.Rhs) {
							fmt.Printf("%s ASSIGN %s <- %s\n", c.P.Pos(x.Pos()), describeExprAt(f, l), describeExprAt(f, x.Rhs[i]))
						}
					}
				case *ast.CompositeLit:
					for _, el := range x.Elts {
						if kv, ok := el.(*ast.KeyValueExpr); ok {
							fmt.Printf("%s LIT %s.%s <- %s\n", c.P.Pos(x.Pos()), namedTypeID(f.Info().TypeOf(x)), exprString(kv.Key), describeExprAt(f, kv.Value))
						}
					}
				}
				return true
			})
		}})
	}
}

func init() {
	if os.Getenv("DMVERIF_ERRGUARD") != "" {
		register(&propSpec{id: "DBG", run: func(c *Ctx) {
			n := checkValuesGuardedByErr(c, "errguard", nil, "pkg/core", "pkg/cafs", "pkg/fuse", "pkg/wal", "pkg/storage/localfs", "pkg/model", "pkg/context", "pkg/filetracker", "pkg/sidecar/param")
			fmt.Println("sites:", n)
		}})
	}
}

func init() {
	if os.Getenv("DMVERIF_ERRBRANCH") != "" {
		register(&propSpec{id: "DBG", run: func(c *Ctx) {
			n := checkErrBranchFails(c, "errbranch", nil, "pkg/core", "pkg/cafs", "pkg/fuse", "pkg/wal", "pkg/storage/localfs", "pkg/model", "pkg/context", "pkg/filetracker", "pkg/sidecar/param", "pkg/storage")
			fmt.Println("sites:", n)
		}})
	}
}

func init() {
	if os.Getenv("DMVERIF_ERRALL") != "" {
		register(&propSpec{id: "DBG", run: func(c *Ctx) {
			n := 0
			for _, pk := range []string{"pkg/core", "pkg/cafs", "pkg/fuse", "pkg/wal", "pkg/storage/localfs", "pkg/model"} {
				for _, f := range c.P.FuncsIn(pk) {
					if f.Decl.Body != nil {
						n += checkErrDiscipline(c, "errall", f, func(id string) bool { return true }, nil)
					}
				}
			}
			fmt.Println("sites:", n)
		}})
	}
}

func init() {
	if os.Getenv("DMVERIF_ROLES") != "" {
		register(&propSpec{id: "DBG", run: func(c *Ctx) {
			n := checkBuilderArgumentRoles(c, "roles", "pkg/core", "pkg/fuse", "pkg/wal", "pkg/web", "cmd/datamon/cmd", "pkg/model")
			fmt.Println("sites:", n)
		}})
	}
}
