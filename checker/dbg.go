package main

import (
	"fmt"
	"os"
)

func init() {
	if os.Getenv("DMVERIF_DUMPCFG") != "" {
		register(&propSpec{id: "DBG", run: func(c *Ctx) {
			f := c.P.Func(os.Getenv("DMVERIF_DUMPCFG"))
			b := c.P.BodyOf(f)
			fmt.Println(b.G.Format(c.P.Fset))
		}})
	}
}
