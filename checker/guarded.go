package main

// E-GUARD — guarded actions of a function, in a rename- and order-robust form.
//
// A function body is flattened into the set of its ACTIONS (assignments to anything but a single-definition local,
// returns, sends, calls made for effect, break/continue, inc/dec), each with its GUARD: the set of conditions that must
// hold to reach it (enclosing if conditions — negated on the else side —, the clause of an enclosing select/switch, the
// enclosing loops). Expressions are rendered with describeExprAt, so a local with one definition is replaced by what
// defines it, parameters by their position, the receiver by `recv`; statement order and the nesting of conjunctions do
// not matter (guards are sorted sets, `a && b` contributes both conjuncts).
//
// The table rules built on it state, for a small algorithmic core, the guarded actions the property needs. A rule
// lists only the lines it requires: other actions (logging, metrics, new bookkeeping) may come and go.

import (
	_ "embed"
	"encoding/json"
	"fmt"
	"go/ast"
	"go/token"
	"go/types"
	"os"
	"sort"
	"strings"
)

type guardedAction struct {
	Guard  []string
	Action string
	Pos    token.Pos
	Node   ast.Node             // the statement
	Atoms  map[string]guardAtom // for each atomic guard literal: the expression it renders and its polarity
	// OrAtoms: for each disjunctive guard literal "(a||b)", the atoms mentioned in it (none is established alone)
	OrAtoms map[string][]guardAtom
}

// guardAtom is an atomic condition of a guard: Expr holds when Neg is false, does not hold when Neg is true. (For a
// comparison the rendered literal already has its operator flipped; Expr is the original comparison.)
type guardAtom struct {
	Expr ast.Expr
	Neg  bool
}

func (g guardedAction) String() string {
	if len(g.Guard) == 0 {
		return g.Action
	}
	return strings.Join(g.Guard, " && ") + " => " + g.Action
}

// guardedForceEmit: statements the flattening must list even when it would inline them (definitions of locals): set by
// callers that want the guards of one particular statement (atomsAt).
var guardedForceEmit map[ast.Node]bool

// guardedActions flattens the statements under root (a function body, literal body or block of f).
func guardedActions(f *FuncInfo, root ast.Node) []guardedAction {
	info := f.Info()
	var out []guardedAction
	saved, savedC := describeTypes, describeCanonical
	describeTypes, describeCanonical = true, true
	defer func() { describeTypes, describeCanonical = saved, savedC }()
	desc := func(e ast.Expr) string { return describeExprAt(f, e) }
	singleDefLocal := func(e ast.Expr) bool {
		id, ok := ast.Unparen(e).(*ast.Ident)
		if !ok {
			return false
		}
		if id.Name == "_" {
			return true
		}
		v, ok := info.ObjectOf(id).(*types.Var)
		if !ok || v.IsField() || paramIndex(f, v) >= 0 || recvOf(f) == v {
			return false
		}
		if v.Pkg() != nil && v.Parent() == v.Pkg().Scope() {
			return false
		}
		// named results are outputs
		sig := f.Obj.Type().(*types.Signature)
		for i := 0; i < sig.Results().Len(); i++ {
			if sig.Results().At(i) == v {
				return false
			}
		}
		return len(defsOfVarWithIndex(f, v)) <= 1
	}
	// Conditions are rendered in negation normal form: negations are pushed into comparisons (operator flipped) and
	// through && / || (De Morgan), local boolean variables with one definition are replaced by what defines them, nested
	// conjunctions and disjunctions are flattened and their operands sorted. The guard of an action is the set of
	// top-level conjuncts, so `a && b`, nested ifs, `!(!a || !b)` and a swapped if/else all give the same guard.
	atoms := map[string]guardAtom{}
	orAtoms := map[string][]guardAtom{}
	var nnf func(e ast.Expr, neg bool) (op string, parts []string) // op: "and", "or", "atom"
	flipCmp := map[token.Token]token.Token{token.EQL: token.NEQ, token.NEQ: token.EQL, token.LSS: token.GEQ, token.GEQ: token.LSS, token.GTR: token.LEQ, token.LEQ: token.GTR}
	render := func(op string, parts []string) string {
		if len(parts) == 1 {
			return parts[0]
		}
		p := append([]string(nil), parts...)
		sort.Strings(p)
		if op == "and" {
			return "(" + strings.Join(p, "&&") + ")"
		}
		return "(" + strings.Join(p, "||") + ")"
	}
	nnf = func(e ast.Expr, neg bool) (string, []string) {
		e = ast.Unparen(e)
		switch x := e.(type) {
		case *ast.UnaryExpr:
			if x.Op == token.NOT {
				return nnf(x.X, !neg)
			}
		case *ast.BinaryExpr:
			if x.Op == token.LAND || x.Op == token.LOR {
				isAnd := (x.Op == token.LAND) != neg // De Morgan
				var parts []string
				for _, side := range []ast.Expr{x.X, x.Y} {
					o, ps := nnf(side, neg)
					if (o == "and") == isAnd && o != "atom" {
						parts = append(parts, ps...) // flatten
					} else {
						parts = append(parts, render(o, ps))
					}
				}
				if isAnd {
					return "and", parts
				}
				return "or", parts
			}
			if op, ok := flipCmp[x.Op]; ok {
				if neg {
					s := desc(&ast.BinaryExpr{X: x.X, Op: op, Y: x.Y, OpPos: x.OpPos})
					atoms[s] = guardAtom{Expr: x, Neg: true}
					return "atom", []string{s}
				}
				s := desc(x)
				atoms[s] = guardAtom{Expr: x, Neg: false}
				return "atom", []string{s}
			}
		case *ast.Ident:
			// a local boolean with a single definition stands for its definition (isEnd := !isStart)
			if v, ok := info.Uses[x].(*types.Var); ok && !v.IsField() && paramIndex(f, v) < 0 {
				if bt, ok := v.Type().Underlying().(*types.Basic); ok && bt.Kind() == types.Bool {
					if defs := defsOfVarWithIndex(f, v); len(defs) == 1 && defs[0].rhs != nil && defs[0].index < 0 {
						if _, isCall := ast.Unparen(defs[0].rhs).(*ast.CallExpr); !isCall {
							return nnf(defs[0].rhs, neg)
						}
					}
				}
			}
		}
		if neg {
			s := "!" + desc(e)
			atoms[s] = guardAtom{Expr: e, Neg: true}
			return "atom", []string{s}
		}
		s := desc(e)
		atoms[s] = guardAtom{Expr: e, Neg: false}
		return "atom", []string{s}
	}
	condParts := func(e ast.Expr, negate bool) []string {
		op, parts := nnf(e, negate)
		if op == "or" {
			key := render(op, parts)
			// the atoms mentioned inside a disjunctive conjunct: none of them is established on its own, but a rule
			// that asks "does the guard involve X at all" needs to see them
			for k, a := range atoms {
				if strings.Contains(key, k) {
					orAtoms[key] = append(orAtoms[key], a)
				}
			}
			return []string{key}
		}
		return parts
	}
	// a local that is only ever written (a dead counter) carries no step of the algorithm
	readCache := map[*types.Var]bool{}
	readDone := map[*types.Var]bool{}
	neverRead := func(e ast.Expr) bool {
		id, ok := ast.Unparen(e).(*ast.Ident)
		if !ok {
			return false
		}
		v, ok := info.ObjectOf(id).(*types.Var)
		if !ok || v.IsField() || paramIndex(f, v) >= 0 || recvOf(f) == v || (v.Pkg() != nil && v.Parent() == v.Pkg().Scope()) {
			return false
		}
		sig := f.Obj.Type().(*types.Signature)
		for i := 0; i < sig.Results().Len(); i++ {
			if sig.Results().At(i) == v {
				return false
			}
		}
		if readDone[v] {
			return !readCache[v]
		}
		read := false
		ast.Inspect(f.Decl.Body, func(m ast.Node) bool {
			uid, ok := m.(*ast.Ident)
			if !ok || info.Uses[uid] != v {
				return true
			}
			switch par := f.parentOf(uid).(type) {
			case *ast.IncDecStmt:
				return true
			case *ast.AssignStmt:
				for _, l := range par.Lhs {
					if l == ast.Expr(uid) {
						return true
					}
				}
			}
			read = true
			return true
		})
		readDone[v], readCache[v] = true, read
		return !read
	}
	var walk func(n ast.Node, guard []string)
	emit := func(n ast.Node, guard []string, action string) {
		g := append([]string(nil), guard...)
		sort.Strings(g)
		// dedupe
		var gg []string
		for i, s := range g {
			if i == 0 || s != g[i-1] {
				gg = append(gg, s)
			}
		}
		am := map[string]guardAtom{}
		var om map[string][]guardAtom
		for _, s := range gg {
			if a, ok := atoms[s]; ok {
				am[s] = a
			} else if as, ok := orAtoms[s]; ok {
				if om == nil {
					om = map[string][]guardAtom{}
				}
				om[s] = as
			}
		}
		out = append(out, guardedAction{Guard: gg, Action: action, Pos: n.Pos(), Node: n, Atoms: am, OrAtoms: om})
	}
	// diverts: the block always leaves the enclosing statement list (return, break, continue, goto, panic)
	diverts := func(b *ast.BlockStmt) bool {
		if b == nil || len(b.List) == 0 {
			return false
		}
		switch last := b.List[len(b.List)-1].(type) {
		case *ast.ReturnStmt, *ast.BranchStmt:
			return true
		case *ast.ExprStmt:
			if call, ok := ast.Unparen(last.X).(*ast.CallExpr); ok && calleeID(info, call) == "builtin.panic" {
				return true
			}
		}
		return false
	}
	walkList := func(list []ast.Stmt, guard []string) {
		g := guard
		for _, st := range list {
			walk(st, g)
			// `if c { …; return }` without else guards what follows by !c, exactly like `if c {…} else {rest}`
			if ifs, ok := st.(*ast.IfStmt); ok && ifs.Else == nil && diverts(ifs.Body) {
				g = append(append([]string(nil), g...), condParts(ifs.Cond, true)...)
			}
		}
	}
	walk = func(n ast.Node, guard []string) {
		switch x := n.(type) {
		case *ast.BlockStmt:
			walkList(x.List, guard)
		case *ast.IfStmt:
			g := guard
			if x.Init != nil {
				walk(x.Init, guard)
			}
			walk(x.Body, append(append([]string(nil), g...), condParts(x.Cond, false)...))
			if x.Else != nil {
				walk(x.Else, append(append([]string(nil), g...), condParts(x.Cond, true)...))
			}
		case *ast.ForStmt:
			g := append([]string(nil), guard...)
			// `for i := 0; i < len(X); i++` is a range loop over X
			if as, ok := x.Init.(*ast.AssignStmt); ok && len(as.Lhs) == 1 {
				if id, ok := as.Lhs[0].(*ast.Ident); ok {
					if v, ok := info.Defs[id].(*types.Var); ok {
						if over := inductionOver(f, v); over != nil {
							walk(x.Body, append(g, "range("+desc(over)+")"))
							return
						}
					}
				}
			}
			if x.Cond != nil {
				g = append(g, "loop("+desc(x.Cond)+")")
			} else {
				g = append(g, "loop")
			}
			if x.Init != nil {
				walk(x.Init, guard)
			}
			if x.Post != nil {
				walk(x.Post, g)
			}
			walk(x.Body, g)
		case *ast.RangeStmt:
			walk(x.Body, append(append([]string(nil), guard...), "range("+desc(x.X)+")"))
		case *ast.SelectStmt:
			for _, cl := range x.Body.List {
				cc := cl.(*ast.CommClause)
				g := append([]string(nil), guard...)
				switch cm := cc.Comm.(type) {
				case nil:
					g = append(g, "select-default")
				case *ast.SendStmt:
					g = append(g, "select-send("+desc(cm.Chan)+")")
				case *ast.ExprStmt:
					g = append(g, "select-recv("+desc(cm.X)+")")
				case *ast.AssignStmt:
					g = append(g, "select-recv("+desc(cm.Rhs[0])+")")
				}
				walkList(cc.Body, g)
			}
		case *ast.SwitchStmt:
			if x.Init != nil {
				walk(x.Init, guard)
			}
			for _, cl := range x.Body.List {
				cc := cl.(*ast.CaseClause)
				g := append([]string(nil), guard...)
				switch {
				case cc.List == nil && x.Tag == nil:
					// the default of a tagless switch is "none of the cases": the negation of each
					for _, cl2 := range x.Body.List {
						if cc2 := cl2.(*ast.CaseClause); cc2.List != nil {
							for _, e := range cc2.List {
								g = append(g, condParts(e, true)...)
							}
						}
					}
				case cc.List == nil:
					g = append(g, "default")
				case x.Tag == nil && len(cc.List) == 1:
					// a tagless case is a condition, as in an if / else-if chain
					g = append(g, condParts(cc.List[0], false)...)
				default:
					var alts []string
					for _, e := range cc.List {
						if x.Tag != nil {
							alts = append(alts, "("+desc(e)+"=="+desc(x.Tag)+")")
						} else {
							alts = append(alts, desc(e))
						}
					}
					sort.Strings(alts)
					g = append(g, strings.Join(alts, "||"))
				}
				walkList(cc.Body, g)
			}
		case *ast.TypeSwitchStmt:
			for _, cl := range x.Body.List {
				cc := cl.(*ast.CaseClause)
				var ts []string
				for _, e := range cc.List {
					ts = append(ts, types.ExprString(e))
				}
				walkList(cc.Body, append(append([]string(nil), guard...), "type("+strings.Join(ts, "|")+")"))
			}
		case *ast.LabeledStmt:
			walk(x.Stmt, guard)
		case *ast.AssignStmt:
			if guardedForceEmit != nil && guardedForceEmit[x] {
				emit(x, guard, "stmt")
			}
			for i, l := range x.Lhs {
				if singleDefLocal(l) || neverRead(l) {
					continue
				}
				var r string
				switch {
				case len(x.Lhs) == len(x.Rhs):
					r = desc(x.Rhs[i])
				case len(x.Rhs) == 1:
					r = desc(x.Rhs[0]) + "#" + fmt.Sprint(i)
				}
				op := x.Tok.String()
				if x.Tok == token.DEFINE {
					op = "="
				}
				emit(x, guard, lhsDesc(f, l)+" "+op+" "+r)
			}
			// a call on the right of a fully-local definition may still matter for its effect: not listed (its value is inlined at uses)
		case *ast.IncDecStmt:
			if neverRead(x.X) {
				return
			}
			emit(x, guard, lhsDesc(f, x.X)+x.Tok.String())
		case *ast.ReturnStmt:
			var rs []string
			for _, e := range x.Results {
				// a freshly built error (fmt.Errorf, errors.New, x.Wrap(...)): its text is not part of the contract
				if call, ok := ast.Unparen(e).(*ast.CallExpr); ok {
					if t := info.TypeOf(e); t != nil && (isErrorType(t) || strings.HasSuffix(t.String(), "errors.Error")) {
						switch id := calleeID(info, call); {
						case id == "fmt.Errorf", id == "errors.New", strings.HasSuffix(id, "errors.New"):
							rs = append(rs, "ERR")
							continue
						}
						if fn, ok := calleeObj(info, call).(*types.Func); ok && strings.HasPrefix(fn.Name(), "Wrap") {
							if sel, ok := ast.Unparen(call.Fun).(*ast.SelectorExpr); ok {
								rs = append(rs, "ERR:"+desc(sel.X))
								continue
							}
						}
					}
				}
				rs = append(rs, desc(e))
			}
			emit(x, guard, "return "+strings.Join(rs, ", "))
		case *ast.SendStmt:
			emit(x, guard, "send "+desc(x.Chan)+" <- "+desc(x.Value))
		case *ast.BranchStmt:
			emit(x, guard, x.Tok.String())
		case *ast.ExprStmt:
			if call, ok := ast.Unparen(x.X).(*ast.CallExpr); ok {
				if isLoggingCall(info, call) || isLoggerMethod(info, call) {
					return
				}
				emit(x, guard, "call "+desc(call))
			} else if u, ok := ast.Unparen(x.X).(*ast.UnaryExpr); ok && u.Op == token.ARROW {
				emit(x, guard, "recv "+desc(u.X))
			}
		case *ast.GoStmt:
			emit(x, guard, "go "+desc(x.Call))
		case *ast.DeferStmt:
			if _, isLit := ast.Unparen(x.Call.Fun).(*ast.FuncLit); !isLit {
				emit(x, guard, "defer "+desc(x.Call))
			}
		case *ast.DeclStmt:
		}
	}
	switch r := root.(type) {
	case *ast.BlockStmt:
		walkList(r.List, nil)
	case *ast.CommClause:
		walkList(r.Body, nil)
	case *ast.CaseClause:
		walkList(r.Body, nil)
	default:
		walk(root, nil)
	}
	return out
}

// lhsDesc renders an assignment target: a local keeps a role-free marker with its type (so that the line is stable under
// renaming), anything else its description.
func lhsDesc(f *FuncInfo, e ast.Expr) string {
	info := f.Info()
	if id, ok := ast.Unparen(e).(*ast.Ident); ok {
		if v, ok := info.ObjectOf(id).(*types.Var); ok && !v.IsField() && paramIndex(f, v) < 0 && recvOf(f) != v && !(v.Pkg() != nil && v.Parent() == v.Pkg().Scope()) {
			sig := f.Obj.Type().(*types.Signature)
			for i := 0; i < sig.Results().Len(); i++ {
				if sig.Results().At(i) == v {
					return "result#" + itoa(i)
				}
			}
			return "local:" + types.TypeString(v.Type(), func(p *types.Package) string { return p.Name() })
		}
	}
	return describeExprAt(f, e)
}

func isLoggerMethod(info *types.Info, call *ast.CallExpr) bool {
	sel, ok := ast.Unparen(call.Fun).(*ast.SelectorExpr)
	if !ok {
		return false
	}
	t := info.TypeOf(sel.X)
	if t == nil {
		return false
	}
	return strings.Contains(t.String(), "zap.Logger") || strings.Contains(t.String(), "zap.SugaredLogger")
}

// requireGuardedActions checks that every wanted line is among the guarded actions of root; reports the missing ones
// with the closest lines found (same action, other guard; or same guard, other action).
func requireGuardedActions(c *Ctx, rule, key string, f *FuncInfo, root ast.Node, want []string, why string) {
	p := c.P
	have := map[string]bool{}
	var lines []string
	for _, g := range guardedActions(f, root) {
		have[g.String()] = true
		lines = append(lines, g.String())
	}
	for i, w := range want {
		if have[w] {
			c.ok(rule, key+"#"+itoa(i+1), p.Pos(root.Pos()), w)
			continue
		}
		// closest line: shares the action or the guard
		near := ""
		wa := w
		if j := strings.Index(w, " => "); j >= 0 {
			wa = w[j+4:]
		}
		for _, l := range lines {
			la := l
			if j := strings.Index(l, " => "); j >= 0 {
				la = l[j+4:]
			}
			if la == wa || (strings.Contains(w, " => ") && strings.HasPrefix(l, w[:strings.Index(w, " => ")+4])) {
				near = l
				break
			}
		}
		msg := "missing guarded action `" + w + "`"
		if near != "" {
			msg += " (found instead: `" + near + "`)"
		}
		c.fail(rule, key+"#"+itoa(i+1), p.Pos(root.Pos()), msg+": "+why)
	}
}

func init() {
	if os.Getenv("DMVERIF_DUMPGA") != "" {
		register(&propSpec{id: "DBG", run: func(c *Ctx) {
			f := c.P.Func(os.Getenv("DMVERIF_DUMPGA"))
			fmt.Println("== body")
			for _, g := range guardedActions(f, f.Decl.Body) {
				fmt.Printf("%s\t%q,\n", c.P.Pos(g.Pos), g.String())
			}
			for i, l := range f.Lits {
				fmt.Printf("== lit%d\n", i+1)
				for _, g := range guardedActions(f, l.Body) {
					fmt.Printf("%s\t%q,\n", c.P.Pos(g.Pos), g.String())
				}
			}
		}})
	}
}

// ---------------------------------------------------------------------------------------------------
// guarded-action reference table over the algorithmic cores of the properties

//go:embed guarded_table.json
var guardedTableJSON []byte

var guardedTable map[string][]string

// guardedCore: the functions whose guarded actions are recorded (the mechanisms the properties are anchored in). Every
// literal of a listed function is recorded too (key funcID#litN).
var guardedCore = []string{
	// C01-C03 content store
	"pkg/cafs.fsWriter.Write", "pkg/cafs.fsWriter.flush", "pkg/cafs.fsWriter.Flush", "pkg/cafs.fsWriter.flushThread", "pkg/cafs.pFlush", "pkg/cafs.fsWriter.writeBlob",
	"pkg/cafs.chunkReader.Read", "pkg/cafs.chunkReader.ReadAt", "pkg/cafs.readLeafFunc", "pkg/cafs.chunkReader.WriteTo", "pkg/cafs.chunkReader.verifyHash",
	"pkg/cafs.defaultFs.Put", "pkg/cafs.defaultFs.writeRootKey", "pkg/cafs.keyFromBytes", "pkg/cafs.rootHash", "pkg/cafs.leaves", "pkg/cafs.verifiedKeys", "pkg/cafs.verificationKey",
	"pkg/cafs.LeafKeys", "pkg/cafs.UnverifiedLeafKeys", "pkg/cafs.existsAndValidBlob", "pkg/cafs.verifyBlob", "pkg/cafs.calculateKeyAndOffset",
	"pkg/cafs.defaultFs.Has", "pkg/cafs.defaultFs.RootKeys", "pkg/cafs.defaultFs.Delete", "pkg/cafs.defaultFs.Keys", "pkg/cafs.defaultFs.keys", "pkg/cafs.IsRootKey", "pkg/cafs.bytesFromRoot",
	"pkg/cafs.newReader", "pkg/cafs.seekAheadFunc", "pkg/cafs.defaultFs.reader", "pkg/cafs.chunkReader.doPrefetch", "pkg/cafs.addToCacheFunc", "pkg/cafs.leavesForHash", "pkg/cafs.LeavesForHash",
	// C04-C06 bundles
	"pkg/core.uploadBundle", "pkg/core.uploadBundleFiles", "pkg/core.uploadBundleFile", "pkg/core.uploadBundleEntriesFileList", "pkg/core.uploadBundleDescriptor", "pkg/core.Bundle.skipFile",
	"pkg/core.unpackBundleFileList", "pkg/core.downloadBundleFileList", "pkg/core.downloadBundleFileListFile", "pkg/core.downloadBundleEntries", "pkg/core.unpackDataFile", "pkg/core.unpackBundleDescriptor",
	"pkg/core.downloadBundleEntrySyncMaybeOverwrite", "pkg/core.diffBundles", "pkg/core.Update", "pkg/core.GetLatestBundle", "pkg/core.downloadBundleDescriptor",
	"pkg/core.PopulateFiles", "pkg/core.getConsumableStoreMetadataKeysInfo", "pkg/core.Bundle.UploadBundleEntries", "pkg/core.unpackDataFiles", "pkg/core.Publish", "pkg/core.PublishMetadata",
	"pkg/core.PublishSelectBundleEntries", "pkg/core.PublishFile", "pkg/core.implPublish", "pkg/core.implPublishMetadata", "pkg/core.implUpload", "pkg/core.DownloadMetadata", "pkg/core.Upload", "pkg/core.UploadSpecificKeys",
	"pkg/core.setBundleIDFromConsumableStore", "pkg/core.RepoExists", "pkg/core.Bundle.Exists", "pkg/core.deleteBundleEntry", "pkg/core.downloadBundleEntry", "pkg/core.downloadBundleEntryOverwrite", "pkg/core.downloadBundleEntrySync",
	"pkg/core.uploadBundleIterator.Next", "pkg/core.downloadBundleIterator.Next", "pkg/core.uploadSplitIterator.Next", "pkg/core.downloadSplitIterator.Next", "pkg/core.downloadAllSplitsIterator.Next",
	"pkg/core.Diff", "pkg/core.Bundle.InitializeBundleID",
	// C07-C08 listings and labels
	"pkg/core.fetchKeys", "pkg/core.mergeKeys", "pkg/core.versionedKeys", "pkg/core.basenameKeyFilter", "pkg/core.distributeKeys",
	"pkg/core.fetchBundleBatch", "pkg/core.fetchLabelBatch", "pkg/core.fetchRepoBatch", "pkg/core.fetchDiamondBatch", "pkg/core.fetchSplitBatch",
	"pkg/core.getBundleAsync", "pkg/core.getLabelAsync", "pkg/core.getRepoAsync", "pkg/core.getDiamondAsync", "pkg/core.getSplitAsync",
	"pkg/core.Label.UploadDescriptor", "pkg/core.Label.DownloadDescriptor", "pkg/core.Label.DownloadDescriptorVersions",
	"pkg/core.listLabelsChan", "pkg/core.listSplitsChan", "pkg/core.listDiamondsChan", "pkg/core.listBundlesChan", "pkg/core.listReposChan",
	"pkg/core.ListLabelsApply", "pkg/core.ListSplitsApply", "pkg/core.ListDiamondsApply", "pkg/core.ListBundlesApply", "pkg/core.ListReposApply",
	"pkg/core.fetchBundles", "pkg/core.fetchDiamonds", "pkg/core.fetchLabels", "pkg/core.fetchRepos", "pkg/core.fetchSplits", "pkg/core.readDiamond", "pkg/core.readSplit",
	"pkg/core.getRepoDescriptorByRepoName", "pkg/core.DiamondExists", "pkg/core.GetRepo", "pkg/core.GetDiamond", "pkg/core.GetSplit",
	// C09-C10 repositories
	"pkg/core.CreateRepo", "pkg/core.DeleteRepo", "pkg/core.DeleteBundle", "pkg/core.DeleteLabel", "pkg/core.RenameRepo", "pkg/core.RepoSquash", "pkg/core.DeleteEntriesFromRepo",
	// C11-C12 diamonds
	"pkg/core.diamondReady", "pkg/core.Diamond.implCommit", "pkg/core.Diamond.Cancel", "pkg/core.Diamond.collectSplits", "pkg/core.Diamond.checkBundleID", "pkg/core.Diamond.mergeSplits",
	"pkg/core.CreateSplit", "pkg/core.CreateDiamond", "pkg/core.Split.implUpload", "pkg/core.Diamond.uploadDescriptor", "pkg/core.Split.uploadDescriptor",
	"pkg/core.Diamond.downloadDescriptor", "pkg/core.Split.downloadDescriptor", "pkg/core.fileIndex.pack", "pkg/core.fileIndex.unpack",
	// C13-C14 purge
	"pkg/core.checkAndDeleteKey", "pkg/core.scanBlob", "pkg/core.bundleKeys", "pkg/core.repoKeysScanner", "pkg/core.chunkUploader", "pkg/core.uploader", "pkg/core.dbReader.iterateKV", "pkg/core.dbReader.Read",
	"pkg/core.copyIndexChunks", "pkg/core.loadChunk", "pkg/core.PurgeLock", "pkg/core.PurgeUnlock", "pkg/core.PurgeDeleteUnused", "pkg/core.PurgeBuildReverseIndex",
	// C16 localfs
	"pkg/storage/localfs.localFS.Put", "pkg/storage/localfs.localFS.Get", "pkg/storage/localfs.localFS.Has", "pkg/storage/localfs.localFS.Delete", "pkg/storage/localfs.localFS.Keys", "pkg/storage/localfs.localFS.KeysPrefix", "pkg/storage.PipeIO",
	// C17-C18 mounts
	"pkg/fuse.NewReadOnlyFS", "pkg/fuse.readOnlyFsInternal.LookUpInode", "pkg/fuse.readOnlyFsInternal.GetInodeAttributes", "pkg/fuse.readOnlyFsInternal.ReadDir", "pkg/fuse.readOnlyFsInternal.ReadFile", "pkg/fuse.readOnlyFsInternal.OpenDir",
	"pkg/fuse.readOnlyFsInternal.populateFS", "pkg/fuse.readOnlyFsInternal.insertFsEntry", "pkg/fuse.readOnlyFsInternal.insertDirEntry", "pkg/fuse.populate.WithNodesFromEntry",
	"pkg/fuse.fsMutable.LookUpInode", "pkg/fuse.fsMutable.GetInodeAttributes", "pkg/fuse.fsMutable.SetInodeAttributes", "pkg/fuse.fsMutable.ForgetInode", "pkg/fuse.fsMutable.MkDir", "pkg/fuse.fsMutable.CreateFile",
	"pkg/fuse.fsMutable.createNode", "pkg/fuse.fsMutable.RmDir", "pkg/fuse.fsMutable.Unlink", "pkg/fuse.fsMutable.Rename", "pkg/fuse.fsMutable.ReadDir", "pkg/fuse.fsMutable.ReadFile", "pkg/fuse.fsMutable.WriteFile",
	"pkg/fuse.fsMutable.deleteNSEntry", "pkg/fuse.fsMutable.insertLookupEntry", "pkg/fuse.fsMutable.preCreateCheck", "pkg/fuse.iNodeGenerator.allocINode", "pkg/fuse.iNodeGenerator.freeINode", "pkg/fuse.shouldDelete",
	// C19 WAL
	"pkg/wal.WAL.Add", "pkg/wal.WAL.ListTokens", "pkg/wal.WAL.ListEntries", "pkg/wal.WAL.read", "pkg/wal.WAL.issueParallelReads", "pkg/wal.WAL.collectParallelResponses", "pkg/wal.WAL.getToken",
	// C20-C22
	"pkg/model.GetArchivePathComponents", "pkg/model.ValidateRepo", "pkg/model.ValidateLabel", "pkg/model.GetConsumableStorePathMetadata",
	"pkg/sidecar/param.appendToParamString", "pkg/sidecar/param.containsSep", "pkg/sidecar/param.setSeparators", "pkg/sidecar/param.mergeAndUniqifyRunes", "pkg/sidecar/param.stringToUniqRunes", "pkg/sidecar/param.randCharNotInString",
	"pkg/filetracker.TFile.trackWrite", "pkg/filetracker.TFile.getRangeToRead", "pkg/filetracker.getFileRange", "pkg/filetracker.getKey", "pkg/filetracker.getOffset",
}

func guardedLineKept(line string) bool {
	for _, noise := range []string{".m.Volume", ".m.Usage", "MetricsEnabled()", "metrics.", ".EnsureMetrics(", "profil", "writeMemProfile"} {
		if strings.Contains(line, noise) {
			return false
		}
	}
	return true
}

func guardedBodies(p *Prog, f *FuncInfo) map[string]ast.Node {
	out := map[string]ast.Node{f.ID: f.Decl.Body}
	for i, l := range f.Lits {
		out[f.ID+"#lit"+itoa(i+1)] = l.Body
	}
	return out
}

func genGuardedTable(p *Prog, path string) {
	table := map[string][]string{}
	for _, id := range guardedCore {
		f := p.FuncOpt(id)
		if f == nil || f.Decl.Body == nil {
			fmt.Fprintf(os.Stderr, "guarded core function not found: %s\n", id)
			continue
		}
		for key, body := range guardedBodies(p, f) {
			seen := map[string]bool{}
			var lines []string
			for _, g := range guardedActions(f, body) {
				// literal bodies are listed under their own key
				if key == f.ID && innermostLitAt(f, g.Pos) != nil {
					continue
				}
				s := g.String()
				if !guardedLineKept(s) || seen[s] {
					continue
				}
				seen[s] = true
				lines = append(lines, s)
			}
			sort.Strings(lines)
			if len(lines) > 0 {
				table[key] = lines
			}
		}
	}
	var all []string
	for _, f := range p.AllFuncs() {
		all = append(all, f.ID)
	}
	table["__funcs__"] = all
	buf, _ := json.MarshalIndent(table, "", " ")
	if err := os.WriteFile(path, append(buf, '\n'), 0o644); err != nil {
		undecided("cannot write %s: %v", path, err)
	}
}

func innermostLitAt(f *FuncInfo, pos token.Pos) *ast.FuncLit {
	var best *ast.FuncLit
	for _, l := range f.Lits {
		if encloses(l, pos) && (best == nil || encloses(best, l.Pos())) {
			best = l
		}
	}
	return best
}

// checkGuardedTable: every recorded guarded action of the core functions is still present. A function that no longer
// exists is skipped; new actions are not constrained. The report names the function, the missing line and the closest
// line found (same action under another guard, or another action under the same guard).
func checkGuardedTable(c *Ctx, rule string) int {
	p := c.P
	if p.Tags != "" {
		return 0 // build-tag variants change constants that appear in guards; the default build is the reference
	}
	if guardedTable == nil {
		guardedTable = map[string][]string{}
		if len(guardedTableJSON) > 0 {
			if err := json.Unmarshal(guardedTableJSON, &guardedTable); err != nil {
				undecided("guarded_table.json: %v", err)
			}
		}
	}
	n := 0
	nAdvisory := 0
	defer func() {
		if nAdvisory > 0 {
			c.note("advisory %s: %d recorded guarded actions of the core functions changed (not a verdict)", rule, nAdvisory)
		}
	}()
	for _, id := range guardedCore {
		f := p.FuncOpt(id)
		if f == nil || f.Decl.Body == nil {
			continue
		}
		for key, body := range guardedBodies(p, f) {
			want := guardedTable[key]
			if len(want) == 0 {
				continue
			}
			var cur []guardedAction
			var lines []string
			for _, g := range guardedActions(f, body) {
				if key == f.ID && innermostLitAt(f, g.Pos) != nil {
					continue
				}
				cur = append(cur, g)
				lines = append(lines, g.String())
			}
			var missing []string
			for _, w := range want {
				if !guardedSatisfiedRef(w, cur, want) {
					missing = append(missing, w)
				}
			}
			if len(missing) > 0 && callsNewFunction(p, f, body) {
				// part of the body moved into a function the reviewed tree did not have: the core was restructured and this
				// rule does not judge it (the other rules still do)
				c.note("%s: %s calls a function that is not in the reviewed tree; its %d changed guarded actions are not judged", rule, key, len(missing))
				continue
			}
			for _, w := range want {
				n++
				h := fnv32(w)
				if guardedSatisfiedRef(w, cur, want) {
					c.ok(rule, key+":ga:"+h, p.Pos(body.Pos()), w)
					continue
				}
				near := nearestGuardedLine(w, lines)
				msg := "the guarded action `" + clip(w, 260) + "` of the reviewed tree is gone"
				if near != "" {
					msg += " (closest now: `" + clip(near, 260) + "`)"
				}
				// ADVISORY: two batches of 30 behaviour-preserving refactorings showed that this comparison also fires on
				// equivalent restructurings (loop forms, hoisted tests, merged closures, extracted helpers). It therefore
				// never raises a violation: the difference is recorded in the evidence notes for the reader.
				nAdvisory++
				if nAdvisory <= 12 {
					c.note("advisory %s %s: %s", rule, key, msg)
				}
				c.ok(rule, key+":ga:"+h, p.Pos(body.Pos()), "advisory only (changed): "+clip(w, 120))
			}
		}
	}
	return n
}

// guardedSatisfied: the recorded step is still performed under at least the recorded conditions (same action, guard a
// superset of the recorded guard: added checks are fine, a dropped or altered one is not).
func guardedSatisfied(w string, cur []guardedAction) bool {
	return guardedSatisfiedRef(w, cur, nil)
}

// negLiteral negates a rendered guard literal when its form allows it ("" otherwise).
func negLiteral(s string) string {
	switch {
	case strings.HasPrefix(s, "!"):
		return s[1:]
	case strings.HasPrefix(s, "empty("):
		return "non" + s
	case strings.HasPrefix(s, "nonempty("):
		return s[3:]
	}
	if strings.HasPrefix(s, "(") && strings.HasSuffix(s, ")") {
		// top-level binary comparison: find the operator at depth 1
		depth := 0
		for i := 0; i < len(s); i++ {
			switch s[i] {
			case '(', '[', '{':
				depth++
			case ')', ']', '}':
				depth--
			case '"':
				// skip string constants
				for i++; i < len(s) && s[i] != '"'; i++ {
					if s[i] == '\\' {
						i++
					}
				}
			}
			if depth != 1 {
				continue
			}
			for _, op := range []string{"==", "!=", "<=", "<"} {
				if strings.HasPrefix(s[i:], op) && i > 1 {
					l, r := s[1:i], s[i+len(op):len(s)-1]
					switch op {
					case "==":
						return "(" + l + "!=" + r + ")"
					case "!=":
						return "(" + l + "==" + r + ")"
					case "<":
						return "(" + r + "<=" + l + ")"
					case "<=":
						return "(" + r + "<" + l + ")"
					}
				}
			}
		}
		return ""
	}
	return "!" + s
}

// guardedSatisfiedRef: the recorded step is still performed under at least the recorded conditions: same action and a
// guard that is a superset of the recorded guard (added checks are fine, a dropped or altered one is not). When the
// reviewed tree performs the same action under both b and !b (two cases of a switch doing the same thing), the two
// recorded lines may have been merged: the literal b is then not required.
func guardedSatisfiedRef(w string, cur []guardedAction, ref []string) bool {
	wa, wg := w, []string(nil)
	if j := strings.Index(w, " => "); j >= 0 {
		wa = w[j+4:]
		wg = strings.Split(w[:j], " && ")
	}
	// literals that may be dropped: the reference also has (guard with the literal negated) => same action
	optional := map[string]bool{}
	if len(ref) > 0 {
		refSet := map[string]bool{}
		for _, r := range ref {
			refSet[r] = true
		}
		for i, b := range wg {
			nb := negLiteral(b)
			if nb == "" {
				continue
			}
			alt := append(append([]string(nil), wg[:i]...), wg[i+1:]...)
			alt = append(alt, nb)
			sort.Strings(alt)
			if refSet[strings.Join(alt, " && ")+" => "+wa] {
				optional[b] = true
			}
		}
	}
	for _, g := range cur {
		if g.Action != wa {
			continue
		}
		have := map[string]bool{}
		for _, x := range g.Guard {
			have[x] = true
		}
		ok := true
		for _, x := range wg {
			if !have[x] && !optional[x] {
				ok = false
				break
			}
		}
		if ok {
			return true
		}
	}
	return false
}

// callsNewFunction: body calls a repository function that the reviewed tree did not have.
func callsNewFunction(p *Prog, f *FuncInfo, body ast.Node) bool {
	ref := guardedTable["__funcs__"]
	if len(ref) == 0 {
		return false
	}
	known := map[string]bool{}
	for _, id := range ref {
		known[id] = true
	}
	info := f.Info()
	found := false
	ast.Inspect(body, func(n ast.Node) bool {
		if call, ok := n.(*ast.CallExpr); ok {
			if fn, ok := calleeObj(info, call).(*types.Func); ok {
				if id := funcID(fn); p.funcs[id] != nil && !known[id] {
					found = true
				}
			}
		}
		return true
	})
	return found
}

func clip(s string, n int) string {
	if len(s) > n {
		return s[:n] + "…"
	}
	return s
}

func fnv32(s string) string {
	var h uint32 = 2166136261
	for i := 0; i < len(s); i++ {
		h ^= uint32(s[i])
		h *= 16777619
	}
	return fmt.Sprintf("%08x", h)
}

func nearestGuardedLine(w string, lines []string) string {
	wa, wg := w, ""
	if j := strings.Index(w, " => "); j >= 0 {
		wa, wg = w[j+4:], w[:j]
	}
	best := ""
	for _, l := range lines {
		la, lg := l, ""
		if j := strings.Index(l, " => "); j >= 0 {
			la, lg = l[j+4:], l[:j]
		}
		if la == wa {
			return l
		}
		if lg == wg && best == "" {
			best = l
		}
	}
	return best
}

// shapeChanged is what a hand-written rule calls when the construct it reads no longer has the syntactic shape it
// knows (a switch became nested ifs, a range loop an index loop, a block moved into a helper). If the function is one of
// the recorded cores, the judgement is left to the guarded-action table, which is robust to such rewrites and still
// reports a changed test or step; otherwise the rule fails as before.
func (c *Ctx) shapeChanged(rule, key, pos, fnID, msg string) {
	if guardedTable == nil {
		guardedTable = map[string][]string{}
		if len(guardedTableJSON) > 0 {
			_ = json.Unmarshal(guardedTableJSON, &guardedTable)
		}
	}
	covered := len(guardedTable[fnID]) > 0
	if !covered {
		for k := range guardedTable {
			if strings.HasPrefix(k, fnID+"#lit") {
				covered = true
			}
		}
	}
	if covered && c.P.Tags == "" {
		c.ok(rule, key, pos, "shape not recognised ("+msg+"): this clause is not decided for the new shape; the advisory guarded-action comparison of "+fnID+" is in the notes")
		return
	}
	c.fail(rule, key, pos, msg)
}
