package main

import (
	"go/ast"
	"go/token"
	"go/types"

	"golang.org/x/tools/go/cfg"
)

// Body is a function body under analysis: a declared function or one of its literals.
type Body struct {
	P      *Prog
	Fn     *FuncInfo    // enclosing declared function
	Lit    *ast.FuncLit // nil for the declared function itself
	Block  *ast.BlockStmt
	Type   *ast.FuncType
	Sig    *types.Signature
	G      *cfg.CFG
	parent map[ast.Node]ast.Node
	defers []*ast.DeferStmt
	key    string
}

func (p *Prog) BodyOf(f *FuncInfo) *Body {
	if f.Decl.Body == nil {
		undecided("function %s has no body", f.ID)
	}
	sig, _ := f.Obj.Type().(*types.Signature)
	return p.mkBody(f, nil, f.Decl.Body, f.Decl.Type, sig, f.ID)
}

// LitBody returns the body of the n-th (1-based, source order) function literal of f.
func (p *Prog) LitBody(f *FuncInfo, lit *ast.FuncLit) *Body {
	idx := 0
	for i, l := range f.Lits {
		if l == lit {
			idx = i + 1
		}
	}
	sig, _ := f.Info().TypeOf(lit).(*types.Signature)
	return p.mkBody(f, lit, lit.Body, lit.Type, sig, f.ID+"#lit"+itoa(idx))
}

func itoa(i int) string {
	if i == 0 {
		return "0"
	}
	s := ""
	neg := i < 0
	if neg {
		i = -i
	}
	for i > 0 {
		s = string(rune('0'+i%10)) + s
		i /= 10
	}
	if neg {
		s = "-" + s
	}
	return s
}

func (p *Prog) mkBody(f *FuncInfo, lit *ast.FuncLit, blk *ast.BlockStmt, ft *ast.FuncType, sig *types.Signature, key string) *Body {
	b := &Body{P: p, Fn: f, Lit: lit, Block: blk, Type: ft, Sig: sig, key: key, parent: map[ast.Node]ast.Node{}}
	info := f.Info()
	b.G = cfg.New(blk, func(call *ast.CallExpr) bool {
		// calls that never return
		if id, ok := ast.Unparen(call.Fun).(*ast.Ident); ok {
			if bi, ok := info.Uses[id].(*types.Builtin); ok && bi.Name() == "panic" {
				return false
			}
		}
		switch calleeID(info, call) {
		case "os.Exit", "log.Fatal", "log.Fatalf", "log.Panic", "log.Panicf":
			return false
		}
		return true
	})
	var stack []ast.Node
	ast.Inspect(blk, func(n ast.Node) bool {
		if n == nil {
			stack = stack[:len(stack)-1]
			return true
		}
		if len(stack) > 0 {
			b.parent[n] = stack[len(stack)-1]
		}
		stack = append(stack, n)
		return true
	})
	ast.Inspect(blk, func(n ast.Node) bool {
		if l, ok := n.(*ast.FuncLit); ok && l != lit {
			return false
		}
		if d, ok := n.(*ast.DeferStmt); ok {
			b.defers = append(b.defers, d)
		}
		return true
	})
	return b
}

func (b *Body) Info() *types.Info { return b.Fn.Info() }
func (b *Body) Key() string       { return b.key }

// enclosingLit reports whether n lies inside a function literal nested in this body (not the body's own literal).
func (b *Body) inNestedLit(n ast.Node) bool {
	for x := b.parent[n]; x != nil; x = b.parent[x] {
		if l, ok := x.(*ast.FuncLit); ok && l != b.Lit {
			return true
		}
	}
	return false
}

// callsIn lists the calls evaluated when node n executes, in (approximate) evaluation order: arguments before
// the call. Function literals are not entered, except literals invoked on the spot (func(){...}()).
// For a DeferStmt/GoStmt nothing is returned: the call does not run at that point.
func callsIn(n ast.Node) []*ast.CallExpr {
	var out []*ast.CallExpr
	var walk func(n ast.Node)
	walk = func(n ast.Node) {
		if n == nil {
			return
		}
		switch x := n.(type) {
		case *ast.FuncLit:
			return
		case *ast.DeferStmt, *ast.GoStmt:
			return
		case *ast.CallExpr:
			for _, a := range x.Args {
				walk(a)
			}
			if lit, ok := ast.Unparen(x.Fun).(*ast.FuncLit); ok {
				// immediately invoked literal: its calls happen here
				ast.Inspect(lit.Body, func(m ast.Node) bool {
					if _, isLit := m.(*ast.FuncLit); isLit {
						return false
					}
					if c, ok := m.(*ast.CallExpr); ok {
						out = append(out, c)
					}
					return true
				})
			} else {
				walk(x.Fun)
			}
			out = append(out, x)
			return
		}
		// generic traversal of children in source order
		var children []ast.Node
		first := true
		ast.Inspect(n, func(m ast.Node) bool {
			if first {
				first = false
				return true
			}
			if m != nil {
				children = append(children, m)
			}
			return false
		})
		for _, c := range children {
			walk(c)
		}
	}
	walk(n)
	return out
}

// deferredCalls lists the calls that run at function exit because of defer statements, last defer first.
// For `defer func(){...}()` the calls of the literal body are listed (flattened, source order).
func (b *Body) deferredCalls() []*ast.CallExpr {
	var out []*ast.CallExpr
	for i := len(b.defers) - 1; i >= 0; i-- {
		d := b.defers[i]
		if lit, ok := ast.Unparen(d.Call.Fun).(*ast.FuncLit); ok {
			ast.Inspect(lit.Body, func(m ast.Node) bool {
				if _, isLit := m.(*ast.FuncLit); isLit {
					return false
				}
				if c, ok := m.(*ast.CallExpr); ok {
					out = append(out, c)
				}
				return true
			})
			continue
		}
		out = append(out, d.Call)
	}
	return out
}

// ---------------------------------------------------------------------------------------------------
// return classification

const (
	retSuccess = iota // the error result is certainly nil
	retFailure        // the error result is certainly non-nil
	retMaybe          // cannot tell
)

// errResultIndex is the index of the last result of type error, or -1.
func (b *Body) errResultIndex() int {
	if b.Sig == nil {
		return -1
	}
	r := b.Sig.Results()
	for i := r.Len() - 1; i >= 0; i-- {
		if isErrorType(r.At(i).Type()) {
			return i
		}
	}
	return -1
}

func (b *Body) namedErrResult() *types.Var {
	i := b.errResultIndex()
	if i < 0 {
		return nil
	}
	v := b.Sig.Results().At(i)
	if v.Name() == "" || v.Name() == "_" {
		return nil
	}
	return v
}

func (b *Body) classifyReturn(ret *ast.ReturnStmt) int {
	idx := b.errResultIndex()
	if idx < 0 {
		return retSuccess
	}
	info := b.Info()
	var e ast.Expr
	if len(ret.Results) == 0 {
		v := b.namedErrResult()
		if v == nil {
			return retMaybe
		}
		return b.classifyErrVar(ret, v)
	}
	if len(ret.Results) != b.Sig.Results().Len() {
		return retMaybe // return f() forwarding a tuple
	}
	e = ast.Unparen(ret.Results[idx])
	// a typed constant converted to error (syscall.Errno constants such as fuse.EIO, fuse.ENOENT) is a non-nil error
	if tv, ok := info.Types[e]; ok && tv.Value != nil {
		return retFailure
	}
	if id, ok := e.(*ast.Ident); ok {
		if id.Name == "nil" && info.Uses[id] == types.Universe.Lookup("nil") {
			return retSuccess
		}
		if v, ok := info.Uses[id].(*types.Var); ok {
			if v.Pkg() != nil && v.Parent() == v.Pkg().Scope() {
				return retFailure // package-level sentinel error
			}
			return b.classifyErrVar(ret, v)
		}
		return retMaybe
	}
	if sel, ok := e.(*ast.SelectorExpr); ok {
		if v, ok := info.Uses[sel.Sel].(*types.Var); ok && !v.IsField() {
			return retFailure // pkg.ErrSomething
		}
		if s := info.Selections[sel]; s != nil {
			if fv, ok := s.Obj().(*types.Var); ok && fv.IsField() && isErrorType(fv.Type()) {
				// an error carried by an event value (errorHit.error, keyBatchEvent.err...): by the repository's
				// channel protocol such a field is returned only when it reports a failure
				return retFailure
			}
		}
		return retMaybe
	}
	if ix, ok := e.(*ast.IndexExpr); ok {
		if sl, ok := info.TypeOf(ix.X).Underlying().(*types.Slice); ok && isErrorType(sl.Elem()) {
			return retFailure // an element of a collection of errors
		}
		return retMaybe
	}
	if call, ok := e.(*ast.CallExpr); ok {
		switch id := calleeID(info, call); id {
		case "fmt.Errorf", "errors.New", "pkg/errors.New":
			return retFailure
		default:
			// x.Wrap(err), x.WrapMessage(...), x.WrapWithLog(...) on an Error value are non-nil by construction
			if fn, ok := calleeObj(info, call).(*types.Func); ok {
				switch fn.Name() {
				case "Wrap", "WrapMessage", "WrapWithLog":
					return retFailure
				}
			}
			_ = id
		}
		return retMaybe
	}
	return retMaybe
}

// classifyErrVar decides a `return v` (or bare return with named result v) from the innermost enclosing test of v.
func (b *Body) classifyErrVar(at ast.Node, v *types.Var) int {
	info := b.Info()
	var child ast.Node = at
	for x := b.parent[at]; x != nil; child, x = x, b.parent[x] {
		if _, isLit := x.(*ast.FuncLit); isLit {
			break
		}
		ifs, ok := x.(*ast.IfStmt)
		if !ok {
			continue
		}
		inBody := child == ast.Node(ifs.Body)
		inElse := ifs.Else != nil && child == ast.Node(ifs.Else)
		if !inBody && !inElse {
			continue
		}
		// was v assigned between the test and the return? (conservative: any assignment to v inside the branch
		// positioned before the return)
		if assignedBetween(info, child, v, at.Pos()) {
			return retMaybe
		}
		switch condNilness(info, ifs.Cond, v) {
		case +1: // cond true => v != nil
			if inBody {
				return retFailure
			}
		case -1: // cond true => v == nil
			if inBody {
				return retSuccess
			}
		}
		switch condNilnessWhenFalse(info, ifs.Cond, v) {
		case +1: // cond false => v != nil
			if inElse {
				return retFailure
			}
		case -1:
			if inElse {
				return retSuccess
			}
		}
	}
	return retMaybe
}

// condNilness: +1 if cond being true implies v != nil, -1 if it implies v == nil, 0 otherwise.
func condNilness(info *types.Info, cond ast.Expr, v *types.Var) int {
	cond = ast.Unparen(cond)
	if u, ok := cond.(*ast.UnaryExpr); ok && u.Op == token.NOT {
		return condNilnessWhenFalse(info, u.X, v)
	}
	if be, ok := cond.(*ast.BinaryExpr); ok {
		switch be.Op {
		case token.LAND:
			if r := condNilness(info, be.X, v); r != 0 {
				return r
			}
			return condNilness(info, be.Y, v)
		case token.NEQ, token.EQL:
			if isVar(info, be.X, v) && isNil(info, be.Y) || isVar(info, be.Y, v) && isNil(info, be.X) {
				if be.Op == token.NEQ {
					return +1
				}
				return -1
			}
		}
	}
	return 0
}

// condNilnessWhenFalse: what cond being false implies about v.
func condNilnessWhenFalse(info *types.Info, cond ast.Expr, v *types.Var) int {
	cond = ast.Unparen(cond)
	if u, ok := cond.(*ast.UnaryExpr); ok && u.Op == token.NOT {
		return condNilness(info, u.X, v)
	}
	if be, ok := cond.(*ast.BinaryExpr); ok {
		switch be.Op {
		case token.LOR:
			if r := condNilnessWhenFalse(info, be.X, v); r != 0 {
				return r
			}
			return condNilnessWhenFalse(info, be.Y, v)
		case token.NEQ, token.EQL:
			if isVar(info, be.X, v) && isNil(info, be.Y) || isVar(info, be.Y, v) && isNil(info, be.X) {
				if be.Op == token.NEQ {
					return -1
				}
				return +1
			}
		}
	}
	return 0
}

func isVar(info *types.Info, e ast.Expr, v *types.Var) bool {
	id, ok := ast.Unparen(e).(*ast.Ident)
	return ok && (info.Uses[id] == v || info.Defs[id] == v)
}

func isNil(info *types.Info, e ast.Expr) bool {
	id, ok := ast.Unparen(e).(*ast.Ident)
	return ok && id.Name == "nil" && info.Uses[id] == types.Universe.Lookup("nil")
}

func assignedBetween(info *types.Info, scope ast.Node, v *types.Var, before token.Pos) bool {
	found := false
	ast.Inspect(scope, func(n ast.Node) bool {
		if n == nil || found {
			return false
		}
		if n.Pos() >= before {
			return false
		}
		switch s := n.(type) {
		case *ast.AssignStmt:
			for _, l := range s.Lhs {
				if isVar(info, l, v) && s.End() <= before {
					found = true
				}
			}
		}
		return true
	})
	return found
}

// ---------------------------------------------------------------------------------------------------
// powerset dataflow over the CFG

// flowSpec describes a may-analysis over automaton states encoded as bits.
type flowSpec struct {
	entry uint64
	// node transfers the set of possible states across one CFG node (statement or condition expression).
	node func(n ast.Node, s uint64) uint64
	// edge refines the state set along the i-th successor edge of block blk (0 = condition true, 1 = false).
	edge func(blk *cfg.Block, i int, s uint64) uint64
	// exit is called for every live function exit with the states possible there (after deferred calls were
	// applied by the caller through node()). ret is nil when control falls off the end of the body.
	exit func(blk *cfg.Block, ret *ast.ReturnStmt, s uint64)
}

func (b *Body) run(spec flowSpec) {
	in := map[*cfg.Block]uint64{}
	if len(b.G.Blocks) == 0 {
		return
	}
	entryBlk := b.G.Blocks[0]
	in[entryBlk] = spec.entry
	work := []*cfg.Block{entryBlk}
	inWork := map[*cfg.Block]bool{entryBlk: true}
	visited := map[*cfg.Block]bool{}
	out := map[*cfg.Block]uint64{}
	for len(work) > 0 {
		blk := work[0]
		work = work[1:]
		inWork[blk] = false
		visited[blk] = true
		s := in[blk]
		for _, n := range blk.Nodes {
			s = spec.node(n, s)
		}
		out[blk] = s
		for i, succ := range blk.Succs {
			es := s
			if spec.edge != nil {
				es = spec.edge(blk, i, s)
			}
			if es == 0 {
				continue
			}
			if nw := in[succ] | es; nw != in[succ] || !visited[succ] {
				in[succ] = nw
				if !inWork[succ] {
					work = append(work, succ)
					inWork[succ] = true
				}
			}
		}
	}
	if spec.exit == nil {
		return
	}
	for _, blk := range b.G.Blocks {
		if !visited[blk] || len(blk.Succs) != 0 {
			continue
		}
		s := out[blk]
		if s == 0 {
			continue
		}
		if blk.Kind == cfg.KindSelectAfterCase || blk.Kind == cfg.KindUnreachable {
			continue // a select without default never falls through its last case
		}
		var ret *ast.ReturnStmt
		if len(blk.Nodes) > 0 {
			last := blk.Nodes[len(blk.Nodes)-1]
			if r, ok := last.(*ast.ReturnStmt); ok {
				ret = r
			} else if es, ok := last.(*ast.ExprStmt); ok {
				if c, ok := es.X.(*ast.CallExpr); ok && b.noReturnCall(c) {
					continue // panic: not a normal exit
				}
			}
		}
		spec.exit(blk, ret, s)
	}
}

func (b *Body) noReturnCall(call *ast.CallExpr) bool {
	info := b.Info()
	if id, ok := ast.Unparen(call.Fun).(*ast.Ident); ok {
		if bi, ok := info.Uses[id].(*types.Builtin); ok && bi.Name() == "panic" {
			return true
		}
	}
	switch calleeID(info, call) {
	case "os.Exit", "log.Fatal", "log.Fatalf", "log.Panic", "log.Panicf":
		return true
	}
	return false
}

// condOf returns the condition expression ending a two-way block, if any.
func condOf(blk *cfg.Block) ast.Expr {
	if len(blk.Succs) != 2 || len(blk.Nodes) == 0 {
		return nil
	}
	e, _ := blk.Nodes[len(blk.Nodes)-1].(ast.Expr)
	return e
}

// ---------------------------------------------------------------------------------------------------
// event automata helpers

// eventPred tells whether a call is an occurrence of an event.
type eventPred func(b *Body, call *ast.CallExpr) bool

// callTo matches calls whose resolved callee ID is one of ids.
func callTo(ids ...string) eventPred {
	set := map[string]bool{}
	for _, i := range ids {
		set[i] = true
	}
	return func(b *Body, call *ast.CallExpr) bool { return set[calleeID(b.Info(), call)] }
}

// mustPassBeforeSuccess checks that every path from entry to a return that may be a success return passes
// through an A event (deferred calls at exit do not count). It reports the offending returns.
func (b *Body) mustPassBeforeSuccess(isA eventPred) (bad []ast.Node, nSuccess int) {
	const noA, hasA = 1, 2
	b.run(flowSpec{
		entry: noA,
		node: func(n ast.Node, s uint64) uint64 {
			for _, c := range callsIn(n) {
				if isA(b, c) {
					return hasA
				}
			}
			return s
		},
		exit: func(blk *cfg.Block, ret *ast.ReturnStmt, s uint64) {
			cls := retSuccess
			if ret != nil {
				cls = b.classifyReturn(ret)
			}
			if cls == retFailure {
				return
			}
			nSuccess++
			if s&noA != 0 {
				if ret != nil {
					bad = append(bad, ret)
				} else {
					bad = append(bad, b.Block)
				}
			}
		},
	})
	return
}

// neverAfter checks that no B event is reachable after an A event on any path (deferred calls at exit count as
// happening after everything). It returns the offending B calls.
func (b *Body) neverAfter(isA, isB eventPred) (bad []*ast.CallExpr, nA, nB int) {
	const before, after = 1, 2
	seenBad := map[*ast.CallExpr]bool{}
	countedA := map[*ast.CallExpr]bool{}
	countedB := map[*ast.CallExpr]bool{}
	handle := func(c *ast.CallExpr, s uint64) uint64 {
		if isB(b, c) {
			if !countedB[c] {
				countedB[c] = true
				nB++
			}
			if s&after != 0 && !seenBad[c] {
				seenBad[c] = true
				bad = append(bad, c)
			}
		}
		if isA(b, c) {
			if !countedA[c] {
				countedA[c] = true
				nA++
			}
			return after
		}
		return s
	}
	b.run(flowSpec{
		entry: before,
		node: func(n ast.Node, s uint64) uint64 {
			for _, c := range callsIn(n) {
				s = handle(c, s)
			}
			return s
		},
		exit: func(blk *cfg.Block, ret *ast.ReturnStmt, s uint64) {
			for _, c := range b.deferredCalls() {
				s = handle(c, s)
			}
		},
	})
	return
}

// dominatedBy checks that every path from entry to each B event passes through an A event first.
// It returns the B calls that can be reached without A.
func (b *Body) dominatedBy(isA, isB eventPred) (bad []*ast.CallExpr, nB int) {
	const noA, hasA = 1, 2
	seen := map[*ast.CallExpr]bool{}
	counted := map[*ast.CallExpr]bool{}
	b.run(flowSpec{
		entry: noA,
		node: func(n ast.Node, s uint64) uint64 {
			for _, c := range callsIn(n) {
				if isB(b, c) {
					if !counted[c] {
						counted[c] = true
						nB++
					}
					if s&noA != 0 && !seen[c] {
						seen[c] = true
						bad = append(bad, c)
					}
				}
				if isA(b, c) {
					s = hasA
				}
			}
			return s
		},
	})
	return
}

// findCalls lists the calls in this body (not in nested literals unless withLits) matching pred, source order.
func (b *Body) findCalls(pred eventPred, withLits bool) []*ast.CallExpr {
	var out []*ast.CallExpr
	ast.Inspect(b.Block, func(n ast.Node) bool {
		if l, ok := n.(*ast.FuncLit); ok && l != b.Lit && !withLits {
			return false
		}
		if c, ok := n.(*ast.CallExpr); ok && pred(b, c) {
			out = append(out, c)
		}
		return true
	})
	return out
}

// BodiesOf returns the body of f followed by the bodies of its function literals (source order).
func (p *Prog) BodiesOf(f *FuncInfo) []*Body {
	out := []*Body{p.BodyOf(f)}
	for _, l := range f.Lits {
		out = append(out, p.LitBody(f, l))
	}
	return out
}

func (b *Body) Pos() token.Pos { return b.Block.Pos() }
