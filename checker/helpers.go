package main

import (
	"go/ast"
	"go/constant"
	"go/token"
	"go/types"
	"sort"
	"strings"

	"golang.org/x/tools/go/cfg"
)

// callKey renders a stable key for a call inside function f: "<funcID>:<callee>#<k>" where k is the ordinal of
// that callee among the calls of f in source order.
func callKey(f *FuncInfo, call *ast.CallExpr) string {
	info := f.Info()
	id := calleeID(info, call)
	k := 0
	found := 0
	ast.Inspect(f.Decl.Body, func(n ast.Node) bool {
		if c, ok := n.(*ast.CallExpr); ok && calleeID(info, c) == id {
			k++
			if c == call {
				found = k
			}
		}
		return true
	})
	return f.ID + ":" + shortCallee(id) + "#" + itoa(found)
}

// storeCall is a call to a method of storage.Store (or a derived interface) with its key classified.
type storeCall struct {
	Fn     *FuncInfo
	Call   *ast.CallExpr
	Method string
	Kind   string
	Key    string
}

// enumStoreCalls lists the calls to the given storage.Store method in the packages, classifying arg #keyArg.
func enumStoreCalls(p *Prog, method string, keyArg int, pkgs ...string) []storeCall {
	var out []storeCall
	want := map[string]bool{"pkg/storage.Store." + method: true, "pkg/storage.StoreCRC." + method: true, "pkg/storage.VersionedStore." + method: true}
	for _, rel := range pkgs {
		for _, f := range p.FuncsIn(rel) {
			if f.Decl.Body == nil {
				continue
			}
			info := f.Info()
			ast.Inspect(f.Decl.Body, func(n ast.Node) bool {
				c, ok := n.(*ast.CallExpr)
				if !ok || !want[calleeID(info, c)] || len(c.Args) <= keyArg {
					return true
				}
				out = append(out, storeCall{Fn: f, Call: c, Method: method, Kind: resolveKeyKind(f, c.Args[keyArg], 0), Key: callKey(f, c)})
				return true
			})
		}
	}
	sort.Slice(out, func(i, j int) bool { return out[i].Key < out[j].Key })
	return out
}

// callersOf lists every call in the repo packages whose callee is id.
type callSite struct {
	Fn   *FuncInfo
	Call *ast.CallExpr
}

func callersOf(p *Prog, id string) []callSite {
	var out []callSite
	for _, f := range p.AllFuncs() {
		if f.Decl.Body == nil {
			continue
		}
		info := f.Info()
		ast.Inspect(f.Decl.Body, func(n ast.Node) bool {
			if c, ok := n.(*ast.CallExpr); ok && calleeID(info, c) == id {
				out = append(out, callSite{f, c})
			}
			return true
		})
	}
	return out
}

// errVarOfCall finds the error variable a call's error result is assigned to: `x, err := call()`,
// `err = call()`, `if err := call(); ...`. Returns nil if the result is not bound to a variable.
func errVarOfCall(b *Body, call *ast.CallExpr) *types.Var {
	info := b.Info()
	par := b.parent[call]
	for {
		if pe, ok := par.(*ast.ParenExpr); ok {
			par = b.parent[pe]
			continue
		}
		break
	}
	as, ok := par.(*ast.AssignStmt)
	if !ok || len(as.Rhs) != 1 {
		return nil
	}
	tv := info.TypeOf(call)
	idx := -1
	switch t := tv.(type) {
	case *types.Tuple:
		for i := t.Len() - 1; i >= 0; i-- {
			if isErrorType(t.At(i).Type()) {
				idx = i
				break
			}
		}
	default:
		if isErrorType(tv) {
			idx = 0
		}
	}
	if idx < 0 || idx >= len(as.Lhs) {
		return nil
	}
	id, ok := ast.Unparen(as.Lhs[idx]).(*ast.Ident)
	if !ok || id.Name == "_" {
		return nil
	}
	if v, ok := info.Defs[id].(*types.Var); ok {
		return v
	}
	if v, ok := info.Uses[id].(*types.Var); ok {
		return v
	}
	return nil
}

// guardedByNilErr checks that every node selected by isTarget is reachable only on paths where the error
// variable bound to the most recent A call has been tested and found nil (false edge of `v != nil`, true edge of
// `v == nil`, also inside && / || combinations). It returns the targets reachable with a possibly non-nil or
// untested error, and the number of targets seen.
func (b *Body) guardedByNilErr(isA eventPred, isTarget func(n ast.Node) bool) (bad []ast.Node, nTargets int, nA int) {
	return b.guardedByNilErrOpt(isA, isTarget, false)
}

// guardedByNilErrOpt: with ifCalled, paths on which no A call happened are accepted (the target is only required not
// to follow an A whose error is non-nil or untested).
func (b *Body) guardedByNilErrOpt(isA eventPred, isTarget func(n ast.Node) bool, ifCalled bool) (bad []ast.Node, nTargets int, nA int) {
	const unknown, knownNil, noA = 1, 2, 4
	badMask := uint64(unknown | noA)
	if ifCalled {
		badMask = unknown
	}
	info := b.Info()
	var errVars = map[*types.Var]bool{}
	for _, c := range b.findCalls(isA, false) {
		if v := errVarOfCall(b, c); v != nil {
			errVars[v] = true
		}
		nA++
	}
	seenT := map[ast.Node]bool{}
	seenBad := map[ast.Node]bool{}
	b.run(flowSpec{
		entry: noA,
		node: func(n ast.Node, s uint64) uint64 {
			// targets inside this node (checked before the node's own A call takes effect when the target is the
			// node itself)
			ast.Inspect(n, func(m ast.Node) bool {
				if m == nil {
					return false
				}
				if l, ok := m.(*ast.FuncLit); ok && l != b.Lit {
					return false
				}
				if isTarget(m) {
					if !seenT[m] {
						seenT[m] = true
						nTargets++
					}
					if s&badMask != 0 && !seenBad[m] {
						seenBad[m] = true
						bad = append(bad, m)
					}
				}
				return true
			})
			for _, c := range callsIn(n) {
				if isA(b, c) {
					s = unknown
				}
			}
			// any other assignment to a tracked error variable makes it unknown again
			if as, ok := n.(*ast.AssignStmt); ok {
				for _, l := range as.Lhs {
					if id, ok := ast.Unparen(l).(*ast.Ident); ok {
						if v, ok := info.Uses[id].(*types.Var); ok && errVars[v] && s&knownNil != 0 {
							isAcall := false
							for _, c := range callsIn(n) {
								if isA(b, c) {
									isAcall = true
								}
							}
							if !isAcall {
								s = unknown
							}
						}
					}
				}
			}
			return s
		},
		edge: func(blk *cfg.Block, i int, s uint64) uint64 {
			cond := condOf(blk)
			if cond == nil || s&noA != 0 && s == noA {
				return s
			}
			for v := range errVars {
				var r int
				if i == 0 {
					r = condNilness(info, cond, v)
				} else {
					r = condNilnessWhenFalse(info, cond, v)
				}
				switch r {
				case -1: // v == nil on this edge
					if s&unknown != 0 {
						s = (s &^ unknown) | knownNil
					}
				case +1: // v != nil on this edge: the nil case cannot flow here
					s = s &^ knownNil
					if s == 0 {
						return 0
					}
				}
			}
			return s
		},
	})
	return
}

// fieldOfCompositeLit returns the value given to field name in a composite literal, or nil.
func fieldOfCompositeLit(cl *ast.CompositeLit, name string) ast.Expr {
	for _, el := range cl.Elts {
		if kv, ok := el.(*ast.KeyValueExpr); ok {
			if id, ok := kv.Key.(*ast.Ident); ok && id.Name == name {
				return kv.Value
			}
		}
	}
	return nil
}

// usesObj reports whether expression tree e mentions object o.
func usesObj(info *types.Info, e ast.Node, o types.Object) bool {
	found := false
	ast.Inspect(e, func(n ast.Node) bool {
		if id, ok := n.(*ast.Ident); ok && (info.Uses[id] == o || info.Defs[id] == o) {
			found = true
		}
		return !found
	})
	return found
}

// paramVar returns the i-th parameter variable of f.
func paramVar(f *FuncInfo, name string) *types.Var {
	sig := f.Obj.Type().(*types.Signature)
	for i := 0; i < sig.Params().Len(); i++ {
		if sig.Params().At(i).Name() == name {
			return sig.Params().At(i)
		}
	}
	return nil
}

func isBoolConst(info *types.Info, e ast.Expr) (val bool, ok bool) {
	tv, found := info.Types[e]
	if !found || tv.Value == nil {
		return false, false
	}
	switch tv.Value.String() {
	case "true":
		return true, true
	case "false":
		return false, true
	}
	return false, false
}

func hasSuffixAny(s string, suffixes ...string) bool {
	for _, x := range suffixes {
		if strings.HasSuffix(s, x) {
			return true
		}
	}
	return false
}

var _ = token.NoPos

// describeExpr renders an expression in a rename-robust way: local variables are replaced by their origin
// (param:<name> — parameters keep their name since it is API; call:<calleeID> for a variable bound to a call
// result; range:<origin> for range variables), selections by field names, calls by resolved callee IDs, constants
// by value. Used by the record-plumbing rules (E-PLUMB).
func describeExpr(f *FuncInfo, e ast.Expr, depth int) string {
	info := f.Info()
	e = ast.Unparen(e)
	if tv, ok := info.Types[e]; ok && tv.Value != nil {
		return "const:" + tv.Value.ExactString()
	}
	switch x := e.(type) {
	case *ast.Ident:
		switch o := info.Uses[x].(type) {
		case *types.Var:
			if o.IsField() {
				return "field:" + o.Name()
			}
			if i := paramIndex(f, o); i >= 0 {
				return describeParam(f, o, i, depth)
			}
			if isLitParam(f, o) {
				return "litparam"
			}
			if recvOf(f) == o {
				return "recv"
			}
			if o.Pkg() != nil && o.Parent() == o.Pkg().Scope() {
				return "global:" + o.Name()
			}
			if depth > 3 {
				return "var"
			}
			defs := defsOfVarWithIndex(f, o)
			if describeCanonical {
				if x := inductionOver(f, o); x != nil {
					return "rangekey(" + describeExpr(f, x, depth+1) + ")"
				}
			}
			if describeCanonical && len(defs) != 1 {
				// guarded-action mode: a variable with several (or no) definitions is opaque — which definitions reach a
				// use changes whenever a step is added, and must not change the rendering of the steps that follow
				if sig, ok := f.Obj.Type().(*types.Signature); ok {
					for i := 0; i < sig.Results().Len(); i++ {
						if sig.Results().At(i) == o {
							return "result#" + itoa(i)
						}
					}
				}
				return "var:" + types.TypeString(o.Type(), func(p *types.Package) string { return p.Name() })
			}
			if describeUsePos.IsValid() && len(defs) > 1 {
				// position-sensitive mode: walk the definitions textually before the use, latest first, up to and
				// including the first one whose statement list encloses the use (it kills the earlier ones); definitions
				// in blocks that do not enclose the use (if/else arms, loop bodies) are alternatives.
				var before []varDef
				for i := range defs {
					if defs[i].pos <= describeUsePos {
						before = append(before, defs[i])
					}
				}
				sort.Slice(before, func(i, j int) bool { return before[i].pos > before[j].pos })
				var cands []varDef
				for _, d := range before {
					cands = append(cands, d)
					blk := f.scopeBlockOf(d.stmt)
					if _, isRange := d.stmt.(*ast.RangeStmt); isRange {
						blk = d.stmt
					}
					if blk == nil || encloses(blk, describeUsePos) {
						break
					}
				}
				if len(cands) == 1 {
					// uses inside the defining statement resolve to definitions before it
					old := describeUsePos
					describeUsePos = cands[0].start
					r := cands[0].describe(f, depth+1)
					describeUsePos = old
					return r
				}
				if len(cands) > 1 {
					defs = cands
				}
			}
			if len(defs) == 1 {
				if describeUsePos.IsValid() && defs[0].pos <= describeUsePos {
					// the operands of the definition are read where it stands, not at the use
					old := describeUsePos
					describeUsePos = defs[0].start
					r := defs[0].describe(f, depth+1)
					describeUsePos = old
					return r
				}
				return defs[0].describe(f, depth+1)
			}
			if len(defs) == 0 {
				return "var:undefined"
			}
			parts := []string{}
			seen := map[string]bool{}
			for _, d := range defs {
				s := d.describe(f, depth+1)
				if !seen[s] {
					seen[s] = true
					parts = append(parts, s)
				}
			}
			sort.Strings(parts)
			return "{" + strings.Join(parts, "|") + "}"
		case *types.Const:
			return "const:" + o.Val().ExactString()
		case *types.Nil:
			return "nil"
		case *types.Func:
			return "func:" + funcID(o)
		}
		return "ident:" + x.Name
	case *ast.SelectorExpr:
		if s := info.Selections[x]; s != nil {
			if describeCanonical && s.Kind() == types.FieldVal && !ast.IsExported(x.Sel.Name) {
				// an unexported field is identified by its position and type in the struct, not by its name
				idx := ""
				for _, i := range s.Index() {
					idx += "." + itoa(i)
				}
				return describeExpr(f, x.X, depth) + ".~f" + idx[1:] + ":" + types.TypeString(s.Obj().Type(), func(p *types.Package) string { return p.Name() })
			}
			return describeExpr(f, x.X, depth) + "." + x.Sel.Name
		}
		// qualified identifier
		if o := info.Uses[x.Sel]; o != nil {
			if fn, ok := o.(*types.Func); ok {
				return "func:" + funcID(fn)
			}
			if o.Pkg() != nil {
				return "global:" + strings.TrimPrefix(o.Pkg().Path(), modPrefix) + "." + o.Name()
			}
		}
		return "sel:" + x.Sel.Name
	case *ast.CallExpr:
		// conversion?
		if tv, ok := info.Types[x.Fun]; ok && tv.IsType() && len(x.Args) == 1 {
			return "conv:" + types.TypeString(tv.Type, func(p *types.Package) string { return p.Name() }) + "(" + describeExpr(f, x.Args[0], depth) + ")"
		}
		id := calleeID(info, x)
		if describeCanonical && (id == "fmt.Errorf" || id == "errors.New" || strings.HasSuffix(id, "/errors.New")) {
			return "ERR" // a freshly built error: its text is not part of any contract
		}
		args := []string{}
		for _, a := range x.Args {
			args = append(args, describeExpr(f, a, depth))
		}
		if sel, ok := ast.Unparen(x.Fun).(*ast.SelectorExpr); ok && info.Selections[sel] != nil {
			return describeExpr(f, sel.X, depth) + "." + sel.Sel.Name + "(" + strings.Join(args, ",") + ")"
		}
		if _, isVar := calleeObj(info, x).(*types.Var); isVar {
			return "call:" + describeExpr(f, x.Fun, depth) + "(" + strings.Join(args, ",") + ")"
		}
		return "call:" + id + "(" + strings.Join(args, ",") + ")"
	case *ast.TypeAssertExpr:
		if x.Type == nil {
			return describeExpr(f, x.X, depth) + ".(type)"
		}
		return describeExpr(f, x.X, depth) + ".(" + namedTypeID(info.TypeOf(x.Type)) + ")"
	case *ast.StarExpr:
		return "*" + describeExpr(f, x.X, depth)
	case *ast.UnaryExpr:
		return x.Op.String() + describeExpr(f, x.X, depth)
	case *ast.BinaryExpr:
		l, r := describeExpr(f, x.X, depth), describeExpr(f, x.Y, depth)
		op := x.Op
		if describeCanonical {
			// emptiness tests on len()/cap(): one rendering for == 0, < 1, <= 0 and one for != 0, > 0, >= 1
			emptinessFunc = f
			if e := emptinessTest(info, x, l, r); e != "" {
				return e
			}
			// operands of commutative operators in lexical order; > and >= turned into < and <=
			switch op {
			case token.EQL, token.NEQ, token.LAND, token.LOR, token.ADD, token.MUL, token.AND, token.OR, token.XOR:
				if isStringTyped(info, x.X) && op == token.ADD {
					break // string concatenation is not commutative
				}
				if r < l {
					l, r = r, l
				}
			case token.GTR:
				l, r, op = r, l, token.LSS
			case token.GEQ:
				l, r, op = r, l, token.LEQ
			}
		}
		return "(" + l + op.String() + r + ")"
	case *ast.IndexExpr:
		if describeCanonical || describeIndexAsRange {
			// X[i] inside `for i := 0; i < len(X); i++` is the element a range loop over X would bind
			if id, ok := ast.Unparen(x.Index).(*ast.Ident); ok {
				if v, ok := info.Uses[id].(*types.Var); ok {
					if over := inductionOver(f, v); over != nil && describeExpr(f, over, depth+1) == describeExpr(f, x.X, depth+1) {
						return "range(" + describeExpr(f, x.X, depth+1) + ")"
					}
					if over := rangeKeyOver(f, v); over != nil && describeExpr(f, over, depth+1) == describeExpr(f, x.X, depth+1) {
						return "range(" + describeExpr(f, x.X, depth+1) + ")"
					}
				}
			}
		}
		return describeExpr(f, x.X, depth) + "[" + describeExpr(f, x.Index, depth) + "]"
	case *ast.SliceExpr:
		lo, hi := "", ""
		if x.Low != nil {
			lo = describeExpr(f, x.Low, depth)
		}
		if x.High != nil {
			hi = describeExpr(f, x.High, depth)
		}
		return describeExpr(f, x.X, depth) + "[" + lo + ":" + hi + "]"
	case *ast.CompositeLit:
		return "lit:" + namedTypeID(info.TypeOf(x))
	case *ast.FuncLit:
		return "funclit"
	}
	if describeTypes {
		if tv, ok := info.Types[e]; ok && tv.IsType() {
			return "type:" + types.TypeString(tv.Type, func(p *types.Package) string { return p.Name() })
		}
	}
	return "expr"
}

// describeTypes makes describeExpr render type arguments (make(chan T), new(T)) instead of the opaque "expr"; set by
// the guarded-actions engine only (older rules match the opaque form).
var describeTypes bool

// describeCanonical makes describeExpr order the operands of commutative operators and normalise > / >= (set by the
// guarded-actions engine only).
var describeCanonical bool

// describeIndexAsRange enables only the index-loop canonicalisation of the canonical mode: X[i] inside
// `for i := 0; i < len(X); i++` (or `for i := range X`) is rendered as the element a range loop over X binds.
var describeIndexAsRange bool

// describeUsePos, when valid, makes describeExpr resolve a local variable with several definitions to the last
// definition textually before that position (see describeExprAt).
var describeUsePos token.Pos

// describeExprAt is describeExpr for an expression used at its own position: reassigned locals (key := a; ...;
// key = b) resolve to the definition in force at the use, assuming the definitions and the use are in straight-line
// order (callers use it for straight-line builder code only).
func describeExprAt(f *FuncInfo, e ast.Expr) string {
	old := describeUsePos
	describeUsePos = e.Pos()
	defer func() { describeUsePos = old }()
	return describeExpr(f, e, 0)
}

func recvOf(f *FuncInfo) *types.Var {
	sig, _ := f.Obj.Type().(*types.Signature)
	if sig == nil {
		return nil
	}
	return sig.Recv()
}

type varDef struct {
	start token.Pos // start of the defining statement
	stmt  ast.Node  // the defining statement
	pos   token.Pos // end of the defining statement (range: position of the range statement)
	rhs   ast.Expr  // nil for range / unknown
	index int       // index into a tuple-valued rhs, -1 when rhs is the value itself
	rng   ast.Expr  // range expression when defined by range
	isKey bool
}

func (d varDef) describe(f *FuncInfo, depth int) string {
	if d.rng != nil {
		if d.isKey {
			return "rangekey(" + describeExpr(f, d.rng, depth) + ")"
		}
		return "range(" + describeExpr(f, d.rng, depth) + ")"
	}
	if d.rhs == nil {
		return "unknown"
	}
	s := describeExpr(f, d.rhs, depth)
	if d.index >= 0 {
		return s + "#" + itoa(d.index)
	}
	return s
}

func defsOfVarWithIndex(f *FuncInfo, v *types.Var) []varDef {
	info := f.Info()
	var out []varDef
	ast.Inspect(f.Decl.Body, func(n ast.Node) bool {
		switch s := n.(type) {
		case *ast.AssignStmt:
			for i, l := range s.Lhs {
				id, ok := ast.Unparen(l).(*ast.Ident)
				if !ok || (info.Defs[id] != v && info.Uses[id] != v) {
					continue
				}
				if s.Tok != token.ASSIGN && s.Tok != token.DEFINE {
					out = append(out, varDef{stmt: s, start: s.Pos(), pos: s.End(), index: -1}) // op-assign
					continue
				}
				if len(s.Lhs) == len(s.Rhs) {
					out = append(out, varDef{stmt: s, start: s.Pos(), pos: s.End(), rhs: s.Rhs[i], index: -1})
				} else if len(s.Rhs) == 1 {
					out = append(out, varDef{stmt: s, start: s.Pos(), pos: s.End(), rhs: s.Rhs[0], index: i})
				}
			}
		case *ast.ValueSpec:
			for i, id := range s.Names {
				if info.Defs[id] != v {
					continue
				}
				if len(s.Values) == len(s.Names) {
					out = append(out, varDef{stmt: s, start: s.Pos(), pos: s.End(), rhs: s.Values[i], index: -1})
				} else if len(s.Values) == 1 {
					out = append(out, varDef{stmt: s, start: s.Pos(), pos: s.End(), rhs: s.Values[0], index: i})
				}
				// no initial value: zero value, not a def of interest
			}
		case *ast.RangeStmt:
			if id, ok := s.Key.(*ast.Ident); ok && (info.Defs[id] == v || info.Uses[id] == v) {
				out = append(out, varDef{stmt: s, start: s.Pos(), pos: s.Pos() + 1, rng: s.X, isKey: true})
			}
			if id, ok := s.Value.(*ast.Ident); ok && (info.Defs[id] == v || info.Uses[id] == v) {
				out = append(out, varDef{stmt: s, start: s.Pos(), pos: s.Pos() + 1, rng: s.X})
			}
		case *ast.IncDecStmt:
			if id, ok := ast.Unparen(s.X).(*ast.Ident); ok && info.Uses[id] == v {
				out = append(out, varDef{stmt: s, start: s.Pos(), pos: s.End(), index: -1})
			}
		}
		return true
	})
	return out
}

// compositeLits lists the composite literals of the given named type in f (pre-order).
func compositeLits(f *FuncInfo, typeID string) []*ast.CompositeLit {
	var out []*ast.CompositeLit
	info := f.Info()
	ast.Inspect(f.Decl.Body, func(n ast.Node) bool {
		if cl, ok := n.(*ast.CompositeLit); ok && namedTypeID(info.TypeOf(cl)) == typeID {
			out = append(out, cl)
		}
		return true
	})
	return out
}

// checkLitFields checks the field plumbing of a composite literal against expected origin descriptions.
func checkLitFields(c *Ctx, rule string, f *FuncInfo, cl *ast.CompositeLit, key string, want map[string]string, why string) {
	p := c.P
	names := make([]string, 0, len(want))
	for n := range want {
		names = append(names, n)
	}
	sort.Strings(names)
	for _, field := range names {
		v := fieldOfCompositeLit(cl, field)
		if v == nil {
			c.fail(rule, key+"."+field, p.Pos(cl.Pos()), "field "+field+" is not set in the "+namedTypeID(f.Info().TypeOf(cl))+" literal: "+why)
			continue
		}
		got := describeExpr(f, v, 0)
		c.check(got == want[field], rule, key+"."+field, p.Pos(v.Pos()),
			field+" <- "+got,
			"field "+field+" is fed from `"+got+"` instead of `"+want[field]+"`: "+why)
	}
}

// paramIndex is the position of v among the parameters of f, or -1.
func paramIndex(f *FuncInfo, v *types.Var) int {
	sig, _ := f.Obj.Type().(*types.Signature)
	if sig == nil {
		return -1
	}
	for i := 0; i < sig.Params().Len(); i++ {
		if sig.Params().At(i) == v {
			return i
		}
	}
	return -1
}

// roleString prints an expression with every local variable / parameter replaced by the role name the caller
// inferred for it from how it is defined or used (never from its identifier), so that a consistent renaming of
// locals leaves the string unchanged. Variables without role print as "?name" (so an unexpected variable changes
// the string). Package-level identifiers print by name.
func roleString(info *types.Info, e ast.Expr, roles map[types.Object]string) string {
	switch x := ast.Unparen(e).(type) {
	case *ast.Ident:
		if x.Name == "_" {
			return "_"
		}
		o := info.Uses[x]
		if o == nil {
			o = info.Defs[x]
		}
		if r, ok := roles[o]; ok {
			return r
		}
		if v, ok := o.(*types.Var); ok && !v.IsField() && v.Pkg() != nil && v.Parent() != v.Pkg().Scope() {
			return "?" + x.Name
		}
		return x.Name
	case *ast.BinaryExpr:
		return roleString(info, x.X, roles) + x.Op.String() + roleString(info, x.Y, roles)
	case *ast.UnaryExpr:
		return x.Op.String() + roleString(info, x.X, roles)
	case *ast.CallExpr:
		var args []string
		for _, a := range x.Args {
			args = append(args, roleString(info, a, roles))
		}
		return roleString(info, x.Fun, roles) + "(" + strings.Join(args, ",") + ")"
	case *ast.SelectorExpr:
		return roleString(info, x.X, roles) + "." + x.Sel.Name
	case *ast.BasicLit:
		return x.Value
	case *ast.IndexExpr:
		return roleString(info, x.X, roles) + "[" + roleString(info, x.Index, roles) + "]"
	case *ast.StarExpr:
		return "*" + roleString(info, x.X, roles)
	case *ast.TypeAssertExpr:
		return roleString(info, x.X, roles) + ".(T)"
	case *ast.SliceExpr:
		lo, hi := "", ""
		if x.Low != nil {
			lo = roleString(info, x.Low, roles)
		}
		if x.High != nil {
			hi = roleString(info, x.High, roles)
		}
		return roleString(info, x.X, roles) + "[" + lo + ":" + hi + "]"
	case *ast.ParenExpr:
		return roleString(info, x.X, roles)
	}
	return exprString(e)
}

// roleCmp normalises a comparison so that the variable with role `left` is on the left-hand side.
func roleCmp(info *types.Info, e ast.Expr, roles map[types.Object]string, left string) string {
	be, ok := ast.Unparen(e).(*ast.BinaryExpr)
	if !ok {
		return roleString(info, e, roles)
	}
	x, y := roleString(info, be.X, roles), roleString(info, be.Y, roles)
	op := be.Op.String()
	if y == left {
		x, y = y, x
		switch be.Op {
		case token.LSS:
			op = ">"
		case token.LEQ:
			op = ">="
		case token.GTR:
			op = "<"
		case token.GEQ:
			op = "<="
		}
	}
	return x + op + y
}

// lhsVars returns the variables on the left of the first assignment / definition in n's subtree whose right-hand
// side satisfies pred.
func lhsVars(info *types.Info, n ast.Node, pred func(rhs ast.Expr) bool) []*types.Var {
	var out []*types.Var
	ast.Inspect(n, func(m ast.Node) bool {
		if out != nil {
			return false
		}
		var lhs []ast.Expr
		var rhs []ast.Expr
		switch s := m.(type) {
		case *ast.AssignStmt:
			lhs, rhs = s.Lhs, s.Rhs
		case *ast.ValueSpec:
			for _, id := range s.Names {
				lhs = append(lhs, id)
			}
			rhs = s.Values
		default:
			return true
		}
		if len(rhs) == 0 {
			return true
		}
		for i, r := range rhs {
			if !pred(r) {
				continue
			}
			ls := lhs
			if len(lhs) == len(rhs) {
				ls = lhs[i : i+1]
			}
			for _, l := range ls {
				if id, ok := ast.Unparen(l).(*ast.Ident); ok {
					v, _ := info.Defs[id].(*types.Var)
					if v == nil {
						v, _ = info.Uses[id].(*types.Var)
					}
					out = append(out, v)
				} else {
					out = append(out, nil)
				}
			}
			return false
		}
		return true
	})
	return out
}

// constantInt64 returns the value of an integer constant.
func constantInt64(v constant.Value) (int64, bool) {
	if v == nil || v.Kind() != constant.Int {
		return 0, false
	}
	return constant.Int64Val(v)
}

// describeParam: a parameter is `param#i` unless the function reassigns it: then the description is the set of the
// parameter and the reassigned values that can reach the use (position-sensitive mode), or of all of them.
func describeParam(f *FuncInfo, o *types.Var, i int, depth int) string {
	base := "param#" + itoa(i)
	if depth > 3 {
		return base
	}
	defs := defsOfVarWithIndex(f, o)
	var live []varDef
	for _, d := range defs {
		if d.rhs != nil || d.stmt != nil {
			live = append(live, d)
		}
	}
	if len(live) == 0 {
		return base
	}
	includeParam := true
	cands := live
	if describeUsePos.IsValid() {
		var before []varDef
		for _, d := range live {
			if d.pos <= describeUsePos {
				before = append(before, d)
			}
		}
		if len(before) == 0 {
			return base
		}
		sort.Slice(before, func(a, b int) bool { return before[a].pos > before[b].pos })
		cands = nil
		for _, d := range before {
			cands = append(cands, d)
			blk := f.scopeBlockOf(d.stmt)
			if blk == nil || encloses(blk, describeUsePos) {
				if d.start > describeUsePos || !encloses(d.stmt, describeUsePos) {
					includeParam = false
				}
				break
			}
		}
	}
	parts := []string{}
	seen := map[string]bool{}
	if includeParam {
		parts = append(parts, base)
		seen[base] = true
	}
	for _, d := range cands {
		old := describeUsePos
		if describeUsePos.IsValid() {
			describeUsePos = d.start
		}
		str := d.describe(f, depth+1)
		describeUsePos = old
		if !seen[str] {
			seen[str] = true
			parts = append(parts, str)
		}
	}
	if len(parts) == 1 {
		return parts[0]
	}
	sort.Strings(parts)
	return "{" + strings.Join(parts, "|") + "}"
}

// emptinessFunc is the function whose body is being described (set by describeExpr in canonical mode).
var emptinessFunc *FuncInfo

// emptinessTest recognises comparisons of len(x)/cap(x) with 0 or 1 that mean "empty" / "not empty".
func emptinessTest(info *types.Info, x *ast.BinaryExpr, l, r string) string {
	isLenCall := func(e ast.Expr) bool {
		call, ok := ast.Unparen(e).(*ast.CallExpr)
		if !ok {
			return false
		}
		id := calleeID(info, call)
		return id == "builtin.len" || id == "builtin.cap"
	}
	isLen := func(e ast.Expr) bool {
		if isLenCall(e) {
			return true
		}
		// a local integer only ever assigned a length or a non-negative constant is a count: x > 0 and x != 0 coincide
		id, ok := ast.Unparen(e).(*ast.Ident)
		if !ok || emptinessFunc == nil {
			return false
		}
		v, ok := info.Uses[id].(*types.Var)
		if !ok || v.IsField() || paramIndex(emptinessFunc, v) >= 0 {
			return false
		}
		defs := defsOfVarWithIndex(emptinessFunc, v)
		if len(defs) == 0 {
			return false
		}
		for _, d := range defs {
			if d.rhs == nil || d.index >= 0 {
				return false
			}
			if isLenCall(d.rhs) {
				continue
			}
			if tv, ok := info.Types[d.rhs]; ok && tv.Value != nil && !strings.HasPrefix(tv.Value.String(), "-") {
				continue
			}
			return false
		}
		return true
	}
	constOf := func(e ast.Expr) (int64, bool) {
		if tv, ok := info.Types[e]; ok && tv.Value != nil {
			return parseInt(tv.Value.String()), tv.Value.String() == "0" || tv.Value.String() == "1"
		}
		return 0, false
	}
	var lenDesc string
	var k int64
	op := x.Op
	switch {
	case isLen(x.X):
		v, ok := constOf(x.Y)
		if !ok {
			return ""
		}
		lenDesc, k = l, v
	case isLen(x.Y):
		v, ok := constOf(x.X)
		if !ok {
			return ""
		}
		lenDesc, k = r, v
		// mirror the operator: k op len  ==  len op' k
		switch op {
		case token.LSS:
			op = token.GTR
		case token.LEQ:
			op = token.GEQ
		case token.GTR:
			op = token.LSS
		case token.GEQ:
			op = token.LEQ
		}
	default:
		return ""
	}
	switch {
	case k == 0 && (op == token.EQL || op == token.LEQ), k == 1 && op == token.LSS:
		return "empty(" + lenDesc + ")"
	case k == 0 && (op == token.NEQ || op == token.GTR), k == 1 && op == token.GEQ:
		return "nonempty(" + lenDesc + ")"
	}
	return ""
}

// inductionOver: v is the induction variable of `for v := 0; v < len(X); v++` (not assigned in the body); returns X.
func inductionOver(f *FuncInfo, v *types.Var) ast.Expr {
	info := f.Info()
	var out ast.Expr
	ast.Inspect(f.Decl.Body, func(n ast.Node) bool {
		fs, ok := n.(*ast.ForStmt)
		if !ok || fs.Init == nil || fs.Cond == nil || fs.Post == nil {
			return true
		}
		as, ok := fs.Init.(*ast.AssignStmt)
		if !ok || as.Tok != token.DEFINE || len(as.Lhs) != 1 || len(as.Rhs) != 1 {
			return true
		}
		id, ok := as.Lhs[0].(*ast.Ident)
		if !ok || info.Defs[id] != v {
			return true
		}
		if tv, ok := info.Types[as.Rhs[0]]; !ok || tv.Value == nil || tv.Value.ExactString() != "0" {
			return true
		}
		be, ok := ast.Unparen(fs.Cond).(*ast.BinaryExpr)
		if !ok || be.Op != token.LSS || !isVar(info, be.X, v) {
			return true
		}
		call, ok := ast.Unparen(be.Y).(*ast.CallExpr)
		if !ok || calleeID(info, call) != "builtin.len" || len(call.Args) != 1 {
			return true
		}
		inc, ok := fs.Post.(*ast.IncDecStmt)
		if !ok || inc.Tok != token.INC || !isVar(info, inc.X, v) {
			return true
		}
		// not assigned in the body
		assigned := false
		ast.Inspect(fs.Body, func(m ast.Node) bool {
			switch y := m.(type) {
			case *ast.AssignStmt:
				for _, l := range y.Lhs {
					if isVar(info, l, v) {
						assigned = true
					}
				}
			case *ast.IncDecStmt:
				if isVar(info, y.X, v) {
					assigned = true
				}
			}
			return true
		})
		if !assigned {
			out = call.Args[0]
		}
		return true
	})
	return out
}

// rangeKeyOver: v is the key variable of `for v := range X` / `for v, _ := range X` over a slice or array; returns X.
func rangeKeyOver(f *FuncInfo, v *types.Var) ast.Expr {
	info := f.Info()
	var out ast.Expr
	ast.Inspect(f.Decl.Body, func(n ast.Node) bool {
		rs, ok := n.(*ast.RangeStmt)
		if !ok || rs.Key == nil {
			return true
		}
		id, ok := rs.Key.(*ast.Ident)
		if !ok || info.Defs[id] != v {
			return true
		}
		switch info.TypeOf(rs.X).Underlying().(type) {
		case *types.Slice, *types.Array:
			out = rs.X
		}
		return true
	})
	return out
}

// elseOrRest returns the statements executed when the condition of ifs is false: its else block, or — when there is no
// else and the body always leaves the enclosing list (return, break, continue, goto, panic) — the statements that follow
// ifs in its block. `if c {…; continue} else {B}` and `if c {…; continue}; B` are the same program.
func elseOrRest(f *FuncInfo, ifs *ast.IfStmt) []ast.Stmt {
	if eb, ok := ifs.Else.(*ast.BlockStmt); ok {
		return eb.List
	}
	if ifs.Else != nil {
		return []ast.Stmt{ifs.Else}
	}
	if len(ifs.Body.List) == 0 {
		return nil
	}
	diverts := false
	switch last := ifs.Body.List[len(ifs.Body.List)-1].(type) {
	case *ast.ReturnStmt, *ast.BranchStmt:
		diverts = true
	case *ast.ExprStmt:
		if call, ok := ast.Unparen(last.X).(*ast.CallExpr); ok && calleeID(f.Info(), call) == "builtin.panic" {
			diverts = true
		}
	}
	if !diverts {
		return nil
	}
	var list []ast.Stmt
	switch par := f.parentOf(ifs).(type) {
	case *ast.BlockStmt:
		list = par.List
	case *ast.CaseClause:
		list = par.Body
	case *ast.CommClause:
		list = par.Body
	}
	for i, st := range list {
		if st == ast.Stmt(ifs) {
			return list[i+1:]
		}
	}
	return nil
}
