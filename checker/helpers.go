package main

import (
	"go/ast"
	"go/token"
	"go/types"
	"sort"
	"strings"

	"golang.org/x/tools/go/cfg"
)

// callKey renders a stable key for a call inside function f: "<funcID>:<callee>#<k>" where k is the ordinal of
// that callee among the calls of f in source order.
func callKey(f *FuncInfo, call *ast.CallExpr) string {
	info := f.Info()
	id := calleeID(info, call)
	k := 0
	found := 0
	ast.Inspect(f.Decl.Body, func(n ast.Node) bool {
		if c, ok := n.(*ast.CallExpr); ok && calleeID(info, c) == id {
			k++
			if c == call {
				found = k
			}
		}
		return true
	})
	return f.ID + ":" + shortCallee(id) + "#" + itoa(found)
}

// storeCall is a call to a method of storage.Store (or a derived interface) with its key classified.
type storeCall struct {
	Fn     *FuncInfo
	Call   *ast.CallExpr
	Method string
	Kind   string
	Key    string
}

// enumStoreCalls lists the calls to the given storage.Store method in the packages, classifying arg #keyArg.
func enumStoreCalls(p *Prog, method string, keyArg int, pkgs ...string) []storeCall {
	var out []storeCall
	want := map[string]bool{"pkg/storage.Store." + method: true, "pkg/storage.StoreCRC." + method: true, "pkg/storage.VersionedStore." + method: true}
	for _, rel := range pkgs {
		for _, f := range p.FuncsIn(rel) {
			if f.Decl.Body == nil {
				continue
			}
			info := f.Info()
			ast.Inspect(f.Decl.Body, func(n ast.Node) bool {
				c, ok := n.(*ast.CallExpr)
				if !ok || !want[calleeID(info, c)] || len(c.Args) <= keyArg {
					return true
				}
				out = append(out, storeCall{Fn: f, Call: c, Method: method, Kind: resolveKeyKind(f, c.Args[keyArg], 0), Key: callKey(f, c)})
				return true
			})
		}
	}
	sort.Slice(out, func(i, j int) bool { return out[i].Key < out[j].Key })
	return out
}

// callersOf lists every call in the repo packages whose callee is id.
type callSite struct {
	Fn   *FuncInfo
	Call *ast.CallExpr
}

func callersOf(p *Prog, id string) []callSite {
	var out []callSite
	for _, f := range p.AllFuncs() {
		if f.Decl.Body == nil {
			continue
		}
		info := f.Info()
		ast.Inspect(f.Decl.Body, func(n ast.Node) bool {
			if c, ok := n.(*ast.CallExpr); ok && calleeID(info, c) == id {
				out = append(out, callSite{f, c})
			}
			return true
		})
	}
	return out
}

// errVarOfCall finds the error variable a call's error result is assigned to: `x, err := call()`,
// `err = call()`, `if err := call(); ...`. Returns nil if the result is not bound to a variable.
func errVarOfCall(b *Body, call *ast.CallExpr) *types.Var {
	info := b.Info()
	par := b.parent[call]
	for {
		if pe, ok := par.(*ast.ParenExpr); ok {
			par = b.parent[pe]
			continue
		}
		break
	}
	as, ok := par.(*ast.AssignStmt)
	if !ok || len(as.Rhs) != 1 {
		return nil
	}
	tv := info.TypeOf(call)
	idx := -1
	switch t := tv.(type) {
	case *types.Tuple:
		for i := t.Len() - 1; i >= 0; i-- {
			if isErrorType(t.At(i).Type()) {
				idx = i
				break
			}
		}
	default:
		if isErrorType(tv) {
			idx = 0
		}
	}
	if idx < 0 || idx >= len(as.Lhs) {
		return nil
	}
	id, ok := ast.Unparen(as.Lhs[idx]).(*ast.Ident)
	if !ok || id.Name == "_" {
		return nil
	}
	if v, ok := info.Defs[id].(*types.Var); ok {
		return v
	}
	if v, ok := info.Uses[id].(*types.Var); ok {
		return v
	}
	return nil
}

// guardedByNilErr checks that every node selected by isTarget is reachable only on paths where the error
// variable bound to the most recent A call has been tested and found nil (false edge of `v != nil`, true edge of
// `v == nil`, also inside && / || combinations). It returns the targets reachable with a possibly non-nil or
// untested error, and the number of targets seen.
func (b *Body) guardedByNilErr(isA eventPred, isTarget func(n ast.Node) bool) (bad []ast.Node, nTargets int, nA int) {
	const unknown, knownNil, noA = 1, 2, 4
	info := b.Info()
	var errVars = map[*types.Var]bool{}
	for _, c := range b.findCalls(isA, false) {
		if v := errVarOfCall(b, c); v != nil {
			errVars[v] = true
		}
		nA++
	}
	seenT := map[ast.Node]bool{}
	seenBad := map[ast.Node]bool{}
	b.run(flowSpec{
		entry: noA,
		node: func(n ast.Node, s uint64) uint64 {
			// targets inside this node (checked before the node's own A call takes effect when the target is the
			// node itself)
			ast.Inspect(n, func(m ast.Node) bool {
				if m == nil {
					return false
				}
				if l, ok := m.(*ast.FuncLit); ok && l != b.Lit {
					return false
				}
				if isTarget(m) {
					if !seenT[m] {
						seenT[m] = true
						nTargets++
					}
					if s&(unknown|noA) != 0 && !seenBad[m] {
						seenBad[m] = true
						bad = append(bad, m)
					}
				}
				return true
			})
			for _, c := range callsIn(n) {
				if isA(b, c) {
					s = unknown
				}
			}
			// any other assignment to a tracked error variable makes it unknown again
			if as, ok := n.(*ast.AssignStmt); ok {
				for _, l := range as.Lhs {
					if id, ok := ast.Unparen(l).(*ast.Ident); ok {
						if v, ok := info.Uses[id].(*types.Var); ok && errVars[v] && s&knownNil != 0 {
							isAcall := false
							for _, c := range callsIn(n) {
								if isA(b, c) {
									isAcall = true
								}
							}
							if !isAcall {
								s = unknown
							}
						}
					}
				}
			}
			return s
		},
		edge: func(blk *cfg.Block, i int, s uint64) uint64 {
			cond := condOf(blk)
			if cond == nil || s&noA != 0 && s == noA {
				return s
			}
			for v := range errVars {
				var r int
				if i == 0 {
					r = condNilness(info, cond, v)
				} else {
					r = condNilnessWhenFalse(info, cond, v)
				}
				switch r {
				case -1: // v == nil on this edge
					if s&unknown != 0 {
						s = (s &^ unknown) | knownNil
					}
				case +1: // v != nil on this edge: the nil case cannot flow here
					s = s &^ knownNil
					if s == 0 {
						return 0
					}
				}
			}
			return s
		},
	})
	return
}

// fieldOfCompositeLit returns the value given to field name in a composite literal, or nil.
func fieldOfCompositeLit(cl *ast.CompositeLit, name string) ast.Expr {
	for _, el := range cl.Elts {
		if kv, ok := el.(*ast.KeyValueExpr); ok {
			if id, ok := kv.Key.(*ast.Ident); ok && id.Name == name {
				return kv.Value
			}
		}
	}
	return nil
}

// usesObj reports whether expression tree e mentions object o.
func usesObj(info *types.Info, e ast.Node, o types.Object) bool {
	found := false
	ast.Inspect(e, func(n ast.Node) bool {
		if id, ok := n.(*ast.Ident); ok && (info.Uses[id] == o || info.Defs[id] == o) {
			found = true
		}
		return !found
	})
	return found
}

// paramVar returns the i-th parameter variable of f.
func paramVar(f *FuncInfo, name string) *types.Var {
	sig := f.Obj.Type().(*types.Signature)
	for i := 0; i < sig.Params().Len(); i++ {
		if sig.Params().At(i).Name() == name {
			return sig.Params().At(i)
		}
	}
	return nil
}

func isBoolConst(info *types.Info, e ast.Expr) (val bool, ok bool) {
	tv, found := info.Types[e]
	if !found || tv.Value == nil {
		return false, false
	}
	switch tv.Value.String() {
	case "true":
		return true, true
	case "false":
		return false, true
	}
	return false, false
}

func hasSuffixAny(s string, suffixes ...string) bool {
	for _, x := range suffixes {
		if strings.HasSuffix(s, x) {
			return true
		}
	}
	return false
}

var _ = token.NoPos
