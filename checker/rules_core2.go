package main

import (
	"go/ast"
	"go/token"
	"go/types"
	"sort"
	"strings"

	"golang.org/x/tools/go/cfg"
)

// C05, C09, C10 — diff/update, repository operations, squash.

func init() {
	register(&propSpec{
		id: "C05",
		explanation: "Static structural clauses for bundle diff and in-place update: (a) the switch over DiffEntryType in downloadBundleEntries has a case for every constant of the type and its default reports an error; " +
			"(b) role mapping: Add downloads Additional (no overwrite), Del deletes Existing, Dif downloads Additional with overwrite, all against the destination bundle; " +
			"(c) diffBundles' decision table: both maps keyed by NameWithPath, the only comparison between a common pair is Hash != Hash, one append per guard with the literal Type/Existing/Additional fed from the right map, no append on the equal path; " +
			"(d) Update loads both bundles' metadata before the data phase; after it the destination's old descriptor and every old file list found in the destination store are deleted and the source bundle's metadata is published, every error propagated. " +
			"Not decided: byte identity with a fresh download.",
		run: runC05,
	})
	register(&propSpec{
		id: "C09",
		explanation: "Static structural clauses for repository operations: (a) CreateRepo validates, then writes the repo descriptor once with the constant NoOverWrite (create-if-absent is the only arbiter between concurrent creators), errors propagated; " +
			"(b) every key deleted or rewritten by DeleteRepo / DeleteBundle / DeleteLabel / DeleteEntriesFromRepo is built by a model builder from the operation's own repo argument; " +
			"(c) RenameRepo copies descriptor and each file list under the same bundle ID and index from repo to newRepo with NoOverWrite, re-uploads labels, and DeleteRepo(old) is reachable only where all copies reported nil; every error in it is looked at (E-ERR); " +
			"(d) DeleteEntriesFromRepo builds the kept-entries list afresh for every file list, drops an entry iff its NameWithPath equals a requested path, and rewrites only modified lists under the key they were read from. " +
			"Not decided: exclusivity of concurrent creates (the store's precondition), prefix isolation of listings (C16/C20).",
		run: runC09,
	})
	register(&propSpec{
		id: "C10",
		explanation: "Static structural clauses for squash: (a) the delete loop ranges over bundles[:len-retainN] of the ID-sorted listing under the guard len >= retainN+1 and skips labelled bundles when a retain option is set; " +
			"(b) the listing it counts consults the bundle descriptor even in keys-only mode and is ordered by bundle ID; " +
			"(c) after any bundle deletion no success return is reachable without refreshing the bundle listing and deleting the labels whose bundle is gone; " +
			"(d) DeleteBundle's open-ended index-file loop stops at the first missing file (Has) or failed delete. Not decided: downloadability afterwards.",
		run: runC10,
	})

	addWitness(witness{Prop: "C05", Name: "diff-requires-size-change", File: "pkg/core/bundle_diff.go",
		Old: "if bundleEntryAdditional.Hash != bundleEntryExisting.Hash {", New: "if bundleEntryAdditional.Size != bundleEntryExisting.Size && bundleEntryAdditional.Hash != bundleEntryExisting.Hash {",
		Expect: "diff-table"})
	addWitness(witness{Prop: "C05", Name: "del-deletes-additional", File: "pkg/core/bundle_unpack.go",
		Old: "go deleteBundleEntry(ctx, de.Existing, bundleDest, chans)", New: "go deleteBundleEntry(ctx, de.Additional, bundleDest, chans)",
		Expect: "role-mapping"})
	addWitness(witness{Prop: "C05", Name: "dif-without-overwrite", File: "pkg/core/bundle_unpack.go",
		Old: "go downloadBundleEntryOverwrite(ctx, de.Additional, bundleDest, fs, chans)", New: "go downloadBundleEntry(ctx, de.Additional, bundleDest, fs, chans)",
		Expect: "role-mapping"})
	addWitness(witness{Prop: "C05", Name: "old-filelists-by-target-count", File: "pkg/core/bundle_unpack.go",
		Old:    "\t\tfor _, filelist := range info.filelists {\n\t\t\terr = bundleDest.ConsumableStore.Delete(ctx, filelist)",
		New:    "\t\tfor i := uint64(0); i < bundle.BundleDescriptor.BundleEntriesFileCount; i++ {\n\t\t\tfilelist := model.GetConsumablePathToBundleFileList(bundleDest.BundleID, i)\n\t\t\t_ = info.filelists\n\t\t\terr = bundleDest.ConsumableStore.Delete(ctx, filelist)",
		Expect: "update-metadata"})
	addWitness(witness{Prop: "C09", Name: "create-has-then-overwrite", File: "pkg/core/repo_create.go",
		Old: "err = store.Put(context.Background(), path, bytes.NewReader(r), storage.NoOverWrite)", New: "err = store.Put(context.Background(), path, bytes.NewReader(r), storage.OverWrite)",
		Expect: "create"})
	addWitness(witness{Prop: "C09", Name: "rename-wrong-error-var", File: "pkg/core/rename.go",
		Old: "\t\t\tif ee != nil {\n\t\t\t\treturn ee\n\t\t\t}", New: "\t\t\tif e != nil {\n\t\t\t\treturn ee\n\t\t\t}",
		Expect: "rename.errors"})
	addWitness(witness{Prop: "C09", Name: "rename-filelist-index-shift", File: "pkg/core/rename.go",
		Old: "newFileList := model.GetArchivePathToBundleFileList(newRepo, bundle.ID, i)", New: "newFileList := model.GetArchivePathToBundleFileList(newRepo, bundle.ID, i+1)",
		Expect: "rename.same-id-and-index"})
	addWitness(witness{Prop: "C09", Name: "rename-deletes-before-labels-checked", File: "pkg/core/rename.go",
		Old: "\tif err != nil {\n\t\treturn fmt.Errorf(\"cannot copy labels in repo %s: %v\", repo, err)\n\t}\n", New: "\tif err != nil {\n\t\t_ = fmt.Errorf(\"cannot copy labels in repo %s: %v\", repo, err)\n\t}\n",
		Expect: "rename"})
	addWitness(witness{Prop: "C09", Name: "delete-other-repo-label", File: "pkg/core/delete.go",
		Old: "\tpth := model.GetArchivePathToLabel(repo, name)", New: "\tpth := model.GetArchivePathToLabel(name, repo)",
		Expect: "own-repo"})
	addWitness(witness{Prop: "C10", Name: "squash-skips-label-cleanup", File: "pkg/core/repo_squash.go",
		Old:    "\t// refresh the current list of bundles, just to make sure we are not leaving anything behind",
		New:    "\tif settings.retainTags || settings.retainSemverTags {\n\t\treturn nil\n\t}\n\t// refresh the current list of bundles, just to make sure we are not leaving anything behind",
		Expect: "label-cleanup"})
	addWitness(witness{Prop: "C10", Name: "squash-off-by-one", File: "pkg/core/repo_squash.go",
		Old: "for _, bundle := range bundles[:len(bundles)-settings.retainNLatest] {", New: "for _, bundle := range bundles[:len(bundles)-settings.retainNLatest+1] {",
		Expect: "delete-window"})
	addWitness(witness{Prop: "C10", Name: "minimal-listing-without-descriptor", File: "pkg/core/bundle_list.go",
		Old: "\t\tif !exists {\n\t\t\treturn model.BundleDescriptor{}, storagestatus.ErrNotExists\n\t\t}\n", New: "\t\t_ = exists\n",
		Expect: "committed-only"})
	addWitness(witness{Prop: "C10", Name: "delete-loop-unbounded", File: "pkg/core/delete.go",
		Old: "\t\t\tif e != nil || !exists {\n\t\t\t\tbreak\n\t\t\t}", New: "\t\t\tif e != nil {\n\t\t\t\tbreak\n\t\t\t}\n\t\t\t_ = exists",
		Expect: "delete-loop"})
}

// constsOfType lists the constants of a named type (by explicit type or by being declared in the same const block
// with iota, as DiffEntryTypeAdd.. are untyped: then by name prefix).
func switchCaseConsts(info *types.Info, sw *ast.SwitchStmt) (names []string, def *ast.CaseClause) {
	for _, st := range sw.Body.List {
		cc := st.(*ast.CaseClause)
		if cc.List == nil {
			def = cc
			continue
		}
		for _, e := range cc.List {
			switch x := ast.Unparen(e).(type) {
			case *ast.Ident:
				if c, ok := info.Uses[x].(*types.Const); ok {
					names = append(names, c.Name())
				}
			case *ast.SelectorExpr:
				if c, ok := info.Uses[x.Sel].(*types.Const); ok {
					names = append(names, c.Name())
				}
			}
		}
	}
	sort.Strings(names)
	return
}

func runC05(c *Ctx) {
	p := c.P
	c.assume("a single-file download writes exactly the bytes of its key (C01-C04)")
	f := p.Func("pkg/core.downloadBundleEntries")
	info := f.Info()
	// (a) exhaustiveness
	var sw *ast.SwitchStmt
	ast.Inspect(f.Decl.Body, func(n ast.Node) bool {
		if s, ok := n.(*ast.SwitchStmt); ok && s.Tag != nil && strings.HasSuffix(exprString(s.Tag), ".Type") {
			sw = s
		}
		return true
	})
	if sw == nil {
		c.fail("exhaustive", f.ID, p.Pos(f.Decl.Pos()), "no switch over the diff entry type found")
	} else {
		got, def := switchCaseConsts(info, sw)
		var want []string
		scope := p.Pkg("pkg/core").Types.Scope()
		for _, n := range scope.Names() {
			if cst, ok := scope.Lookup(n).(*types.Const); ok && strings.HasPrefix(n, "DiffEntryType") && n != "DiffEntryType" {
				_ = cst
				want = append(want, n)
			}
		}
		sort.Strings(want)
		c.check(strings.Join(got, ",") == strings.Join(want, ","), "exhaustive.cases", f.ID, p.Pos(sw.Pos()), "cases cover "+strings.Join(want, ","), "the switch handles ["+strings.Join(got, ",")+"] but the diff entry types are ["+strings.Join(want, ",")+"]: some differences are silently skipped")
		okDef := false
		if def != nil {
			for _, st := range def.Body {
				if es, ok := st.(*ast.ExprStmt); ok {
					if call, ok := es.X.(*ast.CallExpr); ok {
						if v, ok := calleeObj(info, call).(*types.Var); ok && v.Name() != "" {
							// reportError(...) local closure sending on the error channel
							for _, rhs := range defsOfVar(f, v) {
								if l, ok := rhs.(*ast.FuncLit); ok && containsSend(l.Body) {
									okDef = true
								}
							}
						}
					}
				}
			}
		}
		c.check(okDef, "exhaustive.default-errors", f.ID, p.Pos(sw.Pos()), "an unknown diff entry type is reported as an error", "the default branch no longer reports an unknown diff entry type")
	}
	// (b) role mapping
	if sw != nil {
		want := map[string][2]string{
			"DiffEntryTypeAdd": {"pkg/core.downloadBundleEntry", "Additional"},
			"DiffEntryTypeDel": {"pkg/core.deleteBundleEntry", "Existing"},
			"DiffEntryTypeDif": {"pkg/core.downloadBundleEntryOverwrite", "Additional"},
		}
		for _, st := range sw.Body.List {
			cc := st.(*ast.CaseClause)
			if len(cc.List) != 1 {
				continue
			}
			name := ""
			if id, ok := ast.Unparen(cc.List[0]).(*ast.Ident); ok {
				name = id.Name
			}
			w, ok := want[name]
			if !ok {
				continue
			}
			var gos []*ast.GoStmt
			for _, s2 := range cc.Body {
				if g, ok := s2.(*ast.GoStmt); ok {
					gos = append(gos, g)
				}
			}
			if len(gos) != 1 {
				c.fail("role-mapping", f.ID+":"+name, p.Pos(cc.Pos()), "expected exactly one worker started for "+name+", found "+itoa(len(gos)))
				continue
			}
			g := gos[0]
			id := calleeID(info, g.Call)
			entry := exprString(g.Call.Args[1])
			dest := describeExpr(f, g.Call.Args[2], 0)
			okRole := id == w[0] && strings.HasSuffix(entry, "."+w[1]) && dest == "param#3"
			c.check(okRole, "role-mapping", f.ID+":"+name, p.Pos(g.Pos()), name+" -> "+shortCallee(w[0])+"(de."+w[1]+", bundleDest)",
				name+" is handled by "+shortCallee(id)+"("+entry+", "+dest+") instead of "+shortCallee(w[0])+"(de."+w[1]+", bundleDest)")
		}
		c.requireInstances("role-mapping", 3)
		// the overwrite variant deletes then puts; the plain variant passes overwrite=false
		for fn, wantFlag := range map[string]string{"pkg/core.downloadBundleEntryOverwrite": "const:true", "pkg/core.downloadBundleEntrySync": "const:false"} {
			g := p.Func(fn)
			okFlag := false
			for _, cs := range callersOf(p, "pkg/core.downloadBundleEntrySyncMaybeOverwrite") {
				if cs.Fn.ID == fn && describeExpr(g, cs.Call.Args[4], 0) == wantFlag {
					okFlag = true
				}
			}
			c.check(okFlag, "role-mapping.overwrite-flag", fn, p.Pos(g.Decl.Pos()), shortCallee(fn)+" passes overwrite="+wantFlag, shortCallee(fn)+" no longer passes overwrite="+wantFlag)
		}
		// overwrite => delete before put
		g := p.Func("pkg/core.downloadBundleEntrySyncMaybeOverwrite")
		gb := p.BodyOf(g)
		const st0, stDel = 1, 2
		badPut := false
		sawCond := false
		gb.run(flowSpec{entry: st0,
			node: func(n ast.Node, s uint64) uint64 {
				for _, call := range callsIn(n) {
					switch calleeID(g.Info(), call) {
					case "pkg/storage.Store.Delete":
						s = stDel
					case "pkg/storage.Store.Put":
						if s&8 != 0 && s&stDel == 0 {
							badPut = true
						}
					}
				}
				return s
			},
			edge: func(blk *cfg.Block, i int, s uint64) uint64 {
				if cond := condOf(blk); cond != nil && describeExpr(g, cond, 0) == "param#4" {
					sawCond = true
					if i == 0 {
						return s | 8 // overwrite requested
					}
				}
				return s
			}})
		c.check(sawCond && !badPut, "role-mapping.overwrite-deletes-first", g.ID, p.Pos(g.Decl.Pos()), "with overwrite the destination is deleted before the create-if-absent put", "with overwrite requested the destination is not deleted before the NoOverWrite put: the changed file is never replaced")
	}
	// (c) diffBundles decision table
	{
		d := p.Func("pkg/core.diffBundles")
		dinfo := d.Info()
		// maps keyed by NameWithPath
		nKeyed := 0
		ast.Inspect(d.Decl.Body, func(n ast.Node) bool {
			as, ok := n.(*ast.AssignStmt)
			if !ok || len(as.Lhs) != 1 {
				return true
			}
			ix, ok := as.Lhs[0].(*ast.IndexExpr)
			if !ok {
				return true
			}
			if _, isMap := dinfo.TypeOf(ix.X).Underlying().(*types.Map); !isMap {
				return true
			}
			if strings.HasSuffix(exprString(ix.Index), ".NameWithPath") && describeExpr(d, as.Rhs[0], 0) == strings.TrimSuffix(describeExpr(d, ix.Index, 0), ".NameWithPath") {
				nKeyed++
			}
			return true
		})
		c.check(nKeyed == 2, "diff-table.keyed-by-path", d.ID, p.Pos(d.Decl.Pos()), "both sides are indexed by NameWithPath", "diffBundles no longer indexes both bundles by NameWithPath ("+itoa(nKeyed)+" of 2)")
		// appends: guard chain and literal
		type app struct {
			typ    string
			guards []string
			lit    *ast.CompositeLit
		}
		var apps []app
		gas := guardedActions(d, d.Decl.Body)
		ast.Inspect(d.Decl.Body, func(n ast.Node) bool {
			cl, ok := n.(*ast.CompositeLit)
			if !ok || namedTypeID(dinfo.TypeOf(cl)) != "pkg/core.DiffEntry" {
				return true
			}
			a := app{lit: cl}
			if tv := fieldOfCompositeLit(cl, "Type"); tv != nil {
				a.typ = exprString(tv)
			}
			// the conditions under which the report is appended, from the guard engine (nesting, early `continue`, swapped
			// branches and De Morgan forms all give the same set)
			for _, ga := range gas {
				if !encloses(ga.Node, cl.Pos()) {
					continue
				}
				for _, at := range ga.Atoms {
					sh := condShape(d, at.Expr)
					if at.Neg {
						if strings.HasPrefix(sh, "!") {
							sh = sh[1:]
						} else {
							sh = "!" + sh
						}
					}
					a.guards = append(a.guards, sh)
				}
			}
			sort.Strings(a.guards)
			a.guards = dedupSorted(a.guards)
			apps = append(apps, a)
			return true
		})
		wantGuards := map[string]string{
			"DiffEntryTypeDif": "hash-differs && present",
			"DiffEntryTypeDel": "!present",
			"DiffEntryTypeAdd": "!present",
		}
		seen := map[string]int{}
		for _, a := range apps {
			seen[a.typ]++
			got := strings.Join(a.guards, " && ")
			c.check(got == wantGuards[a.typ], "diff-table.guards", d.ID+":"+a.typ, p.Pos(a.lit.Pos()), a.typ+" is reported exactly under ["+got+"]",
				a.typ+" is reported under ["+got+"], expected ["+wantGuards[a.typ]+"]: a content change must be reported iff the path is on both sides and the hashes differ (and nothing else, e.g. not the size)")
		}
		c.check(seen["DiffEntryTypeDif"] == 1 && seen["DiffEntryTypeDel"] == 1 && seen["DiffEntryTypeAdd"] == 1, "diff-table.one-append-per-kind", d.ID, p.Pos(d.Decl.Pos()), "one report site per difference kind", "diffBundles does not have exactly one report site per difference kind")
		// fields from the right side
		for _, a := range apps {
			ex, ad := fieldOfCompositeLit(a.lit, "Existing"), fieldOfCompositeLit(a.lit, "Additional")
			okF := true
			why := ""
			describeSide := func(e ast.Expr) string {
				if e == nil {
					return ""
				}
				return describeExpr(d, e, 0)
			}
			exD, adD := describeSide(ex), describeSide(ad)
			switch a.typ {
			case "DiffEntryTypeDif":
				okF = strings.Contains(exD, "param#0.BundleEntries") && strings.Contains(adD, "param#1.BundleEntries")
			case "DiffEntryTypeDel":
				okF = strings.Contains(exD, "param#0.BundleEntries") && ad == nil
			case "DiffEntryTypeAdd":
				okF = ex == nil && strings.Contains(adD, "param#1.BundleEntries")
			}
			why = "Existing<-" + exD + " Additional<-" + adD
			c.check(okF, "diff-table.sides", d.ID+":"+a.typ, p.Pos(a.lit.Pos()), a.typ+": "+why, a.typ+" carries the wrong side: "+why)
		}
	}
	// (d) Update
	{
		u := p.Func("pkg/core.Update")
		ub := p.BodyOf(u)
		bad, nB := ub.dominatedBy(func(bd *Body, call *ast.CallExpr) bool {
			return calleeID(bd.Info(), call) == "pkg/core.implPublishMetadata" && describeExpr(u, call.Args[1], 0) == "param#2"
		}, callTo("pkg/core.unpackDataFiles"))
		c.check(nB == 1 && len(bad) == 0, "update-metadata.loaded-first", u.ID, p.Pos(u.Decl.Pos()), "the destination bundle's metadata is loaded before the data phase", "Update no longer loads the destination bundle's metadata before unpackDataFiles: the diff is computed against an empty destination")
		for _, cs := range callersOf(p, "pkg/core.unpackDataFiles") {
			if cs.Fn.ID == u.ID {
				c.check(describeExpr(u, cs.Call.Args[1], 0) == "param#1" && describeExpr(u, cs.Call.Args[2], 0) == "param#2", "update-metadata.loaded-first", callKey(u, cs.Call), p.Pos(cs.Call.Pos()), "unpackDataFiles(src, dest)", "Update calls unpackDataFiles with the bundles swapped or replaced")
			}
		}
		checkErrDiscipline(c, "update-metadata.errors", u, func(id string) bool { return strings.HasPrefix(id, "pkg/core.") }, nil)
		w := p.Func("pkg/core.unpackDataFiles")
		winfo := w.Info()
		// deletes: descriptor and range over info.filelists of getConsumableStoreMetadataKeysInfo(ctx, bundleDest)
		okDesc, okLists := false, false
		ast.Inspect(w.Decl.Body, func(n ast.Node) bool {
			if call, ok := n.(*ast.CallExpr); ok && calleeID(winfo, call) == "pkg/storage.Store.Delete" {
				d := describeExpr(w, call.Args[1], 0)
				recv := describeExpr(w, ast.Unparen(call.Fun).(*ast.SelectorExpr).X, 0)
				if recv != "param#2.ConsumableStore" {
					return true
				}
				if d == "call:pkg/core.getConsumableStoreMetadataKeysInfo(param#0,param#2)#0.descriptor" {
					okDesc = true
				}
				if d == "range(call:pkg/core.getConsumableStoreMetadataKeysInfo(param#0,param#2)#0.filelists)" {
					okLists = true
				}
			}
			return true
		})
		c.check(okDesc, "update-metadata.old-removed", w.ID+":descriptor", p.Pos(w.Decl.Pos()), "the destination's old descriptor (as found in its store) is deleted", "the update no longer deletes the old bundle descriptor found in the destination store")
		c.check(okLists, "update-metadata.old-removed", w.ID+":filelists", p.Pos(w.Decl.Pos()), "every old file list found in the destination store is deleted", "the update no longer deletes every old file list found in the destination store (e.g. it derives their names from a count): surplus .datamon/<old>-bundle-files-N.yaml files survive and the directory differs from a fresh download")
		// republish source metadata
		okPub := false
		for _, cs := range callersOf(p, "pkg/core.PublishMetadata") {
			if cs.Fn.ID == w.ID {
				okPub = true
			}
		}
		okID := false
		for _, cs := range callersOf(p, "pkg/core.BundleID") {
			if cs.Fn.ID == w.ID && describeExpr(w, cs.Call.Args[0], 0) == "param#1.BundleID" {
				okID = true
			}
		}
		c.check(okPub && okID, "update-metadata.republished", w.ID, p.Pos(w.Decl.Pos()), "the target bundle's metadata (its ID) is published into the destination", "the update no longer publishes the target bundle's metadata into the destination")
		checkErrDiscipline(c, "update-metadata.errors", w, func(id string) bool {
			return id == "pkg/storage.Store.Delete" || id == "pkg/core.PublishMetadata" || id == "pkg/core.getConsumableStoreMetadataKeysInfo" || id == "pkg/cafs.New"
		}, nil)
		checkNoSwallow(c, "update-metadata.errors", w, func(id string) bool {
			return id == "pkg/storage.Store.Delete" || id == "pkg/core.PublishMetadata" || id == "pkg/core.getConsumableStoreMetadataKeysInfo"
		}, nil)
		// the key scanner classifies descriptor vs file list from the path parser
		k := p.Func("pkg/core.getConsumableStoreMetadataKeysInfo")
		kinfo := k.Info()
		var ks *ast.SwitchStmt
		ast.Inspect(k.Decl.Body, func(n ast.Node) bool {
			if s, ok := n.(*ast.SwitchStmt); ok && s.Tag != nil && strings.HasSuffix(exprString(s.Tag), ".Type") {
				ks = s
			}
			return true
		})
		if ks == nil {
			c.fail("update-metadata.scan", k.ID, p.Pos(k.Decl.Pos()), "no switch over the consumable path type")
		} else {
			got, _ := switchCaseConsts(kinfo, ks)
			c.check(strings.Join(got, ",") == "ConsumableStorePathTypeDescriptor,ConsumableStorePathTypeFileList", "update-metadata.scan", k.ID, p.Pos(ks.Pos()), "descriptor and file-list keys are both collected", "the destination scan handles ["+strings.Join(got, ",")+"]")
		}
	}
	checkDownloadWrites(c, "roles.download-writes")
	checkGenericErrorDiscipline(c, "pkg/core")
	// Diff and Update read both bundles through the file-list / data fan-outs: a lost chunk of entries changes the diff
	checkCoreFanouts(c)
	checkUpdateRunsAllPhases(c, "update-metadata.all-phases")
	checkLocalMetadataScannersSkipData(c, "siblings.local-metadata-scanners-skip-data")
}

// condShape abstracts the guards of diffBundles: "present" for the ok flag of a map lookup, "hash-differs" for a
// comparison Hash != Hash between the two sides, otherwise the described expression.
func condShape(f *FuncInfo, e ast.Expr) string {
	info := f.Info()
	e = ast.Unparen(e)
	if u, ok := e.(*ast.UnaryExpr); ok && u.Op == token.NOT {
		return "!" + condShape(f, u.X)
	}
	if id, ok := e.(*ast.Ident); ok {
		if v, ok := info.Uses[id].(*types.Var); ok {
			for _, d := range defsOfVarWithIndex(f, v) {
				if d.index == 1 && d.rhs != nil {
					if ix, ok := ast.Unparen(d.rhs).(*ast.IndexExpr); ok {
						if _, isMap := info.TypeOf(ix.X).Underlying().(*types.Map); isMap {
							return "present"
						}
					}
				}
			}
		}
	}
	if be, ok := e.(*ast.BinaryExpr); ok && (be.Op == token.NEQ || be.Op == token.EQL) {
		x, y := exprString(be.X), exprString(be.Y)
		if strings.HasSuffix(x, ".Hash") && strings.HasSuffix(y, ".Hash") && x != y {
			if be.Op == token.EQL {
				return "!hash-differs"
			}
			return "hash-differs"
		}
	}
	return describeExpr(f, e, 0)
}

// ---------------------------------------------------------------------------------------------------

func runC09(c *Ctx) {
	p := c.P
	c.assume("the metadata store's NoOverWrite put is an atomic create-if-absent (C16 for localfs)")
	// (a) CreateRepo
	{
		f := p.Func("pkg/core.CreateRepo")
		n := 0
		for _, s := range enumPutSites(p, "pkg/core") {
			if s.Fn.ID != f.ID {
				continue
			}
			n++
			c.check(s.Kind == "repo-descriptor" && s.Mode == "NoOverWrite", "create.create-if-absent", s.Key, p.Pos(s.Call.Pos()), "repo descriptor written with the constant NoOverWrite",
				"CreateRepo writes key kind "+s.Kind+" with mode "+s.Mode+": only an atomic create-if-absent lets exactly one of several concurrent creators succeed (a Has-then-Put sequence does not)")
			arg := ""
			for _, cs := range callersOf(p, "pkg/model.GetArchivePathToRepoDescriptor") {
				if cs.Fn.ID == f.ID {
					arg = describeExpr(f, cs.Call.Args[0], 0)
				}
			}
			c.check(arg == "param#0.Name", "create.create-if-absent", s.Key+":key", p.Pos(s.Call.Pos()), "key built from repo.Name", "repo descriptor key built from `"+arg+"`")
		}
		c.check(n == 1, "create.create-if-absent", f.ID+":sites", p.Pos(f.Decl.Pos()), "exactly one write", "CreateRepo performs "+itoa(n)+" writes")
		checkErrDiscipline(c, "create.errors", f, func(id string) bool {
			return id == "pkg/model.ValidateRepo" || id == "gopkg.in/yaml.v2.Marshal" || id == "pkg/storage.Store.Put"
		}, nil)
		checkNoSwallow(c, "create.errors", f, func(id string) bool {
			return id == "pkg/model.ValidateRepo" || id == "gopkg.in/yaml.v2.Marshal" || id == "pkg/storage.Store.Put"
		}, nil)
		// failure returns return the error of the failed call (not another, nil, variable)
		b := p.BodyOf(f)
		ast.Inspect(f.Decl.Body, func(nd ast.Node) bool {
			ifs, ok := nd.(*ast.IfStmt)
			if !ok {
				return true
			}
			be, ok := ast.Unparen(ifs.Cond).(*ast.BinaryExpr)
			if !ok || be.Op != token.NEQ || !isNil(f.Info(), be.Y) {
				return true
			}
			id, ok := ast.Unparen(be.X).(*ast.Ident)
			if !ok {
				return true
			}
			v, _ := f.Info().Uses[id].(*types.Var)
			for _, st := range ifs.Body.List {
				if r, ok := st.(*ast.ReturnStmt); ok && len(r.Results) == 1 {
					if rid, ok := ast.Unparen(r.Results[0]).(*ast.Ident); ok {
						rv, _ := f.Info().Uses[rid].(*types.Var)
						c.check(rv == v, "create.errors", f.ID+":return-tested-var@"+id.Name, p.Pos(r.Pos()), "the failure branch returns the error it tested", "the branch testing `"+id.Name+"` returns `"+rid.Name+"`, another variable that is nil on this path: the failure is reported as success")
					}
				}
			}
			return true
		})
		_ = b
	}
	// (b) own repo
	for _, fn := range []string{"pkg/core.DeleteRepo", "pkg/core.DeleteBundle", "pkg/core.DeleteLabel", "pkg/core.DeleteEntriesFromRepo"} {
		f := p.Func(fn)
		info := f.Info()
		n := 0
		ast.Inspect(f.Decl.Body, func(nd ast.Node) bool {
			call, ok := nd.(*ast.CallExpr)
			if !ok {
				return true
			}
			id := calleeID(info, call)
			if _, isBuilder := builderKinds[id]; !isBuilder || len(call.Args) == 0 {
				return true
			}
			n++
			a0 := describeExpr(f, call.Args[0], 0)
			c.check(a0 == "param#0", "own-repo", callKey(f, call), p.Pos(call.Pos()), shortCallee(id)+" keyed by the operation's repo argument", fn+" builds a key of repository `"+a0+"` instead of its own repo argument: the operation touches another repository")
			return true
		})
		// sub-operations receive the same repo
		for _, sub := range []string{"pkg/core.DeleteBundle", "pkg/core.DeleteLabel", "pkg/core.ListBundles", "pkg/core.ListLabels", "pkg/core.RepoExists", "pkg/core.downloadBundleDescriptor"} {
			for _, cs := range callersOf(p, sub) {
				if cs.Fn.ID != fn {
					continue
				}
				idx := 0
				if sub == "pkg/core.downloadBundleDescriptor" {
					idx = 1
				}
				a := describeExpr(f, cs.Call.Args[idx], 0)
				c.check(a == "param#0", "own-repo", callKey(f, cs.Call), p.Pos(cs.Call.Pos()), shortCallee(sub)+" called for the operation's repo", fn+" calls "+shortCallee(sub)+" for repository `"+a+"`")
			}
		}
		if n == 0 {
			c.fail("own-repo", fn, p.Pos(f.Decl.Pos()), "no model path builder call found")
		}
		// deletes only keys of known kinds
		for _, d := range enumStoreCalls(p, "Delete", 1, "pkg/core") {
			if d.Fn.ID != fn {
				continue
			}
			okKind := true
			for _, k := range strings.Split(d.Kind, "|") {
				if _, known := map[string]bool{"bundle-descriptor": true, "bundle-filelist": true, "label": true, "repo-descriptor": true}[k]; !known {
					okKind = false
				}
			}
			c.check(okKind, "own-repo.deleted-kinds", d.Key, p.Pos(d.Call.Pos()), "deletes a "+d.Kind+" key", fn+" deletes a key of unclassified origin ("+d.Kind+")")
		}
	}
	// DeleteRepo: bundles, labels, then the descriptor; errors looked at
	{
		f := p.Func("pkg/core.DeleteRepo")
		b := p.BodyOf(f)
		isRepoDel := func(bd *Body, call *ast.CallExpr) bool {
			return calleeID(bd.Info(), call) == "pkg/storage.Store.Delete" && resolveKeyKind(f, call.Args[1], 0) == "repo-descriptor"
		}
		bad, nB := b.dominatedBy(callTo("pkg/core.ListLabels"), isRepoDel)
		bad2, _ := b.dominatedBy(callTo("pkg/core.ListBundles"), isRepoDel)
		c.check(nB == 1 && len(bad) == 0 && len(bad2) == 0, "delete-repo.order", f.ID, p.Pos(f.Decl.Pos()), "the repo descriptor is deleted after its bundles and labels", "DeleteRepo can delete the repo descriptor before (or without) removing its bundles and labels")
		checkErrDiscipline(c, "delete-repo.errors", f, func(id string) bool {
			return strings.HasPrefix(id, "pkg/core.") && id != "pkg/core.GetRepoStore" && id != "pkg/core.deleteOptionsWithDefaults" || id == "pkg/storage.Store.Delete"
		}, nil)
	}
	// (c) RenameRepo
	{
		f := p.Func("pkg/core.RenameRepo")
		info := f.Info()
		var oldD, newD [3]string
		ast.Inspect(f.Decl.Body, func(nd ast.Node) bool {
			as, ok := nd.(*ast.AssignStmt)
			if !ok || len(as.Lhs) != 1 || len(as.Rhs) != 1 {
				return true
			}
			call, ok := as.Rhs[0].(*ast.CallExpr)
			if !ok || calleeID(info, call) != "pkg/model.GetArchivePathToBundleFileList" {
				return true
			}
			d := [3]string{describeExpr(f, call.Args[0], 0), describeExpr(f, call.Args[1], 0), exprString(call.Args[2])}
			if d[0] == "param#0" {
				oldD = d
			} else {
				newD = d
			}
			return true
		})
		c.check(oldD[0] == "param#0" && newD[0] == "param#1" && oldD[1] == newD[1] && oldD[2] == newD[2] && strings.HasSuffix(oldD[1], ".ID"), "rename.same-id-and-index", f.ID+":filelists", p.Pos(f.Decl.Pos()),
			"file list (bundle.ID, i) is copied from repo to newRepo under the same ID and index", "RenameRepo copies file list ("+oldD[1]+","+oldD[2]+") of `"+oldD[0]+"` to ("+newD[1]+","+newD[2]+") of `"+newD[0]+"`: bundles must keep their IDs and file lists their indices")
		// loop bound is the bundle's file count
		okBound := false
		ast.Inspect(f.Decl.Body, func(nd ast.Node) bool {
			if fs, ok := nd.(*ast.ForStmt); ok && fs.Cond != nil {
				if be, ok := ast.Unparen(fs.Cond).(*ast.BinaryExpr); ok && be.Op == token.LSS && strings.HasSuffix(describeExpr(f, be.Y, 0), ".BundleEntriesFileCount") {
					okBound = true
				}
			}
			return true
		})
		c.check(okBound, "rename.same-id-and-index", f.ID+":all-lists", p.Pos(f.Decl.Pos()), "all BundleEntriesFileCount lists are copied", "RenameRepo no longer iterates over all BundleEntriesFileCount file lists")
		// descriptor copy: new bundle carries newRepo and the same ID
		okNB := false
		for _, cs := range callersOf(p, "pkg/core.NewBundle") {
			if cs.Fn.ID != f.ID {
				continue
			}
			var descs []string
			for _, a := range cs.Call.Args {
				descs = append(descs, describeExpr(f, a, 0))
			}
			j := strings.Join(descs, ";")
			if strings.Contains(j, "call:pkg/core.Repo(param#1)") && strings.Contains(j, "call:pkg/core.BundleID(litparam.ID)") && strings.Contains(j, "call:pkg/core.BundleDescriptor(&litparam)") {
				okNB = true
			}
		}
		c.check(okNB, "rename.same-id-and-index", f.ID+":descriptor", p.Pos(f.Decl.Pos()), "the bundle descriptor is re-uploaded into newRepo under the same bundle ID", "RenameRepo no longer re-uploads each bundle descriptor into newRepo under its original ID")
		for _, s := range enumPutSites(p, "pkg/core") {
			if s.Fn.ID == f.ID {
				c.check(s.Mode == "NoOverWrite", "rename.no-overwrite", s.Key, p.Pos(s.Call.Pos()), "copied with NoOverWrite", "RenameRepo copies with mode "+s.Mode)
			}
		}
		// the copied content is the one read from the old key
		okSrc := false
		ast.Inspect(f.Decl.Body, func(nd ast.Node) bool {
			if call, ok := nd.(*ast.CallExpr); ok && calleeID(info, call) == "pkg/storage.Store.Get" && len(call.Args) == 2 {
				if k := resolveKeyKind(f, call.Args[1], 0); k == "bundle-filelist" {
					okSrc = true
				}
			}
			return true
		})
		c.check(okSrc, "rename.same-id-and-index", f.ID+":source", p.Pos(f.Decl.Pos()), "file lists are read from the old repository's keys", "RenameRepo no longer reads the file lists from the old repository")
		// DeleteRepo(old) only after all copies succeeded
		b := p.BodyOf(f)
		isCopy := callTo("pkg/core.ListBundlesApply", "pkg/core.ListLabelsApply")
		isDel := func(n ast.Node) bool {
			call, ok := n.(*ast.CallExpr)
			return ok && calleeID(info, call) == "pkg/core.DeleteRepo"
		}
		bad, nT, nA := b.guardedByNilErr(isCopy, isDel)
		badDom, _ := b.dominatedBy(callTo("pkg/core.ListBundlesApply"), callTo("pkg/core.DeleteRepo"))
		badDom2, _ := b.dominatedBy(callTo("pkg/core.ListLabelsApply"), callTo("pkg/core.DeleteRepo"))
		okArg := false
		for _, cs := range callersOf(p, "pkg/core.DeleteRepo") {
			if cs.Fn.ID == f.ID && describeExpr(f, cs.Call.Args[0], 0) == "param#0" {
				okArg = true
			}
		}
		c.check(nT == 1 && nA == 2 && len(bad) == 0 && len(badDom) == 0 && len(badDom2) == 0 && okArg, "rename.delete-after-copies", f.ID, p.Pos(f.Decl.Pos()),
			"DeleteRepo(old) is reached only after bundles and labels were copied without error", "RenameRepo can delete the old repository although copying its bundles or labels failed, or before they were copied: data is lost")
		// guardedByNilErr only tracks the last copy; the first one must also stop the operation
		okFirst := false
		ast.Inspect(f.Decl.Body, func(nd ast.Node) bool {
			as, ok := nd.(*ast.AssignStmt)
			if !ok || len(as.Rhs) != 1 {
				return true
			}
			if call, ok := as.Rhs[0].(*ast.CallExpr); ok && calleeID(info, call) == "pkg/core.ListBundlesApply" {
				if v := errVarOfCall(b, call); v != nil {
					vd := b.checkErrSite(errSite{Body: b, Call: call, Var: v, Assign: as})
					okFirst = vd.Kind == "ok"
				}
			}
			return true
		})
		c.check(okFirst, "rename.delete-after-copies", f.ID+":bundles-error", p.Pos(f.Decl.Pos()), "a failed bundle copy stops the rename", "a failed bundle copy does not stop the rename")
		checkErrDiscipline(c, "rename.errors", f, func(id string) bool {
			return strings.HasPrefix(id, "pkg/core.") && id != "pkg/core.NewBundle" && id != "pkg/core.NewLabel" || strings.HasPrefix(id, "pkg/storage.Store") || id == "io/ioutil.ReadAll"
		}, map[string]string{
			"pkg/core.RenameRepo:core.RepoExists#2": "existence probe of the target name: a non-nil result is the expected outcome (the new repository must not exist), nil stops the rename",
		})
		checkNoSwallow(c, "rename.errors", f, func(id string) bool {
			return strings.HasPrefix(id, "pkg/storage.Store") || id == "io/ioutil.ReadAll" || id == "pkg/core.uploadBundleDescriptor" || id == "pkg/core.CreateRepo" || id == "pkg/core.GetRepo"
		}, nil)
	}
	// (d) DeleteEntriesFromRepo
	{
		f := p.Func("pkg/core.DeleteEntriesFromRepo")
		info := f.Info()
		b := p.BodyOf(f)
		// the marshalled value
		var marshalled *types.Var
		ast.Inspect(f.Decl.Body, func(nd ast.Node) bool {
			if call, ok := nd.(*ast.CallExpr); ok && calleeID(info, call) == "gopkg.in/yaml.v2.Marshal" {
				if id, ok := ast.Unparen(call.Args[0]).(*ast.Ident); ok {
					marshalled, _ = info.Uses[id].(*types.Var)
				}
			}
			return true
		})
		// innermost loop over index files
		var idxLoop *ast.ForStmt
		ast.Inspect(f.Decl.Body, func(nd ast.Node) bool {
			if fs, ok := nd.(*ast.ForStmt); ok && fs.Cond != nil {
				if be, ok := ast.Unparen(fs.Cond).(*ast.BinaryExpr); ok && be.Op == token.LSS && strings.HasSuffix(describeExpr(f, be.Y, 0), ".BundleEntriesFileCount") {
					idxLoop = fs
				}
			}
			return true
		})
		if marshalled == nil || idxLoop == nil {
			c.fail("delete-files.fresh-list", f.ID, p.Pos(f.Decl.Pos()), "cannot locate the rewritten list and the loop over file lists")
		} else {
			// every slice the kept entries are appended to must be (re)created inside the loop over file lists
			fresh := true
			why := ""
			ast.Inspect(idxLoop.Body, func(nd ast.Node) bool {
				call, ok := nd.(*ast.CallExpr)
				if !ok {
					return true
				}
				id, ok := ast.Unparen(call.Fun).(*ast.Ident)
				if !ok || id.Name != "append" || len(call.Args) < 2 {
					return true
				}
				// root variable of the appended-to slice
				root := ast.Unparen(call.Args[0])
				for {
					if sel, ok := root.(*ast.SelectorExpr); ok {
						root = ast.Unparen(sel.X)
						continue
					}
					break
				}
				rid, ok := root.(*ast.Ident)
				if !ok {
					return true
				}
				rv, _ := info.Uses[rid].(*types.Var)
				if rv == nil {
					return true
				}
				// its declaration / reset must lie inside the loop body
				declInside := rv.Pos() >= idxLoop.Body.Pos() && rv.Pos() < idxLoop.Body.End()
				resetInside := false
				ast.Inspect(idxLoop.Body, func(m ast.Node) bool {
					if as, ok := m.(*ast.AssignStmt); ok && len(as.Lhs) == 1 && len(as.Rhs) == 1 {
						if isVar(info, as.Lhs[0], rv) {
							if se, ok := ast.Unparen(as.Rhs[0]).(*ast.SliceExpr); ok && se.High != nil && describeExpr(f, se.High, 0) == "const:0" {
								resetInside = true
							}
							if cl, ok := ast.Unparen(as.Rhs[0]).(*ast.CallExpr); ok {
								if mid, ok := ast.Unparen(cl.Fun).(*ast.Ident); ok && mid.Name == "make" {
									resetInside = true
								}
							}
						}
					}
					return true
				})
				if !declInside && !resetInside {
					fresh = false
					why = rid.Name
				}
				return true
			})
			c.check(fresh, "delete-files.fresh-list", f.ID, p.Pos(idxLoop.Pos()), "the kept-entries list is created afresh for every file list", "the kept-entries list `"+why+"` outlives one file list (declared outside the loop over file lists and never reset): a rewritten list also receives the surviving entries of the previous lists")
			declInside := marshalled.Pos() >= idxLoop.Body.Pos() && marshalled.Pos() < idxLoop.Body.End()
			c.check(declInside, "delete-files.fresh-list", f.ID+":marshalled", p.Pos(idxLoop.Pos()), "the rewritten value is local to one file list", "the value that is marshalled and rewritten is declared outside the loop over file lists")
		}
		// drop iff NameWithPath == requested path
		okEq := false
		ast.Inspect(f.Decl.Body, func(nd ast.Node) bool {
			if ifs, ok := nd.(*ast.IfStmt); ok {
				d := describeExpr(f, ifs.Cond, 0)
				if strings.HasSuffix(d, ".NameWithPath==range(param#2))") || strings.HasPrefix(d, "(range(param#2)==") && strings.HasSuffix(d, ".NameWithPath)") {
					okEq = true
				}
			}
			return true
		})
		if !okEq {
			// the search may live in a helper: h(<…>.NameWithPath, toDelete) comparing its string parameter for equality
			// with the elements of its slice parameter
			finfo := f.Info()
			ast.Inspect(f.Decl.Body, func(nd ast.Node) bool {
				call, ok := nd.(*ast.CallExpr)
				if !ok {
					return true
				}
				fn, ok := calleeObj(finfo, call).(*types.Func)
				if !ok {
					return true
				}
				h := p.funcs[funcID(fn)]
				if h == nil || h.Decl.Body == nil {
					return true
				}
				passesName, passesList := -1, -1
				for i, a := range call.Args {
					d := describeExpr(f, a, 0)
					if strings.HasSuffix(d, ".NameWithPath") {
						passesName = i
					}
					if d == "param#2" {
						passesList = i
					}
				}
				if passesName < 0 || passesList < 0 {
					return true
				}
				ast.Inspect(h.Decl.Body, func(m ast.Node) bool {
					be, ok := m.(*ast.BinaryExpr)
					if !ok || be.Op != token.EQL {
						return true
					}
					x, y := describeExpr(h, be.X, 0), describeExpr(h, be.Y, 0)
					pn, pl := "param#"+itoa(passesName), "range(param#"+itoa(passesList)+")"
					if (x == pn && y == pl) || (x == pl && y == pn) {
						okEq = true
					}
					return true
				})
				return true
			})
		}
		c.check(okEq, "delete-files.exact-match", f.ID, p.Pos(f.Decl.Pos()), "an entry is dropped iff its NameWithPath equals a requested path", "DeleteEntriesFromRepo no longer drops entries by exact equality of NameWithPath with a requested path")
		// rewritten under the key it was read from, only when modified
		var getKey, putKey string
		var putCall *ast.CallExpr
		ast.Inspect(f.Decl.Body, func(nd ast.Node) bool {
			if call, ok := nd.(*ast.CallExpr); ok {
				switch calleeID(info, call) {
				case "pkg/storage.Store.Get":
					getKey = describeExpr(f, call.Args[1], 0)
				case "pkg/storage.Store.Put":
					putKey = describeExpr(f, call.Args[1], 0)
					putCall = call
				}
			}
			return true
		})
		okMod := false
		if putCall != nil {
			for x := b.parent[putCall]; x != nil; x = b.parent[x] {
				if ifs, ok := x.(*ast.IfStmt); ok {
					if id, ok := ast.Unparen(ifs.Cond).(*ast.Ident); ok {
						if v, ok := info.Uses[id].(*types.Var); ok {
							// the flag is set to true only next to the drop
							for _, d := range defsOfVar(f, v) {
								if bv, isB := isBoolConst(info, d); isB && bv {
									okMod = true
								}
							}
						}
					}
				}
			}
		}
		c.check(getKey != "" && getKey == putKey && okMod, "delete-files.in-place", f.ID, p.Pos(f.Decl.Pos()), "a list is rewritten under the key it was read from, and only when an entry was dropped", "DeleteEntriesFromRepo rewrites key `"+putKey+"` (read: `"+getKey+"`) or rewrites unmodified lists")
		checkErrDiscipline(c, "delete-files.errors", f, func(id string) bool {
			return strings.HasPrefix(id, "pkg/storage.Store") || id == "io/ioutil.ReadAll" || strings.HasPrefix(id, "gopkg.in/yaml.v2.") || id == "pkg/core.ListBundles" || id == "pkg/core.RepoExists" || id == "pkg/core.downloadBundleDescriptor"
		}, nil)
	}
	// RenameRepo iterates ListBundlesApply / ListLabelsApply: a dropped listing or apply error lets it delete the old repo
	checkListApplySiblings(c, "rename.listing-errors")
	checkGenericErrorDiscipline(c, "pkg/core")
	checkDeleteRepoRemovesEveryLabel(c, "delete-keys.every-label")
}

// ---------------------------------------------------------------------------------------------------

func runC10(c *Ctx) {
	p := c.P
	c.assume("bundle IDs (KSUIDs) sort in creation order; the store lists keys lexicographically")
	f := p.Func("pkg/core.RepoSquash")
	info := f.Info()
	b := p.BodyOf(f)
	// (a) delete window
	{
		var loop *ast.RangeStmt
		ast.Inspect(f.Decl.Body, func(nd ast.Node) bool {
			if rs, ok := nd.(*ast.RangeStmt); ok {
				has := false
				ast.Inspect(rs.Body, func(m ast.Node) bool {
					if call, ok := m.(*ast.CallExpr); ok && calleeID(info, call) == "pkg/core.DeleteBundle" {
						has = true
					}
					return true
				})
				if has {
					loop = rs
				}
			}
			return true
		})
		if loop == nil {
			c.fail("delete-window", f.ID, p.Pos(f.Decl.Pos()), "no loop deleting bundles found")
		} else {
			okWin := false
			listing := ""
			if se, ok := ast.Unparen(loop.X).(*ast.SliceExpr); ok && se.Low == nil && se.High != nil {
				base := exprString(se.X)
				listing = describeExpr(f, se.X, 0)
				if be, ok := ast.Unparen(se.High).(*ast.BinaryExpr); ok && be.Op == token.SUB {
					if exprString(be.X) == "len("+base+")" && strings.HasSuffix(exprString(be.Y), ".retainNLatest") && strings.HasPrefix(listing, "call:pkg/core.ListBundles(param#1,param#0,") && strings.HasSuffix(listing, "#0") {
						okWin = true
					}
				}
			}
			c.check(okWin, "delete-window.range", f.ID, p.Pos(loop.Pos()), "bundles[:len(bundles)-retainNLatest] of the listing are candidates", "the squash deletes over `"+exprString(loop.X)+"`: the candidates must be exactly bundles[:len(bundles)-retainNLatest] of the ID-sorted listing (anything wider removes one of the N most recent bundles)")
			// guard before the loop
			okGuard := false
			ast.Inspect(f.Decl.Body, func(nd ast.Node) bool {
				if ifs, ok := nd.(*ast.IfStmt); ok && ifs.End() < loop.Pos() {
					dd := describeExpr(f, ifs.Cond, 0)
					if listing != "" && strings.HasPrefix(dd, "(call:builtin.len("+listing+")<(") && strings.HasSuffix(dd, ".retainNLatest+const:1))") && blockDiverts(ifs.Body.List) {
						okGuard = true
					}
				}
				return true
			})
			c.check(okGuard, "delete-window.guard", f.ID, p.Pos(loop.Pos()), "nothing is deleted unless len(bundles) >= retainNLatest+1", "the guard len(bundles) < retainNLatest+1 => return no longer precedes the delete loop (the slice bound can go negative or delete everything)")
			// retainNLatest defaults to 1 when 0
			okDef := false
			ast.Inspect(f.Decl.Body, func(nd ast.Node) bool {
				if ifs, ok := nd.(*ast.IfStmt); ok && strings.HasSuffix(exprString(ifs.Cond), ".retainNLatest == 0") {
					for _, st := range ifs.Body.List {
						if as, ok := st.(*ast.AssignStmt); ok && strings.HasSuffix(exprString(as.Lhs[0]), ".retainNLatest") && describeExpr(f, as.Rhs[0], 0) == "const:1" {
							okDef = true
						}
					}
				}
				return true
			})
			c.check(okDef, "delete-window.guard", f.ID+":default-retain", p.Pos(f.Decl.Pos()), "retainNLatest defaults to 1", "retainNLatest no longer defaults to 1: a squash without option removes the most recent bundle")
			// label skip
			okSkip := false
			ast.Inspect(loop.Body, func(nd ast.Node) bool {
				if ifs, ok := nd.(*ast.IfStmt); ok && ifs.Init != nil {
					if as, ok := ifs.Init.(*ast.AssignStmt); ok && len(as.Rhs) == 1 {
						if ix, ok := as.Rhs[0].(*ast.IndexExpr); ok && strings.HasSuffix(exprString(ix.Index), ".ID") {
							if len(ifs.Body.List) == 1 {
								if br, ok := ifs.Body.List[0].(*ast.BranchStmt); ok && br.Tok == token.CONTINUE {
									okSkip = true
								}
							}
						}
					}
				}
				return true
			})
			c.check(okSkip, "delete-window.retained-labels", f.ID, p.Pos(loop.Pos()), "bundles present in the label index are skipped when a retain option is set", "bundles carrying a retained label are no longer skipped by the delete loop")
			// the deleted bundle is the loop's bundle of this repo
			for _, cs := range callersOf(p, "pkg/core.DeleteBundle") {
				if cs.Fn.ID == f.ID {
					a0, a2 := describeExpr(f, cs.Call.Args[0], 0), exprString(cs.Call.Args[2])
					c.check(a0 == "param#1" && strings.HasSuffix(a2, ".ID"), "delete-window.range", callKey(f, cs.Call), p.Pos(cs.Call.Pos()), "DeleteBundle(repoName, bundle.ID)", "squash deletes bundle `"+a2+"` of repo `"+a0+"`")
				}
			}
		}
	}
	// (b) committed-only, ordered by ID
	{
		g := p.Func("pkg/core.downloadBundleDescriptor")
		gb := p.BodyOf(g)
		consult := func(bd *Body, call *ast.CallExpr) bool {
			id := calleeID(bd.Info(), call)
			if id != "pkg/storage.Store.Get" && id != "pkg/storage.Store.Has" {
				return false
			}
			return len(call.Args) > 1 && resolveKeyKind(bd.Fn, call.Args[1], 0) == "bundle-descriptor"
		}
		bad, nS := gb.mustPassBeforeSuccess(consult)
		c.check(nS > 0 && len(bad) == 0, "committed-only.descriptor-consulted", g.ID, p.Pos(g.Decl.Pos()), "even the keys-only listing consults the bundle descriptor", "the keys-only listing used by squash reports bundle IDs without consulting their descriptor: leftovers of interrupted uploads count among the N most recent bundles and the newest committed bundle can be removed")
		// when Has says absent, the result is not a success
		const unk, absent, present = 1, 2, 4
		var badRet []ast.Node
		var hasVar *types.Var
		ast.Inspect(g.Decl.Body, func(nd ast.Node) bool {
			if as, ok := nd.(*ast.AssignStmt); ok && len(as.Rhs) == 1 && len(as.Lhs) == 2 {
				if call, ok := as.Rhs[0].(*ast.CallExpr); ok && calleeID(g.Info(), call) == "pkg/storage.Store.Has" {
					if id, ok := as.Lhs[0].(*ast.Ident); ok {
						hasVar, _ = g.Info().Defs[id].(*types.Var)
						if hasVar == nil {
							hasVar, _ = g.Info().Uses[id].(*types.Var)
						}
					}
				}
			}
			return true
		})
		if hasVar != nil {
			gb.run(flowSpec{entry: unk,
				node: func(n ast.Node, s uint64) uint64 {
					if r, ok := n.(*ast.ReturnStmt); ok && s&(absent|unk) != 0 && s&8 != 0 {
						if gb.classifyReturn(r) != retFailure {
							badRet = append(badRet, r)
						}
					}
					if as, ok := n.(*ast.AssignStmt); ok {
						for _, l := range as.Lhs {
							if isVar(g.Info(), l, hasVar) {
								return unk | 8 // 8: existence was queried
							}
						}
					}
					return s
				},
				edge: func(blk *cfg.Block, i int, s uint64) uint64 {
					cond := condOf(blk)
					if cond == nil || s&8 == 0 {
						return s
					}
					if u, ok := ast.Unparen(cond).(*ast.UnaryExpr); ok && u.Op == token.NOT && isVar(g.Info(), u.X, hasVar) {
						if i == 0 {
							return absent | 8
						}
						return present | 8
					}
					if isVar(g.Info(), cond, hasVar) {
						if i == 0 {
							return present | 8
						}
						return absent | 8
					}
					return s
				}})
			c.check(len(badRet) == 0, "committed-only.absent-is-not-a-bundle", g.ID, p.Pos(g.Decl.Pos()), "a bundle is returned by the keys-only path only where the descriptor was found present", "the keys-only path can return a bundle although the descriptor's existence was not established (the result of Has is ignored)")
		} else {
			c.fail("committed-only.absent-is-not-a-bundle", g.ID, p.Pos(g.Decl.Pos()), "the keys-only path no longer queries the descriptor's existence")
		}
		lf := p.Func("pkg/model.BundleDescriptors.Less")
		okLess := false
		ast.Inspect(lf.Decl.Body, func(nd ast.Node) bool {
			if r, ok := nd.(*ast.ReturnStmt); ok && len(r.Results) == 1 && describeExpr(lf, r.Results[0], 0) == "(recv[param#0].ID<recv[param#1].ID)" {
				okLess = true
			}
			return true
		})
		c.check(okLess, "committed-only.ordered-by-id", lf.ID, p.Pos(lf.Decl.Pos()), "bundle batches are ordered by ID (the only field a keys-only descriptor carries)", "BundleDescriptors are no longer ordered by ID: keys-only descriptors carry nothing else, so squash's notion of 'most recent' becomes the arrival order of concurrent lookups")
		sb := p.BodyOf(p.Func("pkg/core.fetchBundleBatch"))
		bad2, nS2 := sb.mustPassBeforeSuccess(callTo("sort.Sort"))
		c.check(nS2 > 0 && len(bad2) == 0, "committed-only.ordered-by-id", "pkg/core.fetchBundleBatch", "-", "every batch is sorted", "bundle batches are no longer sorted")
	}
	// (c) label cleanup after deletions
	{
		const clean, dirty, refreshed, cleaned = 1, 2, 4, 8
		var badRet []ast.Node
		nDel := 0
		b.run(flowSpec{entry: clean,
			node: func(n ast.Node, s uint64) uint64 {
				for _, call := range callsIn(n) {
					switch calleeID(info, call) {
					case "pkg/core.DeleteBundle":
						nDel++
						s = dirty
					case "pkg/core.ListBundlesApply":
						if s&dirty != 0 {
							s = (s &^ dirty) | refreshed
						}
					case "pkg/core.ListLabels":
						if s&refreshed != 0 {
							s = (s &^ refreshed) | cleaned
						}
					}
				}
				if r, ok := n.(*ast.ReturnStmt); ok && s&(dirty|refreshed) != 0 {
					if b.classifyReturn(r) != retFailure {
						badRet = append(badRet, r)
					}
				}
				return s
			}})
		c.check(nDel > 0 && len(badRet) == 0, "label-cleanup.after-deletions", f.ID, p.Pos(f.Decl.Pos()), "after a bundle deletion every success return goes through the refreshed bundle listing and the label pass", "a success return is reachable after bundles were deleted without refreshing the listing and removing the labels that pointed at them: labels of removed bundles survive")
		// the label pass deletes labels absent from the refreshed index
		okPass := false
		ast.Inspect(f.Decl.Body, func(nd ast.Node) bool {
			rs, ok := nd.(*ast.RangeStmt)
			if !ok {
				return true
			}
			hasDel, hasSkip := false, false
			ast.Inspect(rs.Body, func(m ast.Node) bool {
				if call, ok := m.(*ast.CallExpr); ok && calleeID(info, call) == "pkg/core.DeleteLabel" {
					if describeExpr(f, call.Args[0], 0) == "param#1" && strings.HasSuffix(exprString(call.Args[2]), ".Name") {
						hasDel = true
					}
				}
				if ifs, ok := m.(*ast.IfStmt); ok && ifs.Init != nil {
					if as, ok := ifs.Init.(*ast.AssignStmt); ok && len(as.Rhs) == 1 {
						if ix, ok := as.Rhs[0].(*ast.IndexExpr); ok && strings.HasSuffix(exprString(ix.Index), ".BundleID") && len(ifs.Body.List) == 1 {
							if br, ok := ifs.Body.List[0].(*ast.BranchStmt); ok && br.Tok == token.CONTINUE {
								hasSkip = true
							}
						}
					}
				}
				return true
			})
			if hasDel && hasSkip {
				okPass = true
			}
			return true
		})
		c.check(okPass, "label-cleanup.dangling-only", f.ID, p.Pos(f.Decl.Pos()), "exactly the labels whose bundle is absent from the refreshed listing are deleted", "the label pass no longer deletes exactly the labels whose bundle is gone")
		checkErrDiscipline(c, "label-cleanup.errors", f, func(id string) bool {
			return strings.HasPrefix(id, "pkg/core.") && !strings.HasPrefix(id, "pkg/core.With") && id != "pkg/core.defaultSettings"
		}, nil)
	}
	// (d) DeleteBundle's open-ended loop
	{
		g := p.Func("pkg/core.DeleteBundle")
		ginfo := g.Info()
		var loop *ast.ForStmt
		ast.Inspect(g.Decl.Body, func(nd ast.Node) bool {
			if fs, ok := nd.(*ast.ForStmt); ok && fs.Cond == nil {
				loop = fs
			}
			return true
		})
		if loop == nil {
			// bounded form: every loop has a condition
			c.ok("delete-loop.bounded", g.ID, p.Pos(g.Decl.Pos()), "every loop of DeleteBundle has a loop condition")
		} else {
			gb := p.BodyOf(g)
			// inside the loop: Delete dominated by Has, and a break on !exists / error
			hasBreakOnMissing := false
			ast.Inspect(loop.Body, func(nd ast.Node) bool {
				if ifs, ok := nd.(*ast.IfStmt); ok && blockDiverts(ifs.Body.List) {
					for _, d := range nnfDisjuncts(g, ifs.Cond) {
						if strings.HasPrefix(d, "!") && strings.Contains(d, ".Has(") && strings.HasSuffix(d, "#0") {
							hasBreakOnMissing = true
						}
					}
				}
				return true
			})
			isHas := func(bd *Body, call *ast.CallExpr) bool {
				return calleeID(ginfo, call) == "pkg/storage.Store.Has" && containsNode(loop, call)
			}
			isDel := func(bd *Body, call *ast.CallExpr) bool {
				return calleeID(ginfo, call) == "pkg/storage.Store.Delete" && containsNode(loop, call)
			}
			bad, nB := gb.dominatedBy(isHas, isDel)
			c.check(hasBreakOnMissing && nB > 0 && len(bad) == 0, "delete-loop.bounded", g.ID, p.Pos(loop.Pos()), "the open-ended index-file loop stops at the first missing file", "the open-ended index-file loop of DeleteBundle no longer stops when the next index file does not exist: on stores whose Delete succeeds for a missing key (localfs, S3) it never terminates")
		}
		// the descriptor is deleted last
		gb := p.BodyOf(g)
		isDescDel := func(bd *Body, call *ast.CallExpr) bool {
			return calleeID(ginfo, call) == "pkg/storage.Store.Delete" && resolveKeyKind(g, call.Args[1], 0) == "bundle-descriptor"
		}
		isListDel := func(bd *Body, call *ast.CallExpr) bool {
			return calleeID(ginfo, call) == "pkg/storage.Store.Delete" && resolveKeyKind(g, call.Args[1], 0) == "bundle-filelist"
		}
		badA, nA, nBB := gb.neverAfter(isDescDel, isListDel)
		c.check(nA == 1 && nBB >= 1 && len(badA) == 0, "delete-loop.descriptor-last", g.ID, p.Pos(g.Decl.Pos()), "file lists are deleted before the descriptor", "DeleteBundle can delete file lists after (or without) the descriptor")
	}
	// squash decides what to delete from listings: a listing that silently loses an item or an error deletes too much
	checkListApplySiblings(c, "listing.apply-errors")
	checkSilentSkipOnlyNotExists(c, c.P.BodyOf(c.P.Func("pkg/core.getLabelAsync")), "listing.label-skip-only-not-exists", false)
	checkSilentSkipOnlyNotExists(c, c.P.BodyOf(c.P.Func("pkg/core.getBundleAsync")), "listing.bundle-skip-only-not-exists")
	checkNoRelabelAsMissing(c, "listing.no-relabel")
	checkGenericErrorDiscipline(c, "pkg/core")
	checkBatchDistributesAllKeys(c, "listing.batch-distributes-all")
}

func dedupSorted(xs []string) []string {
	var out []string
	for i, x := range xs {
		if i == 0 || xs[i-1] != x {
			out = append(out, x)
		}
	}
	return out
}
